"""C17 - the hand-managed integer storage is memory-safe and keeps its invariants."""
import os
import core
from core import hx, gen_mag

ID = "C17"
READY = True
ORACLE = "c17"
HARNESS_BIN = "c17"
NCASES = {"quick": 20000, "thorough": 200000}
CASE_TIMEOUT = {"quick": 30, "thorough": 120}
CONFIGS = ["default", "release"]
SHRINK = True

LEVEL_TEXT = ("Machine-checked Coq theorems about an abstract machine that transcribes integer/src/buffer.rs and repr.rs (every assert!, "
              "debug_assert! and unsafe-block precondition is an explicit guard, the allocator is a ghost heap): Repr::from_buffer - the exit of "
              "every arithmetic operation - establishes the representation invariant from any owned buffer; clone, clone_from between values "
              "of any sizes (also statics), ones, construction, drop, move, swap, neg, abs preserve the invariant of the whole pool, fail no "
              "guard, free every block exactly once and leak nothing - lifted by induction to all finite histories of these steps. The real "
              "code is tied to the machine by a correspondence run under a guard/counting allocator: layout of every value after every step, "
              "allocation ledger, values, in two build profiles.")
LEVEL_NOTE = ("PARTIAL: the theorems are about the abstract machine, not about the Rust unsafe blocks themselves (pointer arithmetic, transmute "
              "layout equality, realloc are outside every theorem; the guard allocator with red zones, poisoning and a quarantine searches "
              "for their failures). The buffer handling of add, sub, mul, shl, shr, set_bit, clear_bit (all call forms) is transcribed in the "
              "machine and its exact capacities are compared on every run, but the history theorem does not cover these steps (only their "
              "exit from_buffer and push_resizing/ensure_capacity are proved). div, gcd, pow, sqrt, and/or/xor, conversions and the scratch "
              "bump allocator of memory.rs are only compared (invariant + ledger + value after every step). Word contents enter at value level.")
TECHNIQUE = "Coq proof over an abstract storage machine (invariant by induction over histories) + extracted-machine correspondence run under a guard allocator"
RULE = ("a case is a history of 1-40 steps over a pool of 4 values; steps = constructors (from_words with padding, bytes, primitives, ones, "
        "statics) x arithmetic/bit/shift operations in every call form (vv vr rv rr and the assigning forms, also with both operands the same "
        "slot) x clone/clone_from/drop/move/swap/neg; sizes drawn from word counts {0,1,2,3,4,5,7,8,9,16,17,24,25,31,32,33,48,64,100} and from "
        "positions that move a value across the inline/heap boundary (2<->3 words) and across the reallocation thresholds "
        "(len = capacity, capacity = max_compact_capacity(len) +-1). A case is non-trivial when at least one value lived on the heap; "
        "distinct = distinct history texts.")
EXPLANATION = ("Theorems (coq/props/C17.v) are about the storage machine of coq/theories/Int/StorageModel.v. Tie: after every step of every "
               "history the harness reports the layout of all values and the allocator ledger; the oracle checks them against the extracted "
               "layout specification and runs the extracted machine beside the implementation (exact capacities = fidelity statistic).")
TRUSTED_BASE = [
    "Coq 8.16.1 kernel",
    "the transcription of buffer.rs / repr.rs / the buffer handling of add_ops, mul_ops, shift_ops, bits.rs into coq/theories/Int/StorageModel.v (by hand; compared on every run: exact capacities)",
    "extraction: ExtrOcamlBasic + ExtrOcamlZBigInt + coq/extract/FastZ.v; OCaml 4.13.1 + zarith; oracle/common.ml, oracle/driver_c17.ml (the value semantics of the steps are zarith arithmetic in the driver)",
    "Rust harness harness/src/bin/c17.rs incl. its guard/counting #[global_allocator] (red zones, poisoning, quarantine, realloc always moves); verif_hooks::repr_layout_ibig",
    "the unsafe blocks of buffer.rs/repr.rs/memory.rs do what their guards assume (NOT proved; searched by the guard allocator only - a Miri support run is not implemented)",
]
ASSUMPTIONS = [
    "values stay far below Buffer::MAX_CAPACITY words (2^58): the AllocateTooMuch / capacity-overflow outcomes are not exercised",
    "the global allocator returns valid blocks (out-of-memory is not exercised)",
]

LENS = [0, 1, 1, 2, 2, 3, 3, 3, 4, 5, 7, 8, 9, 16, 17, 24, 25, 31, 32, 33, 48, 64, 100]
W = 64


def nwords(x):
    return (abs(x).bit_length() + 63) // 64


def default_cap(n):
    return n + n // 8 + 2


def next_pow2(x):
    return 1 if x <= 1 else 1 << (x - 1).bit_length()


STATICS = [0, -0x1234, 0xffffffffffffffff0000000000000001, 1 << 128,
           -0xdeadbeef0123456789abcdeffedcba987654321000000000ffffffff, (1 << 515) - 1, -((1 << 768) + 1)]


def wrap(bits, signed, m):
    m &= (1 << bits) - 1
    if signed and m >= 1 << (bits - 1):
        m -= 1 << bits
    return m


def small_prim(ty, x):
    m = abs(x) & ((1 << 64) - 1)
    if ty == "u64":
        return m
    if ty == "u8":
        return m & 255
    v = wrap(64, True, m)
    return wrap(64, True, -v) if x < 0 else v


def prim_value(ty, x):
    bits = {"8": 8, "16": 16, "32": 32, "64": 64, "size": 64, "128": 128}[ty[1:]]
    signed = ty[0] == "i"
    v = wrap(bits, signed, abs(x) & ((1 << 128) - 1))
    return wrap(bits, True, -v) if (signed and x < 0) else v


def tdiv(x, y):
    q = abs(x) // abs(y)
    return q if (x < 0) == (y < 0) else -q


def taken(form, a, b):
    if form in ("vv", "av"):
        return [a] if a == b else [a, b]
    if form in ("vr", "ar"):
        return [a]
    if form == "rv":
        return [b]
    return []


def sim(v, t):
    """exact effect of a step on the values (mirror of spec_step in oracle/driver_c17.ml)"""
    s = lambda i: int(t[i], 16)
    z = lambda i: int(t[i], 16)
    op = t[0]
    if op in ("fw", "fle", "fbe", "dw"):
        v[s(1)] = z(2)
    elif op == "ones":
        v[s(1)] = (1 << s(2)) - 1
    elif op == "prim":
        v[s(1)] = prim_value(t[2], z(3))
    elif op in ("st", "scf"):
        v[s(1)] = STATICS[min(s(2), 6)]
    elif op == "sadd":
        v[s(1)] = v[s(2)] + STATICS[min(s(3), 6)]
    elif op == "smul":
        if v[s(2)] >= 0:
            v[s(1)] = v[s(2)] * abs(STATICS[min(s(3), 6)])
    elif op in ("cl", "cf"):
        v[s(1)] = v[s(2)]
    elif op == "ucf":
        if v[s(1)] >= 0 and v[s(2)] >= 0:
            v[s(1)] = v[s(2)]
    elif op == "dr":
        v[s(1)] = 0
    elif op == "mv":
        x = v[s(2)]
        v[s(2)] = 0
        v[s(1)] = x
    elif op == "sw":
        v[s(1)], v[s(2)] = v[s(2)], v[s(1)]
    elif op == "neg":
        v[s(1)] = -v[s(1)]
    elif op == "negr":
        v[s(1)] = -v[s(2)]
    elif op == "abs":
        v[s(1)] = abs(v[s(1)])
    elif op[0] in "ui" and op[1:] in ("add", "sub", "mul", "div", "rem", "and", "or", "xor", "gcd"):
        form, d, a, b = t[1], s(2), s(3), s(4)
        x, y = v[a], v[b]
        if op[0] == "u" and (x < 0 or y < 0):
            return
        for i in taken(form, a, b):
            v[i] = 0
        k = op[1:]
        if k in ("div", "rem") and y == 0:
            return
        if op == "usub" and x < y:
            return
        if k == "gcd" and x == 0 and y == 0:
            return
        import math
        r = {"add": lambda: x + y, "sub": lambda: x - y, "mul": lambda: x * y, "div": lambda: tdiv(x, y),
             "rem": lambda: x - y * tdiv(x, y), "and": lambda: x & y, "or": lambda: x | y, "xor": lambda: x ^ y,
             "gcd": lambda: math.gcd(x, y)}[k]()
        v[d] = r
    elif op == "udivrem":
        d, e, a, b = s(1), s(2), s(3), s(4)
        if d == e or v[a] < 0 or v[b] <= 0:
            return
        q, r = divmod(v[a], v[b])
        v[d] = q
        v[e] = r
    elif op in ("shl", "shr", "ishl", "ishr"):
        form, d, a, n = t[1], s(2), s(3), s(4)
        x = v[a]
        if op[0] == "s" and x < 0:
            return
        if (op[0] == "s" and form != "r") or (op[0] == "i" and form == "v"):
            v[a] = 0
        v[d] = x << n if op.endswith("shl") else x >> n
    elif op in ("setbit", "clrbit", "chb", "npow2"):
        d, n = s(1), s(2)
        x = v[d]
        if x < 0:
            return
        v[d] = {"setbit": x | (1 << n), "clrbit": x & ~(1 << n), "chb": x & ((1 << n) - 1), "npow2": next_pow2(x)}[op]
    elif op == "split":
        d, e, a, n = s(1), s(2), s(3), s(4)
        if d == e or v[a] < 0:
            return
        x = v[a]
        v[a] = 0
        v[d] = x & ((1 << n) - 1)
        v[e] = x >> n
    elif op == "pow":
        v[s(1)] = v[s(2)] ** s(3)
    elif op == "sqr":
        if v[s(2)] >= 0:
            v[s(1)] = v[s(2)] ** 2
    elif op == "sqrt":
        if v[s(2)] >= 0:
            import math
            v[s(1)] = math.isqrt(v[s(2)])
    elif op in ("addp", "subp", "mulp"):
        p = small_prim(t[2], z(3))
        d = s(1)
        v[d] = v[d] + p if op == "addp" else (v[d] - p if op == "subp" else v[d] * p)


FORMS = ["vv", "vr", "rv", "rr", "av", "ar"]
MAXW = 420  # words: keep values bounded so that a history stays fast


def gen_value(rng, signed=True):
    n = rng.choice(LENS)
    m = gen_mag(rng, n)
    if rng.chance(1, 6) and n >= 1:
        # values at a carry boundary: all ones / 2^k / 2^k - 1 patterns over whole words
        m = rng.choice([(1 << (64 * n)) - 1, 1 << (64 * n - 1), 1 << (64 * (n - 1)), (1 << (64 * n)) - rng.range(1, 3)])
    return -m if (signed and rng.chance(1, 3)) else m


def gen_step(rng, v):
    """one step, chosen with knowledge of the current values"""
    d, a, b = rng.below(4), rng.below(4), rng.below(4)
    k = rng.below(100)
    big = [i for i in range(4) if nwords(v[i]) >= 3]
    if k < 12:
        x = gen_value(rng)
        r = rng.below(6)
        if r == 0:
            return "fw %x %s %x" % (d, hx(x), rng.choice([0, 0, 1, 2, 3, 9]))
        if r == 1:
            return "%s %x %s %x" % (rng.choice(["fle", "fbe"]), d, hx(x), rng.choice([0, 0, 1, 7, 8, 9, 17]))
        if r == 2:
            return "ones %x %x" % (d, rng.choice([0, 1, 63, 64, 65, 127, 128, 129, 191, 192, 193, 64 * rng.range(3, 40) + rng.choice([-1, 0, 1]), rng.below(3000)]))
        if r == 3:
            x = gen_mag(rng, rng.choice([0, 1, 2, 2])) * rng.choice([1, -1])
            return "dw %x %s %x" % (d, hx(x), rng.below(2))
        if r == 4:
            ty = rng.choice(["u8", "u16", "u32", "u64", "u128", "usize", "i8", "i16", "i32", "i64", "i128", "isize"])
            bits = {"8": 8, "16": 16, "32": 32, "64": 64, "size": 64, "128": 128}[ty[1:]]
            if ty[0] == "u":
                x = rng.choice([0, 1, (1 << bits) - 1, rng.bits(bits)])
            else:
                x = rng.choice([0, 1, -1, (1 << (bits - 1)) - 1, -(1 << (bits - 1)), rng.bits(bits - 1), -rng.bits(bits - 1)])
            return "prim %x %s %s" % (d, ty, hx(x))
        return "fw %x %s 0" % (d, hx(x))
    if k < 18:
        return "%s %x %x" % (rng.choice(["st", "scf", "scf"]), d, rng.below(7))
    if k < 21:
        return "%s %x %x %x" % (rng.choice(["sadd", "smul"]), d, a, rng.below(7))
    if k < 33:
        # clone_from between values of any sizes (larger / smaller / equal), self patterns
        op = rng.choice(["cf", "cf", "cf", "ucf", "cl"])
        if rng.chance(1, 5):
            a = d
        return "%s %x %x" % (op, d, a)
    if k < 38:
        return rng.choice(["dr %x" % d, "mv %x %x" % (d, a), "sw %x %x" % (d, a), "neg %x" % d, "negr %x %x" % (d, a), "abs %x" % d])
    if k < 60:
        if rng.chance(1, 4):
            b = a
        total = nwords(v[a]) + nwords(v[b])
        ops = ["uadd", "usub", "iadd", "isub", "uadd", "usub", "iadd", "isub", "uand", "uor", "uxor", "iand", "ior", "ixor"]
        if total <= MAXW:
            ops += ["umul", "imul", "umul", "imul", "udiv", "urem", "idiv", "irem", "ugcd"]
        return "%s %s %x %x %x" % (rng.choice(ops), rng.choice(FORMS), d, a, b)
    if k < 62:
        e = (d + 1 + rng.below(3)) % 4
        return "udivrem %x %x %x %x" % (d, e, a, b)
    if k < 76:
        # shifts that move the length across the thresholds
        x = abs(v[a])
        n = nwords(x)
        form = rng.choice(["v", "r", "a"])
        if rng.chance(1, 2) and n + 1 < MAXW:
            cap = default_cap(n)
            c = [0, 1, 63, 64, 65, 128, 64 * (cap - n - 1), 64 * (cap - n), 64 * (cap - n) + 1, 64 * (cap - n + 1), 64 * rng.range(0, 12) + rng.choice([0, 1, 63])]
            return "%s %s %x %x %x" % (rng.choice(["shl", "shl", "ishl"]), form, d, a, max(0, rng.choice(c)))
        cap = default_cap(n)
        keep = max(0, (cap - 4) * 4 // 5)  # length at which capacity = max_compact_capacity(length)
        c = [0, 1, 63, 64, 65, x.bit_length(), max(0, x.bit_length() - 1), 64 * max(0, n - 2), 64 * max(0, n - 2) + 1, 64 * max(0, n - 3), 64 * max(0, n - 3) + 63,
             64 * max(0, n - keep), 64 * max(0, n - keep - 1), 64 * max(0, n - keep + 1), rng.below(64 * n + 70)]
        return "%s %s %x %x %x" % (rng.choice(["shr", "shr", "ishr"]), form, d, a, max(0, rng.choice(c)))
    if k < 86:
        x = abs(v[d])
        n = nwords(x)
        cap = default_cap(n)
        c = [0, 63, 64, 127, 128, 129, 191, 192, 64 * n - 1, 64 * n, 64 * n + 1, 64 * (n + 1), 64 * cap - 1, 64 * cap, 64 * cap + 64, 64 * rng.range(0, 40) + rng.below(64),
             max(0, x.bit_length() - 1)]
        return "%s %x %x" % (rng.choice(["setbit", "setbit", "clrbit", "clrbit", "chb", "npow2"]), d, max(0, rng.choice(c)))
    if k < 88:
        e = (d + 1 + rng.below(3)) % 4
        x = abs(v[a])
        return "split %x %x %x %x" % (d, e, a, rng.choice([0, 1, 64, 128, 129, 192, max(0, x.bit_length() - 1), x.bit_length(), rng.below(64 * nwords(x) + 70)]))
    if k < 91:
        x = v[a]
        if x == 0 or abs(x) == 1:
            e = rng.below(200)
        else:
            e = rng.range(0, max(1, min(40, (MAXW * 64) // max(1, abs(x).bit_length()))))
        return rng.choice(["pow %x %x %x" % (d, a, e), "sqr %x %x" % (d, a) if nwords(x) * 2 <= MAXW else "sqrt %x %x" % (d, a), "sqrt %x %x" % (d, a)])
    if k < 95:
        ty = rng.choice(["u64", "u8", "i64"])
        x = rng.choice([0, 1, 2, 255, (1 << 64) - 1, 1 << 63, rng.bits(64), -1, -rng.bits(63)])
        op = rng.choice(["addp", "subp", "mulp"])
        if op == "mulp" and nwords(v[d]) + 1 > MAXW:
            op = "addp"
        return "%s %x %s %s" % (op, d, ty, hx(x))
    if k < 99:
        kind = rng.choice(["le", "be", "ule", "ube", "words", "parts", "str10", "str16", "str7", "chunks", "u128", "i128", "ubig"])
        if kind == "chunks":
            return "rt %x chunks %x" % (d, rng.choice([1, 7, 63, 64, 65, 128, 200]) if nwords(v[d]) < 40 else 64)
        return "rt %x %s" % (d, kind)
    return "rd %x" % d


def gen_history(rng, tier):
    v = [0, 0, 0, 0]
    n = rng.choice([1, 2, 3, 5, 8, 12, 20, 30, 40])
    steps = []
    while len(steps) < n:
        st = gen_step(rng, v)
        t = st.split()
        w = list(v)
        sim(w, t)
        if max(nwords(x) for x in w) > 2 * MAXW:
            continue
        v = w
        steps.append(st)
    return "hist " + " ; ".join(steps)


def gen_cases(rng, tier, n):
    return [gen_history(rng, tier) for _ in range(n)]


def canon_answer(a):
    # the layout, the ledger and the values do not depend on the build profile
    return a
