"""C17 - the hand-managed integer storage is memory-safe and keeps its invariants."""
import os
import core
from core import hx, gen_mag

# coq/gen/StorageGen.v (capacity formulas and tests of buffer.rs / repr.rs, the capacities requested by the arithmetic
# routines, thresholds / requirement formulas / allocation sequences of the multiplication scratch memory) is regenerated
# from the Rust sources when this plug-in is imported, i.e. before the proof phase of every run.  Unparseable source is
# not an alarm: the previous copy stays (marked STALE), the status goes into the evidence (extra_phase).
import sys
sys.path.insert(0, os.path.join(core.ROOT, "tools"))
try:
    import translate_c17_r3
    STORAGE_GEN_STATUS = translate_c17_r3.generate(core.REPO, os.path.join(core.COQ, "gen"))
except Exception as _ex:  # the generator itself broke: same fallback as an unparseable source
    STORAGE_GEN_STATUS = "unparsed generator-failed: %s" % str(_ex)[:200]
# round 4: coq/gen/StorageGen4.v (sqrt_rem_large, the modular rings, the parsers, to_chunks / from_chunks)
try:
    import translate_c17_r4
    STORAGE_GEN4_STATUS = translate_c17_r4.generate(core.REPO, os.path.join(core.COQ, "gen"))
except Exception as _ex:
    STORAGE_GEN4_STATUS = "unparsed generator-failed: %s" % str(_ex)[:200]
# round 5: coq/gen/StorageGen5.v (the parser beyond 256 groups, the size tests / array lengths of the printers)
try:
    import translate_c17_r5
    STORAGE_GEN5_STATUS = translate_c17_r5.generate(core.REPO, os.path.join(core.COQ, "gen"))
except Exception as _ex:
    STORAGE_GEN5_STATUS = "unparsed generator-failed: %s" % str(_ex)[:200]


MIRI_BUDGET_S = 1500   # wall-clock budget of the Miri support run (thorough tier only)
MIRI_GENERATED = 120   # generated threshold histories run under Miri beside the corpus


def _mask_ledger(ans):
    """an answer of the harness with the allocator ledger fields removed (the Miri build runs without the counting allocator)"""
    t = ans.split()
    out = []
    i = 0
    while i < len(t):
        if t[i] == "S" and i + 13 < len(t) + 1:
            out += t[i:i + 11] + ["-", "-"] + t[i + 13:i + 14]
            i += 14
        elif t[i] == "E":
            out += t[i:i + 5] + ["-", "-"] + t[i + 7:i + 8]
            i += 8
        else:
            out.append(t[i])
            i += 1
    return " ".join(out)


def miri_support(seed, exes):
    """SUPPORT ONLY (never the deciding technique): the corpus and a set of short threshold histories under
    `cargo +nightly miri run` (Stacked Borrows, the real allocator boundaries, no guard allocator).  Miri reporting
    undefined behaviour, or answering differently from the native build, is a failure with the history as replay."""
    import subprocess
    import time
    t0 = time.time()
    rng = core.Rng(seed ^ 0xC17)
    def _grows_beyond_memory(l):
        # histories with a growth the allocator must refuse need the harness' own allocator (Miri reports resource exhaustion)
        for st in l[5:].split(" ; "):
            tk = st.split()
            if tk and tk[0] in ("setbit", "shl", "ishl") and int(tk[-1], 16) >= HUGE_BITS:
                return True
        return False
    lines = [l.strip() for l in open(os.path.join(core.ROOT, "corpus", "C17.txt")) if l.strip() and l.startswith("hist") and not _grows_beyond_memory(l.strip())]
    for i in range(MIRI_GENERATED):
        lines.append("hist " + " ; ".join(gen_boundary(rng, i % 35)))
    lines += ["scr 19 19", "scr 32 19", "scr 1a 3"]
    numbered = list(enumerate(lines))
    d = core.harness_dir("default")
    tdir = os.path.join(core.CACHE, "target", "miri-" + core.sha(core.REPO, "miri"))
    env = dict(os.environ, RUSTFLAGS="--cfg dashu_verif -Awarnings", CARGO_NET_OFFLINE="true", CARGO_TARGET_DIR=tdir,
               DASHU_REPO=core.REPO, MIRIFLAGS="-Zmiri-disable-isolation")
    inp = "".join("%d %s\n" % (i, l) for i, l in numbered)
    status, out, err = "ok", "", ""
    try:
        with core.Lock("cargo-miri-c17"):
            p = subprocess.run(["cargo", "+nightly", "miri", "run", "--offline", "--bin", HARNESS_BIN], cwd=d, env=env, input=inp,
                               capture_output=True, text=True, timeout=MIRI_BUDGET_S)
        out, err, rc = p.stdout, p.stderr, p.returncode
    except subprocess.TimeoutExpired as ex:
        out = ex.stdout.decode(errors="replace") if isinstance(ex.stdout, bytes) else (ex.stdout or "")
        err, rc, status = "", 0, "budget-exhausted"
    except Exception as ex:  # Miri not installed / not runnable: support only, not an alarm
        return {"evaluations": 0, "hist": {"miri:unavailable": 1}, "nontrivial": [], "failures": [],
                "samples": [{"miri": "not run: %s" % str(ex)[:200]}]}
    answered = {}
    for ln in out.splitlines():
        k, _, a = ln.partition(" ")
        if k.isdigit():
            answered[int(k)] = a
    failures = []
    ub = "Undefined Behavior" in err or (rc != 0 and "error:" in err)
    if rc != 0 and not ub and not answered:
        # the build under Miri failed (e.g. no Miri sysroot available offline): support only
        return {"evaluations": 0, "hist": {"miri:unavailable": 1}, "nontrivial": [], "failures": [],
                "samples": [{"miri": "not run (rc=%d): %s" % (rc, err[-300:])}]}
    if ub:
        nxt = len(answered)
        i = err.find("error:")
        failures.append({"kind": "miri", "case": lines[nxt] if nxt < len(lines) else "?", "index": nxt,
                         "miri": err[i:i + 1500], "note": "Miri stopped at this history (support run; reproduce with cargo +nightly miri run in the harness crate)"})
        status = "undefined-behaviour"
    native = core.run_lines(exes.get("default") or list(exes.values())[0], [(i, l) for i, l in numbered if i in answered], 120) if answered else {}
    differ = 0
    for i, a in answered.items():
        if lines[i].startswith("scr"):
            same = native.get(i) == a
        else:
            same = _mask_ledger(native.get(i, "")) == _mask_ledger(a)
        if not same:
            differ += 1
            if differ <= 2:
                failures.append({"kind": "miri-differs", "case": lines[i], "native": native.get(i, "")[:600], "miri": a[:600]})
    return {
        "evaluations": len(answered),
        "hist": {"miri:histories": len(answered), "miri:" + status: 1, "miri:differ": differ},
        "nontrivial": [],
        "samples": [{"miri": "%d of %d histories under cargo +nightly miri run in %.0fs: %s, %d answers differ from the native build (SUPPORT ONLY)"
                             % (len(answered), len(lines), time.time() - t0, status, differ)}],
        "failures": failures,
    }


def extra_phase(tier, seed, exes, oracle):
    word = STORAGE_GEN_STATUS.split(" ", 1)[0]
    word4 = STORAGE_GEN4_STATUS.split(" ", 1)[0]
    word5 = STORAGE_GEN5_STATUS.split(" ", 1)[0]
    res = {
        "evaluations": 0,
        "hist": {"translator_c17:StorageGen:" + word: 1, "translator_c17:StorageGen4:" + word4: 1, "translator_c17:StorageGen5:" + word5: 1},
        "nontrivial": [],
        "samples": [{"fragment": "coq/gen/StorageGen.v (tools/translate_c17_r3.py from integer/src/buffer.rs, repr.rs, add_ops.rs, mul_ops.rs, "
                                 "pow.rs, shift_ops.rs, mul/mod.rs, mul/karatsuba.rs, mul/toom_3.rs, sqr/mod.rs)",
                     "status": STORAGE_GEN_STATUS,
                     "tied_by": "C17_tie_buffer, C17_tie_requests, C17_tie_scratch_plans, C17_gen_capacity_compact, C17_scratch_*_requirement, "
                                "the extended machine (StorageOps2.v) and the extraction use the generated definitions directly" if word == "ok"
                                else "correspondence run only (source not parsed; previous copy marked STALE)"},
                    {"fragment": "coq/gen/StorageGen4.v (tools/translate_c17_r4.py from integer/src/root_ops.rs, root.rs, modular/repr.rs, modular/convert.rs, "
                                 "modular/mul.rs, div_const.rs, parse/power_two.rs, parse/non_power_two.rs, convert.rs)",
                     "status": STORAGE_GEN4_STATUS,
                     "tied_by": "the machine of StorageOps3.v and the scratch requirements of ScratchOps3.v are stated over the generated definitions "
                                "(C17_sqrt_*, C17_ring_*, C17_parse_*, C17_chunks_*, C17_scratch_sqrt / _ring_mul)" if word4 == "ok"
                                else "correspondence run only (source not parsed; previous copy marked STALE)"},
                    {"fragment": "coq/gen/StorageGen5.v (tools/translate_c17_r5.py from integer/src/parse/non_power_two.rs, fmt/non_power_two.rs, "
                                 "fmt/power_two.rs, radix.rs)",
                     "status": STORAGE_GEN5_STATUS,
                     "tied_by": "the machine of StorageOps5.v (parse of texts of any length) and the printer models of FmtBounds5.v are stated over the "
                                "generated definitions (C17_parse_*, C17_fmt_*, C17_step5_storage_ops, C17_histories5_*)" if word5 == "ok"
                                else "correspondence run only (source not parsed; previous copy marked STALE)"}],
        "failures": [],
    }
    if tier == "thorough" and exes and os.environ.get("VERIF_NO_MIRI") != "1":
        m = miri_support(seed, exes)
        res["evaluations"] += m["evaluations"]
        res["hist"].update(m["hist"])
        res["samples"] += m["samples"]
        res["failures"] += m["failures"]
    return res


ID = "C17"
READY = True
ORACLE = "c17"
HARNESS_BIN = "c17"
NCASES = {"quick": 20000, "thorough": 200000}
CASE_TIMEOUT = {"quick": 30, "thorough": 120}
CONFIGS = ["default", "release"]
SHRINK = True

LEVEL_TEXT = ("Machine-checked Coq theorems (105 pinned statements) about an abstract machine that transcribes integer/src/buffer.rs and repr.rs "
              "(every assert!, debug_assert! and unsafe-block precondition is an explicit guard, the allocator is a ghost heap): Repr::from_buffer "
              "establishes the representation invariant from any owned buffer; construction, clone, clone_from between values of any sizes (also "
              "statics), ones, drop, move, swap, neg, abs, the thirteen binary operators (+ - * & | ^ / % and the signed ones) in every call form, "
              "shl, shr, set_bit, clear_bit, the Buffer -> Box<[Word]> hand-over of ConstDivisor and - new in round 3 - pow (incl. the loops of "
              "pow_word_base / pow_dword_base, which provably never leave their block: every push_resizing fits, every res.push_zeros(res.len()) "
              "has room in Buffer::allocate(exp + 1) / (2 * exp)), sqr, gcd in every call form, div_rem, next_power_of_two, clear_high_bits, "
              "split_bits preserve the invariant of the whole pool, fail no guard, free every block exactly once and leak nothing - lifted by "
              "induction to all finite histories. The scratch bump allocator of memory.rs is an offset machine: for EVERY operand length the block "
              "of memory_requirement_up_to words serves every nested allocate_slice of the schoolbook / Karatsuba / Toom-3 recursion, of chunked "
              "unbalanced products, of squaring and of the squarings inside pow (2n + 2 ceil_log2 n resp. 4n + 13 ceil_log2 n are proved, the "
              "latter through 2^20 <= 3^13 per Toom-3 level). Capacity formulas, reallocation tests, requested capacities, thresholds, requirement "
              "formulas and the allocation sequences of Karatsuba / Toom-3 are REGENERATED from the Rust sources on every run "
              "(coq/gen/StorageGen.v) and the theorems are stated over the generated definitions. The real code is tied to the machine by a "
              "correspondence run under a guard/counting allocator (layout of every value after every step, allocation ledger, values, exact "
              "capacities; two build profiles) and, for the scratch memory, by bisecting the smallest scratch block with which the real kernel "
              "still runs (it equals the demand of the modelled allocation plans). Round 4 extends the machine and the history theorem to: sqrt / "
              "sqrt_rem (sqrt_rem_large's indices and truncations are in bounds because the shifted copy of a normalized operand has EXACTLY "
              "2 * ((len + 1) / 2) words - proved at value level for every word size >= 2), the modular rings (ConstDivisor::new / value, "
              "Reduced from_ubig / one / clone / clone_from between rings of any lengths / residue / pow / drop: a Reduced value owns a "
              "Box<[Word]> of exactly modulus.len() words; Rem and Div by a ConstDivisor), IBig & | ^ ! with negative operands (the sign tables "
              "over sub_one / add_one / and_not), IBig << and >> of negative values, the parsers (the buffer of estimated size of the "
              "power-of-two parser is never too small, Buffer::allocate(groups) of parse_chunk holds every carry; an invalid digit drops the "
              "buffer), to_chunks / from_chunks, and to the documented panics raised after operands were taken (ConstDivisor::new(0), sqrt of a "
              "negative number, division by zero): the ledger is balanced at each. pow_large_base is proved WITH the debug_assert!(len >= 2) of "
              "its inner multiplications. Scratch memory: root::memory_requirement_sqrt_rem covers the whole Karatsuba-sqrt recursion and "
              "modular::mul_memory_requirement covers mul_normalized / sqr_normalized for every length (over the peak models of C02, whose "
              "sufficiency theorems for division and multiplication are cited); requirement monotonicity is proved. The new fragments are "
              "regenerated into coq/gen/StorageGen4.v. Round 5: the parser of texts of ANY length in a radix that is not a power of two is a "
              "step of the machine (StorageOps5.v: parse_word with its checked word arithmetic, rchunks / parse_chunk at byte level, parse_large's "
              "vector of radix powers - range_per_word^256 and its repeated squares -, parse_large_divide_conquer): `bytes.len() - 1` and the shift "
              "amounts are in range, the loop ends within w iterations, `chunk_bytes << powers` never wraps, every debug_assert and split_at holds "
              "at every node of the recursion, every partial result and every power is freed exactly once also on the `?` exits; step and "
              "history theorems are restated for the extended machine. The printers of such radixes are modelled at value level "
              "(FmtBounds5.v) and proved for every word base and radix: the dispatch test len * (digits_per_word + 1) <= 16 * digits_per_word "
              "implies the bound under which PreparedMedium keeps low_groups[..] / the 16-word chunk buffer in bounds and never reads "
              "buffer[-1]; PreparedLarge::new's ladder of squares (length test sound, `2 * len - 1` no underflow, fuel) leaves every big chunk "
              "below its power and the top chunk below range_per_word^16; write_big_chunk / write_chunk (assert_eq!(buffer_len, 0)); "
              "PreparedWord's digit array of MAX_WORD_DIGITS_NON_POW_2 bytes is never underrun. Tests, lengths and exponents of both are "
              "regenerated into coq/gen/StorageGen5.v.")
LEVEL_NOTE = ("PARTIAL: the theorems are about the abstract machine, not about the Rust unsafe blocks themselves (pointer arithmetic, transmute "
              "layout equality, realloc are outside every theorem; the guard allocator with red zones, poisoning and a quarantine searches for "
              "their failures, and the thorough tier runs the corpus and threshold histories under cargo +nightly miri as SUPPORT). Word contents "
              "enter at value level: the sqrt steps therefore carry the premise that the operand consists of word digits (the history theorem is "
              "stated for histories whose sqrt operands meet it along the run; all other steps need no premise), and the Lehmer kernel "
              "gcd::gcd_in_place still enters as a parameter constrained by its length contract. Still only compared (invariant + ledger + value "
              "after every step): nth_root for n >= 3 (Newton iteration over pow / div / add), the inverse and the Reducer-trait entry points of the "
              "rings (inv, rmul, rinv, rpow, rneg; the extended Lehmer gcd), signed-byte conversions, the scratch memory of gcd, and of the "
              "printers: PreparedDword (three-part split), the digit loops of the power-of-two printers (only the width and the first bit count of PreparedLarge are proved) and DoubleEnd, the DigitWriter buffer; the "
              "printer theorems of round 5 are value-level models tied to the source by the regenerated tests / array lengths and by the "
              "to_string -> from_str_radix round trips of the histories only (the harness does not observe the printers' internals). The "
              "parser theorems assume the text is shorter than 2^(w-1) bytes (isize::MAX) and usize = one word.")
TECHNIQUE = ("Coq proof over an abstract storage machine and an offset / peak machine of the scratch allocator (invariants by induction over histories / "
             "recursion depth / the slice of radix powers; value-level length and digit-count lemmas where indices depend on contents), fragments regenerated from the source, + "
             "extracted-machine correspondence run under a guard allocator")
RULE = ("a case is a history of 1-40 steps over a pool of 4 values; steps = constructors (from_words with padding, bytes, primitives, ones, "
        "statics) x arithmetic/bit/shift operations in every call form (vv vr rv rr and the assigning forms, also with both operands the same "
        "slot) x clone/clone_from/drop/move/swap/neg x pow/sqr/gcd/div_rem/next_power_of_two/clear_high_bits/split_bits/conversion round trips x "
        "sqrt/isqrt/sqrt_rem (3, 4, odd/even lengths, every shift class, perfect squares +-1) x ring steps (new, new(0), reduce, mul, clone_from "
        "between rings of equal/different lengths, rem/div by the ConstDivisor, pow) x IBig & | ^ ! >> << with negative operands x "
        "from_str_radix of generated texts (digit counts at digits_per_word and word boundaries, separators, an invalid digit first/last/middle; "
        "radix 2..36; round 5: texts beyond 256 groups at chunk_bytes << k -1/0/+1 for one, two and three radix powers, an invalid digit in "
        "the first / last / a middle chunk) x to_chunks/from_chunks; "
        "sizes drawn from word counts {0,1,2,3,4,5,7,8,9,16,17,24,25,31,32,33,48,64,100} and from positions that move a value across the "
        "inline/heap boundary (2<->3 words) and across the reallocation thresholds (len = capacity, capacity = max_compact_capacity(len) +-1; "
        "pow exponents at wexp -1/0/+1, 2 wexp, quotient 2^j -1/0/+1). One case in 40 is a scratch probe `scr la lb` (lb at the schoolbook / "
        "Karatsuba / Toom-3 thresholds and at lengths whose halves / thirds fall on them, la = lb q + r). A case is non-trivial when at least "
        "one value lived on the heap (resp. scratch memory was needed); distinct = distinct case texts.")
EXPLANATION = ("Theorems (coq/props/C17.v) are about the storage machine of coq/theories/Int/StorageModel.v + StorageOps2.v and the scratch offset "
               "machine of ScratchModel.v; coq/gen/StorageGen.v is regenerated from the Rust sources at plug-in import (status in the evidence). "
               "Round 4: StorageOps3.v (+ coq/gen/StorageGen4.v, ScratchOps3.v over C02's peak models). Round 5: StorageOps5.v (the parser of texts "
               "of any length as ONE machine step: exact capacities of the result are compared like for every other step; path letters P / Q / R "
               "= one / two / three and more radix powers, E = invalid text) and FmtBounds5.v (+ coq/gen/StorageGen5.v). "
               "Tie: after every step of every history the harness reports the layout of all values and the allocator ledger; the oracle checks "
               "them against the extracted layout specification and runs the extracted machine beside the implementation (exact capacities = "
               "fidelity statistic; for gcd either buffer may hold the result). Scratch probes compare the reserved words with the regenerated "
               "formula and the smallest working block (bisection with verif_hooks::mul_kernel_scratch) with the demand of the modelled plans.")
TRUSTED_BASE = [
    "Coq 8.16.1 kernel",
    "the transcription of buffer.rs / repr.rs / memory.rs and of the buffer handling of add_ops, mul_ops, div_ops, shift_ops, bits.rs, pow.rs, gcd_ops.rs, root_ops.rs, div_const.rs, modular/*.rs, parse/*.rs, convert.rs (chunks) into coq/theories/Int/StorageModel.v, StorageOps2.v, StorageOps3.v, StorageOps5.v, FmtBounds5.v (printers, value level), ScratchModel.v, ScratchOps3.v (round 5 fragments regenerated by tools/translate_c17_r5.py into coq/gen/StorageGen5.v; round 4 fragments regenerated by tools/translate_c17_r4.py into coq/gen/StorageGen4.v; the peak models of division / multiplication scratch memory and their sufficiency theorems are those of C02: Int/DivMemModel.v, DivMemProofs.v) (by hand; compared on every run: exact capacities, exact scratch demand); formulas, tests, thresholds and allocation sizes are regenerated (tools/translate_c17_r3.py, a small expression translator) and tied by C17_tie_*",
    "extraction: ExtrOcamlBasic + ExtrOcamlZBigInt + coq/extract/FastZ.v; OCaml 4.13.1 + zarith; oracle/common.ml, oracle/driver_c17.ml (the value semantics of the steps are zarith arithmetic in the driver)",
    "Rust harness harness/src/bin/c17.rs incl. its guard/counting #[global_allocator] (red zones, poisoning, quarantine, realloc always moves); verif_hooks::repr_layout_ibig, mul_kernel_scratch, mul_scratch_words",
    "Box<[Word]> (std): clone allocates exactly len words, clone_from copies in place iff the lengths agree, drop frees len words (modelled, not proved about std)",
    "the unsafe blocks of buffer.rs/repr.rs/memory.rs do what their guards assume (NOT proved; searched by the guard allocator and, in the thorough tier, by a Miri support run over the corpus and ~120 threshold histories)",
]
ASSUMPTIONS = [
    "values stay far below Buffer::MAX_CAPACITY words (2^58): the AllocateTooMuch / capacity-overflow outcomes are not exercised",
    "the global allocator returns valid blocks (out-of-memory is not exercised)",
]

LENS = [0, 1, 1, 2, 2, 3, 3, 3, 4, 5, 7, 8, 9, 16, 17, 24, 25, 31, 32, 33, 48, 64, 100]
W = 64


def nwords(x):
    return (abs(x).bit_length() + 63) // 64


def default_cap(n):
    return n + n // 8 + 2


def next_pow2(x):
    return 1 if x <= 1 else 1 << (x - 1).bit_length()


STATICS = [0, -0x1234, 0xffffffffffffffff0000000000000001, 1 << 128,
           -0xdeadbeef0123456789abcdeffedcba987654321000000000ffffffff, (1 << 515) - 1, -((1 << 768) + 1)]


def wrap(bits, signed, m):
    m &= (1 << bits) - 1
    if signed and m >= 1 << (bits - 1):
        m -= 1 << bits
    return m


def small_prim(ty, x):
    m = abs(x) & ((1 << 64) - 1)
    if ty == "u64":
        return m
    if ty == "u8":
        return m & 255
    v = wrap(64, True, m)
    return wrap(64, True, -v) if x < 0 else v


def prim_value(ty, x):
    bits = {"8": 8, "16": 16, "32": 32, "64": 64, "size": 64, "128": 128}[ty[1:]]
    signed = ty[0] == "i"
    v = wrap(bits, signed, abs(x) & ((1 << 128) - 1))
    return wrap(bits, True, -v) if (signed and x < 0) else v


def tdiv(x, y):
    q = abs(x) // abs(y)
    return q if (x < 0) == (y < 0) else -q


def taken(form, a, b):
    if form in ("vv", "av"):
        return [a] if a == b else [a, b]
    if form in ("vr", "ar"):
        return [a]
    if form == "rv":
        return [b]
    return []


def sim(v, t):
    """exact effect of a step on the values (mirror of spec_step in oracle/driver_c17.ml)"""
    s = lambda i: int(t[i], 16)
    z = lambda i: int(t[i], 16)
    op = t[0]
    if op in ("fw", "fle", "fbe", "dw"):
        v[s(1)] = z(2)
    elif op == "ones":
        v[s(1)] = (1 << s(2)) - 1
    elif op == "prim":
        v[s(1)] = prim_value(t[2], z(3))
    elif op in ("st", "scf"):
        v[s(1)] = STATICS[min(s(2), 6)]
    elif op == "sadd":
        v[s(1)] = v[s(2)] + STATICS[min(s(3), 6)]
    elif op == "smul":
        if v[s(2)] >= 0:
            v[s(1)] = v[s(2)] * abs(STATICS[min(s(3), 6)])
    elif op in ("cl", "cf"):
        v[s(1)] = v[s(2)]
    elif op == "ucf":
        if v[s(1)] >= 0 and v[s(2)] >= 0:
            v[s(1)] = v[s(2)]
    elif op == "dr":
        v[s(1)] = 0
    elif op == "mv":
        x = v[s(2)]
        v[s(2)] = 0
        v[s(1)] = x
    elif op == "sw":
        v[s(1)], v[s(2)] = v[s(2)], v[s(1)]
    elif op == "neg":
        v[s(1)] = -v[s(1)]
    elif op == "negr":
        v[s(1)] = -v[s(2)]
    elif op == "abs":
        v[s(1)] = abs(v[s(1)])
    elif op[0] in "ui" and op[1:] in ("add", "sub", "mul", "div", "rem", "and", "or", "xor", "gcd"):
        form, d, a, b = t[1], s(2), s(3), s(4)
        x, y = v[a], v[b]
        if op[0] == "u" and (x < 0 or y < 0):
            return
        for i in taken(form, a, b):
            v[i] = 0
        k = op[1:]
        if k in ("div", "rem") and y == 0:
            return
        if op == "usub" and x < y:
            return
        if k == "gcd" and x == 0 and y == 0:
            return
        import math
        r = {"add": lambda: x + y, "sub": lambda: x - y, "mul": lambda: x * y, "div": lambda: tdiv(x, y),
             "rem": lambda: x - y * tdiv(x, y), "and": lambda: x & y, "or": lambda: x | y, "xor": lambda: x ^ y,
             "gcd": lambda: math.gcd(x, y)}[k]()
        v[d] = r
    elif op == "udivrem":
        d, e, a, b = s(1), s(2), s(3), s(4)
        if d == e or v[a] < 0 or v[b] <= 0:
            return
        q, r = divmod(v[a], v[b])
        v[d] = q
        v[e] = r
    elif op in ("shl", "shr", "ishl", "ishr"):
        form, d, a, n = t[1], s(2), s(3), s(4)
        x = v[a]
        if op[0] == "s" and x < 0:
            return
        if op == "shl" and n >= HUGE_BITS and x > 0:
            if form != "r":
                v[a] = 0
            return
        if (op[0] == "s" and form != "r") or (op[0] == "i" and form == "v"):
            v[a] = 0
        v[d] = x << n if op.endswith("shl") else x >> n
    elif op in ("setbit", "clrbit", "chb", "npow2"):
        d, n = s(1), s(2)
        x = v[d]
        if x < 0:
            return
        if op == "setbit" and n >= HUGE_BITS:
            v[d] = 0
            return
        v[d] = {"setbit": x | (1 << n), "clrbit": x & ~(1 << n), "chb": x & ((1 << n) - 1), "npow2": next_pow2(x)}[op]
    elif op == "split":
        d, e, a, n = s(1), s(2), s(3), s(4)
        if d == e or v[a] < 0:
            return
        x = v[a]
        v[a] = 0
        v[d] = x & ((1 << n) - 1)
        v[e] = x >> n
    elif op == "pow":
        v[s(1)] = v[s(2)] ** s(3)
    elif op == "sqr":
        if v[s(2)] >= 0:
            v[s(1)] = v[s(2)] ** 2
    elif op == "sqrt":
        if v[s(2)] >= 0:
            import math
            v[s(1)] = math.isqrt(v[s(2)])
    elif op == "isqrt":
        if v[s(2)] >= 0:
            import math
            v[s(1)] = math.isqrt(v[s(2)])
    elif op == "sqrtrem":
        d, e, a = s(1), s(2), s(3)
        if d != e and v[a] >= 0:
            import math
            x = v[a]
            q = math.isqrt(x)
            v[d] = q
            v[e] = x - q * q
    elif op == "inot":
        x = v[s(3)]
        if t[1] == "v":
            v[s(3)] = 0
        v[s(2)] = ~x
    elif op == "pstr":
        x = parse_text(t[3], s(2))
        if x is not None:
            v[s(1)] = x
    elif op == "ring":
        kind, d, a, b, e = t[1], s(2), s(3), s(4), s(5)
        m = abs(v[b])
        if kind == "new0":
            if m != 0:
                v[b] = 0
                v[d] = m
            return
        if m <= 1:
            return
        import math
        inv = lambda x: pow(x, -1, m) if math.gcd(x, m) == 1 else 0
        sg = lambda x, y: -y if x < 0 else y
        if kind == "new":
            v[b] = 0
            r = m
        elif kind in ("res", "cf"):
            r = v[a] % m
        elif kind == "mul":
            x, y = v[a] % m, v[d] % m
            r = (x * y + x - y) % m
        elif kind == "inv":
            r = inv(v[a] % m)
        elif kind == "pow":
            r = pow(v[a] % m, e, m)
        elif kind == "rem":
            r = sg(v[a], abs(v[a]) % m)
        elif kind == "remv":
            x = v[a]
            v[a] = 0
            r = sg(x, abs(x) % m)
        elif kind == "div":
            r = sg(v[a], abs(v[a]) // m)
        elif kind == "rmul":
            r = pow(abs(v[a]) % m, 3, m)
        elif kind == "rinv":
            r = inv(abs(v[a]) % m)
        elif kind == "rpow":
            r = pow(abs(v[a]) % m, e, m)
        else:
            r = (-3 * (abs(v[a]) % m)) % m
        v[d] = r
    elif op in ("addp", "subp", "mulp"):
        p = small_prim(t[2], z(3))
        d = s(1)
        v[d] = v[d] + p if op == "addp" else (v[d] - p if op == "subp" else v[d] * p)


HUGE_BITS = 1 << 34   # bit counts from here on ask for more than 2^30 bytes: the harness' allocator refuses
DIGITS = "0123456789abcdefghijklmnopqrstuvwxyz"


def parse_text(text, radix):
    """IBig::from_str_radix: optional sign, digits and '_' separators, at least one digit"""
    neg = text.startswith("-")
    body = text[1:] if text[:1] in "+-" else text
    acc, seen = 0, False
    for c in body:
        if c == "_":
            continue
        d = DIGITS.find(c.lower())
        if d < 0 or d >= radix:
            return None
        acc = acc * radix + d
        seen = True
    if not seen:
        return None
    return -acc if neg else acc


def fmt_radix(x, radix):
    if x == 0:
        return "0"
    a, out = abs(x), ""
    while a:
        out = DIGITS[a % radix] + out
        a //= radix
    return ("-" if x < 0 else "") + out


def gen_text(rng, radix, ndigits, style):
    """a text for the parser: ndigits digits (the first one nonzero), underscores / an invalid digit placed by style"""
    ds = [DIGITS[rng.below(radix)] for _ in range(ndigits)]
    if ds and ds[0] == "0":
        ds[0] = "1"
    if rng.chance(1, 4):
        ds = [c.upper() for c in ds]
    txt = "".join(ds)
    if style == 1 and ndigits > 1:
        k = rng.range(1, ndigits)
        txt = txt[:k] + "_" + txt[k:]
    elif style == 2:
        txt = "".join(c + ("_" if rng.chance(1, 3) else "") for c in txt)
    elif style in (3, 4, 5) and ndigits > 0:
        bad = rng.choice(["!", "z" if radix < 36 else "?", DIGITS[radix] if radix < 36 else "~", "x", " "]).replace(" ", ".")
        k = {3: 0, 4: ndigits - 1, 5: rng.below(ndigits)}[style]
        txt = txt[:k] + bad + txt[k + 1:]
    elif style == 6:
        txt = "000_0" + txt
    return rng.choice(["", "", "-", "+"]) + txt


FORMS = ["vv", "vr", "rv", "rr", "av", "ar"]
MAXW = 420  # words: keep values bounded so that a history stays fast


def gen_value(rng, signed=True):
    n = rng.choice(LENS)
    m = gen_mag(rng, n)
    if rng.chance(1, 6) and n >= 1:
        # values at a carry boundary: all ones / 2^k / 2^k - 1 patterns over whole words
        m = rng.choice([(1 << (64 * n)) - 1, 1 << (64 * n - 1), 1 << (64 * (n - 1)), (1 << (64 * n)) - rng.range(1, 3)])
    return -m if (signed and rng.chance(1, 3)) else m


BN = [3, 3, 3, 4, 5, 7, 8, 9, 15, 16, 17, 24, 31, 32, 33]
M64 = (1 << 64) - 1


def max_compact(n):
    return n + n // 4 + 4


def top_set(rng, n):
    """a magnitude of exactly n words"""
    return (1 << (64 * n - 1)) | rng.bits(64 * n - 1) if n > 0 else 0


def gen_boundary(rng, k=None):
    """2-4 steps that put a FRESH value of known capacity into a slot (from_words without padding:
    capacity = default_capacity(len); two words: inline) and apply ONE arithmetic step placed exactly at
    a threshold of the buffer handling of that step kind: the carry that crosses 2 -> 3 words, the borrow
    that comes back 3 -> 2, len = capacity (the next carry must reallocate: push_resizing), the in-place
    test of shl_large at equality and one beyond, ensure_capacity at equality / one beyond, the shrink
    rule of from_buffer at capacity = max_compact_capacity(len) and one beyond."""
    d = rng.below(4)
    e = (d + 1 + rng.below(3)) % 4
    t = rng.choice([d, d, e, (e + 1) % 4 if (e + 1) % 4 != d else e])
    n = rng.choice(BN)
    c = default_cap(n)
    form = rng.choice(FORMS)
    sgn = rng.choice(["u", "u", "i"])
    fw = lambda slot, x: "fw %x %s 0" % (slot, hx(x))
    dw = lambda slot, x: "dw %x %s 0" % (slot, hx(x))
    if k is None:
        k = rng.below(37)
    if k == 36:
        # round 5: texts beyond 256 groups in a radix that is not a power of two (parse_large: the vector of radix powers, the
        # divide-and-conquer recursion): lengths at chunk_bytes << k  -1 / 0 / +1 for k = 0, 1, 2, one group / one digit more, an invalid
        # digit in the first / last / a middle chunk (the `?` exits drop the partial results and the powers), underscores
        radix = rng.choice([10, 10, 3, 7, 36, 5, 11])
        dpw = 1
        while radix ** (dpw + 1) < 1 << 64:
            dpw += 1
        cb = 256 * dpw
        if rng.chance(1, 7):
            nd = rng.choice([4 * cb, 4 * cb + 1, 4 * cb + dpw, 5 * cb + 3])
        else:
            nd = rng.choice([cb + 1, cb + 1, cb + dpw, cb + dpw + 1, 2 * cb - 1, 2 * cb, 2 * cb + 1, 2 * cb + dpw + 1, 3 * cb - 1, 3 * cb, 3 * cb + 1,
                             cb + rng.range(1, cb), 2 * cb + rng.range(1, cb)])
        st = ["pstr %x %x %s" % (t, radix, gen_text(rng, radix, nd, rng.choice([0, 0, 1, 2, 3, 4, 5, 5, 6])))]
        if nd > 3 * cb + 1 or rng.chance(1, 3):
            st.append("dr %x" % t)
        return st
    if k == 34:
        # ALL-ZERO raw results on the heap path (Buffer::pop_zeros scans down to the first word of the block): a - a, a ^ a, a + (-a),
        # a % a, from_words / from_le_bytes of zeros only, x & !x (negative operand), a shift that leaves zero words only; capacities of
        # every residue mod 4 (the guard allocator's front zone alternates)
        nn = rng.choice([3, 3, 4, 5, 6, 7, 8, 9, 16, 17, 33])
        x = top_set(rng, nn)
        r = rng.below(9)
        if r == 0:
            return ["fw %x 0 %x" % (d, rng.choice([3, 4, 5, 6, 7, 9, 17]))]
        if r == 1:
            return ["%s %x 0 %x" % (rng.choice(["fle", "fbe"]), d, rng.choice([17, 18, 24, 25, 32, 33, 40, 100]))]
        if r == 2:
            return [fw(d, x), fw(e, x), "%s %s %x %x %x" % (rng.choice(["usub", "isub", "uxor", "ixor", "urem", "irem"]), form, t, d, e)]
        if r == 3:
            return [fw(d, x), "%s %s %x %x %x" % (rng.choice(["usub", "isub", "uxor", "ixor", "urem"]), form, t, d, d)]
        if r == 4:
            return [fw(d, x), fw(e, -x), "iadd %s %x %x %x" % (form, t, d, e)]
        if r == 5:
            return [fw(d, x), fw(e, -x - 1), "iand %s %x %x %x" % (form, t, d, e)]
        if r == 6:
            low = rng.bits(60) | 1
            return [fw(d, low << (64 * (nn - 1))), "%s %s %x %x %x" % (rng.choice(["shr", "ishr"]), rng.choice(["v", "a", "r"]), t, d, 64 * (nn - 1) + 61)]
        if r == 7:
            return [fw(d, x), "chb %x 0" % d]
        return [fw(d, x), fw(e, x), "udivrem %x %x %x %x" % (t, [i for i in range(4) if i != t][rng.below(3)], d, e)]
    if k == 35:
        # a growth that FAILS (the allocator returns null above 2^40 bytes): set_bit far away on a heap value (realloc of its own
        # buffer; the value must be released exactly once by the unwinding), on an inline value, shl by a huge count; then the slot is reused / dropped
        nn = rng.choice([0, 1, 2, 3, 3, 4, 5, 8, 17])
        x = top_set(rng, nn) if nn else 0
        far = rng.choice([1 << 61, (1 << 61) + 63, 1 << 50, (1 << 44) + 5, (1 << 60) - 1])
        st = [fw(d, x) if nn > 2 else dw(d, x)]
        if nn > 2 and rng.chance(1, 2):
            st.append("setbit %x %x" % (d, 64 * default_cap(nn) - 1))
        if rng.chance(3, 4) or x == 0:
            st.append("setbit %x %x" % (d, far))
        else:
            st.append("shl %s %x %x %x" % (rng.choice(["v", "a", "r"]), t, d, far))
        return st + [rng.choice(["dr %x" % d, "cl %x %x" % (d, e), "fw %x %s 0" % (d, hx(top_set(rng, 4)))])]
    if k == 27:
        # sqrt / sqrt_rem of a long value: 3 and 4 words (the four-word base case of the kernel), odd / even lengths, a top word with
        # an even / odd number of leading zeros (shift = 64 * (len & 1) + (lz & !1): 0, < 64, >= 64), perfect squares, s^2 - 1, s^2 + 2s
        nn = rng.choice([3, 3, 4, 4, 5, 6, 7, 8, 9, 16, 17, 33, 64, 65, 70])
        lz = rng.choice([0, 0, 1, 2, 3, 62, 63, rng.below(64)])
        x = (1 << (64 * nn - 1 - lz)) | rng.bits(64 * nn - 1 - lz)
        if rng.chance(1, 3):
            import math
            r0 = math.isqrt(x)
            x = rng.choice([r0 * r0, r0 * r0 - 1, r0 * r0 + 2 * r0, (r0 + 1) * (r0 + 1)])
            if nwords(x) < 3:
                x = 1 << 128
        e2 = [i for i in range(4) if i != t][rng.below(3)]
        return [fw(d, x * rng.choice([1, 1, 1, -1])), rng.choice(["sqrt %x %x" % (t, d), "isqrt %x %x" % (t, d), "sqrtrem %x %x %x" % (t, e2, d), "sqrtrem %x %x %x" % (t, e2, d)])]
    if k == 28:
        # IBig & | ^ ! with negative operands: sub_one of 2^(64 j) (the magnitude loses a word), add_one of an all-ones magnitude at
        # len = capacity (push_resizing reallocates), and_not against a shorter / longer / one- and two-word operand
        x = rng.choice([1 << (64 * n), (1 << (64 * n)) - 1, top_set(rng, n), (1 << 128), (1 << 128) - 1, rng.bits(128) | 1 << 127, 1, 0])
        ny = rng.choice([n, n, c, c + 1, 3, 2, 1, 0])
        y = rng.choice([1 << (64 * ny), (1 << (64 * ny)) - 1, top_set(rng, ny), x, x + 1, x - 1]) if ny else rng.choice([0, 1])
        sx, sy = rng.choice([(1, -1), (-1, 1), (-1, -1), (-1, -1), (1, 1)])
        st = [fw(d, sx * x) if nwords(x) > 2 else dw(d, sx * x), fw(e, sy * abs(y)) if nwords(y) > 2 else dw(e, sy * abs(y))]
        if nwords(x) > 2 and sx > 0 and rng.chance(1, 3):
            st.insert(1, "setbit %x %x" % (d, 64 * default_cap(nwords(x)) - 1))   # len = capacity
        if rng.chance(1, 5):
            return st[:1] + ["inot %s %x %x" % (rng.choice(["v", "r"]), t, d)]
        a, b = rng.choice([(d, e), (e, d)])
        return st + ["%s %s %x %x %x" % (rng.choice(["iand", "ior", "ixor"]), form, t, a, b)]
    if k == 29:
        # IBig >> n of a negative value: low bits zero / nonzero (floor), down to 3 / 2 / 1 / 0 words, -1; IBig << n of a negative value
        big = rng.choice([3, 4, 5, 8, 16, 17])
        keepw = rng.choice([0, 1, 2, 3, big - 1])
        sh = 64 * (big - keepw) + rng.choice([0, 0, 1, 63])
        x = top_set(rng, big)
        if rng.chance(1, 2):
            x = (x >> min(sh, 64 * big - 1)) << min(sh, 64 * big - 1) or 1 << (64 * big - 1)
        if rng.chance(1, 4):
            return [fw(d, -x), "ishl %s %x %x %x" % (rng.choice(["v", "r"]), t, d, max(0, rng.choice([0, 1, 64, 64 * (default_cap(big) - big), 64 * (default_cap(big) - big) + 1])))]
        return [fw(d, -x), "ishr %s %x %x %x" % (rng.choice(["v", "r"]), t, d, max(0, sh))]
    if k == 30:
        # parse, power-of-two radix: digit counts at digits_per_word -1/0/+1 and where src.len() * log_radix crosses a word boundary,
        # underscores (counted in the estimate), an invalid digit at the first / last / a middle position (the buffer is dropped)
        radix = rng.choice([2, 4, 8, 16, 16, 32])
        lr = radix.bit_length() - 1
        dpw = 64 // lr
        nd = rng.choice([1, dpw - 1, dpw, dpw + 1, 2 * dpw, 2 * dpw + 1, 3 * dpw, 3 * dpw + 1, (64 * 3) // lr + 1, (64 * 17) // lr, (64 * 17) // lr + 1, rng.range(1, 40 * dpw)])
        return ["pstr %x %x %s" % (t, radix, gen_text(rng, radix, max(1, nd), rng.below(7)))]
    if k == 31:
        # parse, other radixes: one group (a word), 2 .. 256 groups of digits_per_word digits (parse_chunk: Buffer::allocate(groups)), a short
        # first group, an invalid digit in the first / last / a middle group; beyond 256 groups the divide-and-conquer path
        radix = rng.choice([10, 10, 3, 7, 36, 5])
        dpw = 1
        while radix ** (dpw + 1) < 1 << 64:
            dpw += 1
        g = rng.choice([1, 1, 2, 2, 3, 4, 5, 17, 64, 255, 256, 256, 257])
        nd = rng.choice([g * dpw, g * dpw, (g - 1) * dpw + 1, (g - 1) * dpw + rng.range(1, dpw + 1)])
        return ["pstr %x %x %s" % (t, radix, gen_text(rng, radix, max(1, nd), rng.below(7)))]
    if k == 32:
        # to_chunks / from_chunks: one chunk (the value itself), chunk widths below / at / above a word, many one-bit chunks of a short value
        x = rng.choice([top_set(rng, n), top_set(rng, 3), rng.bits(128) | 1 << 127, rng.bits(64) | 1, (1 << (64 * n)) - 1]) * rng.choice([1, 1, -1])
        bits = abs(x).bit_length()
        kb = rng.choice([bits, bits + 1, bits - 1, 64, 63, 65, 128, 127, 129, 1 if bits <= 200 else 7, 7, 200, 64 * n])
        return [fw(d, x) if nwords(x) > 2 else dw(d, x), "rt %x chunks %x" % (d, max(1, kb))]
    if k == 33:
        # rings: Reduced::clone_from between rings whose moduli have the same / different lengths (Box<[Word]>::clone_from), ConstDivisor::new(0)
        m1 = top_set(rng, n) | 1
        m2 = rng.choice([top_set(rng, n) | 1, top_set(rng, n + 1), top_set(rng, 3), rng.bits(128) | 1 << 127, rng.bits(64) | 2, 0, 1])
        x = rng.choice([top_set(rng, rng.choice([1, 2, 3, n, 2 * n])), 0, m1 - 1, m1, m1 + 1]) * rng.choice([1, -1])
        if rng.chance(1, 6):
            return [fw(d, x) if nwords(x) > 2 else dw(d, x), dw(e, rng.choice([0, 0, 1])), "ring new0 %x %x %x 0" % (t, d, e)]
        e2 = [i for i in range(4) if i not in (d, e)][rng.below(2)]
        return [fw(d, m1), fw(e, m2) if nwords(m2) > 2 else dw(e, m2), fw(e2, x) if nwords(x) > 2 else dw(e2, x), "ring cf %x %x %x 0" % (e, e2, d)]
    if k == 21:
        # pow with a one-word base: shortcuts (0, 1, 2, powers of two: set_bit), exp < wexp / < 2 wexp (inline), the loop of
        # pow_word_base (exp / wexp >= 2) with exponents whose quotient is 2, 3, 2^j - 1, 2^j, 2^j + 1; negative bases; even bases
        # (the factor 2^shift is removed first: shr, pow, shl)
        base = rng.choice([0, 1, 2, 4, 1 << 31, 3, 3, 5, 7, 10, 12, 255, 0xffffffff, 0x100000001, M64, M64 - 1, rng.bits(64) | 1, rng.bits(20) | 1])
        wexp = 1
        if base > 2:
            while base ** (wexp + 1) < 1 << 64:
                wexp += 1
        q = rng.choice([2, 3, 4, 5, 7, 8, 9, 15, 16, 17, 31, 33])
        ex = rng.choice([0, 1, 2, 3, wexp - 1, wexp, 2 * wexp - 1, 2 * wexp, q * wexp, q * wexp + rng.below(wexp), q * wexp - 1])
        if base > 2 and base.bit_length() * ex > 64 * 300:
            ex = max(3, 64 * 300 // base.bit_length())
        if base in (2, 4, 1 << 31):
            ex = min(ex, 3000)
        return [dw(d, base * rng.choice([1, 1, -1])), "pow %x %x %x" % (t, d, max(0, ex))]
    if k == 22:
        # pow with a two-word base (pow_dword_base: 2 * exp words, two carry words per multiplication) and with a long base
        if rng.chance(1, 2):
            base = rng.choice([1 << 64, (1 << 64) + 1, (1 << 128) - 1, rng.bits(128) | 1 << 127 | 1, (1 << 127) + 1, 3 << 64, (rng.bits(64) | 1) << 64 | 1])
            ex = rng.choice([0, 1, 2, 3, 4, 5, 7, 8, 9, 15, 16, 17, 31, 32, 33])
            return [dw(d, base * rng.choice([1, 1, -1])), "pow %x %x %x" % (t, d, ex)]
        nb = rng.choice([3, 3, 4, 5, 8])
        base = top_set(rng, nb) | 1 if rng.chance(2, 3) else top_set(rng, nb) << rng.choice([1, 64, 70])
        return [fw(d, base * rng.choice([1, -1])), "pow %x %x %x" % (t, d, rng.choice([0, 1, 2, 3, 4, 5, 6, 7, 8, 9]))]
    if k == 23:
        # sqr: one word, two words (4-word spill), long; the result length 2n or 2n - 1
        x = rng.choice([M64, 1 << 63, 1 << 64, (1 << 128) - 1, rng.bits(128) | 1 << 127, top_set(rng, n), 1 << (64 * n - 64), (1 << (64 * n)) - 1])
        return [fw(d, x) if nwords(x) > 2 else dw(d, x), "sqr %x %x" % (t, d)]
    if k == 24:
        # gcd in every call form: equal operands, one dividing the other, coprime, a common factor of 1 / 2 / 3 words, with a
        # one- or two-word operand (gcd_large_dword), with zero
        g = rng.choice([1, 1, rng.bits(64) | 1, rng.bits(128) | 1 << 127 | 1, top_set(rng, 3) | 1, top_set(rng, rng.choice([4, 5, 8])) | 1])
        x = g * rng.choice([1, top_set(rng, rng.choice([1, 2, 3, n])) | 1, 3, 1 << 64])
        y = rng.choice([x, g, g * (top_set(rng, rng.choice([1, 2, 3, 4, n])) | 1), g * 5, 0, rng.bits(64), rng.bits(128)])
        a, b = rng.choice([(d, e), (e, d)])
        return [fw(d, x) if nwords(x) > 2 else dw(d, x), fw(e, y) if nwords(y) > 2 else dw(e, y), "ugcd %s %x %x %x" % (form, t, a, b)]
    if k == 25:
        # div_rem by reference: quotient with / without a top word, remainder of 0..n words, short dividend, small divisor, zero
        ny = rng.choice([3, 3, 4, n, 2, 1, 0])
        y = rng.choice([top_set(rng, ny), 1 << (64 * ny - 1), (1 << (64 * ny)) - 1]) if ny else 0
        nx = rng.choice([ny, ny + 1, ny + 3, n + ny, 3, 2])
        x = rng.choice([top_set(rng, nx), y * top_set(rng, 2) + rng.bits(64), y * ((1 << 64) - 1), (1 << (64 * nx)) - 1]) if nx else 0
        e2 = [i for i in range(4) if i != t][rng.below(3)]
        return [fw(d, x) if nwords(x) > 2 else dw(d, x), fw(e, y) if nwords(y) > 2 else dw(e, y), "udivrem %x %x %x %x" % (t, e2, d, e)]
    if k == 26:
        # next_power_of_two (carry into a new top word with len = capacity, already a power of two), clear_high_bits / split_bits
        # at word boundaries, at 0, beyond the length
        r = rng.below(3)
        if r == 0:
            x = rng.choice([(1 << (64 * n)) - 1, 1 << (64 * n - 1), (1 << (64 * n - 1)) + 1, top_set(rng, n), (1 << 128) - 1, (1 << 127) + 1, 1 << 127])
            st = [fw(d, x) if nwords(x) > 2 else dw(d, x)]
            if nwords(x) > 2 and rng.chance(1, 2):
                st.append("setbit %x %x" % (d, 64 * c - 1))
            return st + ["npow2 %x 0" % d]
        x = top_set(rng, n)
        bits = rng.choice([0, 1, 63, 64, 65, 127, 128, 129, 192, 64 * (n - 1), 64 * n - 1, 64 * n, 64 * n + 1, 64 * n + 64, rng.below(64 * n + 70)])
        if r == 1:
            return [fw(d, x), "chb %x %x" % (d, bits)]
        e2 = [i for i in range(4) if i != t][rng.below(3)]
        return [fw(d, x), "split %x %x %x %x" % (t, e2, d, bits)]
    if k == 0:
        # add: two double words whose sum needs a third word (add_dword spills) or just does not
        x = (1 << 128) - rng.choice([1, 1, 2, 1 << 64, rng.bits(64) + 1])
        y = rng.choice([(1 << 128) - x, (1 << 128) - x - 1, 1, x, rng.bits(128)])
        return [dw(d, x), dw(e, y), "%sadd %s %x %x %x" % (sgn, form, t, d, e)]
    if k == 1:
        # sub: three words minus something that leaves two / one / zero words (buffer freed, value inline)
        x = (1 << 128) + rng.choice([0, 0, 1, rng.bits(64), rng.bits(128)])
        y = rng.choice([1, x - (1 << 128) + 1, x - M64, x - 1, x, rng.bits(128) | 1])
        return [fw(d, x), fw(e, y) if y >> 128 else dw(e, y), "%ssub %s %x %x %x" % (sgn, form, t, d, e)]
    if k == 2:
        # add_large: n words + c words = ensure_capacity at equality (no reallocation, len = capacity), with or
        # without a final carry (push_resizing must reallocate); c + 1 words: ensure_capacity reallocates
        ny = rng.choice([c, c, c, c + 1, c - 1, n])
        x = top_set(rng, n)
        carry = rng.chance(1, 2)
        y = ((1 << (64 * ny)) - x) if carry else (top_set(rng, ny) >> 1 | 1 << (64 * ny - 2)) if ny > n else (((1 << (64 * n)) - 1) ^ x) | 1 << (64 * n - 2)
        if y <= 0 or nwords(y) < 1:
            y = 1
        return [fw(d, x), fw(e, y) if nwords(y) > 2 else dw(e, y), "%sadd %s %x %x %x" % (sgn, form, t, d, e)]
    if k == 3:
        # add of a primitive to an all-ones value with len = capacity - the carry ripples to a new top word
        x = (1 << (64 * n)) - 1
        steps = [fw(d, x), "setbit %x %x" % (d, 64 * c - 1)]          # len = capacity, in place
        y = (1 << (64 * c)) - (x | 1 << (64 * c - 1))
        steps.append(fw(e, y) if nwords(y) > 2 else dw(e, y))
        steps.append("%sadd %s %x %x %x" % (sgn, rng.choice(["vr", "av", "ar", "vv", "rr", "rv"]), t, d, e))
        return steps
    if k == 4:
        # sub that shrinks: result of L words where capacity = max_compact_capacity(L) (kept) or one more (reallocated)
        big = rng.choice([16, 24, 32, 33, 40])
        cb = default_cap(big)
        ls = [l for l in range(3, big) if max_compact(l) in (cb - 1, cb, cb + 1)] + [1, 2, 3]
        l = rng.choice(ls)
        x = top_set(rng, big)
        r = top_set(rng, l)
        y = x - r
        st = [fw(d, x), fw(e, y)]
        if rng.chance(1, 3):
            # negative result: the signed subtraction swaps the roles (sub_large_ref_val grows the shorter buffer)
            return st + ["isub %s %x %x %x" % (form, t, e, d)]
        return st + ["%ssub %s %x %x %x" % (sgn, form, t, d, e)]
    if k == 5:
        # signed subtraction of a longer from a shorter value: the by-value right operand is grown to len lhs
        x = top_set(rng, n)
        ny = rng.choice([c, c + 1, c - 1, n + 1])
        y = top_set(rng, ny)
        a, b = rng.choice([(d, e), (e, d)])
        return [fw(d, x), fw(e, y), "%s %s %x %x %x" % (rng.choice(["isub", "iadd"]), form, t, a, b), "neg %x" % rng.choice([d, e, t])]
    if k == 6:
        # mul: double word x double word around the 2 / 3 / 4 word results
        x = rng.choice([M64, 1 << 64, (1 << 128) - 1, rng.bits(128) | 1 << 127, rng.bits(64) | 1 << 63])
        y = rng.choice([M64, 1 << 64, (1 << 128) - 1, 2, rng.bits(128) | 1 << 127, rng.bits(64) | 1 << 63, 1 << 63])
        return [dw(d, x), dw(e, y), "%smul %s %x %x %x" % (sgn, form, t, d, e)]
    if k == 7:
        # mul_large_dword on a buffer with len = capacity: word carry (push_resizing) / double word carry (len + 2)
        x = top_set(rng, n) | 1 << (64 * n - 1)
        steps = [fw(d, x)]
        if rng.chance(2, 3):
            steps.append("setbit %x %x" % (d, 64 * rng.choice([c, c, c - 1]) - 1))
        y = rng.choice([M64, 2, 1 << 63, (1 << 128) - 1, 1 << 64, 1 << 127, rng.bits(64) | 1, 3])
        if y <= M64 and rng.chance(1, 2):
            steps.append("mulp %x u64 %s" % (d, hx(y)))
        else:
            steps += [dw(e, y), "%smul %s %x %x %x" % (sgn, form, t, d, e)]
        return steps
    if k == 8:
        # shl_large: in-place test capacity >= len + shift_words + 1 at equality, one word beyond, one bit around
        x = top_set(rng, n) if rng.chance(1, 2) else (1 << (64 * n)) - 1
        sw = rng.choice([c - n - 1, c - n - 1, c - n, c - n - 2, 0])
        bits = 64 * max(0, sw) + rng.choice([0, 0, 1, 63])
        return [fw(d, x), "%s %s %x %x %x" % (rng.choice(["shl", "shl", "ishl"]), rng.choice(["v", "a", "a", "r"]), t, d, bits)]
    if k == 9:
        # shl of one / two words that spills: shl_dword (1 << n: n / 64 + 1 words; else shift_words + 3)
        x = rng.choice([1, 1, 3, M64, 1 << 64, (1 << 128) - 1, rng.bits(128) | 1])
        lz = 128 - x.bit_length()
        bits = rng.choice([lz, lz + 1, lz + 64, 128, 127, 129, 64 * rng.range(2, 20) + rng.choice([0, 1, 63])])
        return [dw(d, x), "%s %s %x %x %x" % (rng.choice(["shl", "shl", "ishl"]), rng.choice(["v", "a", "r"]), t, d, bits)]
    if k == 10:
        # shr: down to 3 / 2 / 1 / 0 words, and to L words with capacity = max_compact_capacity(L) or one beyond
        big = rng.choice([5, 8, 16, 24, 32, 33, 40])
        cb = default_cap(big)
        ls = [l for l in range(3, big) if max_compact(l) in (cb - 1, cb, cb + 1)] + [0, 1, 2, 3, 3]
        l = rng.choice(ls)
        x = top_set(rng, big) | 1 << (64 * big - 1)
        bits = 64 * (big - l) + rng.choice([0, 0, 63, 1])
        return [fw(d, x), "%s %s %x %x %x" % (rng.choice(["shr", "shr", "ishr"]), rng.choice(["v", "a", "a", "r"]), t, d, max(0, bits))]
    if k == 11:
        # set_bit on a buffer: idx < len; idx = len .. capacity - 1 (in place); idx = capacity (ensure_capacity reallocates)
        x = top_set(rng, n)
        idx = rng.choice([n - 1, n, n, c - 1, c - 1, c, c, c + 1, c + 7])
        steps = [fw(d, x), "setbit %x %x" % (d, 64 * idx + rng.choice([0, 63, rng.below(64)]))]
        if rng.chance(1, 2):
            steps.append("clrbit %x %x" % (d, 64 * idx + rng.below(64)))
        return steps
    if k == 12:
        # set_bit on an inline value: bit 127 / 128 (with_bit_dword_spilled: idx + 1 words, idx - 2 zeros)
        x = rng.choice([0, 1, M64, 1 << 64, (1 << 128) - 1, rng.bits(128)])
        bit = rng.choice([127, 128, 128, 129, 191, 192, 64 * rng.range(2, 30) + rng.below(64)])
        steps = [dw(d, x), "setbit %x %x" % (d, bit), "clrbit %x %x" % (d, bit)]
        return steps if rng.chance(2, 3) else steps[:2]
    if k == 13:
        # clear_bit of the only bit above two words / of the top bit of a long value (shrink or inline)
        big = rng.choice([3, 3, 4, 9, 17, 33])
        lowl = rng.choice([0, 1, 2, 3])
        x = 1 << rng.range(64 * (big - 1), 64 * big - 1)
        x |= top_set(rng, lowl)
        return [fw(d, x), "clrbit %x %x" % (d, x.bit_length() - 1)]
    if k == 14:
        # x op= &x.clone() patterns on a heap value at len = capacity
        x = (1 << (64 * n)) - 1
        steps = [fw(d, x), "setbit %x %x" % (d, 64 * c - 1)]
        steps.append("%s %s %x %x %x" % (rng.choice(["uadd", "iadd", "isub", "usub", "umul", "imul"]), rng.choice(["av", "ar", "vv", "vr", "rv", "rr"]), d, d, d))
        return steps
    if k == 20:
        # Buffer::into_boxed_slice: a modulus with len < capacity <= max_compact_capacity(len) (no shrink needed by
        # the compactness rule, the Box still has to be exactly len words), with len = capacity, and with a
        # capacity far above (after a shift right)
        x = top_set(rng, n) | 1
        steps = [fw(d, x)]
        r = rng.below(3)
        if r == 1:
            steps.append("setbit %x %x" % (d, 64 * c - 1))
        elif r == 2:
            steps.append("shr a %x %x %x" % (d, d, 64 * rng.range(0, max(0, n - 3))))
        steps.append(dw(e, rng.bits(128) | 1) if rng.chance(1, 2) else fw(e, top_set(rng, rng.choice([3, n, n + 2, 2 * n]))))
        steps.append("ring %s %x %x %x %x" % (rng.choice(RING_KINDS), t, e, d, rng.choice([0, 1, 2, 5, 17])))
        return steps
    if k == 16:
        # & : a long value and a mask that leaves 3 / 2 / 1 / 0 words (truncate + shrink or inline); small & large (lowest_dword)
        big = rng.choice([3, 4, 9, 17, 33])
        l = rng.choice([0, 1, 2, 3, 3, big])
        x = top_set(rng, big)
        y = rng.choice([top_set(rng, l), (1 << (64 * l)) - 1, top_set(rng, l) | 1 << (64 * big - 1)]) if l else rng.choice([0, 1 << (64 * big)])
        o = rng.choice(["uand", "uand", "iand"])
        a, b = rng.choice([(d, e), (e, d)])
        return [fw(d, x), fw(e, y) if nwords(y) > 2 else dw(e, y), "%s %s %x %x %x" % (o, form, t, a, b)]
    if k == 17:
        # | ^ : n words with c (= capacity: ensure_capacity at equality) / c + 1 / n words; x ^ x = 0; equal top words (shrink)
        x = top_set(rng, n)
        ny = rng.choice([c, c, c + 1, n, n, 2, 1])
        y = rng.choice([top_set(rng, ny), x, x ^ rng.bits(64 * rng.choice([1, 2, 3])), x ^ top_set(rng, max(1, n - 1))])
        o = rng.choice(["uor", "uxor", "uxor", "ior", "ixor"])
        a, b = rng.choice([(d, e), (e, d)])
        return [fw(d, x), fw(e, y) if nwords(y) > 2 else dw(e, y), "%s %s %x %x %x" % (o, form, t, a, b)]
    if k == 18:
        # / : a dividend with len = capacity whose quotient has a top word (push_resizing must reallocate), quotients
        # of 3 / 2 / 1 / 0 words, division by one and two words, by zero with an owned dividend (released)
        x = top_set(rng, n)
        steps = [fw(d, x)]
        if rng.chance(1, 2):
            steps.append("setbit %x %x" % (d, 64 * c - 1))
            nx = c
        else:
            nx = n
        ny = rng.choice([3, 3, max(3, nx - 2), max(3, nx - 1), nx, 2, 1, 0])
        y = rng.choice([1 << (64 * (ny - 1)), top_set(rng, ny) >> rng.choice([1, 32, 63]), top_set(rng, ny)]) if ny else 0
        steps.append(fw(e, y) if nwords(y) > 2 else dw(e, y))
        steps.append("%s %s %x %x %x" % (rng.choice(["udiv", "udiv", "idiv"]), form, t, d, e))
        return steps
    if k == 19:
        # % : remainder of 3 / 2 / 1 / 0 words in the divisor's buffer; dividend shorter than the divisor
        # (from_buffer of the dividend / clone_from_slice into the by-value divisor)
        ny = rng.choice([3, 3, 4, n, n + 1, n + 2])
        y = top_set(rng, ny)
        nx = rng.choice([n, n, n + 3, 3])
        x = rng.choice([top_set(rng, nx), y * top_set(rng, 2) + rng.bits(64 * rng.choice([1, 2, 3])), y * 3])
        a, b = (d, e)
        return [fw(d, x) if nwords(x) > 2 else dw(d, x), fw(e, y), "%s %s %x %x %x" % (rng.choice(["urem", "urem", "irem"]), form, t, a, b)]
    # subtraction / addition of a primitive across the boundary
    x = rng.choice([1 << 128, (1 << 128) + 5, (1 << 128) - 1, 1 << 192])
    return [fw(d, x) if x >> 128 else dw(d, x), "%s %x %s %s" % (rng.choice(["subp", "addp"]), d, rng.choice(["u64", "i64"]), hx(rng.choice([1, 5, 6, M64 >> 1])))]


RING_KINDS = ["new", "res", "res", "mul", "mul", "cf", "cf", "inv", "pow", "pow", "rem", "remv", "div", "rmul", "rinv", "rpow", "rneg"]


def gen_ring(rng, v, fresh=None):
    """modular arithmetic through ConstDivisor / Reduced / Reducer: the Buffer -> Box<[Word]> conversions
    (Buffer::into_boxed_slice) happen for a modulus of >= 3 words; also one- and two-word moduli"""
    d, a = rng.below(4), rng.below(4)
    cand = [i for i in range(4) if nwords(v[i]) >= 3] if rng.chance(3, 4) else [i for i in range(4) if abs(v[i]) >= 2]
    steps = []
    if not cand or fresh or rng.chance(1, 4):
        b = rng.below(4)
        n = rng.choice([1, 2, 3, 3, 3, 4, 5, 8, 9, 16, 17, 33])
        m = gen_mag(rng, n) | rng.choice([0, 1])
        if m < 2:
            m = 3
        steps.append("fw %x %s %x" % (b, hx(m * rng.choice([1, 1, -1])), rng.choice([0, 0, 1])))
    else:
        b = rng.choice(cand)
    kind = rng.choice(RING_KINDS)
    e = rng.choice([0, 0, 1, 2, 3, 5, 17, rng.below(40)])
    steps.append("ring %s %x %x %x %x" % (kind, d, a, b, e))
    return steps


def gen_step(rng, v):
    """one step (or a short list of steps), chosen with knowledge of the current values"""
    if rng.chance(1, 7):
        return gen_boundary(rng)
    d, a, b = rng.below(4), rng.below(4), rng.below(4)
    k = rng.below(100)
    big = [i for i in range(4) if nwords(v[i]) >= 3]
    if k < 12:
        x = gen_value(rng)
        r = rng.below(6)
        if r == 0:
            return "fw %x %s %x" % (d, hx(x), rng.choice([0, 0, 1, 2, 3, 9]))
        if r == 1:
            return "%s %x %s %x" % (rng.choice(["fle", "fbe"]), d, hx(x), rng.choice([0, 0, 1, 7, 8, 9, 17]))
        if r == 2:
            return "ones %x %x" % (d, rng.choice([0, 1, 63, 64, 65, 127, 128, 129, 191, 192, 193, 64 * rng.range(3, 40) + rng.choice([-1, 0, 1]), rng.below(3000)]))
        if r == 3:
            x = gen_mag(rng, rng.choice([0, 1, 2, 2])) * rng.choice([1, -1])
            return "dw %x %s %x" % (d, hx(x), rng.below(2))
        if r == 4:
            ty = rng.choice(["u8", "u16", "u32", "u64", "u128", "usize", "i8", "i16", "i32", "i64", "i128", "isize"])
            bits = {"8": 8, "16": 16, "32": 32, "64": 64, "size": 64, "128": 128}[ty[1:]]
            if ty[0] == "u":
                x = rng.choice([0, 1, (1 << bits) - 1, rng.bits(bits)])
            else:
                x = rng.choice([0, 1, -1, (1 << (bits - 1)) - 1, -(1 << (bits - 1)), rng.bits(bits - 1), -rng.bits(bits - 1)])
            return "prim %x %s %s" % (d, ty, hx(x))
        return "fw %x %s 0" % (d, hx(x))
    if k < 18:
        return "%s %x %x" % (rng.choice(["st", "scf", "scf"]), d, rng.below(7))
    if k < 21:
        return "%s %x %x %x" % (rng.choice(["sadd", "smul"]), d, a, rng.below(7))
    if k < 33:
        # clone_from between values of any sizes (larger / smaller / equal), self patterns
        op = rng.choice(["cf", "cf", "cf", "ucf", "cl"])
        if rng.chance(1, 5):
            a = d
        return "%s %x %x" % (op, d, a)
    if k < 38:
        return rng.choice(["dr %x" % d, "mv %x %x" % (d, a), "sw %x %x" % (d, a), "neg %x" % d, "negr %x %x" % (d, a), "abs %x" % d])
    if k < 60:
        if rng.chance(1, 4):
            b = a
        total = nwords(v[a]) + nwords(v[b])
        ops = ["uadd", "usub", "iadd", "isub", "uadd", "usub", "iadd", "isub", "uand", "uor", "uxor", "iand", "ior", "ixor"]
        if total <= MAXW:
            ops += ["umul", "imul", "umul", "imul", "udiv", "urem", "idiv", "irem", "ugcd"]
        o = rng.choice(ops)
        if o[1:] in ("div", "rem") and v[b] == 0 and rng.chance(7, 8):
            nz = [i for i in range(4) if v[i] != 0]
            if nz:
                b = rng.choice(nz)
        return "%s %s %x %x %x" % (o, rng.choice(FORMS), d, a, b)
    if k < 62:
        e = (d + 1 + rng.below(3)) % 4
        nz = [i for i in range(4) if v[i] > 0]
        if v[b] == 0 and nz and rng.chance(7, 8):
            b = rng.choice(nz)
        return "udivrem %x %x %x %x" % (d, e, a, b)
    if k < 76:
        # shifts that move the length across the thresholds
        x = abs(v[a])
        n = nwords(x)
        form = rng.choice(["v", "r", "a"])
        if rng.chance(1, 2) and n + 1 < MAXW:
            cap = default_cap(n)
            c = [0, 1, 63, 64, 65, 128, 64 * (cap - n - 1), 64 * (cap - n), 64 * (cap - n) + 1, 64 * (cap - n + 1), 64 * rng.range(0, 12) + rng.choice([0, 1, 63])]
            return "%s %s %x %x %x" % (rng.choice(["shl", "shl", "ishl"]), form, d, a, max(0, rng.choice(c)))
        cap = default_cap(n)
        keep = max(0, (cap - 4) * 4 // 5)  # length at which capacity = max_compact_capacity(length)
        c = [0, 1, 63, 64, 65, x.bit_length(), max(0, x.bit_length() - 1), 64 * max(0, n - 2), 64 * max(0, n - 2) + 1, 64 * max(0, n - 3), 64 * max(0, n - 3) + 63,
             64 * max(0, n - keep), 64 * max(0, n - keep - 1), 64 * max(0, n - keep + 1), rng.below(64 * n + 70)]
        return "%s %s %x %x %x" % (rng.choice(["shr", "shr", "ishr"]), form, d, a, max(0, rng.choice(c)))
    if k < 86:
        x = abs(v[d])
        n = nwords(x)
        cap = default_cap(n)
        c = [0, 63, 64, 127, 128, 129, 191, 192, 64 * n - 1, 64 * n, 64 * n + 1, 64 * (n + 1), 64 * cap - 1, 64 * cap, 64 * cap + 64, 64 * rng.range(0, 40) + rng.below(64),
             max(0, x.bit_length() - 1)]
        return "%s %x %x" % (rng.choice(["setbit", "setbit", "clrbit", "clrbit", "chb", "npow2"]), d, max(0, rng.choice(c)))
    if k < 88:
        e = (d + 1 + rng.below(3)) % 4
        x = abs(v[a])
        return "split %x %x %x %x" % (d, e, a, rng.choice([0, 1, 64, 128, 129, 192, max(0, x.bit_length() - 1), x.bit_length(), rng.below(64 * nwords(x) + 70)]))
    if k < 91:
        x = v[a]
        if x == 0 or abs(x) == 1:
            e = rng.below(200)
        else:
            e = rng.range(0, max(1, min(40, (MAXW * 64) // max(1, abs(x).bit_length()))))
        e2 = (d + 1 + rng.below(3)) % 4
        return rng.choice(["pow %x %x %x" % (d, a, e), "sqr %x %x" % (d, a) if nwords(x) * 2 <= MAXW else "sqrt %x %x" % (d, a), "sqrt %x %x" % (d, a),
                           "isqrt %x %x" % (d, a), "sqrtrem %x %x %x" % (d, e2, a), "inot %s %x %x" % (rng.choice(["v", "r"]), d, a)])
    if k < 95:
        ty = rng.choice(["u64", "u8", "i64"])
        x = rng.choice([0, 1, 2, 255, (1 << 64) - 1, 1 << 63, rng.bits(64), -1, -rng.bits(63)])
        op = rng.choice(["addp", "subp", "mulp"])
        if op == "mulp" and nwords(v[d]) + 1 > MAXW:
            op = "addp"
        return "%s %x %s %s" % (op, d, ty, hx(x))
    if k < 97:
        return gen_ring(rng, v)
    if k < 99:
        if rng.chance(1, 4):
            radix = rng.choice([2, 8, 16, 32, 10, 10, 7, 36])
            return "pstr %x %x %s" % (d, radix, gen_text(rng, radix, rng.choice([1, 5, 16, 17, 20, 40, 64, 65, 100, 300]), rng.below(7)))
        kind = rng.choice(["le", "be", "ule", "ube", "words", "parts", "str10", "str16", "str7", "chunks", "u128", "i128", "ubig"])
        if kind == "chunks":
            return "rt %x chunks %x" % (d, rng.choice([1, 7, 63, 64, 65, 128, 200]) if nwords(v[d]) < 40 else 64)
        return "rt %x %s" % (d, kind)
    return "rd %x" % d


def gen_history(rng, tier):
    v = [0, 0, 0, 0]
    n = rng.choice([1, 2, 3, 5, 8, 12, 20, 30, 40])
    steps = []
    while len(steps) < n:
        sts = gen_step(rng, v)
        if isinstance(sts, str):
            sts = [sts]
        w = list(v)
        for st in sts:
            sim(w, st.split())
        if max(nwords(x) for x in w) > 2 * MAXW:
            continue
        v = w
        steps.extend(sts)
    return "hist " + " ; ".join(steps)


SCR_LB = [1, 2, 23, 24, 25, 26, 27, 31, 32, 33, 47, 48, 49, 50, 63, 64, 65, 95, 96, 97, 98, 127, 128, 129, 191, 192, 193, 194, 195, 196, 197, 198,
          199, 200, 255, 256, 257, 288, 289, 290, 383, 384, 385, 500, 574, 575, 576, 577, 578, 579, 580, 600, 700]


def gen_scratch(rng):
    """scr la lb: the scratch memory of an la x lb word product: lb at the thresholds of schoolbook / Karatsuba / Toom-3 (and at the
    lengths whose halves / thirds fall on them), la = lb, a multiple of lb, lb * q + r with r at a threshold again"""
    lb = rng.choice(SCR_LB) if rng.chance(3, 4) else rng.range(1, 640)
    r = rng.choice([0, 0, 1, 24, 25, 26, 49, 97, 192, 193, rng.below(max(1, lb))])
    if r >= lb:
        r = 0
    la = lb * rng.choice([1, 1, 1, 2, 3]) + r
    return "scr %x %x" % (la, lb)


def gen_cases(rng, tier, n):
    out = []
    for i in range(n):
        out.append(gen_scratch(rng) if i % 40 == 7 else gen_history(rng, tier))
    return out


def canon_answer(a):
    # the layout, the ledger and the values do not depend on the build profile
    return a
