"""C03 - float arithmetic honours the documented rounding contract of its mode."""
import os
import sys
import core
from core import hx

# round 3: the fragments behind the theorems about operands longer than the precision, the square root of a cut
# radicand and Context::rem are regenerated into coq/gen/FloatLongParams.v when this plug-in is imported, i.e. before
# the proof phase of every run (tools/check.py has no hook between plug-in load and the Coq build; tools/translate.py
# is shared).  Unparseable source is not an alarm: the previous copy stays (marked STALE), the status is reported in
# the evidence by extra_phase, and the correspondence run alone ties the models.
sys.path.insert(0, os.path.join(core.ROOT, "tools"))
try:
    import translate_c03_r3
    LONG_PARAMS_STATUS = translate_c03_r3.generate(core.REPO, os.path.join(core.COQ, "gen"))
except Exception as _ex:  # the generator itself broke: same fallback as an unparseable source
    LONG_PARAMS_STATUS = "unparsed generator-failed: %s" % str(_ex)[:200]

# round 4: the WHOLE bodies of repr_round_sum / repr_add_large_small / repr_add_small_large / Context::add / sub
# (coq/gen/FloatAddBodies.v) and of Context::mul / sqr / cubic / repr_div / div / inv / sqrt (coq/gen/FloatOpBodies.v) are
# regenerated the same way; Float/FixBodiesProof.v proves them equal to the hand-written models for all inputs.
try:
    import translate_c03_r4
    BODIES_STATUS = translate_c03_r4.generate(core.REPO, os.path.join(core.COQ, "gen"))
except Exception as _ex:
    BODIES_STATUS = {"FloatAddBodies.v": "unparsed generator-failed: %s" % str(_ex)[:200],
                     "FloatOpBodies.v": "unparsed generator-failed: %s" % str(_ex)[:200]}

# a run against a scratch checkout that shares the Coq tree must not leave its fragments behind for other builds
if os.path.realpath(core.REPO) != os.path.realpath("/repo") and "VERIF_COQ" not in os.environ:
    import atexit

    def _restore_fragment():
        try:
            translate_c03_r3.generate("/repo", os.path.join(core.COQ, "gen"))
            translate_c03_r4.generate("/repo", os.path.join(core.COQ, "gen"))
        except Exception:
            pass

    atexit.register(_restore_fragment)


def extra_phase(tier, seed, exes, oracle):
    word = LONG_PARAMS_STATUS.split(" ", 1)[0]
    hist = {"TRANSLATOR_C03_R3:FloatLongParams:" + word: 1}
    samples = [{"fragment": "coq/gen/FloatLongParams.v (tools/translate_c03_r3.py from float/src/mul.rs, root.rs, div.rs, add.rs)",
                "status": LONG_PARAMS_STATUS,
                "tied_by": "C03_long_source_constants (a part whose source fragment no longer exists - the pre-shrinking of mul.rs, "
                           "the single expansion step of repr_round_sum, both removed by the round-4 repairs - keeps its last copy)"}]
    for fname, st in sorted(BODIES_STATUS.items()):
        w = st.split(" ", 1)[0]
        hist["TRANSLATOR_C03_R4:%s:%s" % (fname[:-2], w)] = 1
        samples.append({"fragment": "coq/gen/%s (tools/translate_c03_r4.py: whole function bodies)" % fname,
                        "status": st,
                        "tied_by": ("C03_add_bodies_regenerated" if "Add" in fname else "C03_op_bodies_regenerated") if w == "ok"
                                   else "correspondence run only (source not parsed; previous copy marked STALE)"})
    return {"evaluations": 0, "hist": hist, "nontrivial": [], "samples": samples, "failures": []}


ID = "C03"
READY = True
ORACLE = "c03"
HARNESS_BIN = "c03"
NCASES = {"quick": 20000, "thorough": 400000}
CASE_TIMEOUT = {"quick": 30, "thorough": 120}
MODES = ["Zero", "Away", "Up", "Down", "HalfEven", "HalfAway"]
BASES = [2, 2, 3, 8, 10, 10, 16, 36]

LEVEL_TEXT = ("Coq theorems, all for every base B >= 2, mode, precision p >= 1 and every operand that fits: the six rounding decision "
              "tables regenerated from float/src/round.rs pick exactly the neighbour the mode names (T_round); the specification rounding "
              "meets the documented contract (error < 1, <= 1/2 for nearest modes, side, ties). Round::round_fract is modelled WITH its f32 "
              "log2 pre-filter: for every pair of coarse tests that answer only when the strict comparison holds it equals the exact "
              "comparison (C03_round_fract_filtered), and the two f32 comparisons of the code are such a pair for all sound log2 bounds and "
              "every precision below 2^24 digits - first for every monotone rounding (C03_round_fract_f32), and in round 3 for the rounding "
              "of IEEE binary32 itself, taken from Flocq: fl32 = round radix2 (FLT_exp (-149) 24) ZnearestE is what b32_plus / b32_mult "
              "return without overflow, is monotone, fixes 1 and every integer below 2^24, so no assumption about f32 arithmetic is left "
              "(C03_round_fract_flocq32, C03_fl32_is_binary32_rounding). The as-is models of repr_round / mul / sqr / cubic satisfy the "
              "contract; division: repr_div returns the exact quotient exactly when the scaled remainder is zero, otherwise the "
              "specification rounding of the exact quotient at a digit position keeping p or p+1 digits with a truthful AddOne/SubOne flag "
              "(C03_div_rounded), which is the documented contract clause by clause (C03_rounded_quot_is_the_contract) and, over the reals, "
              "against the real quotient (C03_div_contract_R); Context::div, Context::inv, the four ownership forms of FBig * and /, "
              "operands with different precisions and primitive / IBig operands (C03_ctx_div_inv, C03_mul_div_operator_forms, "
              "C03_primitive_operand_forms); addition/subtraction (far-apart stand-in, three alignment branches, three re-alignment cases, "
              "zero and equal-exponent paths, four operator bodies) return the specification rounding of the exact sum keeping p or p+1 "
              "digits (C03_add, C03_sub, C03_add_operator_forms, C03_rounded_sum_is_the_contract); sqrt rounds the integer root of the "
              "exactly scaled radicand once to exactly p digits (C03_sqrt). ROUND 3, operands LONGER than the precision (outside the "
              "premise of the property, inside what the Context methods accept): Context::add / sub (as repaired) meet the same contract "
              "for operands of ANY length outside the exactly characterised class add_overlong_cancellation, which an effective addition "
              "never enters (C03_add_any_length, C03_sub_any_length, C03_round_sum_any_input, C03_add_same_sign_never_short; "
              "C03_add_overlong_refuted); mul / sqr / cubic / div meet it up to their pre-shrinking thresholds 2p / 2p / 3p / p + "
              "digits(divisor), regenerated from mul.rs (C03_mul_sqr_cubic_upto_thresholds, C03_div_upto_threshold), beyond them the "
              "operand is rounded first (C03_div_beyond_threshold_shrinks; C03_overlong_double_rounding_refuted); sqrt of a radicand of "
              "any length is ONE rounding of sqrt(M/K), M/K the scaled or cut radicand, exact only if nothing was cut off (repaired), with "
              "the tie that appears once a part is cut (C03_sqrt_any_length, C03_sqrt_frac_is_the_contract). Context::rem: the three "
              "alignment cases compute the remainder of least magnitude (ties away) exactly, then ONE rounding (C03_rem, "
              "C03_rem_alignment_cases, C03_rem_least); div_euclid is exact, rem_euclid one rounding of the Euclidean remainder "
              "(C03_euclid); FBig sqr / cubic / sqrt / inv and + / - with primitive operands (C03_unary_forms, C03_primitive_add_forms). "
              "Normalisation: models that contain every Repr::new of the code return a stored Repr (zero = (0,0), else not divisible by "
              "the base, also after a carry) for stored operands and equal the pinned model followed by one normalisation "
              "(C03_results_are_normalised, C03_models_with_normalisation). The executable checker that judges every case is proved sound "
              "for rational exact values (C03_check_contract_sound, C03_rat_exp, C03_cmp_kx, C03_check_contract_magnitude). Every "
              "implementation answer of add/sub/mul/div/sqrt/sqr/cubic/inv (operands that fit AND over-long ones), rem, the Euclidean "
              "forms, the FBig operators in every form and Round::round_fract called directly is decided by that checker / the exact "
              "comparison, must be a normalised Repr, and is compared digit for digit with the models that contain every Repr::new. "
              "ROUND 4: the two findings about operands longer than the precision are REPAIRED in float/src/{add,mul,div}.rs (/repo "
              "b8f1245, 675af08, da565f6) and the theorems are about the repaired code: the expansion step of repr_round_sum is a loop "
              "(fuelled model, the stated fuel always suffices, loop invariant and the exact meaning of its break test: "
              "C03_round_sum_loop_invariant, C03_round_sum_break_test), so repr_round_sum / Context::add / sub return the specification "
              "rounding of the exact sum for operands of ANY length with no exception left (C03_round_sum_repaired, "
              "C03_add_repaired_any_length, C03_sub_repaired_any_length); mul / sqr / cubic round the exact product once and repr_div / "
              "div / inv / FBig / FBig divide an over-long dividend by rhs * B^shift and round the exact quotient once, for operands of ANY "
              "length (C03_mul_sqr_cubic_repaired_any_length, C03_div_repaired_any_length, C03_div_repaired_panics); each repair is "
              "conservative - outside the former class the repaired code computes exactly what the old code computed, so every earlier "
              "theorem (operands that fit, effective additions, thresholds) carries over (C03_*_repair_is_conservative, "
              "C03_former_witnesses_repaired, C03_repaired_results_normalised). The WHOLE bodies of repr_round_sum (with its loop), "
              "repr_add_large_small, repr_add_small_large, Context::add / sub / mul / sqr / cubic / repr_div / div / inv / sqrt are "
              "regenerated from the Rust source on every run by a symbolic executor and proved equal, for all inputs, to the hand-written "
              "models with every Repr::new (C03_add_bodies_regenerated, C03_op_bodies_regenerated). Product for FBig is a chain of "
              "operator steps, each one rounding of the exact product at the running precision max(p_1..p_k), starting from ONE with "
              "unlimited precision (C03_product_is_a_chain_of_roundings). Exponents as machine integers: mul / sqr / cubic with every "
              "exponent computation checked against isize return the unbounded model iff the first exponent sum, the exponent of the "
              "rounded product and the one Repr::new gives it fit, and panic when the first sum does not "
              "(C03_exponent_range_side_conditions).")
LEVEL_NOTE = ("Only compared, not proved: (1) the hand-written models are tied to the code by the correspondence run (model fidelity is "
              "measured and must be 100%) and by the fragments regenerated on every run (rounding tables, add.rs / root.rs constants, the "
              "two literals and the decision order of round_fract's closure, Context::div's pre-shrinking test, repr_div's shifts, and in "
              "round 3 the 2p / 2p / 3p factors and tests of mul.rs, the exactness condition and half test of root.rs, the remainder pick "
              "and exponent of repr_rem, the zero shortcut of Context::sub and the single expansion step of repr_round_sum: "
              "C03_*_source_constants, C03_long_source_constants); (2) that UBig::log2_bounds / Word::log2_bounds really are bounds is a "
              "hypothesis of C03_round_fract_flocq32 (C12's claim), as is precision < 2^24; overflow of the f32 operations is excluded by "
              "magnitude (operands below 2^128), not modelled; (3) the checker's soundness theorem covers rational exact values; for sqrt "
              "the verdict of check_contract on XSqrt values is trusted (the sqrt model itself is proved: C03_sqrt, C03_sqrt_any_length); "
              "(4) the digit estimates digits_ub / digits_lb are abstract: addition holds for every estimate not below the true digit "
              "count, Context::div for every estimate whatsoever when the dividend fits; (5) IBig arithmetic under the float layer is taken "
              "as Z (C01/C02), the ring arithmetic of repr_rem's ConstDivisor branch as Z modulo |rhs| (C13); (6) (round 4) no open finding is left: the former classes (add_overlong_cancellation, overlong_operand_double_rounding) "
              "are repaired and only tag cases in the histogram (cls=long-formerclass-*); the round-3 theorems about the OLD models "
              "(C03_add_any_length, C03_*_upto_thresholds, C03_*_refuted, C03_long_source_constants, C03_div_source_constants) stay as "
              "statements about those Gallina functions - the fragments of the source they were tied to (pre-shrinking of mul.rs and of "
              "Context::div, the single expansion step) no longer exist, so those parts of coq/gen/FloatLongParams.v are frozen copies "
              "(reported as `partial`), the tie to today's code is the whole-body regeneration; "
              "(7) the ownership forms of % and the Euclidean traits are one model each (they clone and forward); "
              "(8) the symbolic executor tools/translate_c03_r4.py is trusted to render the Rust subset it accepts faithfully (atoms "
              "listed in its header: IBig / usize / isize arithmetic as Z, casts as identity, `^ & 1` as parity, Repr::new as normalize, "
              "repr_round as the hand model repr_round_n, digits_ub abstract); the fuel it hands to the loop of repr_round_sum "
              "(low-part precision + 1) is a constant of the translator, proved sufficient (C03_round_sum_loop_invariant); "
              "(9) exponent range: only mul / sqr / cubic are modelled with machine exponents; for add / sub the run covers exponent "
              "gaps up to 2^64 - 1 against the unbounded model (the gap is formed without overflow since /repo abdd8e0, another "
              "engineer's repair), div / sqrt / inv are not modelled with bounded exponents; a build WITHOUT overflow checks wraps "
              "where the harness profile panics (Context::mul(2e(isize::MAX), 3e1) = 6e(isize::MIN) in a release probe): not "
              "observable by this check, reported to C16; "
              "(10) Sum for FBig is not modelled (Product is).")
TECHNIQUE = "Coq proof (rounding tables, constants and WHOLE function bodies of add / sub / mul / div / sqrt regenerated from source and proved equal to the models, contract theorems for operands of any length over the repaired code, Flocq binary32 for the f32 filter, proved-sound contract checker) + extracted checker on a correspondence run"
RULE = ("cases = op x base {2,3,8,10,16,36} x six modes x precision {1..5, 7, 10, 17, 24, 53, 64, 100 (1000+ thorough)} x operand "
        "shapes: significand digit counts {1, 2, p-1, p}, exponent gaps {0, 1, p-d, p, p+1, p+2, just beyond / far beyond the "
        "precision, huge}, constructed ties and near-ties (half an ulp +- one unit of a far lower digit), cancellation to zero or one "
        "digit, carries into a new digit, perfect squares +-1 for sqrt, divisors that are powers of the base's factors; * and / with "
        "operands of different precisions and with primitive / big-integer operands (incl. trailing zero digits, zero, beyond i64) in "
        "every ownership form; Round::round_fract called directly in bases {2,3,5,7,8,10,16,36} with low parts equal to, next to and "
        "within 1e-6 .. 5e-2 (in log2) of one half at precisions of 1..300 bits and 8 000 .. 60 000 bits (to 400 000 in the thorough "
        "tier, clustered at 8192/16384/32768/65536 where the f32 spacing doubles). Round 3 (about 10 % of the cases): the Context "
        "methods with operands LONGER than p - addl/subl with digit counts {1, p, p+1, p+2, 2p, 2p+1, 3p+2} on either side, every "
        "exponent gap class, constructed cancellations (low operand = high operand shifted +- 1 .. B^gap) that reach the class "
        "add_overlong_cancellation and its border; mull/sqrl/cubicl/divl/invl at the thresholds 2p, 3p, p+digits(rhs) -1/0/+1 and far "
        "beyond; sqrtl with 2p-1 .. 4p+1 digits, perfect-square prefixes with zero / non-zero cut-off part, the exact tie "
        "(remainder = root, cut-off part = 1/4) +-1; rem / % / rem_euclid / div_euclid / div_rem_euclid in every ownership form with "
        "the three exponent cases, ties of the nearest quotient, exact multiples, over-long dividends, zero divisors; Inverse for "
        "FBig / &FBig; float (+|-) primitive / big integer in both orders. "
        "Round 4: constructed multi-round cancellations for the loop of repr_round_sum (the aligned sum cancels to a value j = 0 .. gap-1 "
        "digits below the rounding position, to a power of the base minus / plus a little, to exactly a power) on both operand "
        "orders; Product for FBig with 0 .. 4 factors of different precisions by value and by reference (prod); exponents next "
        "to isize::MAX / isize::MIN (mulx / sqrx / cubicx with the first exponent sum, the rounded and the normalised exponent "
        "-3p .. +100 around the border, addx / subx with exponent gaps up to 2^64 - 1; exponent token `min` = isize::MIN). "
        "non-trivial = the exact result is not representable (rounding happened) or an alignment branch other than the trivial one ran; "
        "counted by the oracle (cls=inexact-*) over distinct case texts.")
EXPLANATION = ("The verdict of every arithmetic case is computed by Contract.check_contract (Coq, extracted; proved sound for rational "
               "values in ContractProof.v): |r-x| < ulp_p(x), <= ulp/2 for HalfEven/HalfAway, side for Zero/Away/Up/Down, Exact iff r = x, "
               "AddOne/SubOne truthful, x representable => exact, at most p+1 digits; the returned Repr must be normalised. x is the exact "
               "rational (or square root) of the operands; for rem it is lhs - n * rhs with n the quotient rounded to nearest, ties away, "
               "for rem_euclid lhs - q * rhs with 0 <= x < |rhs| (div_euclid must return that q). Over-long operands (ops ending in l) "
               "are judged by the same contract, without exception since the repairs of round 4 (the former classes only tag the case). "
               "prod: the answer must be the chain of operator steps of Float/IterModel.v (each step proved to be one rounding of the "
               "exact product), precision = the largest precision of the factors (0 for the empty product). Ops ending in x (exponents "
               "next to isize::MAX / MIN): the exact value cannot be formed (B^exponent), the answer must be the proved model - for mul "
               "/ sqr / cubic the model with machine exponents: a panic iff an exponent computation leaves isize. "
               "rfract cases: the answer must be the one the exact comparison gives (Model.round_fract).")
TRUSTED_BASE = [
    "Coq 8.16.1 kernel; the four standard-library axioms of the classical reals (used only by the statements about f32 bounds / Flocq's binary32 and by the checker-soundness theorems); Flocq 4.1.0 (installed library) for IEEE binary32",
    "tools/translate.py renders the six round_low_part bodies of float/src/round.rs and the listed constants / conditions of add.rs, root.rs, round.rs, div.rs faithfully; tools/translate_c03_r3.py (strict regular expressions; reports unparsed and keeps the last copy otherwise) the factors / tests of mul.rs, the exactness condition and half test of root.rs, the pick and exponent of repr_rem, the zero shortcut of Context::sub, the expansion shift of repr_round_sum",
    "tools/translate_c03_r4.py (round 4): a symbolic executor for the Rust subset of float/src/{add,mul,div,root}.rs (let / tuple patterns / deferred let, assignment and += -= on variables, tuple and Repr fields, in-place helpers, if / match as statement or expression, early return, one while loop with break, closures of map / and_then / then_with / round_low_part) with the atom table in its header; reports unparsed and keeps the last copy otherwise; the loop fuel (low-part precision + 1) is its constant",
    "extraction: ExtrOcamlBasic + ExtrOcamlZBigInt + coq/extract/FastZ.v directives; zarith 1.12; oracle/driver_c03.ml computes the exact result of the operands as a fraction (sum, product, quotient, nearest / Euclidean remainder)",
    "harness/src/bin/c03.rs and hlib (values moved through raw words, Repr::new, Context::new)",
    "IBig arithmetic below the float layer behaves as Z (C01, C02, C09, C12 sqrt_rem); the modular ring used by repr_rem behaves as Z modulo |rhs| (C13)",
    "UBig::log2_bounds and Word::log2_bounds enclose log2 (C12): hypothesis of C03_round_fract_flocq32, additionally sampled by the rfract cases; the f32 operations of the filter do not overflow (magnitudes below 2^40)",
    "check_contract on square-root exact values (XSqrt) has no soundness theorem",
]
ASSUMPTIONS = [
    "operands are finite and fit the context precision (digits <= p), as the property states (the round-3 / round-4 theorems and cases about longer operands go beyond this premise)",
    "exponents: the models compute in Z; results whose exponents leave isize are outside the property (documented: the operation panics) - modelled for mul / sqr / cubic only",
    "ulp_p(x) = B^(floor(log_B |x|) - p + 1)",
]


def bpow(b, k):
    return b ** k


def gen_sig(rng, b, d):
    """a significand with exactly d base-b digits"""
    if d <= 0:
        return 0
    lo, hi = b ** (d - 1), b ** d - 1
    k = rng.below(8)
    if k == 0:
        return hi
    if k == 1:
        return lo
    if k == 2:
        return lo + 1 if lo + 1 <= hi else lo
    if k == 3:
        return hi - 1 if hi - 1 >= lo else hi
    if k == 4:
        # top digit + zeros + low digit
        return min(hi, rng.range(1, b - 1) * lo + rng.below(b))
    return rng.range(lo, hi)


def precisions(rng, tier):
    c = [1, 1, 2, 2, 3, 3, 4, 5, 7, 10, 17, 24, 53, 64, 100]
    if tier == "thorough":
        c += [200, 1000, 3000]
    return rng.choice(c)


def fmt(op, b, mode, p, *vals):
    return "%s %x %s %x %s" % (op, b, mode, p, " ".join(hx(v) for v in vals))


def gen_addsub(rng, tier, b, p):
    d1 = rng.choice([1, 2, max(1, p - 1), p, p, p])
    d1 = min(d1, p)
    d2 = min(rng.choice([1, 2, max(1, p - 1), p, p]), p)
    s1 = gen_sig(rng, b, d1)
    s2 = gen_sig(rng, b, d2)
    k = rng.below(14)
    e1 = rng.choice([0, 0, 1, -1, 5, -7, 40, -40, 300, -300])
    gaps = [0, 1, 2, p - d1, p - d1 + 1, max(0, p - d1 - 1), p, p + 1, p + 2, d2, d2 + 1, d2 + 2, d2 + 3,
            p + d2, p + d2 + 1, p + d2 + 2, p + d2 + 3, 2 * p + 5, 3 * p + 17, 2000 if tier == 'quick' else 100000]
    gap = max(0, rng.choice(gaps))
    e2 = e1 - gap
    if k == 0:
        # exact tie or near tie for even bases: rhs = half a unit of lhs's last kept digit
        if b % 2 == 0:
            # lhs has p digits at exponent e1; rhs = (b/2) * b^(e1-1) [+- tiny]
            s1 = gen_sig(rng, b, p)
            s2 = b // 2
            e2 = e1 - 1
            t = rng.below(3)
            if t == 1 and p > 1:
                j = rng.range(1, max(1, p - 1))
                s2 = s2 * b ** j + rng.choice([1, -1])
                e2 = e2 - j
    elif k == 1:
        # cancellation: nearly equal magnitudes, opposite effective sign
        s2 = s1 + rng.choice([0, 1, -1, b, -b])
        e2 = e1
        if s2 <= 0:
            s2 = s1
    elif k == 2:
        # carry into a new digit
        s1 = b ** d1 - 1
    elif k == 3:
        # lhs shorter than p, rhs far away (the far-apart branch with expansion)
        d1 = rng.range(1, max(1, p - 1))
        s1 = gen_sig(rng, b, d1)
        gap = d2 + rng.choice([2, 3, 4]) + p - d1 + rng.choice([0, 1, 2, 10])
        e2 = e1 - gap
    sg1 = rng.choice([1, -1])
    sg2 = rng.choice([1, -1])
    if rng.chance(1, 2):
        s1, e1, s2, e2 = s2, e2, s1, e1
    if rng.chance(1, 40):
        s2 = 0
    if rng.chance(1, 60):
        s1 = 0
    op = rng.choice(["add", "sub", "add", "sub", "add_vv", "add_vr", "add_rv", "add_rr", "sub_vv", "sub_vr", "sub_rv", "sub_rr",
                     "add_assign", "sub_assign"])
    return fmt(op, b, rng.choice(MODES), p, sg1 * s1, e1, sg2 * s2, e2)


def gen_mul(rng, tier, b, p):
    d1 = min(rng.choice([1, 2, max(1, p - 1), p, p]), p)
    d2 = min(rng.choice([1, 2, max(1, p - 1), p, p]), p)
    s1, s2 = gen_sig(rng, b, d1), gen_sig(rng, b, d2)
    e1 = rng.choice([0, 1, -3, 17, -300, 300])
    e2 = rng.choice([0, -1, 4, -17, 299, -301])
    op = rng.choice(["mul", "mul", "mul", "mul_vv", "mul_vr", "mul_rv", "mul_rr", "mul_assign"])
    if rng.chance(1, 50):
        s2 = 0
    return fmt(op, b, rng.choice(MODES), p, rng.choice([1, -1]) * s1, e1, rng.choice([1, -1]) * s2, e2)


def gen_unary(rng, tier, b, p):
    d1 = min(rng.choice([1, 2, max(1, p - 1), p, p]), p)
    s1 = gen_sig(rng, b, d1)
    e1 = rng.choice([0, 1, -3, 17, -300, 301])
    op = rng.choice(["sqr", "cubic", "sqr", "cubic", "fsqr", "fcubic"])
    if rng.chance(1, 50):
        s1 = 0
    return fmt(op, b, rng.choice(MODES), p, rng.choice([1, -1]) * s1, e1)


def gen_div(rng, tier, b, p):
    d1 = min(rng.choice([1, 2, max(1, p - 1), p, p]), p)
    d2 = min(rng.choice([1, 1, 2, max(1, p - 1), p, p]), p)
    s1, s2 = gen_sig(rng, b, d1), gen_sig(rng, b, d2)
    k = rng.below(8)
    if k == 0:
        # divisor made of the prime factors of the base: quotient terminates (exact or tie candidates)
        fs = [f for f in (2, 3, 5) if b % f == 0]
        s2 = 1
        for _ in range(rng.range(1, 6)):
            s2 *= rng.choice(fs)
        if len(core.hx(s2)) and s2 >= b ** p:
            s2 = rng.choice(fs)
    elif k == 1:
        s1 = s2 * rng.range(1, b ** min(p, 3))  # exact quotient
        if s1 >= b ** p:
            s1 = s2
    elif k == 2:
        s2 = s1 + rng.choice([1, -1]) if s1 > 1 else 3  # quotient just below/above 1
    e1 = rng.choice([0, 1, -3, 17, -300, 300])
    e2 = rng.choice([0, -1, 4, -17, 299, -301])
    if rng.chance(1, 60):
        s2 = 0
    if rng.chance(1, 40):
        s1 = 0
    if rng.chance(1, 6):
        return fmt(rng.choice(["inv"]), b, rng.choice(MODES), p, rng.choice([1, -1]) * s2, e2)
    op = rng.choice(["div", "div", "div", "div_vv", "div_vr", "div_rv", "div_rr", "div_assign"])
    return fmt(op, b, rng.choice(MODES), p, rng.choice([1, -1]) * s1, e1, rng.choice([1, -1]) * s2, e2)


def isqrt(n):
    import math
    return math.isqrt(n)


def gen_sqrt(rng, tier, b, p):
    d1 = min(rng.choice([1, 2, max(1, p - 1), p, p]), p)
    s1 = gen_sig(rng, b, d1)
    k = rng.below(6)
    if k == 0:
        r = isqrt(s1)
        s1 = max(1, r * r + rng.choice([0, 0, 1, -1]))
        if s1 >= b ** p:
            s1 = r * r if r * r > 0 else 1
    elif k == 1 and p >= 2:
        # (r + 1/2)^2 neighbourhood: squares of numbers ending in the half digit
        h = max(1, (p + 1) // 2)
        r = gen_sig(rng, b, h)
        s1 = min(b ** p - 1, r * r + r + rng.choice([0, 1, -1]))
    e1 = rng.choice([0, 1, -1, 2, -3, 17, -300, 301, 6, -6])
    if rng.chance(1, 50):
        s1 = 0
    sg = -1 if rng.chance(1, 40) else 1
    return fmt(rng.choice(["sqrt", "sqrt", "sqrt", "fsqrt"]), b, rng.choice(MODES), p, sg * s1, e1)


def ndigits(v, b):
    v = abs(v)
    d = 0
    while v:
        v //= b
        d += 1
    return d


def valid(text):
    """operands must fit the precision (the property's premise); also used by the shrinker"""
    t = text.split()
    if t[0] == "prod":
        b = int(t[1], 16)
        return len(t) >= 3 and (len(t) - 3) % 3 == 0 and all(
            int(t[i], 16) >= 1 and ndigits(core.unhx(t[i + 1]), b) <= int(t[i], 16) for i in range(3, len(t), 3))
    b, p = int(t[1], 16), int(t[3], 16)
    if t[0] == "rfract":
        # Round::round_fract's own precondition: |fract| < B^precision
        return len(t) == 6 and abs(core.unhx(t[5])) < b ** p
    if t[0].startswith("mulp_") or t[0].startswith("divp_"):
        # each operand fits the precision of its own context
        return len(t) == 9 and p >= 1 and int(t[8], 16) >= 1 and ndigits(core.unhx(t[4]), b) <= p and ndigits(core.unhx(t[6]), b) <= int(t[8], 16)
    if t[0] in XRANGE_OPS:
        return p >= 1 and len(t) in (6, 8)
    if t[0] in LONG_OPS or t[0] == "rem":
        # round 3: the Context methods take any Repr - operands of any length
        return p >= 1 and len(t) in (6, 8)
    if t[0].startswith("addprim_") or t[0].startswith("subprim_"):
        return len(t) == 8 and p >= 1 and t[7] == "0" and ndigits(core.unhx(t[4]), b) <= p
    if t[0].startswith("mulprim_") or t[0].startswith("divprim_"):
        # the primitive operand gets the precision of its own digit count
        return len(t) == 8 and p >= 1 and t[7] == "0" and ndigits(core.unhx(t[4]), b) <= p
    sigs = [t[4]] + ([t[6]] if len(t) > 6 else [])
    return p >= 1 and all(ndigits(core.unhx(x), b) <= p for x in sigs)


LOG2_MILLI = {2: 1000, 3: 1585, 5: 2322, 7: 2807, 8: 3000, 10: 3322, 16: 4000, 36: 5170}


def gen_rfract(rng, tier, big):
    """Round::round_fract called directly: low parts at / next to / within a few thousandths (in log2) of one half,
    at precisions whose bit size runs through the range where the f32 products lose the 0.001 margin"""
    b = rng.choice([2, 3, 5, 7, 8, 10, 16, 36])
    if big:
        bits = rng.range(10000, 60000)
        if tier == "thorough" and rng.chance(1, 12):
            bits = rng.range(60000, 400000)
        if rng.chance(1, 6):
            # just around the powers of two where the f32 spacing doubles
            bits = rng.choice([8192, 16384, 32768, 65536]) + rng.range(-40, 40)
    else:
        bits = rng.range(1, 300)
    k = max(1, bits * 1000 // LOG2_MILLI[b])
    bk = b ** k
    half = bk // 2
    t = rng.below(7)
    if t == 0:
        f = half + rng.choice([0, 0, 1, -1, 2, -2])
    elif t == 1 or t == 2:
        # |log2(2 f) - k log2 B| ~ j * 1.4e-6: from far inside the 0.001 margin to well outside it
        j = rng.choice([1, -1]) * rng.range(1, rng.choice([50, 700, 1500, 40000]))
        f = (bk * ((1 << 20) + j)) >> 21
    elif t == 3:
        f = half + rng.choice([1, -1]) * (1 << rng.below(max(1, bk.bit_length() - 1)))
    elif t == 4:
        f = rng.range(1, bk - 1) if bk > 2 else 1
    elif t == 5:
        f = rng.choice([1 + rng.below(3), bk - 1 - rng.below(3)])
    else:
        f = 1 << max(0, bk.bit_length() - 1 - rng.below(3))
    f = min(max(f, 1), bk - 1)
    if rng.chance(1, 50):
        f = 0
    i = rng.choice([0, 1, 2, 3, -1, -2, -3, 7, 8, -7, -8, rng.range(-1000, 1000)])
    return "rfract %x %s %x %s %s" % (b, rng.choice(MODES), k, hx(i), hx(rng.choice([1, -1]) * f))


def gen_two_prec(rng, tier, b):
    """FBig * FBig and FBig / FBig whose operands carry different precisions (Context::max)"""
    p1, p2 = precisions(rng, tier), precisions(rng, tier)
    d1 = min(rng.choice([1, 2, max(1, p1 - 1), p1, p1]), p1)
    d2 = min(rng.choice([1, 2, max(1, p2 - 1), p2, p2]), p2)
    s1, s2 = gen_sig(rng, b, d1), gen_sig(rng, b, d2)
    if rng.chance(1, 40):
        s2 = 0
    if rng.chance(1, 40):
        s1 = 0
    e1 = rng.choice([0, 1, -3, 17, -300, 300])
    e2 = rng.choice([0, -1, 4, -17, 299, -301])
    op = rng.choice(["mulp", "divp"]) + "_" + rng.choice(["vv", "vr", "rv", "rr", "assign"])
    return "%s %x %s %x %s %s %s %s %x" % (op, b, rng.choice(MODES), p1, hx(rng.choice([1, -1]) * s1), hx(e1),
                                          hx(rng.choice([1, -1]) * s2), hx(e2), p2)


def gen_prim(rng, tier, b, p):
    """float (op) primitive / big integer and the mirrored forms: the integer is converted by FBig::from first"""
    d1 = min(rng.choice([1, 2, max(1, p - 1), p, p]), p)
    s1 = gen_sig(rng, b, d1)
    k = rng.below(6)
    if k == 0:
        n = rng.range(0, 9)
    elif k == 1:
        n = b ** rng.range(0, 12) * rng.range(1, b)          # trailing zero digits: Repr::new strips them
    elif k == 2:
        n = rng.range(1, 1 << 62)
    elif k == 3:
        n = rng.range(1 << 63, 1 << 130)                     # beyond i64: the IBig operand forms
    else:
        n = gen_sig(rng, b, rng.choice([1, 2, p, p + 1, 2 * p + 1]))
    if rng.chance(1, 30):
        n = 0
    if rng.chance(1, 40):
        s1 = 0
    e1 = rng.choice([0, 1, -3, 17, -300, 300])
    op = rng.choice(["mulprim_fi", "mulprim_if", "divprim_fi", "divprim_if"])
    return fmt(op, b, rng.choice(MODES), p, rng.choice([1, -1]) * s1, e1, rng.choice([1, -1]) * n, 0)


LONG_OPS = ("addl", "subl", "mull", "divl", "sqrl", "cubicl", "sqrtl", "invl")
XRANGE_OPS = ("addx", "subx", "mulx", "sqrx", "cubicx")
IMAX = (1 << 63) - 1


def hexp(e):
    """an exponent token: isize::MIN is spelled `min` (the harness helper cannot read it)"""
    return "min" if e == -(1 << 63) else hx(e)


def gen_cancel_rounds(rng, tier, b, p):
    """round 4: effective subtractions of an over-long operand in which the expansion loop of repr_round_sum runs more
    than once: the aligned sum cancels to a value that sits j digits below the rounding position (j = 1 .. gap), to a
    power of the base minus a little (the break test's second clause), to zero plus / minus one unit of the last digit"""
    d1 = rng.choice([1, 2, p, p + 1])
    s1 = gen_sig(rng, b, d1)
    gap = rng.choice([2, 3, p + 1, p + 2, 2 * p + 1, 3 * p + 2])
    j = rng.range(0, gap - 1)
    k = rng.below(6)
    if k == 0:
        rest = rng.choice([1, b - 1, rng.range(1, b ** (j + 1))])                     # a few digits, j places down
    elif k == 1:
        rest = b ** (j + 1) - rng.choice([1, 2, b - 1, rng.range(1, max(1, b ** j))])   # just below a power of the base
    elif k == 2:
        rest = b ** j                                                                # exactly a power of the base
    elif k == 3:
        rest = b ** (j + 1) + rng.choice([1, -1]) * rng.range(1, max(1, b ** j))       # around a power
    elif k == 4:
        rest = rng.range(1, b ** min(gap, p + 2))
    else:
        rest = gen_sig(rng, b, rng.range(1, gap))
    sgn = rng.choice([1, -1])
    s2 = s1 * b ** gap + sgn * rest
    if s2 <= 0:
        s2 = s1 * b ** gap + rest
    e1 = rng.choice([0, 3, -7, 40])
    e2 = e1 - gap
    sg = rng.choice([1, -1])
    op = rng.choice(["addl", "subl"])
    sg2 = sg if op == "subl" else -sg
    if rng.chance(1, 2):
        return fmt(op, b, rng.choice(MODES), p, sg * s1, e1, sg2 * s2, e2)
    return fmt(op, b, rng.choice(MODES), p, sg2 * s2, e2, sg * s1, e1) if op == "addl" else fmt(op, b, rng.choice(MODES), p, -sg2 * s2, e2, -sg * s1, e1)


def gen_prod(rng, tier, b):
    """Product for FBig: 0 .. 4 factors with their own precisions (by value and by reference)"""
    n = rng.choice([0, 1, 2, 2, 3, 3, 4])
    toks = []
    for _ in range(n):
        p = precisions(rng, tier)
        d = min(rng.choice([1, 2, max(1, p - 1), p, p]), p)
        s = gen_sig(rng, b, d)
        if rng.chance(1, 40):
            s = 0
        toks += ["%x" % p, hx(rng.choice([1, -1]) * s), hx(rng.choice([0, 1, -3, 17, -300]))]
    return "prod %x %s %s" % (b, rng.choice(MODES), " ".join(toks)) if toks else "prod %x %s" % (b, rng.choice(MODES))


def gen_xrange(rng, tier, b, p):
    """exponents next to isize::MAX / isize::MIN: mul / sqr / cubic whose first exponent sum, rounded exponent or
    normalised exponent crosses the border (-2 .. +2 around it), add / sub with exponent gaps of 2^63 and more"""
    m = rng.choice(MODES)
    k = rng.below(10)
    d1 = min(rng.choice([1, 2, p, p]), p)
    d2 = min(rng.choice([1, 2, p]), p)
    s1, s2 = gen_sig(rng, b, d1), gen_sig(rng, b, d2)

    def stored(v):
        # the operands themselves must be representable: no trailing zero digit that Repr::new would move into the exponent
        while v % b == 0:
            v //= b
        return v
    s1, s2 = stored(s1), stored(s2)
    if k < 4:
        # product exponent lands t beyond / before the border; the carry / trailing zeros of the product decide
        top = rng.chance(1, 2)
        t = rng.choice([-3 * p - 4, -2 * p, -p - 1, -2, -1, 0, 1, 2, p, 100])
        e2 = rng.choice([0, 1, -1, 5, -5, 1 << 40, -(1 << 40)])
        e1 = (IMAX + t - e2) if top else (-IMAX - 1 - t - e2)
        e1 = max(-IMAX - 1, min(IMAX, e1))
        if rng.chance(1, 3):
            s1 = rng.choice([5, 2, 25, 4]) if b in (10,) else s1      # trailing zeros of the product: Repr::new raises the exponent
            s2 = rng.choice([2, 5, 4, 25]) if b in (10,) else s2
        return "mulx %x %s %x %s %s %s %s" % (b, m, p, hx(rng.choice([1, -1]) * s1), hexp(e1), hx(rng.choice([1, -1]) * s2), hexp(e2))
    if k < 6:
        top = rng.chance(1, 2)
        t = rng.choice([-2 * p - 3, -2, -1, 0, 1, 2, 50])
        half = (IMAX + t) // 2 if top else -((IMAX + 1 + t) // 2)
        return "sqrx %x %s %x %s %s" % (b, m, p, hx(rng.choice([1, -1]) * s1), hexp(half + rng.choice([0, 1, -1])))
    if k < 7:
        top = rng.chance(1, 2)
        t = rng.choice([-3 * p - 4, -3, 0, 3, 60])
        third = (IMAX + t) // 3 if top else -((IMAX + 1 + t) // 3)
        return "cubicx %x %s %x %s %s" % (b, m, p, hx(rng.choice([1, -1]) * s1), hexp(third + rng.choice([0, 1, -1])))
    # add / sub: the larger operand stays clear of the top border (a carry must not overflow), gaps up to 2^64 - 1
    e_hi = rng.choice([IMAX - 3, IMAX - 40, 1 << 62, 5, 0, -(1 << 62)])
    e_lo = rng.choice([-IMAX - 1, -IMAX, -IMAX + 7, -(1 << 62), -2, e_hi - IMAX, e_hi - IMAX - 1, e_hi - IMAX + 1])
    e_lo = max(-IMAX - 1, min(e_lo, e_hi))
    op = rng.choice(["addx", "subx"])
    a, ea, c, ec = s1, e_hi, s2, e_lo
    if rng.chance(1, 2):
        a, ea, c, ec = c, ec, a, ea
    return "%s %x %s %x %s %s %s %s" % (op, b, m, p, hx(rng.choice([1, -1]) * a), hexp(ea), hx(rng.choice([1, -1]) * c), hexp(ec))



def gen_long_addsub(rng, tier, b, p):
    """Context::add / sub with operands LONGER than the precision (round 3): every alignment branch with an over-long
    operand on either side, and effective subtractions that cancel to a few digits (finding add_overlong_cancellation)"""
    lens = [1, p, p + 1, p + 2, 2 * p, 2 * p + 1, 3 * p + 2]
    d1, d2 = rng.choice(lens), rng.choice(lens)
    if d1 <= p and d2 <= p:
        d2 = p + rng.choice([1, 2, p, 2 * p + 1])
    s1, s2 = gen_sig(rng, b, d1), gen_sig(rng, b, d2)
    e1 = rng.choice([0, 1, -1, 5, -7, 40, -40])
    gap = max(0, rng.choice([0, 1, 2, p - 1, p, p + 1, d2, d2 + 1, d2 + 2, d2 + 3, p + d2, p + d2 + 2, d1, d1 + p, 2 * p + 5, 3 * p + d2 + 4]))
    e2 = e1 - gap
    sg1, sg2 = rng.choice([1, -1]), rng.choice([1, -1])
    op = rng.choice(["addl", "subl"])
    k = rng.below(10)
    if k < 4:
        # cancellation: the low operand is (almost) the high one shifted, so the aligned sum is 0, +-1, a few units
        gap = rng.choice([1, 2, p, p + 1, p + 2, 2 * p + 1])
        e2 = e1 - gap
        t = rng.choice([1, 1, 2, b - 1, b, b + 1, b ** max(1, gap - 1) - 1, b ** gap - 1, b ** gap + 1, rng.range(1, b ** gap)])
        s2 = s1 * b ** gap + rng.choice([1, -1]) * t
        if s2 <= 0:
            s2 = s1 * b ** gap + t
        # effective subtraction
        sg2 = sg1 if op == "subl" else -sg1
    elif k == 4:
        s1 = 0 if rng.chance(1, 2) else s1
        if s1 != 0:
            s2 = 0
    if rng.chance(1, 2):
        s1, e1, s2, e2 = s2, e2, s1, e1
    return fmt(op, b, rng.choice(MODES), p, sg1 * s1, e1, sg2 * s2, e2)


def gen_long_muldiv(rng, tier, b, p):
    """mul / sqr / cubic / div / inv at the pre-shrinking thresholds 2p, 3p, p + digits(rhs) -1/0/+1 and beyond"""
    k = rng.below(12)
    m = rng.choice(MODES)
    e1 = rng.choice([0, 1, -3, 17, -300])
    e2 = rng.choice([0, -1, 4, -17, 299])
    if k >= 10:
        # round 4: operands on which ANY pre-rounding of the long operand shows (whatever threshold a future shrink uses):
        # a p-digit head, then zeros and a last digit far below (a first rounding is inexact, the second sees an exact
        # value: wrong flag / wrong side), or - even bases - head | b/2-1 | b-1 ... b-1 | digit above one half (the first
        # rounding creates a tie that is not there); the other operand is tiny so that the product keeps the pattern
        L = rng.choice([2 * p + 1, 2 * p + 3, 3 * p + 1, 3 * p + 4, 4 * p + 2, 6 * p + 3])
        head = gen_sig(rng, b, p)
        low_digits = L - p
        if b % 2 == 0 and low_digits >= 3 and rng.chance(1, 2):
            cut = rng.range(1, low_digits - 2)                     # the run of b-1 digits ends `cut` digits below the half digit
            low = (b // 2 - 1) * b ** (low_digits - 1) + (b ** (low_digits - 1) - b ** (low_digits - 1 - cut)) \
                + rng.range(b // 2 + 1, b - 1) * b ** max(0, low_digits - 2 - cut)
            low = min(low, b ** low_digits - 1)
        else:
            low = rng.choice([1, b - 1, b ** rng.range(0, max(0, low_digits - p - 1))])
        s1 = head * b ** low_digits + low
        s2 = rng.choice([1, 1, 2, b + 1, 3])
        op = rng.choice(["mull", "mull", "sqrl", "cubicl", "divl"])
        if op in ("sqrl", "cubicl"):
            return fmt(op, b, m, p, rng.choice([1, -1]) * s1, e1)
        if rng.chance(1, 2) and op == "mull":
            s1, s2 = s2, s1
        return fmt(op, b, m, p, rng.choice([1, -1]) * s1, e1, rng.choice([1, -1]) * s2, e2)
    if k < 3:
        d1 = rng.choice([p + 1, 2 * p - 1, 2 * p, 2 * p + 1, 2 * p + 2, 3 * p + 1])
        d2 = rng.choice([1, p, p + 1, 2 * p, 2 * p + 1])
        s1, s2 = gen_sig(rng, b, max(1, d1)), gen_sig(rng, b, d2)
        if rng.chance(1, 2):
            s1, s2 = s2, s1
        return fmt("mull", b, m, p, rng.choice([1, -1]) * s1, e1, rng.choice([1, -1]) * s2, e2)
    if k < 5:
        d1 = rng.choice([p + 1, 2 * p - 1, 2 * p, 2 * p + 1, 2 * p + 2, 4 * p])
        return fmt("sqrl", b, m, p, rng.choice([1, -1]) * gen_sig(rng, b, max(1, d1)), e1)
    if k < 7:
        d1 = rng.choice([p + 1, 3 * p - 1, 3 * p, 3 * p + 1, 3 * p + 2, 5 * p])
        return fmt("cubicl", b, m, p, rng.choice([1, -1]) * gen_sig(rng, b, max(1, d1)), e1)
    if k < 9:
        d2 = rng.choice([1, 2, p, p + 1, 2 * p + 1])
        d1 = max(1, p + d2 + rng.choice([-1, 0, 1, 2, p]))
        s1, s2 = gen_sig(rng, b, d1), gen_sig(rng, b, d2)
        if rng.chance(1, 4):
            s1 = s2 * gen_sig(rng, b, max(1, d1 - d2))      # exact quotient of an over-long dividend
        return fmt("divl", b, m, p, rng.choice([1, -1]) * s1, e1, rng.choice([1, -1]) * s2, e2)
    return fmt("invl", b, m, p, rng.choice([1, -1]) * gen_sig(rng, b, rng.choice([p + 1, 2 * p, 3 * p + 1])), e2)


def gen_long_sqrt(rng, tier, b, p):
    """Context::sqrt of a radicand longer than p: up to 2p digits it is scaled up, beyond that cut - perfect-square
    prefixes with a zero / non-zero cut-off part, the exact tie (remainder = root and cut-off part = 1/4)"""
    k = rng.below(8)
    e1 = rng.choice([0, 1, -1, 2, -3, 17, -300, 301])
    if k < 3:
        d = rng.choice([p + 1, 2 * p - 1, 2 * p, 2 * p + 1, 2 * p + 2, 3 * p, 4 * p + 1])
        s = gen_sig(rng, b, max(1, d))
    else:
        r = gen_sig(rng, b, p)
        j = rng.choice([1, 2, 3, 4, p, 2 * p + 1])
        bj = b ** j
        if k == 3:
            s = r * r * bj + rng.choice([0, 1, bj - 1, bj // 2])
        elif k == 4:
            s = (r * r + r) * bj + bj // 4 + rng.choice([0, 0, 1, -1, rng.range(1, max(1, bj // 4)), -rng.range(0, bj // 4)])   # at / next to / around the tie
        elif k == 5:
            s = (r * r + r) * bj + rng.choice([0, 1, bj - 1])
        elif k == 6:
            s = (r * r + rng.choice([1, r - 1, r + 1, 2 * r])) * bj + rng.range(0, bj - 1)
        else:
            s = (r * r - 1) * bj + bj - 1                                      # just below a perfect square
        e1 -= rng.choice([0, 1])
    return fmt("sqrtl", b, rng.choice(MODES), p, max(s, 0), e1)


def gen_rem(rng, tier, b, p):
    """Context::rem, FBig % FBig, rem_euclid / div_euclid / div_rem_euclid: the three exponent cases, ties of the
    nearest quotient, exact multiples, results longer than the precision, zero divisor"""
    d1 = min(rng.choice([1, 2, max(1, p - 1), p, p]), p)
    d2 = min(rng.choice([1, 1, 2, max(1, p - 1), p]), p)
    s1, s2 = gen_sig(rng, b, d1), gen_sig(rng, b, d2)
    e1 = rng.choice([0, 1, -3, 17, -40])
    e2 = e1 + rng.choice([0, 0, 1, -1, 2, -2, p, -p, p + 2, -p - 2, 3 * p, -3 * p])
    k = rng.below(8)
    if k == 0 and s2 % 2 == 0:
        s1 = (s2 // 2) * (2 * rng.range(0, b) + 1)       # quotient ends in .5 when the exponents agree
        e2 = e1
    elif k == 1:
        s1 = s2 * rng.range(0, b ** min(p, 3))           # exact multiple
    if rng.chance(1, 40):
        s2 = 0
    if rng.chance(1, 40):
        s1 = 0
    op = rng.choice(["rem", "rem", "rem", "rem", "rem", "rem", "rem_vv", "rem_vr", "rem_rv", "rem_rr", "rem_assign",
                     "remeuc_vv", "remeuc_vr", "remeuc_rv", "remeuc_rr",
                     "diveuc_vv", "diveuc_vr", "diveuc_rv", "diveuc_rr",
                     "divremeuc_vv", "divremeuc_vr", "divremeuc_rv", "divremeuc_rr"])
    if op == "rem" and rng.chance(1, 2):
        # Context::rem takes any Repr: only a dividend longer than p can leave a remainder that has to be rounded
        s1 = gen_sig(rng, b, rng.choice([p + 1, 2 * p, 2 * p + 3]))
        if rng.chance(2, 3):
            e2 = e1 + rng.choice([0, 1, 2, p])
            s2 = gen_sig(rng, b, rng.choice([p, p + 1, 2 * p]))
    return fmt(op, b, rng.choice(MODES), p, rng.choice([1, -1]) * s1, e1, rng.choice([1, -1]) * s2, e2)


def gen_forms3(rng, tier, b, p):
    """Inverse for FBig / &FBig, float (+|-) primitive / big integer in both orders"""
    d1 = min(rng.choice([1, 2, max(1, p - 1), p, p]), p)
    s1 = gen_sig(rng, b, d1)
    e1 = rng.choice([0, 1, -3, 17, -300, 300])
    if rng.chance(1, 5):
        if rng.chance(1, 30):
            s1 = 0
        return fmt(rng.choice(["finv", "finv_r"]), b, rng.choice(MODES), p, rng.choice([1, -1]) * s1, e1)
    k = rng.below(6)
    if k == 0:
        n = rng.range(0, 9)
    elif k == 1:
        n = b ** rng.range(0, 12) * rng.range(1, b)
    elif k == 2:
        n = rng.range(1, 1 << 62)
    elif k == 3:
        n = rng.range(1 << 63, 1 << 130)
    else:
        n = gen_sig(rng, b, rng.choice([1, 2, p, p + 1, 2 * p + 1]))
    if rng.chance(1, 30):
        n = 0
    if rng.chance(1, 40):
        s1 = 0
    e1 = rng.choice([0, 1, -1, -3, 3, p, -p, 17, -40])
    op = rng.choice(["addprim_fi", "addprim_if", "subprim_fi", "subprim_if"])
    return fmt(op, b, rng.choice(MODES), p, rng.choice([1, -1]) * s1, e1, rng.choice([1, -1]) * n, 0)


def gen_cases(rng, tier, n):
    out = []
    for c in gen_cases_raw(rng, tier, 2 * n + 100):
        if valid(c):
            out.append(c)
            if len(out) >= n:
                break
    return out


def gen_cases_raw(rng, tier, n):
    out = []
    # the large round_fract cases are long (up to 100 kB each): a fixed share, not a percentage of a large n
    nbig = min(max(n // 60, 40), 3000 if tier == "thorough" else 350)
    for _ in range(nbig):
        out.append(gen_rfract(rng, tier, True))
    while len(out) < n:
        b = rng.choice(BASES)
        p = precisions(rng, tier)
        k = rng.below(100)
        if k < 29:
            out.append(gen_addsub(rng, tier, b, p))
        elif k < 40:
            # round 3 shares the budget of the addition cases
            j = rng.below(12)
            pl = rng.choice([1, 1, 2, 2, 3, 4, 5, 7, 10, 17])
            if j < 2:
                out.append(gen_long_addsub(rng, tier, b, pl))
            elif j < 3:
                out.append(gen_cancel_rounds(rng, tier, b, pl))
            elif j < 5:
                out.append(gen_long_muldiv(rng, tier, b, pl))
            elif j < 7:
                out.append(gen_long_sqrt(rng, tier, b, pl))
            elif j < 10:
                out.append(gen_rem(rng, tier, b, p))
            else:
                out.append(gen_forms3(rng, tier, b, p))
        elif k < 53:
            out.append(gen_mul(rng, tier, b, p))
        elif k < 60:
            out.append(gen_unary(rng, tier, b, p))
        elif k < 76:
            out.append(gen_div(rng, tier, b, p))
        elif k < 81:
            out.append(gen_two_prec(rng, tier, b))
        elif k < 86:
            out.append(gen_prim(rng, tier, b, p))
        elif k < 87:
            out.append(gen_rfract(rng, tier, False))
        elif k < 88:
            out.append(gen_prod(rng, tier, b) if rng.chance(1, 2) else gen_xrange(rng, tier, b, rng.choice([1, 2, 3, 5, 10])))
        else:
            out.append(gen_sqrt(rng, tier, b, p))
    return out
