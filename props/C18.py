"""C18 - rational approximation functions return the optimal fraction they promise."""
import math
import os
import struct
import sys
import core
from core import hx, gen_mag

# The ErrorBounds table (float/src/round.rs, six `impl ErrorBounds for mode::X`) is regenerated into
# coq/gen/ErrorBoundsTable.v when this plug-in is imported, i.e. before the proof phase of every run
# (tools/check.py has no hook between plug-in load and the Coq build; tools/translate.py is shared and
# not ours to edit).  Theorem C18_error_bounds_table proves the hand-written as-is model equal to the
# regenerated table.  Unparseable source is not an alarm: the committed copy stays (marked STALE), the
# status is reported in the evidence by extra_phase, and the correspondence run alone ties the model.
sys.path.insert(0, os.path.join(core.ROOT, "tools"))
try:
    import translate_c18
    EB_TABLE_STATUS = translate_c18.generate(core.REPO, os.path.join(core.COQ, "gen"))
except Exception as _ex:  # the generator itself broke: same fallback as an unparseable source
    EB_TABLE_STATUS = "unparsed generator-failed: %s" % str(_ex)[:200]
# round 3: the pure bodies of rational/src/simplify.rs (is_simpler_than, one iteration of the loops of
# farey_neighbors and Repr::simplest_in with their start values and assertions, the step of next_up/down,
# the selection of nearest) and the order of Sign -> coq/gen/SimplifyGen.v; proved equal to the as-is models
# in Ratio/SimplifyGenProof.v (C18_*_regenerated).
try:
    import translate_c18_r3
    SIMPLIFY_GEN_STATUS = translate_c18_r3.generate(core.REPO, os.path.join(core.COQ, "gen"))
except Exception as _ex:
    SIMPLIFY_GEN_STATUS = "unparsed generator-failed: %s" % str(_ex)[:200]

# round 4: WHOLE bodies in continuation-passing style -> coq/gen/SimplestFloatGen.v (FBig::ulp, Context::max,
# with_precision, add_ref_val, Repr::try_from, simplest_from_float) and coq/gen/SimplifyBodiesGen.v (Repr/RBig::simplest_in,
# nearest, next_up, next_down); proved equal to the as-is models in Ratio/SimplestDeepProof.v / SimplifyBodiesProof.v.
try:
    import translate_c18_r4
    R4_STATUS = translate_c18_r4.generate(core.REPO, os.path.join(core.COQ, "gen"))
except Exception as _ex:
    R4_STATUS = {"SimplestFloatGen": "unparsed generator-failed: %s" % str(_ex)[:200],
                 "SimplifyBodiesGen": "unparsed generator-failed: %s" % str(_ex)[:200]}

# A run against a scratch checkout (VERIF_REPO, seeded-change experiments) must not leave the fragments of
# that checkout in the tree for other builds: regenerate from /repo when the process ends.
if os.path.realpath(core.REPO) != os.path.realpath("/repo"):
    import atexit

    def _restore_table():
        try:
            translate_c18.generate("/repo", os.path.join(core.COQ, "gen"))
            translate_c18_r3.generate("/repo", os.path.join(core.COQ, "gen"))
            translate_c18_r4.generate("/repo", os.path.join(core.COQ, "gen"))
        except Exception:
            pass

    atexit.register(_restore_table)


def extra_phase(tier, seed, exes, oracle):
    word = EB_TABLE_STATUS.split(" ", 1)[0]
    word3 = SIMPLIFY_GEN_STATUS.split(" ", 1)[0]
    w4f = R4_STATUS["SimplestFloatGen"].split(" ", 1)[0]
    w4b = R4_STATUS["SimplifyBodiesGen"].split(" ", 1)[0]
    stale = "correspondence run only (source not parsed; committed copy marked STALE)"
    r4_samples = [
        {"fragment": "coq/gen/SimplestFloatGen.v (tools/translate_c18_r4.py from float/src/{fbig,repr,convert,add}.rs, "
                     "rational/src/third_party/dashu_float.rs)", "status": R4_STATUS["SimplestFloatGen"],
         "tied_by": "C18_simplest_from_float_deep_is_asis, C18_float_bounds_deep_interval, C18_fbig_add_exact" if w4f == "ok" else stale},
        {"fragment": "coq/gen/SimplifyBodiesGen.v (tools/translate_c18_r4.py from rational/src/simplify.rs)",
         "status": R4_STATUS["SimplifyBodiesGen"],
         "tied_by": "C18_simplest_in_body_regenerated, C18_nearest_body_regenerated, C18_next_up_body_regenerated, "
                    "C18_next_down_body_regenerated" if w4b == "ok" else stale}]
    return {
        "evaluations": 0,
        "hist": {"translator_c18:ErrorBoundsTable:" + word: 1, "translator_c18_r3:SimplifyGen:" + word3: 1,
                 "translator_c18_r4:SimplestFloatGen:" + w4f: 1, "translator_c18_r4:SimplifyBodiesGen:" + w4b: 1},
        "nontrivial": [],
        "samples": [{"fragment": "coq/gen/ErrorBoundsTable.v (tools/translate_c18.py from float/src/round.rs)", "status": EB_TABLE_STATUS,
                     "tied_by": "C18_error_bounds_table" if word == "ok" else "correspondence run only (source not parsed; committed copy marked STALE)"},
                    {"fragment": "coq/gen/SimplifyGen.v (tools/translate_c18_r3.py from rational/src/simplify.rs, base/src/sign.rs)",
                     "status": SIMPLIFY_GEN_STATUS,
                     "tied_by": "C18_is_simpler_than_regenerated, C18_sign_order_regenerated, C18_farey_step_regenerated, "
                                "C18_farey_neighbors_regenerated, C18_cf_step_regenerated, C18_cf_loop_regenerated, "
                                "C18_nudge_regenerated, C18_nearest_selection_regenerated" if word3 == "ok"
                     else "correspondence run only (source not parsed; committed copy marked STALE)"}] + r4_samples,
        "failures": [],
    }

ID = "C18"
READY = True
ORACLE = "c18"
HARNESS_BIN = "c18"
NCASES = {"quick": 9000, "thorough": 200000}
CASE_TIMEOUT = {"quick": 30, "thorough": 120}

LEVEL_TEXT = ("Machine-checked Coq theorems for all inputs: the Stern-Brocot recursion that specifies simplest_in returns a canonical "
              "fraction strictly inside the interval whose numerator and denominator are both minimal among all fractions inside "
              "(hence nothing inside is simpler) and never runs out of fuel; the as-is model of Repr::simplest_in (sign dispatch "
              "incl. zero end points, abs, swap, equal end points, two-sided continued-fraction loop with its convergent "
              "accumulators, the debug assertion, reduce) equals that specification for every pair of end points, does not depend "
              "on the order of its arguments, returns 0 for end points of different sign and never panics; the Farey mediant "
              "walk of farey_neighbors keeps b*c-a*d=1 and left<=x<right, its reduce() is the identity, it stops within limit+1 "
              "steps and its exit pair are the neighbours of x in F_limit; the models of next_up/next_down (1/(limit^2+1) nudge, "
              "split_at_point, IBig+RBig) return the successor/predecessor in F_limit, nearest returns Exact iff the denominator "
              "fits and otherwise a neighbour that no element of F_limit beats, with the sign of result-self; limit 0 is the "
              "documented panic; is_simpler_than is the documented lexicographic strict total order. REGENERATED from "
              "rational/src/simplify.rs and base/src/sign.rs on every run (coq/gen/SimplifyGen.v) and proved equal to the as-is "
              "models for all inputs (C18_*_regenerated): the body of is_simpler_than with the order of Sign, one iteration of the "
              "loop of farey_neighbors (symbolically executed) with its start pair and its three debug assertions, one iteration "
              "of the loop of Repr::simplest_in (mem::swap/take/replace executed symbolically) with the start values of the "
              "accumulators, the step denominator of next_up/next_down and the midpoint selection of nearest. Float side: (1) the "
              "rounding interval used by the SPECIFICATION is proved to be exactly the preimage of the float under its rounding "
              "rule: C18_spec_round_preimage characterises, for the six modes, the integers N/d that the shared spec_round sends "
              "to r; C18_float_interval_is_preimage: for every base >= 2, mode, precision p >= 1, non-zero significand of at most "
              "p digits and exponent, a canonical fraction is a member of float_interval_spec iff rounding it to p significant "
              "digits gives the float - including the B-times narrower part below a power of the base and odd bases; "
              "C18_ieee_interval_is_preimage: the same for every binary format and every finite non-zero bit pattern against "
              "round-to-nearest-even with the position clamped at emin (subnormals); and the EXECUTABLE roundings round_to_prec / "
              "ieee_round with which the oracle re-checks every case are proved to be those declarative relations "
              "(C18_round_to_prec_is_rounds_to, C18_ieee_round_is_rounds_to: the p-digit window holds at exactly one position and "
              "the digit-count estimate plus one comparison finds it; rounding is functional). (2) the selection step (open-interval "
              "optimum, then the optional end points) returns THE simplest canonical fraction of the interval, and the code after "
              "error_bounds / inside impl_simplest_from_float! is exactly that step. (3) the ErrorBounds table of float/src/round.rs "
              "(six modes, the helpers is_power_of_base / towards_zero of the repair of F07) is regenerated from the source on "
              "every run and the hand-written as-is model of error_bounds is proved equal to it for every base, mode, precision, "
              "exponent and non-zero significand (C18_error_bounds_table). (4) outside the ONE open finding class F06 (odd base "
              "with a half mode) the as-is model of simplest_from_float (normalisation, ErrorBounds of the six modes incl. the "
              "repaired HalfEven parity test and the repaired bounds of a power of the base, f-+bound) equals the specification "
              "for every base >= 2, mode, precision, significand and exponent; at unlimited precision for every mode without "
              "exception (F08, F09 repaired); the as-is model of the repaired impl_simplest_from_float! (f32/f64) equals the "
              "specification for every format and EVERY bit pattern: None for every infinity/NaN pattern, 0 for both zeros, "
              "subnormals, powers of two, both signs (F04 repaired, no class left). The open defect (F06) is modelled as-is and "
              "refuted by a witness; the repaired ones (F01-F05, F07-F09) stay refuted on the earlier bodies. ROUND 4: (5) the bounds are "
              "no longer taken at value level: the DEEP as-is model forms them the way the code does - R::error_bounds as FBig values "
              "(regenerated table; regenerated FBig::ulp, the half_ulp edit, towards_zero), .with_precision(p+1).unwrap() (regenerated "
              "body over C10's repr_round), &FBig - FBig / &FBig + FBig (regenerated add_ref_val over C03's models of Context::max, "
              "repr_round, repr_add_small_large / repr_add_large_small / repr_round_sum with an arbitrary sound digits_ub, FBig::new "
              "normalising), RBig::try_from (regenerated Repr::try_from, reduce) - inside the REGENERATED body of simplest_from_float "
              "(continuation-passing translation of the whole function); C18_simplest_from_float_deep_is_asis proves it equal to the "
              "value-level model for every base >= 2, mode, precision (0 included), normalised significand of at most p digits, "
              "exponent and digit estimate: the FBig subtraction/addition is EXACT because the sum has at most p+1 digits "
              "(C18_fbig_add_exact from C03's rounded_sum contract; C18_error_bounds_rows_good, re-proved over the regenerated table: "
              "towards_zero is only applied to the bound on the side of zero); C18_float_bounds_deep_interval: the interval the code "
              "actually forms IS the specified preimage interval outside F06; C18_simplest_from_float_deep_unless_known / _unlimited: "
              "deep model = specification. (6) simplest_from_f32/f64 over C06's as-is model of FloatEncoding::decode (cited: "
              "C06_decode_f32/f64) = bit-level model = specification for every bit pattern of the width "
              "(C18_simplest_from_f32/f64_over_decode). (7) WHOLE bodies regenerated and proved equal to the as-is models for all "
              "inputs: Repr::simplest_in (sign dispatch with the early return, abs, cmp/swap/equal end points, the state with which "
              "the loop is entered, the debug assertion, unsigned_abs * sign) + RBig::simplest_in around the regenerated loop step, "
              "nearest / next_up / next_down around farey_neighbors (C18_*_body_regenerated). (8) F06 decision recorded with a "
              "machine-checked witness: conservative bounds floor(B/2) would be sound but not optimal "
              "(C18_F06_conservative_not_optimal).")
LEVEL_NOTE = ("Trusted: Coq kernel, extraction (FastZ.v), zarith, OCaml driver, Rust harness. IBig/UBig arithmetic, Repr::cmp and RBig "
              "add/reduce are Z/Q mathematics (C01/C02/C04's business). Since round 4 the FBig side of simplest_from_float is modelled "
              "at Repr level on C03's add models and C10's repr_round (cited, not re-proved here): what remains trusted there is "
              "that those models are the code (C03/C10's correspondence runs; here additionally the op float_bounds compares "
              "error_bounds, with_precision and the two sums of the real FBig code with the deep model digit for digit, stored "
              "significand / exponent / context precision), the model of Repr::digits (exact digit count; digits_ub any sound "
              "estimate - the run evaluates the exact and the worst admissible one) and the hand-written semantics of the atoms the "
              "translators read (TRUSTED_BASE). f32/f64: decode is C06's model; is_infinite / is_nan / == 0. / to_bits are read "
              "off the bit pattern (primitive operations of Rust). 'Rounds to the float' is stated declaratively (rounds_to / "
              "ieee_rounds_to) and proved equivalent to the executable round_to_prec / ieee_round of the oracle. Only compared, not "
              "proved: Repr::split_at_point and IBig + RBig inside nearest/next_up/next_down are value-level atoms (C10/C04's "
              "business); the loop of farey_neighbors and of Repr::simplest_in is tied one iteration at a time (round 3) and the "
              "fuel of the models is a proved bound, not something the code has. F06 (odd base, half modes) stays open: it needs "
              "bounds that are not FBig<_, B> (API change); the conservative variant is sound but not optimal (recorded, not applied). "
              "Performance: next_up/next_down/nearest walk the Stern-Brocot path one mediant at a time - the number of steps is linear "
              "in limit/denominator (C16 finding farey_linear_steps); the classical O(log) continued-fraction algorithm would be a "
              "rewrite of farey_neighbors, recorded only; the run bounds limit/denominator for values that already fit. If a source "
              "file cannot be parsed by tools/translate_c18.py / _r3.py / _r4.py the tie of that fragment falls back to the "
              "correspondence run (reported in the evidence, not an alarm).")
TECHNIQUE = "Coq proof (Stern-Brocot minimality, Farey invariant, rounding preimages, exactness of the FBig bound arithmetic from C03's add contract) + as-is models down to Repr level + whole function bodies regenerated into Coq on every run (CPS translation) + extracted-spec correspondence run"
RULE = ("cases = API x input class. simplest_in: end points equal / swapped / both negative / sign-straddling / zero or integer "
        "end points / adjacent convergents of one continued fraction (deep two-sided descent, exact-division branch) / "
        "denominators of 1,2,3 words at 2^64k-1,0,+1. nearest/next_up/next_down: values built from continued fractions (terms "
        "1..60, occasionally one large term), integers, both signs, limit in {0,1,2,3, den-1, den, den+1, convergent denominators "
        "+-1, 2^64+-1, random}. simplest_from_f32/f64: +-0, min/max subnormal, min normal, every kind of power of two, "
        "2^k +- 1ulp, exponents around the integer threshold (ulp = 1/2,1,2), MAX, inf, NaN payloads, quotients n/d of small "
        "integers, random bits. simplest_from_float: base in {2,3,5,7,8,10,16,36} x six modes x precision in "
        "{0,1,2,3,5,10,20,53,64,100} x significand {1 digit..p digits, power of the base, all-max digits, B^k+-1, random} x sign "
        "x exponent classes, +-inf, 0; a third of the finite non-zero floats also as float_bounds (error_bounds, with_precision and the "
        "two sums of the real code, stored Reprs and context precisions, against the deep model; verdict: the end points are the "
        "specified preimage interval). A case is non-trivial when the oracle evaluated the Coq specification on a non-degenerate "
        "input (limit > 0, finite float); distinct = distinct case texts.")
EXPLANATION = ("Theorems (coq/props/C18.v) cover every interval, limit and fraction; the implementation is tied to them (a) by "
               "regenerating the small pure bodies of rational/src/simplify.rs and the ErrorBounds table of float/src/round.rs into "
               "Coq on every run and re-proving that they equal the as-is models, and (b) by running each API on generated inputs "
               "and judging the answer with the extracted specification: simplest_in/simplest_from_* by equality with the specified "
               "optimum, next_up/next_down/nearest by the proved criterion 'the simplest fraction strictly between x and the answer "
               "has a denominator above the limit'. Model fidelity (asis=same) requires the hand-written as-is model, the regenerated "
               "whole body and - for floats - the deep Repr-level model (two digit estimates) / the macro over C06's decoder to agree "
               "with each other and with the implementation.")
TRUSTED_BASE = [
    "Coq 8.16.1 kernel (coqc); no axioms (Print Assumptions: closed under the global context)",
    "extraction: ExtrOcamlBasic + ExtrOcamlZBigInt + the Extract Constant directives of coq/extract/FastZ.v",
    "OCaml 4.13.1 + zarith 1.12, oracle/common.ml, oracle/driver_c18.ml; Rust harness harness/src/bin/c18.rs",
    "value-level modelling of IBig/UBig/Repr::cmp/RBig::add/reduce/split_at_point; the FBig add/sub forming the rounding bounds is modelled on C03's add models (Float/AddModel.v: repr_add_small_large, repr_add_large_small, repr_round_sum) and C10's repr_round / norm_approx (Float/Model.v, Float/RoundOpsModel.v), whose fidelity is C03/C10's correspondence run and, for the bounds themselves, the op float_bounds of this run",
    "C06's as-is model decode_asis of FloatEncoding::decode (Conv/ConvModel.v) and its theorem decode_f32_correct / decode_f64_correct (pinned as C06_decode_f32/f64), cited by C18_simplest_from_f32/f64_over_decode",
    "tools/translate_c18_r4.py (parser of tools/translate.py via translate_c18_r3.P3 + a continuation-passing translator of whole function bodies): reads FBig::ulp, Context::max, FBig::with_precision, add_ref_val, TryFrom<FBigRepr> for Repr, RBig::simplest_from_float into coq/gen/SimplestFloatGen.v and Repr::simplest_in, RBig::simplest_in, nearest, next_up, next_down into coq/gen/SimplifyBodiesGen.v; hand-written semantics of its atoms: f.repr().is_infinite()/is_zero(), precision(), context.repr_round(_ref) / repr_add_* as calls of C03's models, Repr::new as normalize, .value() as approx_val, Approximation::unwrap as 'panic on Inexact', Self::try_from(fbig).unwrap() as reduce(Repr::try_from), Sign * Repr / UBig * Sign as signed, RBig +/- RBig and IBig + RBig as reduced sums, split_at_point, `x.denominator <<= k`, panic_divide_by_0(), debug_assert! as a panic, assert_finite_operands skipped (finite operands only)",
    "tools/translate_c18_r3.py (tokenizer/parser of tools/translate.py + a symbolic executor for straight-line loop bodies): reads is_simpler_than, the loops of farey_neighbors and Repr::simplest_in, the step of next_up/next_down, the selection of nearest (rational/src/simplify.rs) and impl Ord for Sign (base/src/sign.rs) into coq/gen/SimplifyGen.v at plug-in import; its reading of numerator()/denominator()/sign()/abs_cmp/cmp/then_with/is_lt/reduce/div_rem/mem::swap/take/replace and of Repr comparison as cross multiplication is hand-written semantics of those atoms",
    "Float/RoundSpec.v spec_round (shared with C03/C06/C08/C10, tied to the regenerated round_low_part tables by C03_T_round) as the meaning of rounding an exact quotient to an integer; Ratio/FloatPreimage.v rounds_to and Ratio/IeeePreimage.v ieee_rounds_to as the meaning of 'x rounds to the float'",
    "tools/translate_c18.py (reuses the tokenizer/parser of tools/translate.py): reads the six ErrorBounds bodies and the helpers is_power_of_base / towards_zero of float/src/round.rs into coq/gen/ErrorBoundsTable.v at plug-in import; the reading of f.ulp()/half_ulp/f.repr.digits()/significand.bit(0)/significand.abs_cmp(&IBig::ONE).is_eq() as EBUlp/EBHalfUlp/dg/Z.odd/(|sig| = 1) and eb_eval's 'ulp panics at precision 0' are hand-written semantics of those atoms",
    "the executable round_to_prec / ieee_round of the oracle are proved equivalent to rounds_to / ieee_rounds_to (Ratio/RoundExecProof.v); nothing trusted there beyond extraction",
]
ASSUMPTIONS = [
    "RBig::from_parts / numerator() / denominator() and FBig::from_repr transport values faithfully (raw words, no parser)",
    "FBig inputs have at most `precision` significant digits (the invariant FBig::from_repr asserts)",
    "isize exponents of generated floats stay far from overflow",
]

BASES = [2, 3, 5, 7, 8, 10, 16, 36]
MODES = ["Zero", "Away", "Up", "Down", "HalfEven", "HalfAway"]


def cf_value(terms):
    """continued fraction [a0; a1, ...] -> (n, d) in lowest terms"""
    n, d = 1, 0
    for a in reversed(terms):
        n, d = a * n + d, n
    return n, d


def cf_terms(rng, depth, big=False):
    t = []
    for i in range(depth):
        k = rng.below(10)
        if k < 6:
            t.append(rng.range(1, 4))
        elif k < 9:
            t.append(rng.range(1, 60))
        else:
            t.append(rng.range(60, 3000) if big else rng.range(1, 200))
    return t


def q(n, d):
    g = math.gcd(n, d)
    if d < 0:
        n, d = -n, -d
    return "%s %s" % (hx(n // g), hx(d // g))


def gen_frac(rng, small=False):
    k = rng.below(8)
    if k == 0:
        return rng.range(-5, 5), 1
    if k == 1:
        n, d = cf_value([rng.range(0, 5)] + cf_terms(rng, rng.range(1, 6)))
    elif k == 2 and not small:
        d = gen_mag(rng, rng.choice([1, 2, 3])) + rng.choice([-1, 0, 1])
        d = max(d, 1)
        n = rng.below(4 * d + 1)
    elif k == 3 and not small:
        n, d = cf_value([rng.range(0, 3)] + cf_terms(rng, rng.range(20, 120)))
    else:
        d = rng.range(1, 40)
        n = rng.range(0, 3 * d)
    if rng.chance(1, 3):
        n = -n
    return n, d


def gen_simplest_in(rng):
    k = rng.below(14)
    if k == 0:
        n, d = gen_frac(rng)
        return "simplest_in %s %s" % (q(n, d), q(n, d))
    if k == 1:  # zero / integer end points
        n, d = gen_frac(rng)
        z = rng.choice([0, 0, 1, -1, rng.range(-4, 4)])
        a, b = q(n, d), q(z, 1)
        return "simplest_in %s %s" % ((a, b) if rng.chance(1, 2) else (b, a))
    if k == 2:  # integer end points both
        a = rng.range(-6, 6)
        b = a + rng.choice([0, 1, 1, 2, 3, -1, -2])
        return "simplest_in %s %s" % (q(a, 1), q(b, 1))
    if k in (3, 4, 5):  # neighbouring convergents / shared continued-fraction prefix
        pre = [rng.range(0, 4)] + cf_terms(rng, rng.range(0, 40 if k == 3 else 8))
        t1 = pre + cf_terms(rng, rng.range(0, 3))
        t2 = pre + cf_terms(rng, rng.range(0, 3))
        if k == 5:
            t2 = pre + [rng.range(1, 5)]
            t1 = pre
        n1, d1 = cf_value(t1)
        n2, d2 = cf_value(t2)
        s = rng.choice([1, 1, -1])
        a, b = q(s * n1, d1), q(s * n2, d2)
        return "simplest_in %s %s" % ((a, b) if rng.chance(1, 2) else (b, a))
    if k == 6:  # very narrow interval around a big fraction
        n, d = gen_frac(rng)
        e = gen_mag(rng, rng.choice([1, 2, 3])) + rng.choice([-1, 0, 1])
        e = max(e, 2)
        s = rng.choice([1, -1])
        return "simplest_in %s %s" % (q(n, d), q(n * e + s * d, d * e))
    if k == 7:  # straddling zero
        n1, d1 = gen_frac(rng)
        n2, d2 = gen_frac(rng)
        return "simplest_in %s %s" % (q(-abs(n1) - rng.below(2), d1), q(abs(n2) + rng.below(2), d2))
    if k == 8:  # Farey neighbours (b*c - a*d = 1): nothing simple in between
        t = [rng.range(0, 3)] + cf_terms(rng, rng.range(1, 12))
        n1, d1 = cf_value(t)
        n0, d0 = cf_value(t[:-1]) if len(t) > 1 else (1, 0)
        if d0 == 0:
            n0, d0 = n1 + 1, d1
        s = rng.choice([1, -1])
        a, b = q(s * n1, d1), q(s * n0, d0)
        return "simplest_in %s %s" % ((a, b) if rng.chance(1, 2) else (b, a))
    n1, d1 = gen_frac(rng)
    n2, d2 = gen_frac(rng)
    if k == 9:
        n1, n2 = -abs(n1), -abs(n2)
    return "simplest_in %s %s" % (q(n1, d1), q(n2, d2))


def gen_farey(rng):
    op = rng.choice(["nearest", "next_up", "next_down"])
    k = rng.below(10)
    big = rng.chance(1, 6)
    if k == 0:
        n, d = rng.range(-6, 6), 1
        terms = [abs(n)]
    else:
        terms = [rng.range(0, 5)] + cf_terms(rng, rng.range(1, 30 if not big else 90), big=rng.chance(1, 8))
        n, d = cf_value(terms)
        if rng.chance(1, 2):
            n = -n
    # limits: around the denominators of the convergents, around d, words
    conv = [cf_value(terms[:i])[1] for i in range(1, len(terms) + 1)]
    c = [0, 1, 1, 2, 3, d - 1, d, d + 1, 2 * d, rng.choice(conv), rng.choice(conv) + 1, max(1, rng.choice(conv) - 1),
         rng.range(1, 50), rng.range(1, max(2, d))]
    if d > (1 << 60):
        c += [(1 << 64) - 1, 1 << 64, (1 << 64) + 1]
    L = max(0, rng.choice(c))
    # the walk of a value that already fits takes about limit/den steps: keep it bounded
    if op != "nearest" and d <= L and L > 30000 * d:
        L = d * rng.range(1, 3000) + rng.below(d)
    return "%s %s %s" % (op, q(n, d), hx(L))


def f32_bits(x):
    return struct.unpack("<I", struct.pack("<f", x))[0]


def f64_bits(x):
    return struct.unpack("<Q", struct.pack("<d", x))[0]


def gen_ieee(rng, single):
    mb, eb = (23, 8) if single else (52, 11)
    bias = (1 << (eb - 1)) - 1
    emax = (1 << eb) - 1
    k = rng.below(16)
    sign = rng.below(2)
    if k == 0:
        E, M = 0, rng.choice([0, 1, 2, 3, (1 << mb) - 1, (1 << mb) - 2, 1 << (mb - 1), rng.bits(mb)])
    elif k == 1:
        E, M = emax, rng.choice([0, 0, 1, 1 << (mb - 1), rng.bits(mb)])
    elif k == 2:  # powers of two and their neighbours
        E = rng.choice([1, 2, 3, bias - 1, bias, bias + 1, bias + mb - 1, bias + mb, bias + mb + 1, bias + mb + 2, emax - 1, rng.range(1, emax - 1)])
        M = rng.choice([0, 0, 0, 1, (1 << mb) - 1])
    elif k == 3:  # around the exponent where ulp = 1
        E = bias + mb + rng.choice([-2, -1, 0, 1, 2, 3, 10])
        M = rng.choice([0, 1, 2, rng.bits(mb), rng.bits(mb) | 1, rng.bits(mb) & ~1])
    elif k == 4:
        E, M = emax - 1, rng.choice([(1 << mb) - 1, (1 << mb) - 2, 0, rng.bits(mb)])
    elif k in (5, 6, 7, 8, 9):  # quotients of small integers
        n = rng.range(1, 3000 if k < 8 else 10 ** 7)
        d = rng.range(1, 3000 if k < 8 else 10 ** 6)
        x = n / d
        if k == 9:
            x = x * 2.0 ** rng.range(-40, 40)
        b = f32_bits(x) if single else f64_bits(x)
        b += rng.choice([0, 0, 0, 0, 1, -1])
        return "%s %x" % ("from_f32" if single else "from_f64", (b & ((1 << (mb + eb)) - 1)) | (sign << (mb + eb)))
    elif k == 10:
        E, M = rng.range(bias - 30, bias + 30), rng.bits(mb) & ~((1 << rng.range(0, mb)) - 1)
    else:
        E, M = rng.range(0, emax - 1), rng.bits(mb)
    return "%s %x" % ("from_f32" if single else "from_f64", (sign << (mb + eb)) | (E << mb) | M)


def gen_float(rng):
    B = rng.choice(BASES)
    md = rng.choice(MODES)
    p = rng.choice([0, 1, 1, 2, 2, 3, 3, 5, 10, 20, 53, 64, 100])
    k = rng.below(14)
    if k == 0:
        return "from_float %x %s %x %s 0" % (B, md, p, rng.choice(["inf", "-inf", "0"]))
    pp = p if p > 0 else rng.choice([1, 3, 20])
    dg = rng.choice([1, pp, pp, max(1, pp - 1), rng.range(1, pp)])
    if k in (1, 2, 3):
        sig = 1  # a power of the base
    elif k == 4:
        sig = B ** dg - 1
    elif k == 5:
        sig = B ** (dg - 1) + (1 if dg > 1 else 0)
    elif k == 6:
        sig = max(1, B ** dg - 2)
    elif k in (7, 8):  # a short quotient: the answer is a small fraction
        n, d = rng.range(1, 400), rng.range(1, 400)
        e = 0
        v = n * B ** (pp + 2) // d
        while v >= B ** pp:
            v //= B
            e += 1
        sig = max(v, 1) + rng.choice([0, 0, 1])
        if sig >= B ** pp:
            sig = B ** pp - 1
        ex = e - (pp + 2)
        if rng.chance(1, 2):
            sig = -sig
        return "from_float %x %s %x %s %s" % (B, md, p, hx(sig), hx(ex))
    else:
        sig = rng.range(B ** (dg - 1), B ** dg - 1)
    if rng.chance(1, 2):
        sig = -sig
    ex = rng.choice([0, -1, 1, -dg, -dg + 1, -dg - 1, -pp, -pp - 1, 2, 5, -2 * pp - 3, rng.range(-40, 40), rng.choice([-300, 300])])
    return "from_float %x %s %x %s %s" % (B, md, p, hx(sig), hx(ex))


def gen_simpler(rng):
    n1, d1 = gen_frac(rng, small=rng.chance(2, 3))
    k = rng.below(6)
    if k == 0:
        n2, d2 = -n1, d1
    elif k == 1:
        n2, d2 = n1 + rng.choice([-1, 0, 1]) * d1, d1
    elif k == 2:
        n2, d2 = n1, d1 + rng.choice([-1, 1])
    elif k == 3:
        n2, d2 = n1, d1
    else:
        n2, d2 = gen_frac(rng, small=rng.chance(2, 3))
    d2 = max(d2, 1)
    return "is_simpler %s %s" % (q(n1, d1), q(n2, d2))


def gen_cases(rng, tier, n):
    out = []
    while len(out) < n:
        k = rng.below(100)
        if k < 26:
            out.append(gen_simplest_in(rng))
        elif k < 50:
            out.append(gen_farey(rng))
        elif k < 62:
            out.append(gen_ieee(rng, True))
        elif k < 74:
            out.append(gen_ieee(rng, False))
        elif k < 94:
            c = gen_float(rng)
            # a third of the finite non-zero floats go through float_bounds: the bounds the code forms, digit for digit
            t = c.split()
            if rng.chance(1, 3) and t[4] not in ("inf", "-inf", "0"):
                c = "float_bounds " + " ".join(t[1:])
            out.append(c)
        else:
            out.append(gen_simpler(rng))
    return out
