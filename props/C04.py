"""C04 - rational arithmetic is exact and RBig stays in lowest terms."""
from fractions import Fraction

import os
import sys

import core
from core import hx, gen_int, gen_mag, gen_words_len

# The straight-line bodies of rational/src/{repr,rbig,add,mul,div}.rs (every macro body, once per
# impl_binop_with_macro! / impl_binop_with_int! invocation, so the wiring too) are regenerated into
# coq/gen/RatioBodies.v when this plug-in is imported, i.e. before the proof phase of every run (tools/check.py has
# no hook between plug-in load and the Coq build; tools/translate.py is shared and not ours to edit).  The C04_gen_*
# theorems are stated over the generated definitions.  Unparseable source is not an alarm: the last good copy stays
# (marked STALE), the status is reported in the evidence by extra_phase, the correspondence run alone ties the model.
sys.path.insert(0, os.path.join(core.ROOT, "tools"))
try:
    import translate_c04_r3
    BODIES_STATUS = translate_c04_r3.generate(core.REPO, os.path.join(core.COQ, "gen"))
except Exception as _ex:  # the generator itself broke: same fallback as an unparseable source
    BODIES_STATUS = "unparsed generator-failed: %s" % str(_ex)[:200]

# round 4: the remaining hand transcriptions (clone / clone_from, in-place operators, from_parts_const with its loop, parse.rs,
# convert.rs, the one-line wrappers, num-traits forwarding, serde Deserialize) are regenerated into coq/gen/RatioBodies4.v,
# group by group (an unparseable group keeps its last good text, marked STALE, and is reported; the others stay regenerated).
try:
    import translate_c04_r4
    BODIES4_STATUS = translate_c04_r4.generate(core.REPO, os.path.join(core.COQ, "gen"))
except Exception as _ex:
    BODIES4_STATUS = {"all": "unparsed generator-failed: %s" % str(_ex)[:200]}

# a run against a scratch checkout (VERIF_REPO) must not leave that checkout's bodies in a shared tree
if os.path.realpath(core.REPO) != os.path.realpath("/repo") and os.path.realpath(core.COQ) == os.path.realpath(os.path.join(core.ROOT, "coq")):
    import atexit

    def _restore_bodies():
        try:
            translate_c04_r3.generate("/repo", os.path.join(core.COQ, "gen"))
        except Exception:
            pass
        try:
            translate_c04_r4.generate("/repo", os.path.join(core.COQ, "gen"))
        except Exception:
            pass

    atexit.register(_restore_bodies)


def operator_rows():
    """every impl_binop_with_macro! / impl_binop_with_int! / impl_binop_assign_by_taking! row of rational/src/{add,mul,div}.rs as
    (row name = name of the regenerated definition, case prefix, forms); rows this plug-in has no case shape for are returned apart"""
    rows, unmapped = [], []
    BIN = {"Add": "add", "Sub": "sub", "Mul": "mul", "Div": "div", "Rem": "rem", "DivEuclid": "dive", "RemEuclid": "reme", "DivRemEuclid": "divreme"}
    try:
        for fname in ("add.rs", "mul.rs", "div.rs"):
            src = translate_c04_r3.strip_comments(translate_c04_r3.read(core.REPO, "rational/src/" + fname))
            for kind, trait, left, right, _meth, _macro in translate_c04_r3.invocations(src):
                if trait not in BIN:
                    unmapped.append("%s:%s:%s" % (trait, left, right))
                    continue
                if kind == "bin":
                    rows.append(("gen_%s_%s" % (trait, left), ("r" if left == "RBig" else "x") + BIN[trait], None))
                elif trait in ("Add", "Sub", "Mul", "Div"):
                    if kind == "ri":
                        rows.append(("gen_%s_%s_%s" % (trait, left, right), ("r" if left == "RBig" else "x") + BIN[trait] + "i", "u" if right == "UBig" else "i"))
                    else:
                        rows.append(("gen_%s_%s_%s" % (trait, left, right), ("r" if right == "RBig" else "x") + "i" + BIN[trait], "u" if left == "UBig" else "i"))
                else:
                    unmapped.append("%s:%s:%s" % (trait, left, right))
            for m in translate_c04_r4.ASSIGN_INV.finditer(src):
                tra, ty, _ma, meth = m.groups()
                if meth in ("add", "sub", "mul", "div", "rem"):
                    rows.append(("gen_%s_%s" % (tra, ty), ("r" if ty == "RBig" else "x") + meth, "assign"))
                else:
                    unmapped.append("%s:%s" % (tra, ty))
    except Exception as ex:
        unmapped.append("rows-unreadable:%s" % str(ex)[:60])
    return rows, unmapped


def extra_phase(tier, seed, exes, oracle):
    word = BODIES_STATUS.split(" ", 1)[0]
    hist = {"translator_c04_r3:RatioBodies:" + word: 1}
    for g, st in sorted(BODIES4_STATUS.items()):
        hist["TRANSLATOR_C04_R4:%s:%s" % (g, st.split(" ", 1)[0])] = 1
    rows, unmapped = operator_rows()
    hist["ROWS:swept-by-the-generator"] = len(rows)
    for u in unmapped:
        hist["ROWS:no-case-shape:" + u] = 1
    bad4 = {g: st for g, st in BODIES4_STATUS.items() if st != "ok"}
    return {
        "evaluations": 0,
        "hist": hist,
        "nontrivial": [],
        "samples": [{"fragment": "coq/gen/RatioBodies4.v (tools/translate_c04_r4.py from rational/src/{repr,rbig,add,mul,div,sign,round,parse,convert}.rs, third_party/{num_traits,serde}.rs)",
                     "status": "ok" if not bad4 else "; ".join("%s: %s" % kv for kv in sorted(bad4.items())),
                     "tied_by": "C04_r4_* theorems (stated over the generated definitions)" if not bad4
                     else "groups not parsed: correspondence run only (last good text kept, marked STALE)"},
                    {"fragment": "coq/gen/RatioBodies.v (tools/translate_c04_r3.py from rational/src/{repr,rbig,sign,round,add,mul,div,helper_macros,lib}.rs)",
                     "status": BODIES_STATUS,
                     "tied_by": "C04_gen_* theorems (stated over the generated definitions)" if word == "ok"
                     else "correspondence run only (source not parsed; committed copy marked STALE)"}],
        "failures": [],
    }


ID = "C04"
READY = True
ORACLE = "c04"
HARNESS_BIN = "c04"
NCASES = {"quick": 9000, "thorough": 200000}
CASE_TIMEOUT = {"quick": 30, "thorough": 120}

LEVEL_TEXT = ("Machine-checked Coq theorems for all operands (no size bound). (i) The bodies of rational/src/{repr,rbig,sign,round,add,mul,div}.rs "
              "are REGENERATED from the Rust source on every run (coq/gen/RatioBodies.v: Repr::reduce/reduce_with_hint/reduce2/neg/abs/sqr/cubic/pow/inv/"
              "split_at_point/ceil/floor/trunc/fract/round, from_parts/from_parts_signed, signum, `* Sign`, is_zero/is_one/is_int, and every operator "
              "macro body once per impl_binop_with_macro!/impl_binop_with_int! invocation, so the wiring of trait x operand type x macro x method is "
              "regenerated too); the C04_gen_* theorems state over these GENERATED definitions that every RBig operation returns exactly the canonical "
              "representative of the mathematical rational (stated in Coq's Q), keeps 'denominator > 0, gcd = 1, zero = 0/1', panics exactly on a zero "
              "divisor, and does so along every finite history of operations (induction over the operation list); that every Relaxed operation returns a "
              "positive denominator and the same value, in lock step with RBig along every history, and never keeps a common factor two. "
              "(ii) Repr::reduce2 is additionally modelled on the typed magnitudes (inline double word / heap word list, any word size: word scan for "
              "trailing_zeros, shr with carries, floor correction for a negative numerator) and proved equal to the value-level body. "
              "(iii) Round 4 - the former hand transcriptions are REGENERATED too (coq/gen/RatioBodies4.v, eight groups with separate fall-back): "
              "Clone for Repr/RBig/Relaxed (clone_from = the source whatever the destination held), Default, the impl_binop_assign_by_taking! rows "
              "(+=, -=, *=, /=, %= are the operators; a panic leaves Default behind), RBig::from_parts_const WITH its while loop (translated to a fuelled "
              "iterator; theorem: with the fuel 2*log2(d)+3 the loop ends and the result is the canonical rational) and Relaxed::from_parts_const, "
              "parse.rs (Repr::from_str_radix / from_str_with_radix_prefix, the RBig / Relaxed wrappers, FromStr; the integer parsers of dashu-int on "
              "the pieces of the text are parameters: for ANY integer parser the result is parse_radix_spec / parse_prefix_spec - numerator's error "
              "first, then the denominator's, then differing radices, then the zero denominator, else the canonical rational), convert.rs "
              "(From<UBig/IBig/12 primitive types> = n/1, TryFrom<RBig> for IBig/UBig succeeds exactly on n/1, TryFrom<Relaxed> exactly when the VALUE is an "
              "integer whatever pair is stored (reduced first since /repo 4757027) - an integer-valued number is never refused, TryFrom<f32/f64> from `== 0.` and decode() on), the one-line wrappers (Neg/Abs/Inverse for values and references, "
              "sqr/cubic/pow, split_at_point/ceil/floor/trunc/fract/round, sign, canonicalize/relax), third_party/num_traits.rs (Zero, One, Num, Signed, "
              "Euclid, Pow forward to the inherent operations) and third_party/serde.rs (Deserialize refuses a zero denominator and reduces). "
              "Histories now also contain the in-place forms, clone / clone_from into occupied slots, integers on the left (IBig and UBig, four "
              "operators), UBig on the right and From<IBig> (C04_r4_history_*: invariant + exactness + Relaxed lock step for every finite history). "
              "All models are tied to the Rust code by a correspondence run judged by the extracted specification.")
LEVEL_NOTE = ("Trusted: Coq kernel; tools/translate_c04_r3.py and tools/translate_c04_r4.py (their reading of the integer-layer atoms, listed in TRUSTED_BASE; "
              "r4 normalises three text-handling idioms of parse.rs and two of the float conversion textually before parsing - any other shape is reported "
              "`unparsed`); extraction incl. FastZ.v directives, zarith, the harness. Not modelled: the text scanning `src.find('/')` and the slicing itself "
              "(parameters has_slash / piece), the integer parsers (C07/C16), f32/f64 decode (C06), the serde visitor that extracts the two integers from "
              "the data format (only the zero test and the reduction that follow it), to_f32/to_f64/to_int (C06). third_party/num_traits.rs is proved over "
              "the regenerated forwarding only: the shared harness is built without the num-traits feature, so those impls are not executed by the run. "
              "IBig/UBig enter through their Z-level specifications (+,-,*, truncating / and %, Euclidean forms, gcd, trailing_zeros, >>), which are "
              "C01/C02/C09/C12's subject; f32/f64 decode is C06's. rational/src/iter.rs is not a module of the crate (no Sum/Product to cover: "
              "re-read on every run, C04_iter_rs_is_not_a_module); there are no primitive-integer operand forms (only UBig/IBig: impl_binop_with_int).")
TECHNIQUE = ("Coq proof over bodies regenerated from the Rust source (straight-line bodies, one while loop as a fuelled iterator with a fuel lemma, "
             "parsers parameterised by the integer parser): generated body = canonical exact rational + invariant (single operations and all finite "
             "histories incl. in-place forms and clone_from) + extracted-spec correspondence run with per-row counters")
RULE = ("cases = operation (every RBig and Relaxed operator in each value/reference/assign call form, Euclidean forms, integer-mixed "
        "forms both ways with UBig and IBig, neg/abs/signum/inv/sqr/cubic/pow/Sign product, from_parts/_signed/_const, canonicalize/relax, "
        "split/fract/trunc/floor/ceil/round, is_zero/is_one/is_int, From<integers>, TryFrom<f32/f64> over every float class, parsers with zero "
        "denominators, texts whose pieces the integer parser refuses (NoDigits / InvalidDigit / UnsupportedRadix on either side), texts without '/', "
        "equal / absent / different / broken radix prefixes, clone_from into an occupied slot (fraction / integer / zero on both sides; directly, "
        "through Vec::clone_from and clone_from_slice), TryFrom<RBig/Relaxed> for IBig/UBig, serde Deserialize from the struct form (unreduced pair, "
        "zero denominator) and the text form; first a sweep with one case per impl_binop_with_macro! / impl_binop_with_int! / "
        "impl_binop_assign_by_taking! row (read from the source) and call form - the oracle names the row of each case, the evidence histogram "
        "(path:*:ROW-gen_*) is the per-row counter) x operands whose numerators and denominators are drawn from "
        "word-count classes {0,1,2,3,4,5,8,T-1,T,T+1} x bit patterns x both signs, with common factors planted in all six positions "
        "(a-b, c-d, a-d, b-c, b-d, a-c), zero numerators, integers, equal / negated / reciprocal operands, exact ties of the centred "
        "remainder; histories = 1..40 operations over a pool of 4 values with results fed back (RBig and Relaxed in lock step, "
        "panicking steps included); hist4 = the same with += -= *= /= %= (value and reference operand; the slot after a panic is checked), "
        "clone / clone_from between slots, IBig / UBig on the left with all four operators, UBig on the right, From<IBig>, the pools dumped at the end. A case is non-trivial when the oracle evaluated the Coq specification on it; distinct = distinct case texts.")
EXPLANATION = ("Theorems (coq/props/C04.v): the C04_gen_* statements are about the definitions of coq/gen/RatioBodies.v, which "
               "tools/translate_c04_r3.py re-reads from rational/src on every run (an edited macro body, a re-wired invocation or a removed impl "
               "breaks a proof obligation; unparseable source is reported and falls back to the last good copy + correspondence run); the remaining "
               "statements are about the hand transcriptions in coq/theories/Ratio/RatArithModel.v, which are proved EQUAL to the generated bodies "
               "(C04_gen_bodies_are_the_transcriptions, C04_r4_from_parts_const_is_the_transcription, C04_r4_parsers_relaxed_are_the_transcription). "
               "The C04_r4_* statements are about coq/gen/RatioBodies4.v (tools/translate_c04_r4.py, eight groups; evidence keys "
               "TRANSLATOR_C04_R4:<group>:ok|unparsed). Tie to the code at run time: every implementation answer (numerator()/denominator() read "
               "through raw words) is compared with the extracted specification; RBig answers must be the canonical pair itself, Relaxed answers "
               "the same value with a positive denominator; the hand transcription AND the generated body (and, for Relaxed::from_parts, the "
               "64-bit word-level reduce2) must all predict the answer (model_fidelity).")
TRUSTED_BASE = [
    "Coq 8.16.1 kernel (coqc, full .vo build); no axioms",
    "tools/translate_c04_r3.py (reuses the tokenizer/parser of tools/translate.py): reads rational/src/{repr,rbig,sign,round,add,mul,div,helper_macros,lib}.rs into coq/gen/RatioBodies.v at plug-in import. Hand-written semantics of the atoms: IBig/UBig + - * = Z.add/sub/mul, `/` = Z.quot and `%` = Z.rem (pure: the divisors are gcds / denominators, non-zero under the invariant), gcd = Z.gcd, is_zero/is_one = `=? 0/1`, sign() = sign_of, abs/unsigned_abs = Z.abs, signum = Z.sgn, `x * Sign` = x * sgnz, `-Sign` = sign_neg, into_parts = (sign_of, Z.abs), IBig::from_parts = signed, div_rem = (Z.quot, Z.rem), trailing_zeros = trailing_zeros_spec, >> << = Z.shiftr/shiftl, min = Z.min, sqr/cubic/pow = products / Z.pow, .into()/.clone()/& = identity, Repr {n, d} = the pair, RBig(..)/Relaxed(..) = Ok, panic_divide_by_0() = Panic DivideBy0, unwrap of None = Panic, the integer methods rem/rem_euclid/div_euclid/div_rem_euclid panic with DivideBy0 on a zero divisor (coq/theories/Ratio/RatioAtoms.v); `$impl!(a, b, c, d, ra, rb, rc, rd, $method)` passes references to the same values (checked syntactically; the ownership arms are C15's FormsRatGen)",
    "tools/translate_c04_r4.py (extends the r3 compiler by while loops -> while_fuel, multi-variable updates, if/else-if statement chains, method-call statements, closures in .map, Ok/Err, match on a Result): reads rational/src/{repr,rbig,add,mul,div,sign,round,parse,convert}.rs and third_party/{num_traits,serde}.rs into coq/gen/RatioBodies4.v. Additional hand-written atoms (coq/theories/Ratio/RatioAtoms4.v): DoubleWord % / >> = Z.rem / Z.quot / Z.shiftr, u128::trailing_zeros = dw_trailing_zeros, IBig::from_parts_const = signed, UBig::from_dword / IBig::from / `as` casts = identity, set_bit = Z.setbit, x.clone_from(&y) assigns y to the place x, ParseError / ConversionError constructors = numeric codes; the integer parsers IBig::from_str_radix / from_str_with_radix_prefix / from_str_with_radix_default on `&src[..slash]`, `&src[slash + 1..]`, `src` are PARAMETERS (ip / ipp / ipd over piece) and `src.find('/')` is the parameter has_slash (textual normalisation of exactly these idioms); `value == 0.` and `value.decode()` of the float conversion are parameters; serde: only the zero-denominator test of deserialize_repr (checked to follow the visitor call) and the .map(reduce / reduce2) of Deserialize are read",
    "the f32/f64 bit decoding of the oracle driver (thin OCaml; decode itself is C06's subject); the hand transcriptions in RatArithModel.v that remain are now all proved equal to regenerated bodies",
    "IBig/UBig operations are taken at their Z-level specification: Z.add/sub/mul, Z.quot/Z.rem, Euclidean div/rem, Z.gcd, trailing_zeros, Z.shiftr, Z.pow; the word-level reduce2 uses C09's kernels (Int/BitsKernels.v) for trailing_zeros and >>",
    "extraction: ExtrOcamlBasic + ExtrOcamlZBigInt + the Extract Constant directives of coq/extract/FastZ.v (Z.gcd/quot/rem/pow/log2/sgn -> zarith)",
    "OCaml 4.13.1 + zarith 1.12, oracle/common.ml, oracle/driver_c04.ml; Rust harness harness/src/bin/c04.rs (catch_unwind per history step)",
    "props/C04.py renders the integers of parser cases as text with Python's int formatting",
]
ASSUMPTIONS = [
    "UBig::from_words / as_words / IBig::from_parts / as_sign_words transport values faithfully (used by the harness instead of any parser)",
    "the integer layer below (dashu-int) behaves like Z on the generated operands (C01/C02/C12)",
    "usize exponents stay small enough for the result to fit in memory",
]

FORMS6 = ["vv", "vr", "rv", "rr", "av", "ar"]
FORMS4 = ["vv", "vr", "rv", "rr"]
M64 = (1 << 64) - 1
FACTORS = [2, 2, 3, 4, 5, 6, 7, 10, 1 << 31, 1 << 32, 1 << 63, 1 << 64, 1 << 65, 1 << 127, 1 << 128, 1 << 129, M64, (1 << 61) - 1,
           (1 << 127) - 1, (1 << 64) + 1, (1 << 128) - 1, 3 ** 40, 6 ** 25, 10 ** 19, 10 ** 38]


def gmag(rng, tier):
    """a positive magnitude: small values often, otherwise the shared size classes"""
    k = rng.below(10)
    if k < 2:
        return rng.choice([1, 1, 2, 3, 4, 5, 6, 7, 8, 9, 10, 12, 15, 16, 30, 64, 100, 255, 256, 1000])
    if k < 4:
        return max(1, rng.bits(rng.choice([8, 16, 31, 32, 33, 63, 64])))
    if k < 5:
        return rng.choice(FACTORS)
    n = gen_words_len(rng, tier)
    return max(1, gen_mag(rng, max(1, n)))


def gfactor(rng, tier):
    k = rng.below(6)
    if k < 3:
        return rng.choice(FACTORS)
    if k == 3:
        return 1 << rng.range(1, 200)
    if k == 4:
        return max(2, rng.bits(rng.choice([8, 32, 64, 65, 128, 130])))
    return gmag(rng, tier)


def gnum(rng, tier):
    """signed numerator; zero sometimes"""
    if rng.chance(1, 14):
        return 0
    m = gmag(rng, tier)
    return -m if rng.chance(1, 2) else m


def grat(rng, tier):
    """a fraction (n, d), d > 0, frequently not in lowest terms"""
    n, d = gnum(rng, tier), gmag(rng, tier)
    if rng.chance(1, 8):
        d = 1
    if rng.chance(1, 3):
        f = gfactor(rng, tier)
        n, d = n * f, d * f
    return n, d


def gpair(rng, tier):
    """two fractions with common factors planted in the cross positions the algorithms cancel"""
    a, b = grat(rng, tier)
    c, d = grat(rng, tier)
    k = rng.below(16)
    if k == 0:
        c, d = a, b                      # equal operands: x - x, x / x
    elif k == 1:
        c, d = -a, b                     # x + (-x)
    elif k == 2 and a != 0:
        c, d = (b if a > 0 else -b), abs(a)   # reciprocal: x * 1/x
    elif k == 3:
        d = b                            # equal denominators
    elif k == 4:
        d = b * gfactor(rng, tier)       # one denominator divides the other
    elif k == 5:
        b = d * gfactor(rng, tier)
    elif k == 6:
        c = 0
    elif k == 7:
        a = 0
    # planted factors: (a,d) and (b,c) for mul, (a,c) and (b,d) for div / add / rem
    if rng.chance(1, 3):
        f = gfactor(rng, tier); a *= f; d *= f
    if rng.chance(1, 3):
        f = gfactor(rng, tier); b *= f; c *= f
    if rng.chance(1, 3):
        f = gfactor(rng, tier); b *= f; d *= f
    if rng.chance(1, 3):
        f = gfactor(rng, tier); a *= f; c *= f
    if rng.chance(1, 8):
        # the sum cancels against the common denominator factor: a/(g*p) + c/(g*q) with g | (a*q + c*p)
        g = gfactor(rng, tier); p, q = gmag(rng, tier), gmag(rng, tier)
        a = gnum(rng, tier) or 1
        c = g * gnum(rng, tier) - a * q  # then a*q + c*p*... keeps a shared factor in many cases
        b, d = g * p, g * q * p
    return a, b, c, d


def gtie(rng, tier):
    """x, y with x / y = k + 1/2 exactly (or next to it): the centred remainder's tie"""
    c, d = grat(rng, tier)
    if c == 0:
        c = 1
    k = rng.choice([0, 0, 1, -1, 2, -2, 3, -3, gnum(rng, tier)])
    num, den = (2 * k + 1) * c, 2 * d
    if rng.chance(1, 3):
        e = rng.choice([1, -1])
        bump = gmag(rng, tier)
        num, den = num * bump + e, den * bump
    return num, den, c, d


def gintop(rng, tier, a, b):
    """integer operand related to the fraction a/b"""
    k = rng.below(10)
    if k == 0:
        return 0
    if k == 1:
        return rng.choice([1, -1])
    if k == 2:
        return b * rng.choice([1, -1, 2, 3])          # multiple of the denominator
    if k == 3 and a != 0:
        return a * rng.choice([1, -1, 2])             # multiple of the numerator
    if k == 4:
        return gfactor(rng, tier) * rng.choice([1, -1])
    if k == 5:
        import math
        g = math.gcd(abs(a), b) or 1
        return (b // g) * gfactor(rng, tier)
    return gnum(rng, tier)


def fmt_radix(v, radix):
    digs = "0123456789abcdefghijklmnopqrstuvwxyz"
    if v == 0:
        return "0"
    s, m = "", abs(v)
    while m:
        s = digs[m % radix] + s
        m //= radix
    return ("-" if v < 0 else "") + s


# ------------------------------------------------------------------------------------------------
# histories (sizes are kept bounded by simulating the values with Python fractions)
# ------------------------------------------------------------------------------------------------
def _rha(q):
    n = (abs(q) + Fraction(1, 2)).__floor__()
    return n if q >= 0 else -n


def _sim(op, x, y, k):
    """value of one history step, None when it panics"""
    if op == "add": return x + y
    if op == "sub": return x - y
    if op == "mul": return x * y
    if op == "div": return None if y == 0 else x / y
    if op == "rem": return None if y == 0 else x - y * _rha(x / y)
    if op == "reme": return None if y == 0 else x % abs(y)
    if op == "neg": return -x
    if op == "abs": return abs(x)
    if op == "inv": return None if x == 0 else 1 / x
    if op == "sqr": return x * x
    if op == "cubic": return x * x * x
    if op == "signum": return Fraction((x > 0) - (x < 0))
    if op == "fract": return x - (x.__trunc__())
    if op == "pow": return x ** k
    if op in ("addi", "addu"): return x + k
    if op == "subi": return x - k
    if op in ("muli", "mulu"): return x * k
    if op in ("divi", "divu"): return None if k == 0 else x / k
    if op == "isub": return k - x
    if op == "idiv": return None if x == 0 else k / x
    raise ValueError(op)


HBIN = ["add", "sub", "mul", "div", "rem", "reme"]
HUN = ["neg", "abs", "inv", "sqr", "cubic", "signum", "fract"]
HINT = ["addi", "subi", "muli", "divi", "isub", "idiv"]
HINTU = ["addu", "mulu", "divu"]


def gen_history(rng, tier):
    K = 4
    limit = 3000 if tier == "quick" else 12000
    small = rng.chance(1, 2)
    init = []
    for _ in range(K):
        if small:
            n, d = rng.range(-40, 40), rng.range(1, 40)
        else:
            n, d = grat(rng, tier)
            if abs(n).bit_length() + d.bit_length() > limit // 2:
                n, d = n % (1 << 300), (d % (1 << 300)) or 1
        init.append((n, d))
    pool = [Fraction(n, d) for n, d in init]
    nsteps = rng.choice([1, 2, 3, 5, 8, 13, 20, 30, 40])
    toks = ["hist", "%x" % K]
    for n, d in init:
        toks += [hx(n), hx(d)]
    for _ in range(nsteps):
        for attempt in range(6):
            grp = rng.below(10)
            i, j, dst = rng.below(K), rng.below(K), rng.below(K)
            if grp < 5:
                op = rng.choice(HBIN); arg = "%x" % j; val = _sim(op, pool[i], pool[j], None)
            elif grp < 7:
                op = rng.choice(HUN); arg = "0"; val = _sim(op, pool[i], None, None)
            elif grp == 7:
                op = "pow"; e = rng.choice([0, 1, 2, 3, 4, 5, 7]); arg = "%x" % e; val = _sim(op, pool[i], None, e)
            else:
                x = pool[i]
                k = gintop(rng, tier, x.numerator, x.denominator) if rng.chance(2, 3) else rng.range(-12, 12)
                if abs(k).bit_length() > limit // 2:
                    k = rng.range(-12, 12)
                if rng.chance(1, 4):
                    op = rng.choice(HINTU); k = abs(k)
                else:
                    op = rng.choice(HINT)
                arg = hx(k); val = _sim(op, x, None, k)
            if val is None or abs(val.numerator).bit_length() + val.denominator.bit_length() <= limit:
                break
        else:
            op, arg, val = "signum", "0", _sim("signum", pool[i], None, None)
        toks += [op, "%x" % i, arg, "%x" % dst]
        if val is not None:
            pool[dst] = val
    return " ".join(toks)


# ------------------------------------------------------------------------------------------------
# round 4: histories with the in-place forms, clone / clone_from, integers on the left, UBig on the right, From<IBig>
# ------------------------------------------------------------------------------------------------
H4ASSIGN = {"adda": "add", "suba": "sub", "mula": "mul", "diva": "div", "rema": "rem"}
H4LEFT = {"laddi": "addi", "lsubi": "isub", "lmuli": "muli", "ldivi": "idiv", "laddu": "addu", "lsubu": "isub", "lmulu": "mulu", "ldivu": "idiv"}
H4RIGHTU = {"addu": "addu", "subu": "subi", "mulu": "mulu", "divu": "divu"}


def gen_history4(rng, tier):
    K = 4
    limit = 3000 if tier == "quick" else 12000
    small = rng.chance(2, 3)
    init = []
    for _ in range(K):
        if small:
            n, d = rng.range(-40, 40), rng.range(1, 40)
        else:
            n, d = grat(rng, tier)
            if abs(n).bit_length() + d.bit_length() > limit // 2:
                n, d = n % (1 << 300), (d % (1 << 300)) or 1
        r = rng.below(6)
        if r == 0:
            d = 1                 # an integer: clone_from of an integer into a slot that holds a fraction
        elif r == 1:
            n = 0                 # zero
        init.append((n, d))
    pool = [Fraction(n, d) for n, d in init]
    nsteps = rng.choice([1, 2, 3, 5, 8, 13, 20, 30])
    toks = ["hist4", "%x" % K]
    for n, d in init:
        toks += [hx(n), hx(d)]
    for _ in range(nsteps):
        for attempt in range(6):
            grp = rng.below(12)
            i, j, dst = rng.below(K), rng.below(K), rng.below(K)
            panics_inplace = False
            if grp < 3:
                op = rng.choice(sorted(H4ASSIGN)); arg = "%x" % j; val = _sim(H4ASSIGN[op], pool[i], pool[j], None); dst = i
                panics_inplace = val is None
            elif grp < 6:
                op = rng.choice(["clone", "clonefrom", "clonefrom"]); arg = "0"; val = pool[i]
                if rng.chance(1, 2):
                    # make the interesting combination likely: destination holds a non-integer, source an integer or zero
                    ints = [t for t in range(K) if pool[t].denominator == 1]
                    fracs = [t for t in range(K) if pool[t].denominator != 1]
                    if ints and fracs:
                        i, dst = rng.choice(ints), rng.choice(fracs); val = pool[i]
            elif grp < 9:
                x = pool[i]
                k = gintop(rng, tier, x.numerator, x.denominator) if rng.chance(2, 3) else rng.range(-12, 12)
                if abs(k).bit_length() > limit // 2:
                    k = rng.range(-12, 12)
                op = rng.choice(sorted(H4LEFT) + sorted(H4RIGHTU))
                if op.endswith("u"):
                    k = abs(k)
                arg = hx(k); val = _sim(H4LEFT.get(op) or H4RIGHTU[op], x, None, k)
            elif grp == 9:
                k = rng.choice([0, 1, -1, rng.range(-100, 100), gnum(rng, tier) % (1 << 200)])
                op = "fromi"; arg = hx(k); val = Fraction(k)
            elif grp == 10:
                op = rng.choice(HBIN); arg = "%x" % j; val = _sim(op, pool[i], pool[j], None)
            else:
                op = rng.choice(HUN); arg = "0"; val = _sim(op, pool[i], None, None)
            if val is None or abs(val.numerator).bit_length() + val.denominator.bit_length() <= limit:
                break
        else:
            op, arg, val, panics_inplace = "signum", "0", _sim("signum", pool[i], None, None), False
        toks += [op, "%x" % i, arg, "%x" % dst]
        if val is not None:
            pool[dst] = val
        elif panics_inplace:
            pool[dst] = Fraction(0)       # core::mem::take left Default behind
    return " ".join(toks)


def gen_rows_sweep(rng, tier):
    """one case per operator row of add.rs / mul.rs / div.rs and call form (the rows are read from the source)"""
    out = []
    rows, _ = operator_rows()
    for name, prefix, kind in rows:
        if kind is None:
            forms = FORMS4
        elif kind == "assign":
            forms = ["av", "ar"]
        else:
            forms = FORMS4
        for form in forms:
            a, b, c, d = gpair(rng, tier)
            if kind in ("u", "i"):
                i = gintop(rng, tier, a, b) or 3
                if kind == "u":
                    i = abs(i)
                out.append("%s %s %s %s %s %s" % (prefix, form, kind, hx(a), hx(b), hx(i)))
            else:
                if c == 0:
                    c = 1
                out.append("%s %s %s %s %s %s" % (prefix, form, hx(a), hx(b), hx(c), hx(d)))
    return out


BAD_PIECES = [("@", "eN"), ("+", "eN"), ("-", "eN"), ("1x", "eI"), ("x", "eI"), ("1.5", "eI"), ("--1", "eI"), ("1-", "eI")]


def gen_parse_edge(rng, tier, T):
    """texts whose pieces the integer parser refuses, texts without '/', differing radix prefixes"""
    n_, d_ = rng.range(-500, 500), rng.range(0, 60)
    if rng.chance(1, 3):
        n_, d_ = gnum(rng, tier) % (1 << 300), gmag(rng, tier) % (1 << 300)
    k = rng.below(10)
    if k < 3:
        # no '/'
        r = rng.below(4)
        if r == 0:
            text, nt = rng.choice(BAD_PIECES)
            return "%sparse %s %s -" % (T, text, nt)
        if r == 1:
            radix = rng.choice([2, 7, 10, 16, 36])
            return "%sparse_radix %x %s %s -" % (T, radix, fmt_radix(n_, radix), hx(n_))
        if r == 2:
            radix, pre = rng.choice([(2, "0b"), (8, "0o"), (16, "0x"), (10, "")])
            return "%sparse_prefix %s%s%s %s - %x" % (T, "-" if n_ < 0 else "", pre, fmt_radix(abs(n_), radix), hx(n_), radix)
        return "%sparse %s%d %s -" % (T, "+" if n_ >= 0 and rng.chance(1, 3) else "", n_, hx(n_))
    if k < 6:
        # a piece the integer parser refuses: the numerator's error wins, then the denominator's, then the zero denominator
        bn, bd = rng.chance(1, 2), rng.chance(1, 2)
        if not bn and not bd:
            bn = True
        tn, nn = rng.choice(BAD_PIECES) if bn else (str(n_), hx(n_))
        td, dd = rng.choice(BAD_PIECES + [("2/3", "eI"), ("/", "eI")]) if bd else (str(d_), hx(d_))
        return "%sparse %s/%s %s %s" % (T, tn, td, nn, dd)
    if k == 6:
        radix = rng.choice([0, 1, 37, 100])
        return "%sparse_radix %x %d/%d eU eU" % (T, radix, abs(n_) % 2, 1)
    if k == 7:
        radix = rng.choice([2, 8, 3, 9])
        return "%sparse_radix %x %s/%s eI %s" % (T, radix, fmt_radix(n_, radix) + "9", fmt_radix(d_, radix), hx(d_))
    # radix prefixes: equal, absent on the denominator (inherits), different (refused), broken
    PRE = [(2, "0b"), (8, "0o"), (16, "0x"), (10, "")]
    (r1, p1), (r2, p2) = rng.choice(PRE), rng.choice(PRE)
    d_ = d_ if rng.chance(5, 6) else 0
    sn = ("-" if n_ < 0 else "") + p1 + fmt_radix(abs(n_), r1)
    if k == 8:
        if p2 == "":
            # the denominator is read in the numerator's radix: choose digits valid there
            return "%sparse_prefix %s/%s %s %s %x" % (T, sn, fmt_radix(d_, r1), hx(n_), hx(d_), r1)
        return "%sparse_prefix %s/%s %s %s %x %x" % (T, sn, p2 + fmt_radix(d_, r2), hx(n_), hx(d_), r1, r2)
    r = rng.below(3)
    if r == 0:
        return "%sparse_prefix %s/%s eN %s %x" % (T, rng.choice(["0x", "0b", "-0o", "@", "+"]), fmt_radix(d_, 10), hx(d_), 10)
    if r == 1:
        return "%sparse_prefix %s/%s %s eN %x" % (T, sn, rng.choice(["0x", "@", "-"]) if p1 else rng.choice(["@", "-"]), hx(n_), r1)
    return "%sparse_prefix %s/%s %s eI %x" % (T, sn, "0xg", hx(n_), r1)


def gen_new_op(rng, tier, T):
    k = rng.below(10)
    if k < 3:
        # clone_from: every combination of (fraction | integer | zero) destination and source
        def pick():
            r = rng.below(3)
            n, d = grat(rng, tier)
            if r == 0:
                return (n or 1, d if d != 1 else 3)
            if r == 1:
                return (n, 1)
            return (0, d)
        (dn, dd), (sn, sd) = pick(), pick()
        return "%sclonefrom %s %s %s %s" % (T, hx(dn), hx(dd), hx(sn), hx(sd))
    if k < 5:
        n, d = grat(rng, tier)
        if rng.chance(1, 2):
            n = d * gnum(rng, tier)      # integer-valued
        return "%stryint %s %s" % (T, hx(n), hx(d))
    if k < 7:
        n, d = grat(rng, tier)
        n, d = n % (1 << 600) * (1 if n >= 0 else -1), d % (1 << 600)
        if rng.chance(1, 5):
            d = 0
        return "%sserde %s %s %d/%d" % (T, hx(n), hx(d), n, d)
    return gen_parse_edge(rng, tier, T)


# ------------------------------------------------------------------------------------------------
def const_pair(rng):
    """operands of from_parts_const (DoubleWord = u128): gcd loop exits with r = 0 or r = 1 after many / few steps"""
    k = rng.below(10)
    if k == 0:
        # consecutive Fibonacci numbers: the longest Euclid run (gcd 1)
        a, b = 1, 1
        for _ in range(rng.range(2, 184)):
            a, b = b, a + b
        return (a, b) if rng.chance(1, 2) else (b, a)
    if k == 1:
        a, b = 1, 1
        for _ in range(rng.range(2, 120)):
            a, b = b, a + b
        f = rng.choice([2, 3, 1 << 20, M64])
        if b * f < (1 << 128):
            a, b = a * f, b * f
        return (a, b) if rng.chance(1, 2) else (b, a)
    if k == 2:
        g = max(1, rng.bits(rng.choice([1, 8, 32, 63, 64])))
        a, b = max(1, rng.bits(rng.choice([1, 8, 32, 64]))), max(1, rng.bits(rng.choice([1, 8, 32, 64])))
        return a * g, b * g
    if k == 3:
        v = max(1, rng.bits(rng.choice([1, 64, 65, 128])))
        return rng.choice([(v, v), (v, 1), (1, v), (v, 0), (0, v), (0, 0), ((1 << 128) - 1, v), (v, (1 << 128) - 1)])
    if k == 4:
        d = max(1, rng.bits(rng.choice([8, 32, 64])))
        m = rng.range(1, 1 << 60)
        return (d * m, d) if rng.chance(1, 2) else (d, d * m)
    if k == 5:
        return (1 << rng.range(0, 127), 1 << rng.range(0, 127))
    return rng.bits(rng.choice([64, 65, 127, 128])), rng.bits(rng.choice([64, 65, 127, 128]))


def fbits(rng, single):
    """bit pattern of an f32 / f64: every class (zero, subnormal, normal, integer-valued, huge, inf, nan), both signs"""
    mb, eb = (23, 8) if single else (52, 11)
    bias = (1 << (eb - 1)) - 1
    k = rng.below(12)
    if k == 0:
        ex, fr = 0, 0
    elif k == 1:
        ex, fr = 0, rng.choice([1, 2, 3, 1 << (mb - 1), (1 << mb) - 1, rng.bits(mb)])           # subnormal
    elif k == 2:
        ex, fr = (1 << eb) - 1, rng.choice([0, 0, 1, rng.bits(mb)])                              # inf / nan
    elif k == 3:
        ex, fr = rng.choice([1, 2, (1 << eb) - 2]), rng.choice([0, 1, (1 << mb) - 1, rng.bits(mb)])  # smallest / largest normal
    elif k < 7:
        # around the integer / fraction border: exponent e = ex - bias - mb near 0, trailing zeros in the mantissa
        ex = bias + mb + rng.range(-mb - 3, 4)
        fr = rng.bits(mb)
        if rng.chance(1, 2):
            z = rng.range(1, mb)
            fr = (fr >> z) << z
    elif k == 7:
        ex, fr = bias + rng.range(-5, 5), 0                                                       # powers of two
    else:
        ex, fr = rng.range(0, (1 << eb) - 1), rng.bits(mb)
    sg = rng.below(2)
    return (sg << (mb + eb)) | (max(0, min(ex, (1 << eb) - 1)) << mb) | (fr & ((1 << mb) - 1))


def gen_cases(rng, tier, n):
    out = []
    if n >= 1000:
        out += gen_rows_sweep(rng, tier)
    while len(out) < n:
        T = rng.choice(["r", "r", "x"])
        if rng.chance(1, 9):
            out.append(gen_new_op(rng, tier, T))
            continue
        k = rng.below(100)
        if k < 30:
            a, b, c, d = gpair(rng, tier)
            op = rng.choice(["add", "sub", "mul", "div", "add", "sub", "mul", "div", "rem"])
            out.append("%s%s %s %s %s %s %s" % (T, op, rng.choice(FORMS6), hx(a), hx(b), hx(c), hx(d)))
        elif k < 36:
            a, b, c, d = gtie(rng, tier) if rng.chance(2, 3) else gpair(rng, tier)
            out.append("%srem %s %s %s %s %s" % (T, rng.choice(FORMS6), hx(a), hx(b), hx(c), hx(d)))
        elif k < 44:
            a, b, c, d = gpair(rng, tier) if rng.chance(3, 4) else gtie(rng, tier)
            op = rng.choice(["dive", "reme", "divreme"])
            out.append("%s%s %s %s %s %s %s" % (T, op, rng.choice(FORMS4), hx(a), hx(b), hx(c), hx(d)))
        elif k < 58:
            a, b = grat(rng, tier)
            i = gintop(rng, tier, a, b)
            ty = rng.choice(["u", "i"])
            if ty == "u":
                i = abs(i)
            op = rng.choice(["addi", "subi", "muli", "divi", "iadd", "isub", "imul", "idiv"])
            out.append("%s%s %s %s %s %s %s" % (T, op, rng.choice(FORMS4), ty, hx(a), hx(b), hx(i)))
        elif k < 66:
            a, b = grat(rng, tier)
            op = rng.choice(["neg", "inv", "abs", "signum", "sqr", "cubic", "mulsign", "fract", "split", "trunc", "floor", "ceil", "round", "preds"])
            if op in ("neg", "inv"):
                out.append("%s%s %s %s %s" % (T, op, rng.choice(["v", "r"]), hx(a), hx(b)))
            elif op == "mulsign":
                out.append("%s%s %s %s %s" % (T, op, rng.choice(["+", "-"]), hx(a), hx(b)))
            else:
                if op in ("round", "fract", "split") and rng.chance(1, 3):
                    a, b = gtie(rng, tier)[:2]
                if op == "preds":
                    r = rng.below(6)
                    if r == 0:
                        a = b                          # the value one, stored n/n by Relaxed only through reduce2
                    elif r == 1:
                        a = b * gnum(rng, tier)        # integer-valued
                    elif r == 2:
                        a = 0
                out.append("%s%s %s %s" % (T, op, hx(a), hx(b)))
        elif k < 70:
            a, b = grat(rng, tier)
            bits = max(1, abs(a).bit_length() + b.bit_length())
            e = rng.choice([0, 1, 2, 3, 4, 5, 8, 17, 64, 100])
            e = min(e, max(1, (40000 if tier == "quick" else 400000) // bits))
            out.append("%spow %x %s %s" % (T, e, hx(a), hx(b)))
        elif k < 76:
            n_, d_ = grat(rng, tier)
            r = rng.below(8)
            if r == 0:
                d_ = 0
            if r == 1:
                n_ = d_ * gnum(rng, tier)
            op = rng.choice(["from_parts", "from_parts", "from_parts_signed"])
            if op == "from_parts_signed" and rng.chance(1, 2):
                d_ = -d_
            if rng.chance(1, 4):
                single = rng.chance(1, 2)
                out.append("%sfromf%s %x" % (T, "32" if single else "64", fbits(rng, single)))
            elif rng.chance(1, 8):
                v = rng.choice([0, 1, -1, (1 << 63) - 1, -(1 << 63), 1 << 63, (1 << 64) - 1, 1 << 64, (1 << 127) - 1, -(1 << 127),
                                (1 << 128) - 1, 1 << 128, gnum(rng, tier), gnum(rng, tier)])
                if rng.chance(1, 2):
                    out.append("%sfromu %s" % (T, hx(abs(v))))
                else:
                    out.append("%sfromi %s" % (T, hx(v)))
            elif op == "from_parts" and T == "x" and rng.chance(1, 3):
                out.append("xcanon %s %s" % (hx(n_), hx(d_)))
            elif op == "from_parts" and T == "r" and rng.chance(1, 4):
                out.append("rrelax %s %s" % (hx(n_), hx(d_)))
            else:
                out.append("%s%s %s %s" % (T, op, hx(n_), hx(d_)))
        elif k < 82:
            n_, d_ = const_pair(rng)
            out.append("%sfrom_parts_const %s %x %x" % (T, rng.choice(["+", "-"]), n_ & ((1 << 128) - 1), d_ & ((1 << 128) - 1)))
        elif k < 88:
            n_, d_ = grat(rng, tier)
            if abs(n_).bit_length() > 2000:
                n_ = n_ % (1 << 2000)
            if d_.bit_length() > 2000:
                d_ = d_ % (1 << 2000) or 1
            r = rng.below(6)
            if r < 2:
                d_ = 0
            if rng.chance(1, 2):
                d_ = -d_
            kind = rng.below(4)
            if kind < 2:
                sn = ("+" if n_ >= 0 and rng.chance(1, 4) else "") + str(n_)
                sd = ("-" if d_ == 0 and rng.chance(1, 3) else "+" if d_ >= 0 and rng.chance(1, 4) else "") + str(d_)
                if d_ == 0 and rng.chance(1, 3):
                    sd = sd + "00"
                out.append("%sparse %s/%s %s %s" % (T, sn, sd, hx(n_), hx(d_)))
            elif kind == 2:
                radix = rng.choice([2, 3, 8, 10, 16, 32, 36])
                out.append("%sparse_radix %x %s/%s %s %s" % (T, radix, fmt_radix(n_, radix), fmt_radix(d_, radix), hx(n_), hx(d_)))
            else:
                radix, pre = rng.choice([(2, "0b"), (8, "0o"), (16, "0x"), (10, "")])
                sn = ("-" if n_ < 0 else "") + pre + fmt_radix(abs(n_), radix)
                sd = ("-" if d_ < 0 else "") + (pre if rng.chance(1, 2) else "") + fmt_radix(abs(d_), radix)
                out.append("%sparse_prefix %s/%s %s %s %x" % (T, sn, sd, hx(n_), hx(d_), radix))
        elif k < 94:
            out.append(gen_history(rng, tier))
        else:
            out.append(gen_history4(rng, tier))
    return out
