"""C04 - rational arithmetic is exact and RBig stays in lowest terms."""
from fractions import Fraction

import os
import sys

import core
from core import hx, gen_int, gen_mag, gen_words_len

# The straight-line bodies of rational/src/{repr,rbig,add,mul,div}.rs (every macro body, once per
# impl_binop_with_macro! / impl_binop_with_int! invocation, so the wiring too) are regenerated into
# coq/gen/RatioBodies.v when this plug-in is imported, i.e. before the proof phase of every run (tools/check.py has
# no hook between plug-in load and the Coq build; tools/translate.py is shared and not ours to edit).  The C04_gen_*
# theorems are stated over the generated definitions.  Unparseable source is not an alarm: the last good copy stays
# (marked STALE), the status is reported in the evidence by extra_phase, the correspondence run alone ties the model.
sys.path.insert(0, os.path.join(core.ROOT, "tools"))
try:
    import translate_c04_r3
    BODIES_STATUS = translate_c04_r3.generate(core.REPO, os.path.join(core.COQ, "gen"))
except Exception as _ex:  # the generator itself broke: same fallback as an unparseable source
    BODIES_STATUS = "unparsed generator-failed: %s" % str(_ex)[:200]

# a run against a scratch checkout (VERIF_REPO) must not leave that checkout's bodies in a shared tree
if os.path.realpath(core.REPO) != os.path.realpath("/repo") and os.path.realpath(core.COQ) == os.path.realpath(os.path.join(core.ROOT, "coq")):
    import atexit

    def _restore_bodies():
        try:
            translate_c04_r3.generate("/repo", os.path.join(core.COQ, "gen"))
        except Exception:
            pass

    atexit.register(_restore_bodies)


def extra_phase(tier, seed, exes, oracle):
    word = BODIES_STATUS.split(" ", 1)[0]
    return {
        "evaluations": 0,
        "hist": {"translator_c04_r3:RatioBodies:" + word: 1},
        "nontrivial": [],
        "samples": [{"fragment": "coq/gen/RatioBodies.v (tools/translate_c04_r3.py from rational/src/{repr,rbig,sign,round,add,mul,div,helper_macros,lib}.rs)",
                     "status": BODIES_STATUS,
                     "tied_by": "C04_gen_* theorems (stated over the generated definitions)" if word == "ok"
                     else "correspondence run only (source not parsed; committed copy marked STALE)"}],
        "failures": [],
    }


ID = "C04"
READY = True
ORACLE = "c04"
HARNESS_BIN = "c04"
NCASES = {"quick": 9000, "thorough": 200000}
CASE_TIMEOUT = {"quick": 30, "thorough": 120}

LEVEL_TEXT = ("Machine-checked Coq theorems for all operands (no size bound). (i) The bodies of rational/src/{repr,rbig,sign,round,add,mul,div}.rs "
              "are REGENERATED from the Rust source on every run (coq/gen/RatioBodies.v: Repr::reduce/reduce_with_hint/reduce2/neg/abs/sqr/cubic/pow/inv/"
              "split_at_point/ceil/floor/trunc/fract/round, from_parts/from_parts_signed, signum, `* Sign`, is_zero/is_one/is_int, and every operator "
              "macro body once per impl_binop_with_macro!/impl_binop_with_int! invocation, so the wiring of trait x operand type x macro x method is "
              "regenerated too); the C04_gen_* theorems state over these GENERATED definitions that every RBig operation returns exactly the canonical "
              "representative of the mathematical rational (stated in Coq's Q), keeps 'denominator > 0, gcd = 1, zero = 0/1', panics exactly on a zero "
              "divisor, and does so along every finite history of operations (induction over the operation list); that every Relaxed operation returns a "
              "positive denominator and the same value, in lock step with RBig along every history, and never keeps a common factor two. "
              "(ii) Repr::reduce2 is additionally modelled on the typed magnitudes (inline double word / heap word list, any word size: word scan for "
              "trailing_zeros, shr with carries, floor correction for a negative numerator) and proved equal to the value-level body. "
              "(iii) Hand transcriptions proved for all inputs: the const gcd loop of from_parts_const with its fuel bound, the parsers, the exact "
              "conversions (integers: n/1; f32/f64 from the decoded mantissa/exponent on: reduce2 of a dyadic is the canonical form). "
              "All models are tied to the Rust code by a correspondence run judged by the extracted specification.")
LEVEL_NOTE = ("Trusted: Coq kernel; tools/translate_c04_r3.py (its reading of the integer-layer atoms, listed in TRUSTED_BASE); the hand transcriptions of "
              "from_parts_const, the parsers and convert.rs (tied by the correspondence run only); extraction incl. FastZ.v directives, zarith, the harness. "
              "IBig/UBig enter through their Z-level specifications (+,-,*, truncating / and %, Euclidean forms, gcd, trailing_zeros, >>), which are "
              "C01/C02/C09/C12's subject; f32/f64 decode is C06's. rational/src/iter.rs is not a module of the crate (no Sum/Product to cover: "
              "re-read on every run, C04_iter_rs_is_not_a_module); there are no primitive-integer operand forms (only UBig/IBig: impl_binop_with_int).")
TECHNIQUE = ("Coq proof over bodies regenerated from the Rust source: generated body = canonical exact rational + invariant (single operations and all "
             "finite histories) + extracted-spec correspondence run")
RULE = ("cases = operation (every RBig and Relaxed operator in each value/reference/assign call form, Euclidean forms, integer-mixed "
        "forms both ways with UBig and IBig, neg/abs/signum/inv/sqr/cubic/pow/Sign product, from_parts/_signed/_const, canonicalize/relax, "
        "split/fract/trunc/floor/ceil/round, is_zero/is_one/is_int, From<integers>, TryFrom<f32/f64> over every float class, parsers with zero "
        "denominators) x operands whose numerators and denominators are drawn from "
        "word-count classes {0,1,2,3,4,5,8,T-1,T,T+1} x bit patterns x both signs, with common factors planted in all six positions "
        "(a-b, c-d, a-d, b-c, b-d, a-c), zero numerators, integers, equal / negated / reciprocal operands, exact ties of the centred "
        "remainder; histories = 1..40 operations over a pool of 4 values with results fed back (RBig and Relaxed in lock step, "
        "panicking steps included). A case is non-trivial when the oracle evaluated the Coq specification on it; distinct = distinct case texts.")
EXPLANATION = ("Theorems (coq/props/C04.v): the C04_gen_* statements are about the definitions of coq/gen/RatioBodies.v, which "
               "tools/translate_c04_r3.py re-reads from rational/src on every run (an edited macro body, a re-wired invocation or a removed impl "
               "breaks a proof obligation; unparseable source is reported and falls back to the last good copy + correspondence run); the remaining "
               "statements are about the hand transcriptions in coq/theories/Ratio/RatArithModel.v, which are proved EQUAL to the generated bodies "
               "(C04_gen_bodies_are_the_transcriptions). Tie to the code at run time: every implementation answer (numerator()/denominator() read "
               "through raw words) is compared with the extracted specification; RBig answers must be the canonical pair itself, Relaxed answers "
               "the same value with a positive denominator; the hand transcription AND the generated body (and, for Relaxed::from_parts, the "
               "64-bit word-level reduce2) must all predict the answer (model_fidelity).")
TRUSTED_BASE = [
    "Coq 8.16.1 kernel (coqc, full .vo build); no axioms",
    "tools/translate_c04_r3.py (reuses the tokenizer/parser of tools/translate.py): reads rational/src/{repr,rbig,sign,round,add,mul,div,helper_macros,lib}.rs into coq/gen/RatioBodies.v at plug-in import. Hand-written semantics of the atoms: IBig/UBig + - * = Z.add/sub/mul, `/` = Z.quot and `%` = Z.rem (pure: the divisors are gcds / denominators, non-zero under the invariant), gcd = Z.gcd, is_zero/is_one = `=? 0/1`, sign() = sign_of, abs/unsigned_abs = Z.abs, signum = Z.sgn, `x * Sign` = x * sgnz, `-Sign` = sign_neg, into_parts = (sign_of, Z.abs), IBig::from_parts = signed, div_rem = (Z.quot, Z.rem), trailing_zeros = trailing_zeros_spec, >> << = Z.shiftr/shiftl, min = Z.min, sqr/cubic/pow = products / Z.pow, .into()/.clone()/& = identity, Repr {n, d} = the pair, RBig(..)/Relaxed(..) = Ok, panic_divide_by_0() = Panic DivideBy0, unwrap of None = Panic, the integer methods rem/rem_euclid/div_euclid/div_rem_euclid panic with DivideBy0 on a zero divisor (coq/theories/Ratio/RatioAtoms.v); `$impl!(a, b, c, d, ra, rb, rc, rd, $method)` passes references to the same values (checked syntactically; the ownership arms are C15's FormsRatGen)",
    "hand transcription of from_parts_const (the while loop), parse.rs and convert.rs (From<integers>, TryFrom<f32/f64> from the decoded pair on) in coq/theories/Ratio/RatArithModel.v / RatioBodiesModel.v (compared with the code on every run, not regenerated); the f32/f64 bit decoding of the oracle driver (thin OCaml; decode itself is C06's subject)",
    "IBig/UBig operations are taken at their Z-level specification: Z.add/sub/mul, Z.quot/Z.rem, Euclidean div/rem, Z.gcd, trailing_zeros, Z.shiftr, Z.pow; the word-level reduce2 uses C09's kernels (Int/BitsKernels.v) for trailing_zeros and >>",
    "extraction: ExtrOcamlBasic + ExtrOcamlZBigInt + the Extract Constant directives of coq/extract/FastZ.v (Z.gcd/quot/rem/pow/log2/sgn -> zarith)",
    "OCaml 4.13.1 + zarith 1.12, oracle/common.ml, oracle/driver_c04.ml; Rust harness harness/src/bin/c04.rs (catch_unwind per history step)",
    "props/C04.py renders the integers of parser cases as text with Python's int formatting",
]
ASSUMPTIONS = [
    "UBig::from_words / as_words / IBig::from_parts / as_sign_words transport values faithfully (used by the harness instead of any parser)",
    "the integer layer below (dashu-int) behaves like Z on the generated operands (C01/C02/C12)",
    "usize exponents stay small enough for the result to fit in memory",
]

FORMS6 = ["vv", "vr", "rv", "rr", "av", "ar"]
FORMS4 = ["vv", "vr", "rv", "rr"]
M64 = (1 << 64) - 1
FACTORS = [2, 2, 3, 4, 5, 6, 7, 10, 1 << 31, 1 << 32, 1 << 63, 1 << 64, 1 << 65, 1 << 127, 1 << 128, 1 << 129, M64, (1 << 61) - 1,
           (1 << 127) - 1, (1 << 64) + 1, (1 << 128) - 1, 3 ** 40, 6 ** 25, 10 ** 19, 10 ** 38]


def gmag(rng, tier):
    """a positive magnitude: small values often, otherwise the shared size classes"""
    k = rng.below(10)
    if k < 2:
        return rng.choice([1, 1, 2, 3, 4, 5, 6, 7, 8, 9, 10, 12, 15, 16, 30, 64, 100, 255, 256, 1000])
    if k < 4:
        return max(1, rng.bits(rng.choice([8, 16, 31, 32, 33, 63, 64])))
    if k < 5:
        return rng.choice(FACTORS)
    n = gen_words_len(rng, tier)
    return max(1, gen_mag(rng, max(1, n)))


def gfactor(rng, tier):
    k = rng.below(6)
    if k < 3:
        return rng.choice(FACTORS)
    if k == 3:
        return 1 << rng.range(1, 200)
    if k == 4:
        return max(2, rng.bits(rng.choice([8, 32, 64, 65, 128, 130])))
    return gmag(rng, tier)


def gnum(rng, tier):
    """signed numerator; zero sometimes"""
    if rng.chance(1, 14):
        return 0
    m = gmag(rng, tier)
    return -m if rng.chance(1, 2) else m


def grat(rng, tier):
    """a fraction (n, d), d > 0, frequently not in lowest terms"""
    n, d = gnum(rng, tier), gmag(rng, tier)
    if rng.chance(1, 8):
        d = 1
    if rng.chance(1, 3):
        f = gfactor(rng, tier)
        n, d = n * f, d * f
    return n, d


def gpair(rng, tier):
    """two fractions with common factors planted in the cross positions the algorithms cancel"""
    a, b = grat(rng, tier)
    c, d = grat(rng, tier)
    k = rng.below(16)
    if k == 0:
        c, d = a, b                      # equal operands: x - x, x / x
    elif k == 1:
        c, d = -a, b                     # x + (-x)
    elif k == 2 and a != 0:
        c, d = (b if a > 0 else -b), abs(a)   # reciprocal: x * 1/x
    elif k == 3:
        d = b                            # equal denominators
    elif k == 4:
        d = b * gfactor(rng, tier)       # one denominator divides the other
    elif k == 5:
        b = d * gfactor(rng, tier)
    elif k == 6:
        c = 0
    elif k == 7:
        a = 0
    # planted factors: (a,d) and (b,c) for mul, (a,c) and (b,d) for div / add / rem
    if rng.chance(1, 3):
        f = gfactor(rng, tier); a *= f; d *= f
    if rng.chance(1, 3):
        f = gfactor(rng, tier); b *= f; c *= f
    if rng.chance(1, 3):
        f = gfactor(rng, tier); b *= f; d *= f
    if rng.chance(1, 3):
        f = gfactor(rng, tier); a *= f; c *= f
    if rng.chance(1, 8):
        # the sum cancels against the common denominator factor: a/(g*p) + c/(g*q) with g | (a*q + c*p)
        g = gfactor(rng, tier); p, q = gmag(rng, tier), gmag(rng, tier)
        a = gnum(rng, tier) or 1
        c = g * gnum(rng, tier) - a * q  # then a*q + c*p*... keeps a shared factor in many cases
        b, d = g * p, g * q * p
    return a, b, c, d


def gtie(rng, tier):
    """x, y with x / y = k + 1/2 exactly (or next to it): the centred remainder's tie"""
    c, d = grat(rng, tier)
    if c == 0:
        c = 1
    k = rng.choice([0, 0, 1, -1, 2, -2, 3, -3, gnum(rng, tier)])
    num, den = (2 * k + 1) * c, 2 * d
    if rng.chance(1, 3):
        e = rng.choice([1, -1])
        bump = gmag(rng, tier)
        num, den = num * bump + e, den * bump
    return num, den, c, d


def gintop(rng, tier, a, b):
    """integer operand related to the fraction a/b"""
    k = rng.below(10)
    if k == 0:
        return 0
    if k == 1:
        return rng.choice([1, -1])
    if k == 2:
        return b * rng.choice([1, -1, 2, 3])          # multiple of the denominator
    if k == 3 and a != 0:
        return a * rng.choice([1, -1, 2])             # multiple of the numerator
    if k == 4:
        return gfactor(rng, tier) * rng.choice([1, -1])
    if k == 5:
        import math
        g = math.gcd(abs(a), b) or 1
        return (b // g) * gfactor(rng, tier)
    return gnum(rng, tier)


def fmt_radix(v, radix):
    digs = "0123456789abcdefghijklmnopqrstuvwxyz"
    if v == 0:
        return "0"
    s, m = "", abs(v)
    while m:
        s = digs[m % radix] + s
        m //= radix
    return ("-" if v < 0 else "") + s


# ------------------------------------------------------------------------------------------------
# histories (sizes are kept bounded by simulating the values with Python fractions)
# ------------------------------------------------------------------------------------------------
def _rha(q):
    n = (abs(q) + Fraction(1, 2)).__floor__()
    return n if q >= 0 else -n


def _sim(op, x, y, k):
    """value of one history step, None when it panics"""
    if op == "add": return x + y
    if op == "sub": return x - y
    if op == "mul": return x * y
    if op == "div": return None if y == 0 else x / y
    if op == "rem": return None if y == 0 else x - y * _rha(x / y)
    if op == "reme": return None if y == 0 else x % abs(y)
    if op == "neg": return -x
    if op == "abs": return abs(x)
    if op == "inv": return None if x == 0 else 1 / x
    if op == "sqr": return x * x
    if op == "cubic": return x * x * x
    if op == "signum": return Fraction((x > 0) - (x < 0))
    if op == "fract": return x - (x.__trunc__())
    if op == "pow": return x ** k
    if op in ("addi", "addu"): return x + k
    if op == "subi": return x - k
    if op in ("muli", "mulu"): return x * k
    if op in ("divi", "divu"): return None if k == 0 else x / k
    if op == "isub": return k - x
    if op == "idiv": return None if x == 0 else k / x
    raise ValueError(op)


HBIN = ["add", "sub", "mul", "div", "rem", "reme"]
HUN = ["neg", "abs", "inv", "sqr", "cubic", "signum", "fract"]
HINT = ["addi", "subi", "muli", "divi", "isub", "idiv"]
HINTU = ["addu", "mulu", "divu"]


def gen_history(rng, tier):
    K = 4
    limit = 3000 if tier == "quick" else 12000
    small = rng.chance(1, 2)
    init = []
    for _ in range(K):
        if small:
            n, d = rng.range(-40, 40), rng.range(1, 40)
        else:
            n, d = grat(rng, tier)
            if abs(n).bit_length() + d.bit_length() > limit // 2:
                n, d = n % (1 << 300), (d % (1 << 300)) or 1
        init.append((n, d))
    pool = [Fraction(n, d) for n, d in init]
    nsteps = rng.choice([1, 2, 3, 5, 8, 13, 20, 30, 40])
    toks = ["hist", "%x" % K]
    for n, d in init:
        toks += [hx(n), hx(d)]
    for _ in range(nsteps):
        for attempt in range(6):
            grp = rng.below(10)
            i, j, dst = rng.below(K), rng.below(K), rng.below(K)
            if grp < 5:
                op = rng.choice(HBIN); arg = "%x" % j; val = _sim(op, pool[i], pool[j], None)
            elif grp < 7:
                op = rng.choice(HUN); arg = "0"; val = _sim(op, pool[i], None, None)
            elif grp == 7:
                op = "pow"; e = rng.choice([0, 1, 2, 3, 4, 5, 7]); arg = "%x" % e; val = _sim(op, pool[i], None, e)
            else:
                x = pool[i]
                k = gintop(rng, tier, x.numerator, x.denominator) if rng.chance(2, 3) else rng.range(-12, 12)
                if abs(k).bit_length() > limit // 2:
                    k = rng.range(-12, 12)
                if rng.chance(1, 4):
                    op = rng.choice(HINTU); k = abs(k)
                else:
                    op = rng.choice(HINT)
                arg = hx(k); val = _sim(op, x, None, k)
            if val is None or abs(val.numerator).bit_length() + val.denominator.bit_length() <= limit:
                break
        else:
            op, arg, val = "signum", "0", _sim("signum", pool[i], None, None)
        toks += [op, "%x" % i, arg, "%x" % dst]
        if val is not None:
            pool[dst] = val
    return " ".join(toks)


# ------------------------------------------------------------------------------------------------
def const_pair(rng):
    """operands of from_parts_const (DoubleWord = u128): gcd loop exits with r = 0 or r = 1 after many / few steps"""
    k = rng.below(10)
    if k == 0:
        # consecutive Fibonacci numbers: the longest Euclid run (gcd 1)
        a, b = 1, 1
        for _ in range(rng.range(2, 184)):
            a, b = b, a + b
        return (a, b) if rng.chance(1, 2) else (b, a)
    if k == 1:
        a, b = 1, 1
        for _ in range(rng.range(2, 120)):
            a, b = b, a + b
        f = rng.choice([2, 3, 1 << 20, M64])
        if b * f < (1 << 128):
            a, b = a * f, b * f
        return (a, b) if rng.chance(1, 2) else (b, a)
    if k == 2:
        g = max(1, rng.bits(rng.choice([1, 8, 32, 63, 64])))
        a, b = max(1, rng.bits(rng.choice([1, 8, 32, 64]))), max(1, rng.bits(rng.choice([1, 8, 32, 64])))
        return a * g, b * g
    if k == 3:
        v = max(1, rng.bits(rng.choice([1, 64, 65, 128])))
        return rng.choice([(v, v), (v, 1), (1, v), (v, 0), (0, v), (0, 0), ((1 << 128) - 1, v), (v, (1 << 128) - 1)])
    if k == 4:
        d = max(1, rng.bits(rng.choice([8, 32, 64])))
        m = rng.range(1, 1 << 60)
        return (d * m, d) if rng.chance(1, 2) else (d, d * m)
    if k == 5:
        return (1 << rng.range(0, 127), 1 << rng.range(0, 127))
    return rng.bits(rng.choice([64, 65, 127, 128])), rng.bits(rng.choice([64, 65, 127, 128]))


def fbits(rng, single):
    """bit pattern of an f32 / f64: every class (zero, subnormal, normal, integer-valued, huge, inf, nan), both signs"""
    mb, eb = (23, 8) if single else (52, 11)
    bias = (1 << (eb - 1)) - 1
    k = rng.below(12)
    if k == 0:
        ex, fr = 0, 0
    elif k == 1:
        ex, fr = 0, rng.choice([1, 2, 3, 1 << (mb - 1), (1 << mb) - 1, rng.bits(mb)])           # subnormal
    elif k == 2:
        ex, fr = (1 << eb) - 1, rng.choice([0, 0, 1, rng.bits(mb)])                              # inf / nan
    elif k == 3:
        ex, fr = rng.choice([1, 2, (1 << eb) - 2]), rng.choice([0, 1, (1 << mb) - 1, rng.bits(mb)])  # smallest / largest normal
    elif k < 7:
        # around the integer / fraction border: exponent e = ex - bias - mb near 0, trailing zeros in the mantissa
        ex = bias + mb + rng.range(-mb - 3, 4)
        fr = rng.bits(mb)
        if rng.chance(1, 2):
            z = rng.range(1, mb)
            fr = (fr >> z) << z
    elif k == 7:
        ex, fr = bias + rng.range(-5, 5), 0                                                       # powers of two
    else:
        ex, fr = rng.range(0, (1 << eb) - 1), rng.bits(mb)
    sg = rng.below(2)
    return (sg << (mb + eb)) | (max(0, min(ex, (1 << eb) - 1)) << mb) | (fr & ((1 << mb) - 1))


def gen_cases(rng, tier, n):
    out = []
    while len(out) < n:
        T = rng.choice(["r", "r", "x"])
        k = rng.below(100)
        if k < 30:
            a, b, c, d = gpair(rng, tier)
            op = rng.choice(["add", "sub", "mul", "div", "add", "sub", "mul", "div", "rem"])
            out.append("%s%s %s %s %s %s %s" % (T, op, rng.choice(FORMS6), hx(a), hx(b), hx(c), hx(d)))
        elif k < 36:
            a, b, c, d = gtie(rng, tier) if rng.chance(2, 3) else gpair(rng, tier)
            out.append("%srem %s %s %s %s %s" % (T, rng.choice(FORMS6), hx(a), hx(b), hx(c), hx(d)))
        elif k < 44:
            a, b, c, d = gpair(rng, tier) if rng.chance(3, 4) else gtie(rng, tier)
            op = rng.choice(["dive", "reme", "divreme"])
            out.append("%s%s %s %s %s %s %s" % (T, op, rng.choice(FORMS4), hx(a), hx(b), hx(c), hx(d)))
        elif k < 58:
            a, b = grat(rng, tier)
            i = gintop(rng, tier, a, b)
            ty = rng.choice(["u", "i"])
            if ty == "u":
                i = abs(i)
            op = rng.choice(["addi", "subi", "muli", "divi", "iadd", "isub", "imul", "idiv"])
            out.append("%s%s %s %s %s %s %s" % (T, op, rng.choice(FORMS4), ty, hx(a), hx(b), hx(i)))
        elif k < 66:
            a, b = grat(rng, tier)
            op = rng.choice(["neg", "inv", "abs", "signum", "sqr", "cubic", "mulsign", "fract", "split", "trunc", "floor", "ceil", "round", "preds"])
            if op in ("neg", "inv"):
                out.append("%s%s %s %s %s" % (T, op, rng.choice(["v", "r"]), hx(a), hx(b)))
            elif op == "mulsign":
                out.append("%s%s %s %s %s" % (T, op, rng.choice(["+", "-"]), hx(a), hx(b)))
            else:
                if op in ("round", "fract", "split") and rng.chance(1, 3):
                    a, b = gtie(rng, tier)[:2]
                if op == "preds":
                    r = rng.below(6)
                    if r == 0:
                        a = b                          # the value one, stored n/n by Relaxed only through reduce2
                    elif r == 1:
                        a = b * gnum(rng, tier)        # integer-valued
                    elif r == 2:
                        a = 0
                out.append("%s%s %s %s" % (T, op, hx(a), hx(b)))
        elif k < 70:
            a, b = grat(rng, tier)
            bits = max(1, abs(a).bit_length() + b.bit_length())
            e = rng.choice([0, 1, 2, 3, 4, 5, 8, 17, 64, 100])
            e = min(e, max(1, (40000 if tier == "quick" else 400000) // bits))
            out.append("%spow %x %s %s" % (T, e, hx(a), hx(b)))
        elif k < 76:
            n_, d_ = grat(rng, tier)
            r = rng.below(8)
            if r == 0:
                d_ = 0
            if r == 1:
                n_ = d_ * gnum(rng, tier)
            op = rng.choice(["from_parts", "from_parts", "from_parts_signed"])
            if op == "from_parts_signed" and rng.chance(1, 2):
                d_ = -d_
            if rng.chance(1, 4):
                single = rng.chance(1, 2)
                out.append("%sfromf%s %x" % (T, "32" if single else "64", fbits(rng, single)))
            elif rng.chance(1, 8):
                v = rng.choice([0, 1, -1, (1 << 63) - 1, -(1 << 63), 1 << 63, (1 << 64) - 1, 1 << 64, (1 << 127) - 1, -(1 << 127),
                                (1 << 128) - 1, 1 << 128, gnum(rng, tier), gnum(rng, tier)])
                if rng.chance(1, 2):
                    out.append("%sfromu %s" % (T, hx(abs(v))))
                else:
                    out.append("%sfromi %s" % (T, hx(v)))
            elif op == "from_parts" and T == "x" and rng.chance(1, 3):
                out.append("xcanon %s %s" % (hx(n_), hx(d_)))
            elif op == "from_parts" and T == "r" and rng.chance(1, 4):
                out.append("rrelax %s %s" % (hx(n_), hx(d_)))
            else:
                out.append("%s%s %s %s" % (T, op, hx(n_), hx(d_)))
        elif k < 82:
            n_, d_ = const_pair(rng)
            out.append("%sfrom_parts_const %s %x %x" % (T, rng.choice(["+", "-"]), n_ & ((1 << 128) - 1), d_ & ((1 << 128) - 1)))
        elif k < 88:
            n_, d_ = grat(rng, tier)
            if abs(n_).bit_length() > 2000:
                n_ = n_ % (1 << 2000)
            if d_.bit_length() > 2000:
                d_ = d_ % (1 << 2000) or 1
            r = rng.below(6)
            if r < 2:
                d_ = 0
            if rng.chance(1, 2):
                d_ = -d_
            kind = rng.below(4)
            if kind < 2:
                sn = ("+" if n_ >= 0 and rng.chance(1, 4) else "") + str(n_)
                sd = ("-" if d_ == 0 and rng.chance(1, 3) else "+" if d_ >= 0 and rng.chance(1, 4) else "") + str(d_)
                if d_ == 0 and rng.chance(1, 3):
                    sd = sd + "00"
                out.append("%sparse %s/%s %s %s" % (T, sn, sd, hx(n_), hx(d_)))
            elif kind == 2:
                radix = rng.choice([2, 3, 8, 10, 16, 32, 36])
                out.append("%sparse_radix %x %s/%s %s %s" % (T, radix, fmt_radix(n_, radix), fmt_radix(d_, radix), hx(n_), hx(d_)))
            else:
                radix, pre = rng.choice([(2, "0b"), (8, "0o"), (16, "0x"), (10, "")])
                sn = ("-" if n_ < 0 else "") + pre + fmt_radix(abs(n_), radix)
                sd = ("-" if d_ < 0 else "") + (pre if rng.chance(1, 2) else "") + fmt_radix(abs(d_), radix)
                out.append("%sparse_prefix %s/%s %s %s %x" % (T, sn, sd, hx(n_), hx(d_), radix))
        else:
            out.append(gen_history(rng, tier))
    return out
