"""C16 - operations terminate and panic only where the documentation says so."""
import core
from core import hx, gen_int, gen_mag

ID = "C16"
READY = True
ORACLE = "c16"
HARNESS_BIN = "c16"
NCASES = {"quick": 9000, "thorough": 120000}
CASE_TIMEOUT = {"quick": 3, "thorough": 30}
SHRINK = False

LEVEL_TEXT = ("Machine-checked Coq theorems about the panic sets: a table `documented : call -> option reason` transcribed from the "
              "`# Panics` sections and the three error.rs files, as-is models of the panic mechanisms the property anchors "
              "(try_into().unwrap() of the primitive-operand forms, the float guard sequences assert_finite / assert_limited_precision / "
              "sign tests, the series loop of ln), theorems `asis c = Panic r <-> documented c = Some r` outside the listed finding "
              "classes, and termination (fuel sufficiency) theorems for the loops modelled in the development (Newton roots, ilog "
              "correction, remove, ring inverse, rational gcd, simplest_in).  The whole public surface is tied to the table by a "
              "watchdog-supervised correspondence run judged by the OCaml extraction of the table.")
LEVEL_NOTE = ("Trusted: Coq kernel, extraction, the dictionary operation-name -> call family in oracle/driver_c16.ml, the harness, the "
              "runner's watchdog.  Wall-clock termination and allocator behaviour of the real code are observed, not proved; the "
              "near-overflow band of isize exponents is accepted either way (ok or overflow panic) and counted.")
TECHNIQUE = "Coq proof of panic-set tables and fuel sufficiency + watchdog-supervised correspondence run over the public surface"
RULE = ("cases = public operation (every call form the harness knows: by value / by reference / assigning / primitive operand of each "
        "width) x edge arguments {0, 1, -1, 2^63, 2^64-1, 2^64, word-count classes of the shared generator, primitive MIN/MAX, "
        "infinities, precision 0/1/2/small, exponents 0, +-1, +-small, +-2^62, isize::MIN/MAX, radix 0/1/2/36/37, shift counts up to "
        "2^24 and usize::MAX where the result is small, empty / non-ASCII / overlong strings, random byte streams for the "
        "deserialisers}.  A case is non-trivial when the oracle evaluated the extracted table on it and the operation is not in the "
        "never-panics family, or the implementation panicked / refused; distinct = distinct case texts.")
EXPLANATION = ("Theorems (coq/props/C16.v): the documented panic table is characterised per reason; the as-is models of the panic "
               "mechanisms equal the table outside the open finding classes and are refuted inside them by witnesses; loops modelled "
               "with fuel never run out under the stated bounds.  Tie: every public operation is run in supervised workers and its "
               "outcome class ok / err / panic(class) / hang / crash is compared with the extracted table.")
TRUSTED_BASE = [
    "Coq 8.16.1 kernel (coqc, full .vo builds)",
    "extraction: ExtrOcamlBasic + ExtrOcamlZBigInt + coq/extract/FastZ.v",
    "OCaml 4.13.1 + zarith, oracle/common.ml, oracle/driver_c16.ml (dictionary: harness operation name -> call family of PanicSpec.v)",
    "Rust harness harness/src/bin/c16.rs (panic capture, message -> class table, capping allocator), tools/core.py run_lines watchdog",
]
ASSUMPTIONS = [
    "values are moved through raw words (UBig::from_words, IBig::from_parts, Repr::new, RBig::from_parts), never through a parser",
    "arguments are kept inside memory: shift counts / powers / precisions are chosen so that results stay below ~32 MiB",
    "exponents within 2^61 of the isize range ends form an accepted either-way band (ok or overflow panic)",
]

I64MAX = (1 << 63) - 1
UTYPES = {"u8": 8, "u16": 16, "u32": 32, "u64": 64, "u128": 128, "usize": 64}
ITYPES = {"i8": 8, "i16": 16, "i32": 32, "i64": 64, "i128": 128, "isize": 64}
MODES = ["Zero", "Away", "Up", "Down", "HalfEven", "HalfAway"]
BASES = {"2": 2, "3": 3, "a": 10, "10": 16}


def sx(s):
    return "s" + s.encode("utf-8").hex()


def edge_int(rng, tier, signed=True):
    k = rng.below(10)
    if k < 4:
        v = rng.choice([0, 0, 1, 1, 2, 3, 255, 256, (1 << 63) - 1, 1 << 63, (1 << 64) - 1, 1 << 64, (1 << 64) + 1,
                        (1 << 127), (1 << 128) - 1, 1 << 128, (1 << 128) + 1, (1 << 192) - 1, 1 << 192])
    elif k < 6:
        v = rng.bits(rng.choice([3, 8, 31, 64, 65]))
    else:
        v = abs(gen_int(rng, tier))
    if signed and rng.chance(1, 2):
        v = -v
    return v


def small_int(rng, signed=True):
    v = rng.choice([0, 1, 1, 2, 3, 7, 10, 255, 1 << 31, (1 << 64) - 1, 1 << 64, rng.bits(20), rng.bits(70)])
    return -v if signed and rng.chance(1, 2) else v


def uprim(rng, ty):
    b = UTYPES[ty]
    return rng.choice([0, 0, 1, 1, 2, 3, (1 << b) - 1, 1 << (b - 1), rng.bits(b), rng.bits(b // 2)])


def iprim(rng, ty):
    b = ITYPES[ty]
    return rng.choice([0, 0, 1, -1, -1, 2, -2, (1 << (b - 1)) - 1, -(1 << (b - 1)), -(1 << (b - 1)) + 1, rng.bits(b - 1), -rng.bits(b - 1)])


U_UU = ["add", "sub", "sub_rr", "sub_assign", "mul", "div", "div_rr", "rem", "rem_rv", "divrem", "divrem_rr", "div_euclid", "rem_euclid",
        "divrem_euclid", "div_assign", "rem_assign", "divrem_assign", "is_multiple_of", "gcd", "gcd_rr", "gcd_ext", "gcd_ext_rr", "ilog",
        "remove", "cmp", "sum", "product"]
U_U = ["sqrt", "cbrt", "sqrt_rem", "sqr", "cubic", "trailing_zeros", "trailing_ones", "count_ones", "count_zeros", "bit_len",
       "is_power_of_two", "next_power_of_two", "log2_bounds", "log2_est", "fmt", "to_le_bytes", "to_be_bytes", "to_f32", "to_f64",
       "try_u8", "try_u64", "try_i64", "try_u128", "try_usize", "try_f32", "try_f64"]
U_UN_SMALLRES = ["shr", "shr_assign", "bit", "clear_bit", "split_bits", "clear_high_bits"]   # any usize is fine
U_UN_GROW = ["shl", "shl_assign", "set_bit"]                                                 # result grows with n
U_PRIM = ["sub_p", "sub_p_rr", "p_sub", "sub_assign_p", "add_p", "mul_p", "div_p", "p_div", "rem_p", "rem_p_rr", "divrem_p",
          "div_assign_p", "divrem_assign_p", "and_p", "p_and", "or_p", "xor_p"]
I_II = ["add", "sub", "mul", "div", "div_rr", "rem", "rem_vr", "divrem", "divrem_rr", "div_euclid", "rem_euclid", "divrem_euclid",
        "divrem_euclid_rr", "div_assign", "rem_assign", "divrem_assign", "is_multiple_of", "gcd", "gcd_rr", "gcd_ext", "gcd_ext_rr",
        "and", "or", "xor", "cmp", "sum", "product"]
I_IU = ["div_iu", "rem_iu", "divrem_iu", "gcd_iu", "gcd_ext_iu", "and_iu", "ilog"]
I_UI = ["div_ui", "rem_ui", "divrem_ui", "sub_ui", "gcd_ui"]
I_I = ["neg", "abs", "sqrt", "cbrt", "sqr", "cubic", "trailing_zeros", "trailing_ones", "bit_len", "not", "log2_bounds", "fmt",
       "to_le_bytes", "to_be_bytes", "to_f32", "to_f64", "try_u8", "try_i8", "try_i64", "try_u64", "try_i128", "try_isize", "try_f32",
       "try_f64"]
I_PU = ["add_pu", "sub_pu", "pu_sub", "mul_pu", "div_pu", "pu_div", "pu_div_rr", "rem_pu", "rem_pu_rr", "divrem_pu", "divrem_pu_rr",
        "div_assign_pu", "divrem_assign_pu", "and_pu", "pu_and", "or_pu"]
I_PI = ["add_pi", "pi_sub", "mul_pi", "div_pi", "pi_div", "rem_pi", "divrem_pi", "div_assign_pi", "divrem_assign_pi", "and_pi", "xor_pi"]
B_U2 = ["gcd", "gcd_ext"]
B_NU1 = ["sqrt_rem", "cbrt_rem", "sqrt", "cbrt"]
B_U1 = ["log2_bounds", "bit_len"]
B_I2 = ["divrem_euclid", "divrem"]
M_2 = ["add", "sub", "mul", "div", "div_assign", "eq"]
M_1 = ["reduce", "inv", "neg", "sqr", "fmt"]
M_RINGS = ["add2", "sub2", "mul2", "div2", "eq2"]
M_CONST = ["rem_const", "div_const", "divrem_const"]
# floats: context level (any repr), value level (digits <= precision), third argument kinds
F_CTX2 = ["add", "sub", "mul", "div", "rem", "powf"]
F_CTX1 = ["sqr", "cubic", "sqrt", "inv", "exp", "exp_m1", "ln", "ln_1p"]
F_VAL2 = ["op_add", "op_sub", "op_sub_rr", "op_mul", "op_div", "op_div_rr", "op_rem", "op_div_assign", "op_add_assign", "op_mul_assign",
          "div_euclid", "rem_euclid", "divrem_euclid", "v_powf", "cmp", "sum", "product"]
F_VAL1 = ["op_neg", "abs", "v_sqr", "v_cubic", "v_sqrt", "v_inv", "v_exp", "v_exp_m1", "v_ln", "v_ln_1p", "trunc", "fract", "ceil", "floor",
          "round", "split_at_point", "to_int", "repr_to_int", "to_f32", "to_f64", "try_u8", "try_i64", "try_u128", "try_ibig", "try_ubig",
          "try_rbig", "try_relaxed", "with_rounding", "with_base2", "with_base10", "with_base3", "with_base16", "to_decimal", "to_binary",
          "ulp", "digits", "repr_digits", "is_int", "log2_bounds", "log2_est", "hash", "fmt", "repr_fmt", "serde_json", "postcard"]
F_VALINT = ["op_add_int", "op_mul_int", "op_div_int", "op_int_div", "cmp_int"]
F_VALSMALL = ["op_div_u8", "op_sub_i32"]
F_VALSHIFT = ["shl", "shr", "shl_assign", "shr_assign"]
F_VALPREC = ["with_precision", "with_base_prec10", "with_base_prec2", "fmt_prec"]
Q_2 = ["add", "sub", "mul", "div", "div_rr", "rem", "div_assign", "rem_assign", "div_euclid", "rem_euclid", "divrem_euclid", "simplest_in",
       "is_simpler_than", "cmp"]
Q_1 = ["inv", "neg", "abs", "sqr", "cubic", "trunc", "ceil", "floor", "round", "fract", "split_at_point", "to_int", "is_int", "to_f32", "to_f64",
       "to_f32_fast", "to_f64_fast", "try_f32", "try_f64", "try_ibig", "try_ubig", "log2_bounds", "fmt", "relax", "serde_json"]
Q_INT = ["div_ibig", "ibig_div", "mul_ibig", "add_ibig", "cmp_int"]
Q_UINT = ["div_ubig", "ubig_div", "next_up", "next_down", "nearest"]
R_2 = ["add", "sub", "mul", "div", "rem", "div_euclid", "rem_euclid", "divrem_euclid", "cmp"]
R_1 = ["inv", "trunc", "ceil", "floor", "round", "fract", "to_f64", "to_f32_fast", "fmt", "canonicalize"]
R_INT = ["div_ibig", "ibig_div"]


def gen_integer(rng, tier, out):
    k = rng.below(100)
    if k < 22:
        op = rng.choice(U_UU)
        a = edge_int(rng, tier, False)
        b = edge_int(rng, tier, False) if rng.chance(3, 4) else rng.choice([0, 0, 1, 2, a, a + 1, max(a - 1, 0)])
        if op in ("ilog", "remove"):
            b = rng.choice([0, 1, 2, 3, 10, 1 << 64, b])
        if op in ("gcd", "gcd_rr", "gcd_ext", "gcd_ext_rr") and rng.chance(1, 6):
            a = b = 0
        out.append("u.%s %s %s" % (op, hx(a), hx(b)))
    elif k < 30:
        out.append("u.%s %s" % (rng.choice(U_U), hx(edge_int(rng, tier, False))))
    elif k < 36:
        a = edge_int(rng, tier, False)
        n = rng.choice([0, 1, 63, 64, 65, a.bit_length(), a.bit_length() + 1, 1 << 20, 1 << 32, (1 << 63), (1 << 64) - 1])
        out.append("u.%s %s %x" % (rng.choice(U_UN_SMALLRES), hx(a), n))
    elif k < 40:
        a = edge_int(rng, tier, False)
        n = rng.choice([0, 1, 63, 64, 65, 127, 128, 1000, 1 << 16, 1 << 20, (1 << 24) + 1])
        out.append("u.%s %s %x" % (rng.choice(U_UN_GROW), hx(a), n))
    elif k < 44:
        r = rng.below(5)
        if r == 0:
            a = small_int(rng, False)
            n = rng.choice([0, 0, 1, 2, 3, 5, 64, 65, 1 << 20, (1 << 64) - 1])
            out.append("%s %s %x" % (rng.choice(["u.nth_root", "i.nth_root"]), hx(a), n))
        elif r == 1:
            a = edge_int(rng, tier, True)
            n = rng.choice([0, 0, 1, 2, 3, 4, 5, 6, 63, 64, 65, 1 << 20, (1 << 64) - 1, (1 << 64) - 2])
            out.append("i.nth_root %s %x" % (hx(a), n))
        elif r == 2:
            a = rng.choice([0, 1, 1, 2, 3, 10, rng.bits(16), 1 << 64])
            lim = 1 << 18
            n = rng.choice([0, 1, 2, 3, 10, 100, 1000])
            if a <= 1:
                n = rng.choice([0, 1, (1 << 64) - 1, n])
            elif a == 2:
                n = rng.choice([n, 1 << 20])
            elif a.bit_length() * n > lim:
                n = lim // a.bit_length()
            sg = rng.chance(1, 2)
            out.append("%s %s %x" % ("i.pow" if sg else "u.pow", hx(-a if sg and rng.chance(1, 2) else a), n))
        elif r == 3:
            a = edge_int(rng, tier, False)
            n = rng.choice([0, 0, 1, 2, 7, 8, 63, 64, 65, 128, 1000, 1 << 20, (1 << 64) - 1])
            if rng.chance(1, 3):
                out.append("u.from_chunks %s %s %x" % (hx(a), hx(edge_int(rng, tier, False)), min(n, 1 << 20)))
            else:
                out.append("u.to_chunks %s %x" % (hx(a), n))
        else:
            out.append("u.ones %x" % rng.choice([0, 1, 63, 64, 65, 128, 1 << 16, 1 << 24]))
    elif k < 47:
        sg = rng.chance(1, 2)
        a = edge_int(rng, tier, sg)
        r = rng.choice([0, 1, 2, 2, 3, 10, 16, 35, 36, 36, 37, 38, 64, 255, 256, (1 << 32) - 1])
        out.append("%s.%s %s %x" % ("i" if sg else "u", rng.choice(["in_radix", "in_radix_fmt"]), hx(a), r))
    elif k < 50:
        nb = rng.choice([0, 1, 7, 8, 9, 15, 16, 17, 24, 100])
        data = bytes(rng.choice([0, 0xff, 0x80, rng.below(256)]) for _ in range(nb))
        out.append("%s.%s s%s" % (rng.choice("ui"), rng.choice(["from_le_bytes", "from_be_bytes"]), data.hex()))
    elif k < 53:
        r = rng.below(3)
        if r == 0:
            bits = rng.choice([0, 0x80000000, 0x7f800000, 0xff800000, 0x7fc00000, 0x7f7fffff, 0xff7fffff, 1, 0x3f800000, 0xbf800000, 0x3f000000, rng.bits(32)])
            out.append("%s %x" % (rng.choice(["u.from_f32", "i.from_f32", "q.from_f32", "q.simplest_from_f32"]), bits))
        elif r == 1:
            bits = rng.choice([0, 1 << 63, 0x7ff0000000000000, 0xfff0000000000000, 0x7ff8000000000000, 0x7fefffffffffffff, 1, 0x3ff0000000000000,
                               0xbff0000000000000, 0x3fe0000000000000, rng.bits(64)])
            out.append("%s %x" % (rng.choice(["u.from_f64", "i.from_f64", "q.from_f64", "q.simplest_from_f64"]), bits))
        else:
            out.append("u.from_ibig %s" % hx(edge_int(rng, tier, True)))
    elif k < 63:
        op = rng.choice(U_PRIM)
        ty = rng.choice(list(UTYPES))
        out.append("u.%s %s %s %s" % (op, ty, hx(edge_int(rng, tier, False)), hx(uprim(rng, ty))))
    elif k < 75:
        op = rng.choice(I_II)
        a = edge_int(rng, tier)
        b = edge_int(rng, tier) if rng.chance(3, 4) else rng.choice([0, 0, 1, -1, a, -a, a + 1])
        if op.startswith("gcd") and rng.chance(1, 6):
            a = b = 0
        out.append("i.%s %s %s" % (op, hx(a), hx(b)))
    elif k < 79:
        op = rng.choice(I_IU)
        a, b = edge_int(rng, tier), edge_int(rng, tier, False)
        if rng.chance(1, 3):
            b = rng.choice([0, 0, 1, 2])
        if op.startswith("gcd") and rng.chance(1, 5):
            a = b = 0
        out.append("i.%s %s %s" % (op, hx(a), hx(b)))
    elif k < 82:
        op = rng.choice(I_UI)
        a, b = edge_int(rng, tier, False), edge_int(rng, tier)
        if rng.chance(1, 3):
            b = rng.choice([0, 0, 1, -1])
        if op.startswith("gcd") and rng.chance(1, 5):
            a = b = 0
        out.append("i.%s %s %s" % (op, hx(a), hx(b)))
    elif k < 85:
        out.append("i.%s %s" % (rng.choice(I_I), hx(edge_int(rng, tier))))
    elif k < 87:
        a = edge_int(rng, tier)
        op = rng.choice(["shl", "shr", "shr_r", "shl_assign", "shr_assign", "bit"])
        if op.startswith("shl"):
            n = rng.choice([0, 1, 63, 64, 65, 1000, 1 << 20, 1 << 24])
        else:
            n = rng.choice([0, 1, 63, 64, 65, a.bit_length(), 1 << 32, 1 << 63, (1 << 64) - 1])
        out.append("i.%s %s %x" % (op, hx(a), n))
    elif k < 93:
        op = rng.choice(I_PU)
        ty = rng.choice(list(UTYPES))
        a = edge_int(rng, tier)
        if rng.chance(1, 3):
            a = rng.choice([-1, -7, -255, -256, -(1 << 64), 7, 0])
        out.append("i.%s %s %s %s" % (op, ty, hx(a), hx(uprim(rng, ty))))
    elif k < 97:
        op = rng.choice(I_PI)
        ty = rng.choice(list(ITYPES))
        a = edge_int(rng, tier)
        if rng.chance(1, 3):
            a = rng.choice([-1, 1, -7, 0, 2, -2])
        out.append("i.%s %s %s %s" % (op, ty, hx(a), hx(iprim(rng, ty))))
    else:
        r = rng.below(4)
        if r == 0:
            ty = rng.choice(list(UTYPES))
            a, b = uprim(rng, ty), uprim(rng, ty)
            out.append("b.%s %s %s %s" % (rng.choice(B_U2), ty, hx(a), hx(b)))
        elif r == 1:
            ty = rng.choice(["u8", "u16", "u32", "u64", "u128"])
            out.append("b.%s %s %s" % (rng.choice(B_NU1), ty, hx(uprim(rng, ty))))
        elif r == 2:
            ty = rng.choice(list(UTYPES))
            out.append("b.%s %s %s" % (rng.choice(B_U1), ty, hx(uprim(rng, ty))))
        else:
            ty = rng.choice(list(ITYPES))
            out.append("b.%s %s %s %s" % (rng.choice(B_I2), ty, hx(iprim(rng, ty)), hx(iprim(rng, ty))))


def gen_modular(rng, tier, out):
    m = rng.choice([0, 0, 1, 1, 2, 3, 4, 255, (1 << 64) - 1, 1 << 64, (1 << 64) + 1, (1 << 128) - 1, abs(gen_int(rng, tier)), rng.bits(70) | 1])
    a = edge_int(rng, tier)
    r = rng.below(10)
    if r == 0:
        out.append("m.new %s" % hx(m))
    elif r < 3:
        out.append("m.%s %s %s" % (rng.choice(M_1), hx(m), hx(a)))
    elif r < 6:
        b = rng.choice([0, 1, m, 2, edge_int(rng, tier)])
        out.append("m.%s %s %s %s" % (rng.choice(M_2), hx(m), hx(a), hx(b)))
    elif r < 7:
        e = rng.choice([0, 1, 2, 3, 255, rng.bits(64), rng.bits(130)])
        out.append("m.pow %s %s %s" % (hx(m), hx(a), hx(e)))
    elif r < 9:
        m2 = rng.choice([m, m, m + 1, 1, 0, 7, abs(gen_int(rng, tier))])
        out.append("m.%s %s %s %s %s" % (rng.choice(M_RINGS), hx(m), hx(a), hx(edge_int(rng, tier)), hx(m2)))
    else:
        op = rng.choice(M_CONST)
        out.append("m.%s %s %s" % (op, hx(m), hx(a if op == "rem_const" else abs(a))))


def fexp(rng, huge):
    c = [0, 0, 1, -1, 2, -2, 5, -7, 64, -64, 1000, -1000, rng.range(-300, 300)]
    if huge:
        c += [1 << 40, -(1 << 40), 1 << 62, -(1 << 62), I64MAX, -I64MAX, I64MAX - 1, -I64MAX + 1, I64MAX - 70, -I64MAX + 70, 1 << 61, -(1 << 61)]
    return rng.choice(c)


def fsig(rng, base, prec, limited):
    """a significand; with limited=True it has at most prec digits in the base (valid FBig)"""
    k = rng.below(10)
    if k < 3:
        v = rng.choice([0, 1, 1, 2, 3, base - 1, base, base + 1])
    elif k < 5:
        v = base ** rng.choice([1, 2, 3, 10, 40])
        v += rng.choice([0, 0, 1, -1])
    elif k < 8:
        v = rng.bits(rng.choice([8, 20, 60, 64, 70, 130]))
    else:
        v = abs(gen_int(rng, "quick"))
    if limited and prec > 0:
        cap = base ** prec
        if v >= cap:
            v %= cap
    return -v if rng.chance(2, 5) else v


def fval(rng, base, prec, limited, huge, inf_ok=True):
    if inf_ok and rng.chance(1, 14):
        return rng.choice(["inf 0", "-inf 0"])
    s = fsig(rng, base, prec, limited)
    return "%s %s" % (hx(s), hx(fexp(rng, huge)))


def small_exponent(rng, x, cap=0):
    """keep |x| below ~2^16 (argument of exp, exponent of powf) so that the result exponent stays small"""
    if x.startswith(("inf", "-inf")):
        return x
    s = int(x.split()[0], 16)
    m = abs(s) % 4096
    if cap:
        m %= cap
    return "%s %s" % (hx(-m if s < 0 else m), hx(rng.range(-40, 4)))


def gen_float(rng, tier, out):
    bt = rng.choice(list(BASES))
    base = BASES[bt]
    mode = rng.choice(MODES)
    prec = rng.choice([0, 0, 1, 1, 2, 3, 5, 10, 17, 53, 64, 100, 200])
    huge = prec > 0 and rng.chance(1, 3)
    head = "%s %s %x" % (bt, mode, prec)
    k = rng.below(100)
    if k < 16:
        op = rng.choice(F_CTX2)
        hg = huge and op not in ("rem", "powf")
        x, y = fval(rng, base, prec, False, hg), fval(rng, base, prec, False, hg)
        if op == "powf":
            y = small_exponent(rng, y)
        out.append("f.%s %s %s %s" % (op, head, x, y))
    elif k < 28:
        op = rng.choice(F_CTX1)
        hg = huge and op not in ("exp", "exp_m1", "ln", "ln_1p")     # ln scales by 2^|log2 x|: exponents must fit memory
        x = fval(rng, base, prec, False, hg)
        if op in ("exp", "exp_m1"):
            x = small_exponent(rng, x)
        out.append("f.%s %s %s" % (op, head, x))
    elif k < 32:
        n = rng.choice([0, 1, -1, 2, -2, 3, 10, -10, 255, 1000]) if not huge else rng.choice([0, 1, -1, 2, 3, 1 << 62, -(1 << 62), 1 << 64])
        opn = rng.choice(["powi", "v_powi"])
        x = fval(rng, base, prec, opn == "v_powi", huge)
        if not x.startswith(("inf", "-inf")) and abs(n) > 1000:
            s = int(x.split()[0], 16)
            if abs(s) > 1:
                x = "%s %s" % (rng.choice(["1", "-1", "0"]), x.split()[1])
        out.append("f.%s %s %s %s" % (opn, head, x, hx(n)))
    elif k < 34:
        out.append("f.convert_int %s %s 0" % (head, hx(edge_int(rng, tier))))
    elif k < 54:
        op = rng.choice(F_VAL2)
        hg = huge and op not in ("op_rem", "div_euclid", "rem_euclid", "divrem_euclid", "v_powf")
        x, y = fval(rng, base, prec, True, hg), fval(rng, base, prec, True, hg)
        if op == "v_powf":
            y = small_exponent(rng, y, base ** prec if prec else 0)
        out.append("f.%s %s %s %s" % (op, head, x, y))
    elif k < 78:
        op = rng.choice(F_VAL1)
        hg = huge and op not in ("v_exp", "v_exp_m1", "v_ln", "v_ln_1p", "to_int", "repr_to_int", "try_ibig", "try_ubig", "try_rbig", "try_relaxed", "trunc", "fract",
                                 "ceil", "floor", "round", "split_at_point", "fmt", "repr_fmt", "with_base2", "with_base10", "with_base3",
                                 "with_base16", "to_decimal", "to_binary", "serde_json", "postcard")
        x = fval(rng, base, prec, True, hg)
        if op in ("v_exp", "v_exp_m1"):
            x = small_exponent(rng, x, base ** prec if prec else 0)
        out.append("f.%s %s %s" % (op, head, x))
    elif k < 84:
        op = rng.choice(F_VALINT)
        if prec == 0 and op in ("op_div_int", "op_int_div"):
            op = "op_mul_int"     # FBig of unlimited precision divided by / dividing an integer: see the report (Context::max)
        out.append("f.%s %s %s %s" % (op, head, fval(rng, base, prec, True, huge), hx(small_int(rng))))
    elif k < 87:
        op = rng.choice(F_VALSMALL)
        if prec == 0:
            op = "op_sub_i32"
        n = rng.choice([0, 0, 1, 2, 255]) if op == "op_div_u8" else rng.choice([0, 1, -1, (1 << 31) - 1, -(1 << 31)])
        out.append("f.%s %s %s %s" % (op, head, fval(rng, base, prec, True, huge), hx(n)))
    elif k < 92:
        n = rng.choice([0, 1, -1, 64, -64, 1 << 62, -(1 << 62), I64MAX, -I64MAX, -I64MAX + 1])
        out.append("f.%s %s %s %s" % (rng.choice(F_VALSHIFT), head, fval(rng, base, prec, True, True), hx(n)))
    elif k < 96:
        n = rng.choice([0, 0, 1, 2, 5, 50, 300])
        out.append("f.%s %s %s %x" % (rng.choice(F_VALPREC), head, fval(rng, base, prec, True, False), n))
    elif k < 98:
        out.append("f.from_parts %s %s %s" % (head, hx(edge_int(rng, tier)), hx(fexp(rng, True))))
    else:
        r = rng.below(3)
        if r == 0:
            out.append("f.from_f32 %s %x" % (head, rng.choice([0, 0x80000000, 0x7f800000, 0xff800000, 0x7fc00000, 1, 0x3f800000, rng.bits(32)])))
        elif r == 1:
            out.append("f.from_f64 %s %x" % (head, rng.choice([0, 1 << 63, 0x7ff0000000000000, 0xfff0000000000000, 0x7ff8000000000000, 1, rng.bits(64)])))
        else:
            n, d = small_int(rng), max(1, small_int(rng, False))
            out.append("f.from_rbig %s %s %s" % (head, hx(n), hx(d)))


def rat_parts(rng, tier):
    import math
    n = edge_int(rng, tier) if rng.chance(1, 2) else small_int(rng)
    d = max(1, edge_int(rng, tier, False) if rng.chance(1, 2) else small_int(rng, False))
    g = math.gcd(n, d)
    return n // g, d // g


def gen_rational(rng, tier, out):
    fam = rng.choice(["q", "q", "r"])
    n, d = rat_parts(rng, tier)
    if rng.chance(1, 6):
        n = 0
        d = 1
    k = rng.below(20)
    if k == 0:
        dd = rng.choice([0, 0, 1, 2, edge_int(rng, tier, False)])
        out.append("%s.from_parts %s %s" % (fam, hx(edge_int(rng, tier)), hx(dd)))
    elif k == 1:
        dd = rng.choice([0, 0, 1, -1, edge_int(rng, tier)])
        out.append("%s.from_parts_signed %s %s" % (fam, hx(edge_int(rng, tier)), hx(dd)))
    elif k < 9:
        n2, d2 = rat_parts(rng, tier)
        if rng.chance(1, 4):
            n2, d2 = 0, 1
        out.append("%s.%s %s %s %s %s" % (fam, rng.choice(Q_2 if fam == "q" else R_2), hx(n), hx(d), hx(n2), hx(d2)))
    elif k < 14:
        out.append("%s.%s %s %s" % (fam, rng.choice(Q_1 if fam == "q" else R_1), hx(n), hx(d)))
    elif k < 16:
        v = rng.choice([0, 0, 1, -1, small_int(rng)])
        out.append("%s.%s %s %s %s" % (fam, rng.choice(Q_INT if fam == "q" else R_INT), hx(n), hx(d), hx(v)))
    elif k < 18:
        op = rng.choice(Q_UINT)
        v = rng.choice([0, 0, 1, 1, 2, d, d + 1, max(d - 1, 0), small_int(rng, False)])
        if op in ("next_up", "next_down", "nearest"):
            v = rng.choice([0, 1, 1, 2, 3, 10, 1000, d, d + 1, max(d - 1, 0), rng.bits(12), 1 << 64, 1 << 40])
        out.append("q.%s %s %s %s" % (op, hx(n), hx(d), hx(v)))
    elif k < 19:
        e = rng.choice([0, 1, 2, 3, 10, 100])
        if abs(n).bit_length() + d.bit_length() > 200:
            e = min(e, 3)
        out.append("%s.pow %s %s %x" % (fam, hx(n), hx(d), e))
    else:
        out.append("q.%s %s %s %x" % (rng.choice(["to_float2", "to_float10"]), hx(n), hx(d), rng.choice([0, 0, 1, 2, 10, 53, 100])))


PIECES = ["", "0", "1", "9", "a", "f", "z", "Z", "G", "_", "__", "+", "-", "--", "+-", ".", "..", "e", "E", "p", "P", "@", "/", "//", "0x", "0X", "0b",
          "0o", "0d", "x", " ", "\t", "\n", "inf", "-inf", "Inf", "infinity", "nan", "NaN", "e+", "e-", "e99999999999999999999", "e-99999999999999999999",
          "p9223372036854775807", "e9223372036854775807", "e-9223372036854775808", "e9223372036854775808", "@36", "@-5",
          "é", "٣", "１", "∞", "\U0001f600", " ", "−", "́", "\u0000", "123456789012345678901234567890", "0.", ".0", "1_000", "_1", "1_",
          "1/", "/1", "1/0", "0/0", "-1/-1", "1/+2", "1 / 2", "0x1p-3", "1e", "1e1e1", "1.5e3", "0x.8", "-0", "+0", "-.", "+.e1", "._", "_.1", "1._2", "1.e_1", "1e_1", "1e1_"]
PARSERS_S = ["ubig", "ibig", "ubig_prefix", "ibig_prefix", "rbig", "relaxed", "rbig_prefix", "relaxed_prefix"]
PARSERS_R = ["ubig_radix", "ibig_radix", "ubig_default", "ibig_default", "rbig_radix", "relaxed_radix"]
FBASES = ["2", "3", "8", "a", "10", "24"]


def rand_string(rng):
    k = rng.below(10)
    if k == 0:
        return rng.choice(PIECES)
    if k < 7:
        return "".join(rng.choice(PIECES) for _ in range(rng.range(1, 5)))
    if k < 9:
        # mostly digits with one odd character somewhere
        n = rng.choice([1, 2, 19, 20, 21, 39, 40, 100, 700])
        s = "".join(rng.choice("0123456789") for _ in range(n))
        p = rng.below(len(s) + 1)
        return s[:p] + rng.choice(PIECES) + s[p:]
    return "".join(chr(rng.choice([rng.range(32, 126), rng.range(0x80, 0x7ff), rng.range(0x800, 0xd7ff), rng.range(0x10000, 0x10ffff)])) for _ in range(rng.range(1, 8)))


DE_TYPES = ["ubig", "ibig", "fbig", "dbig", "repr", "rbig", "relaxed"]
JSON_PIECES = ['"', "0", "1", "-1", "1.5", "1e5", "[", "]", "{", "}", ",", ":", "null", "true", '"0x10"', '"12"', '"-12"', '"1/2"', '"1e5"', '"1.5"', '"inf"', '"-inf"',
               '"a"', '""', '"1/0"', '"_"', "[1,2]", "[true,[1]]", '{"significand":"1","exponent":0}', "[[1],0,0]", "18446744073709551616", "-9223372036854775809",
               '"é"', " ", '"0b101"', "[0,[]]", "[false,[1,2,3]]", "[1,[0]]"]


def gen_parse(rng, tier, out):
    k = rng.below(10)
    if k < 3:
        out.append("p.%s %s" % (rng.choice(PARSERS_S), sx(rand_string(rng))))
    elif k < 5:
        r = rng.choice([0, 1, 2, 2, 10, 16, 36, 36, 37, 255, (1 << 32) - 1, rng.range(2, 36)])
        out.append("p.%s %x %s" % (rng.choice(PARSERS_R), r, sx(rand_string(rng))))
    elif k < 8:
        out.append("p.%s %s %s" % (rng.choice(["fbig", "repr"]), rng.choice(FBASES), sx(rand_string(rng))))
    elif k < 9:
        s = "".join(rng.choice(JSON_PIECES) for _ in range(rng.range(1, 4)))
        out.append("d.%s.json %s" % (rng.choice(DE_TYPES), sx(s)))
    else:
        nb = rng.choice([0, 1, 2, 3, 8, 9, 10, 17, 40])
        data = bytes(rng.choice([0, 1, 2, 0x7f, 0x80, 0xff, rng.below(256)]) for _ in range(nb))
        out.append("d.%s.postcard s%s" % (rng.choice(DE_TYPES), data.hex()))


def gen_cases(rng, tier, n):
    out = []
    hangs = 0
    while len(out) < n:
        k = rng.below(100)
        m = len(out)
        if k < 38:
            gen_integer(rng, tier, out)
        elif k < 44:
            gen_modular(rng, tier, out)
        elif k < 72:
            gen_float(rng, tier, out)
        elif k < 84:
            gen_rational(rng, tier, out)
        else:
            gen_parse(rng, tier, out)
        # every hanging case costs one watchdog period: bound the number of ln(x <= 0) cases
        for c in out[m:]:
            t = c.split()
            slow = t[0] in ("f.ln", "f.v_ln", "f.ln_1p", "f.v_ln_1p") and (t[4].startswith("-") or t[4] in ("0", "-inf"))
            slow = slow or (t[0] in ("q.next_up", "q.next_down", "q.nearest") and len(t[3]) > 6)
            if slow:
                hangs += 1
                if hangs > (12 if tier == "quick" else 60):
                    out.pop()
    return out[:n]
