"""C16 - operations terminate and panic only where the documentation says so."""
import core
from core import hx, gen_int, gen_mag


# The table-like fragments the parser / series theorems rest on (scale-marker characters of float/src/parse.rs, the list of
# index-slice expressions of the three text parsers, the arguments of iacoth in float/src/log.rs) are regenerated into
# coq/gen/ParseSites.v when this plug-in is imported, i.e. before the proof phase of every run.  Unparseable source is not an
# alarm: the last good copy stays (marked STALE) and the status is reported in the evidence by extra_phase.
import os
import sys
sys.path.insert(0, os.path.join(core.ROOT, "tools"))
try:
    import translate_c16_r3
    SITES_STATUS = translate_c16_r3.generate(core.REPO, os.path.join(core.COQ, "gen"))
except Exception as _ex:
    SITES_STATUS = "unparsed generator-failed: %s" % str(_ex)[:200]

# round 4: the serde tables (visitor methods, human-readable entry points, visit_str parsers, infinity texts, zero-significand
# exponent table) and the exponent step of Repr::try_normalize -> coq/gen/SerdeSites.v
try:
    import translate_c16_r4
    SERDE_STATUS = translate_c16_r4.generate(core.REPO, os.path.join(core.COQ, "gen"))
except Exception as _ex:
    SERDE_STATUS = "unparsed generator-failed: %s" % str(_ex)[:200]

if os.path.realpath(core.REPO) != os.path.realpath("/repo") and os.path.realpath(core.COQ) == os.path.realpath(os.path.join(core.ROOT, "coq")):
    import atexit

    def _restore_sites():
        try:
            translate_c16_r3.generate("/repo", os.path.join(core.COQ, "gen"))
            translate_c16_r4.generate("/repo", os.path.join(core.COQ, "gen"))
        except Exception:
            pass

    atexit.register(_restore_sites)


def extra_phase(tier, seed, exes, oracle):
    word = SITES_STATUS.split(" ", 1)[0]
    word4 = SERDE_STATUS.split(" ", 1)[0]
    return {
        "evaluations": 0,
        "hist": {"translator_c16_r3:ParseSites:" + word: 1, "translator_c16_r4:SerdeSites:" + word4: 1},
        "nontrivial": [],
        "samples": [{"fragment": "coq/gen/ParseSites.v (tools/translate_c16_r3.py from float/src/parse.rs, rational/src/parse.rs, "
                                 "integer/src/parse/mod.rs, float/src/log.rs)", "status": SITES_STATUS,
                     "tied_by": ("C16_scale_markers_ascii, C16_scale_markers_are_grammar, C16_slice_sites_modelled, C16_iacoth_arguments"
                                 if word == "ok" else "correspondence run only (source not parsed; committed copy marked STALE)")},
                    {"fragment": "coq/gen/SerdeSites.v (tools/translate_c16_r4.py from integer|float|rational/src/third_party/serde.rs, "
                                 "float/src/repr.rs)", "status": SERDE_STATUS,
                     "tied_by": ("C16_serde_sites_modelled, C16_serde_human_route_is_str; the model Cross/SerdeText.v runs the generated tables"
                                 if word4 == "ok" else "correspondence run only (source not parsed; committed copy marked STALE)")}],
        "failures": [],
    }

ID = "C16"
READY = True
ORACLE = "c16"
HARNESS_BIN = "c16"
NCASES = {"quick": 10000, "thorough": 140000}
CASE_TIMEOUT = {"quick": 3, "thorough": 30}
SHRINK = False

LEVEL_TEXT = ("Machine-checked Coq theorems (coq/props/C16.v), for all inputs.  (1) Panic sets: the table `documented : call -> list reason` "
              "transcribed from the `# Panics` sections and the three error.rs files is characterised reason by reason (div, unsigned sub, gcd, "
              "roots, ilog, radix, ring); the as-is models of the panic mechanisms the property anchors are tied to it: try_into().unwrap() of "
              "the primitive-operand forms panics undocumented exactly in the two recorded classes; the float guard sequences (assert_finite, "
              "assert_limited_precision, sign / zero / domain tests, incl. the ln domain check of 60b59c4) never leave the table - no class "
              "excluded - and for every operation except powf and the total ones return iff no documented precondition is violated, else "
              "panic with the first listed reason (float_guards_exact); operator-form float division stays in the table unless the dividend "
              "is longer than repr_div supports (open class float_operand_exceeds_precision, never for operands respecting the FBig "
              "invariant).  (2) Termination, proved here: the Farey walk needs a number of steps linear in the limit (finding); the series "
              "loops of iacoth, ln and exp on exact rationals leave within an explicit number of steps (steps_half / steps_geo) for reduced "
              "arguments (1/n, n >= 2; |z| <= 1/3 or z^2 < 1; |r| <= 1/2 or < 1) whenever the stopping threshold is bounded below by eps > 0.  "
              "(3) Termination / totality imported from the other developments and pinned as C16 obligations: "
              "C04 cgcd_fuel_enough (const gcd loop); "
              "C18 simplest_in_asis_optimal / _equal (simplest_in returns for all end points, never out of fuel), farey_neighbors_asis_ok "
              "(stops within limit + 1 steps); "
              "C02 dc_fix_loop_total, dc_small_quotient_total, div_rem_in_place_correct, div_rem_large_correct (division kernels return, no "
              "'not enough memory'), and the closed instances s_div_rem_in_place_correct, s_division_unconditional (every division entry "
              "point returns floor quotient / remainder for a non-zero divisor: no panic, no fuel), s_zero_divisor (DivideBy0 exactly for "
              "a zero divisor), nm_checks_hold (no debug assertion / overflow check inside num-modular's reciprocal division fires); "
              "C12 newton_root_terminates, nth_root_asis_panics, inth_root_asis_panics (roots panic exactly on the documented set), "
              "log_large_loop_terminates, lwb_stage_b_terminates (ilog correction loops), remove_asis_terminates, prim_gcd_asis_terminates, "
              "prim_gcd_asis_panics, euclid_ext_terminates; "
              "C07 body_asis_correct, from_str_radix_asis_correct (integer parser: every text gives the value or the error kind of the "
              "specification, no panic); "
              "C19 w_rbig_dec_total, w_relaxed_dec_total, w_fbig_dec_total (binary deserialisers: canonical value or error on every byte "
              "string); C20 naive_gcd_loop_fuel (macro gcd loop); C13 window_loop_ok (sliding-window exponentiation loop returns within "
              "bit index + 1 iterations), egcd_loop_ok (ring inverse loop).  "
              "(4) Round 3, proved here.  Text parsers never panic: Cross/Utf8.v models Rust's &str slicing (str_range: a panic value unless "
              "both byte indices are in range and char boundaries) and the structure of UTF-8; the index-level as-is models of "
              "Repr::from_str_native (float/src/parse.rs: rfind of the scale marker, find of the point, the seven &name[a..b] sites incl. "
              "int_str[2..] behind the 0x prefix) and of the two rational parsers (rational/src/parse.rs, four sites) take EVERY slice legally "
              "on EVERY well-formed UTF-8 byte string, for every base: parse_idx = the C08 model parse_asis (parse_idx_eq), hence Ok exactly "
              "on the documented grammar (C08 parse_iff) and Ok-or-Err everywhere; ratio parsers Ok-or-Err with a positive denominator; "
              "the integer parser specification (= as-is for every word size, C07) is Ok-or-Err on every byte string; the scale-marker "
              "table and the list of slice expressions are regenerated from the sources on every run (coq/gen/ParseSites.v) with the proof "
              "obligations 'all markers ASCII', 'markers = grammar table', 'slice sites = the modelled ones'.  Series loops with rounding "
              "(Cross/SeriesRounded.v): iacoth / ln / exp loops with an arbitrary rounding after every multiplication and division (magnitude "
              "enlarged by at most 1 + u) leave within N steps once |pow0| (1+u) q^N < eps, q = |multiplier| (1+u); for q <= 1/2 the fuel "
              "fuel_prec B m = 1 + m log2_up(B) - linear in the precision - suffices for a threshold >= B^-m; the argument reductions "
              "((x-1)/(x+1) on [1,2), x/(x+2) for |x| <= 1/2, (x mod L)/B^n with 2L <= B) deliver |z| <= 1/3, 0 <= r <= 1/2; the "
              "arguments of iacoth in log.rs (regenerated) are >= 4, enough at every precision >= 2.  Lehmer gcd (Cross/LehmerTermination.v "
              "over C12's as-is model): the guess loop never exhausts its fuel w + 1, its cofactors stay within COEFF_LIMIT, the outer "
              "loop strictly decreases x + y (Euclidean or Lehmer step) and gcd_large never runs out of fuel, for every word size >= 2, "
              "without assuming the guess right.  C07 digits_asis_correct (D&C printer) pinned.  Allocation (Cross/AllocBounds.v): "
              "bits(a 2^n) = bits a + n, n (bits a - 1) + 1 <= bits(a^n) <= n bits a + 1, bits(s B^e) <= bits s + e bits B + 1, mul linear, "
              "and no constant bounds the result size of shl by the input size (classification of shl / set_bit / ones / pow / to_int / ln "
              "scaling as value-sized results, guarded only by the allocator's documented failure).  "
              "(5) Round 4, proved here.  Serde deserialisers (Cross/SerdeText.v): every visit_* method of the five visitors (which methods "
              "each overrides, the Deserializer method asked for on the human-readable branch - deserialize_str for all types -, the parser "
              "each visit_str hands its text to, the infinity texts, the zero-significand exponent table are regenerated into "
              "coq/gen/SerdeSites.v and the model runs them) returns Ok or Err on EVERY event (string, bytes, sequence, map with missing / "
              "duplicate / unknown fields and failing elements, anything else), for every base >= 2; a string goes to the FromStr machinery "
              "(= the index-level parser models of round 3, so Ok exactly on the documented grammars; RBig: positive denominator, lowest "
              "terms), anything that is not a string / bytes / struct is refused; serde_json::from_slice of ANY byte string is Ok or Err "
              "(model of serde_json's string layer incl. escapes and surrogate pairs, never out of fuel); deserialize_repr's zero-denominator "
              "test is what keeps reduce2's unwrap from firing.  Repr::new / try_normalize with the isize exponent (Cross/ReprNew.v): as-is "
              "= specification (normal form, or the documented overflow panic exactly when the normal form's exponent exceeds isize::MAX), "
              "never the arithmetic-overflow panic; the code before 064626d is refuted (panic 'attempt to add with overflow' / "
              "10 * 10^isize::MAX = 1 * 10^isize::MIN; the struct form of the DBig deserialiser panicked).  Extended Lehmer gcd "
              "(Cross/LehmerExtTermination.v over C12's model): C12 lehmer_ext_loop_total cited; the loop hands over an ordered pair whose "
              "smaller member is one word, the primitive extended Euclid ends within any fuel above its operands, gcd_ext_in_place and "
              "gcd_ext_large never run out of fuel above x + y, every word size >= 2.  Digit-level stop criterion of the series loops: C11 "
              "sub_ulp_threshold (sub_ulp > 0 and >= |sum| B^-(2P+2) for every digit estimate) and series_fuel_partial (loops with rounding "
              "operations and that threshold stop within series_fuel B P iterations) pinned as C16 obligations.  Cost classes "
              "(Cross/CostClasses.v): a bound per operation in the operand lengths AND the numeric parameters; it covers the proved result "
              "sizes (shl, mul, pow, to_int); for the length-polynomial family it is at most cubic in the input length; for shl no "
              "polynomial of the input length (any degree, any constant) bounds the result size - the value of the shift count is the size.  "
              "The whole public surface is tied to the table by a watchdog-supervised correspondence run judged by the OCaml extraction of "
              "the table: every ownership form (vv vr rv rr, assigning by value / by reference) x word-count class of every operation with a "
              "documented panic, and every parser configuration x every character position of well-formed literals with a multi-byte "
              "character inserted, are swept on every run; the parsers' outcome (ok / ParseError kind) is predicted exactly by the "
              "extracted index-level models (asis=same on every parser case); buffer growth at the capacity edge (set_bit / clear_bit / "
              "shl / add / mul by a word at word index len-1 .. capacity+2 of values built fresh / shrunk / cloned into a larger buffer / "
              "grown, capacity read through the repr_layout hook) and the integer / fractional part of floats with exponents around "
              "+-10^6, +-10^8, +-3*10^9, +-2^62 in every base are swept on every run; so are Repr::new / from_parts of significands with k "
              "trailing zero digits at the exponents isize::MAX - k - 1 .. + 1 in the bases 2, 3, 10, 16 (exact outcome predicted), the struct "
              "form of the deserialisers (postcard, encoded by the harness) at the same edges, with zero significands, precision = digits "
              "-1/0/+1, zero denominators, and 78 JSON texts x 9 types (every escape form, paired and lone surrogates, control characters, "
              "raw non-UTF-8 bytes, trailing characters, every non-string JSON value) with the exact ok / err outcome predicted by the "
              "extracted model; gcd / gcd_ext of multi-word values run the extracted Lehmer models (must return within the fuel).  In the "
              "thorough tier about 400 large cases are timed (best of two runs) against c * cost_units of their class.")
LEVEL_NOTE = ("Only compared (not proved): the outcome class ok / err / panic class / hang / crash of every operation that has no as-is model "
              "here (the table is the judge; the dictionary operation name -> call family in oracle/driver_c16.ml is trusted); the "
              "deserialisers as seen through a real Deserializer: that serde_json behaves as the model of its string layer says and calls "
              "exactly one visit method per deserialize_* request (third-party code; outcome compared per case, asis=same), that postcard "
              "hands the struct form over as a sequence of well-typed elements; that Rust's "
              "find / rfind / strip_prefix / str::parse::<isize> behave as modelled (byte search for ASCII patterns, no panic); the series "
              "loops with the real digit-level rounding and the real sub_ulp (the theorems take any rounding with relative magnitude growth "
              "<= u and any threshold bounded below by B^-m; that the sum's exponent is bounded below, i.e. the value of m, and that "
              "1 <= x_scaled < 2 / 2 ln B <= B for the rounded constants are hypotheses; C11's digit-level theorems are cited but that the "
              "Z-level loops of C11's ElemAsis.v are instances of them is C11's open item); the word-level carries of lehmer_step / "
              "lehmer_ext_step and that the cofactors fit their buffers (the model's panic branches, never fired in the run); wall clock: the "
              "cost bounds are compared with measured times only in the thorough tier, with loose constants (support, not proof); that the word-level "
              "scratch buffers suffice for multiplication (see ScratchMemory when present) ; wall clock and allocator behaviour are observed.  "
              "The near-overflow band of isize exponents is accepted either way (ok or overflow panic) and counted.  Trusted: Coq kernel, "
              "extraction, the driver dictionary, the harness, the runner's watchdog.")
TECHNIQUE = "Coq proof of panic-set tables, of fuel sufficiency (series loops with rounding, Lehmer incl. the extended loop, Newton, D&C recursions), of slice-index legality of the text parsers on all UTF-8, of the totality of the serde visitors on every event and of Repr::new with the isize exponent + regenerated parser / serde tables + watchdog-supervised correspondence run over the public surface (thorough tier: measured time against proved cost bounds)"
RULE = ("cases = systematic sweeps on every run - (0) operand lengths T-1, T, T+1, around 2T and T/2 words for every size threshold T of "
        "coq/gen/Params.v (regenerated from the tree under check: 24 / 192 multiplication, 30 squaring, 32 division, 16 / 256 radix chunks, "
        "3 / 16 recursion minima, 1024 chunk length) x sqr, mul of EQUAL operands (by value and by reference), mul of different balanced / "
        "unbalanced operands, cubic, pow 2 / 3 / 4 / 5 / 8 with an intermediate of exactly that length, div / rem / divrem, gcd / gcd_ext, "
        "sqrt / sqrt_rem, printing and parsing (never truncated); (a) every ownership form vv vr rv rr av ar x word-count class (1/1, 1/2, 2/2 words, "
        "equal length differing in the low / the top word, equal, either operand longer, large against 1 or 2 words) of every violated "
        "documented precondition of the binary operators and methods of UBig, IBig, mixed UBig/IBig, FBig, RBig, Relaxed; (b) every parser "
        "configuration (14 integer / rational entry points x radix, FBig and Repr in 6 bases) x every character position of well-formed "
        "literals with a 2-, 3- or 4-byte character inserted (and the literals themselves); (c) buffer growth at the capacity edge: set_bit / "
        "clear_bit / shl / IBig shl / add / mul-by-word x {fresh, shrunk, cloned into a larger buffer, grown} x word index len-1 .. "
        "capacity+2 (capacity read through the repr_layout hook) on 3-, 4- and 9-word values; (d) trunc / fract / ceil / floor / round / "
        "split_at_point / to_int conversions of floats with exponents -10^6, -10^8, -3*10^9, 3*10^9 in bases 3 and 10 (expected at once) "
        "- plus random cases = public operation (every call form the harness knows: by "
        "value / by reference / assigning / primitive operand of each width) x edge arguments {0, 1, -1, 2^63, 2^64-1, 2^64, word-count classes of the shared generator, primitive MIN/MAX, "
        "infinities, precision 0/1/2/small, exponents 0, +-1, +-small, +-2^62, isize::MIN/MAX, radix 0/1/2/36/37, shift counts up to "
        "2^24 and usize::MAX where the result is small, empty / non-ASCII / overlong strings, random byte streams for the "
        "deserialisers}.  A case is non-trivial when the oracle evaluated the extracted table on it and the operation is not in the "
        "never-panics family, or the implementation panicked / refused; distinct = distinct case texts.")
EXPLANATION = ("Theorems (coq/props/C16.v, 125): the documented panic table is characterised per reason; the as-is models of the panic "
               "mechanisms equal the table outside the open finding classes and are refuted inside them by witnesses; loops modelled "
               "with fuel never run out under the stated bounds (series loops with rounding: fuel linear in the precision; Lehmer gcd: "
               "x + y decreases; Newton, ilog, remove, D&C division and radix conversion, window exponentiation: imported); every "
               "&str slice of the float and rational parsers is at a char boundary on every well-formed UTF-8 text (index-level models "
               "equal the C08 / C07 models), so the parsers return Ok or Err, never panic.  Ties: the scale-marker table, the slice "
               "sites and the iacoth arguments are regenerated from the Rust sources on every run and the theorems are re-proved over "
               "them; every public operation is run in supervised workers and its outcome class ok / err / panic(class) / hang / "
               "crash is compared with the extracted table, the parsers' exact outcome with the extracted index-level models.  "
               "Round 4: the serde visitors return Ok or Err on every event (tables regenerated from the three serde.rs files), "
               "serde_json input of any bytes included; Repr::new equals its specification incl. the documented exponent overflow "
               "(finding F14 repaired); the extended Lehmer gcd never runs out of fuel above x + y; cost bounds per operation cover the "
               "proved result sizes; exact outcomes of deserialisers and of Repr::new are predicted by the extracted models.")
TRUSTED_BASE = [
    "Coq 8.16.1 kernel (coqc, full .vo builds)",
    "extraction: ExtrOcamlBasic + ExtrOcamlZBigInt + coq/extract/FastZ.v",
    "OCaml 4.13.1 + zarith, oracle/common.ml, oracle/driver_c16.ml (dictionary: harness operation name -> call family of PanicSpec.v)",
    "Rust harness harness/src/bin/c16.rs (panic capture, message -> class table, capping allocator, u.growth: capacity read through the cfg(dashu_verif) hook repr_layout_ubig), tools/core.py run_lines watchdog",
    "tools/translate_c16_r3.py (regular-expression reader of the scale_pos match of float/src/parse.rs, of the index-slice expressions of the three parse files and of the iacoth call arguments of float/src/log.rs -> coq/gen/ParseSites.v at plug-in import; 'unparsed' keeps the last good copy, marked STALE)",
    "the model of Rust's str API in Cross/Utf8.v: is_char_boundary, slicing panics exactly when an index is out of range or not a boundary, find / rfind of an ASCII pattern = byte search",
    "tools/translate_c16_r4.py (regular-expression reader of the Visitor impls, Deserialize entry points, visit_str bodies, infinity_from_str, repr_from_fields and try_normalize -> coq/gen/SerdeSites.v at plug-in import; 'unparsed' keeps the last good copy, marked STALE)",
    "the model of serde's contract in Cross/SerdeText.v: a Deserializer calls one visit_* method per request, unimplemented methods are serde's default invalid_type error; the model of serde_json 1.0.151's string layer (parse_str_bytes / parse_escape / parse_unicode_escape / end); the harness's own postcard encoder of the struct form",
    "the wall clock of the thorough-tier timing cases (std::time::Instant, best of two runs) and the class constants in oracle/driver_c16.ml",
]
ASSUMPTIONS = [
    "values are moved through raw words (UBig::from_words, IBig::from_parts, Repr::new, RBig::from_parts), never through a parser",
    "arguments are kept inside memory: shift counts / powers / precisions are chosen so that results stay below ~32 MiB",
    "exponents within 2^61 of the isize range ends form an accepted either-way band (ok or overflow panic)",
]

I64MAX = (1 << 63) - 1
UTYPES = {"u8": 8, "u16": 16, "u32": 32, "u64": 64, "u128": 128, "usize": 64}
ITYPES = {"i8": 8, "i16": 16, "i32": 32, "i64": 64, "i128": 128, "isize": 64}
MODES = ["Zero", "Away", "Up", "Down", "HalfEven", "HalfAway"]
BASES = {"2": 2, "3": 3, "a": 10, "10": 16}


def sx(s):
    return "s" + s.encode("utf-8").hex()


def edge_int(rng, tier, signed=True):
    k = rng.below(10)
    if k < 4:
        v = rng.choice([0, 0, 1, 1, 2, 3, 255, 256, (1 << 63) - 1, 1 << 63, (1 << 64) - 1, 1 << 64, (1 << 64) + 1,
                        (1 << 127), (1 << 128) - 1, 1 << 128, (1 << 128) + 1, (1 << 192) - 1, 1 << 192])
    elif k < 6:
        v = rng.bits(rng.choice([3, 8, 31, 64, 65]))
    else:
        v = abs(gen_int(rng, tier))
    if signed and rng.chance(1, 2):
        v = -v
    return v


def small_int(rng, signed=True):
    v = rng.choice([0, 1, 1, 2, 3, 7, 10, 255, 1 << 31, (1 << 64) - 1, 1 << 64, rng.bits(20), rng.bits(70)])
    return -v if signed and rng.chance(1, 2) else v


def uprim(rng, ty):
    b = UTYPES[ty]
    return rng.choice([0, 0, 1, 1, 2, 3, (1 << b) - 1, 1 << (b - 1), rng.bits(b), rng.bits(b // 2)])


def iprim(rng, ty):
    b = ITYPES[ty]
    return rng.choice([0, 0, 1, -1, -1, 2, -2, (1 << (b - 1)) - 1, -(1 << (b - 1)), -(1 << (b - 1)) + 1, rng.bits(b - 1), -rng.bits(b - 1)])


U_UU = ["add", "sub", "sub_rr", "sub_assign", "mul", "div", "div_rr", "rem", "rem_rv", "divrem", "divrem_rr", "div_euclid", "rem_euclid",
        "divrem_euclid", "div_assign", "rem_assign", "divrem_assign", "is_multiple_of", "gcd", "gcd_rr", "gcd_ext", "gcd_ext_rr", "ilog",
        "remove", "cmp", "sum", "product"]
U_U = ["sqrt", "cbrt", "sqrt_rem", "sqr", "cubic", "trailing_zeros", "trailing_ones", "count_ones", "count_zeros", "bit_len",
       "is_power_of_two", "next_power_of_two", "log2_bounds", "log2_est", "fmt", "to_le_bytes", "to_be_bytes", "to_f32", "to_f64",
       "try_u8", "try_u64", "try_i64", "try_u128", "try_usize", "try_f32", "try_f64"]
U_UN_SMALLRES = ["shr", "shr_assign", "bit", "clear_bit", "split_bits", "clear_high_bits"]   # any usize is fine
U_UN_GROW = ["shl", "shl_assign", "set_bit"]                                                 # result grows with n
U_PRIM = ["sub_p", "sub_p_rr", "p_sub", "sub_assign_p", "add_p", "mul_p", "div_p", "p_div", "rem_p", "rem_p_rr", "divrem_p",
          "div_assign_p", "divrem_assign_p", "and_p", "p_and", "or_p", "xor_p"]
I_II = ["add", "sub", "mul", "div", "div_rr", "rem", "rem_vr", "divrem", "divrem_rr", "div_euclid", "rem_euclid", "divrem_euclid",
        "divrem_euclid_rr", "div_assign", "rem_assign", "divrem_assign", "is_multiple_of", "gcd", "gcd_rr", "gcd_ext", "gcd_ext_rr",
        "and", "or", "xor", "cmp", "sum", "product"]
I_IU = ["div_iu", "rem_iu", "divrem_iu", "gcd_iu", "gcd_ext_iu", "and_iu", "ilog"]
I_UI = ["div_ui", "rem_ui", "divrem_ui", "sub_ui", "gcd_ui"]
I_I = ["neg", "abs", "sqrt", "cbrt", "sqr", "cubic", "trailing_zeros", "trailing_ones", "bit_len", "not", "log2_bounds", "fmt",
       "to_le_bytes", "to_be_bytes", "to_f32", "to_f64", "try_u8", "try_i8", "try_i64", "try_u64", "try_i128", "try_isize", "try_f32",
       "try_f64"]
I_PU = ["add_pu", "sub_pu", "pu_sub", "mul_pu", "div_pu", "pu_div", "pu_div_rr", "rem_pu", "rem_pu_rr", "divrem_pu", "divrem_pu_rr",
        "div_assign_pu", "divrem_assign_pu", "and_pu", "pu_and", "or_pu"]
I_PI = ["add_pi", "pi_sub", "mul_pi", "div_pi", "pi_div", "rem_pi", "divrem_pi", "div_assign_pi", "divrem_assign_pi", "and_pi", "xor_pi"]
B_U2 = ["gcd", "gcd_ext"]
B_NU1 = ["sqrt_rem", "cbrt_rem", "sqrt", "cbrt"]
B_U1 = ["log2_bounds", "bit_len"]
B_I2 = ["divrem_euclid", "divrem"]
M_2 = ["add", "sub", "mul", "div", "div_assign", "eq"]
M_1 = ["reduce", "inv", "neg", "sqr", "fmt"]
M_RINGS = ["add2", "sub2", "mul2", "div2", "eq2"]
M_CONST = ["rem_const", "div_const", "divrem_const"]
# floats: context level (any repr), value level (digits <= precision), third argument kinds
F_CTX2 = ["add", "sub", "mul", "div", "rem", "powf"]
F_CTX1 = ["sqr", "cubic", "sqrt", "inv", "exp", "exp_m1", "ln", "ln_1p"]
F_VAL2 = ["op_add", "op_sub", "op_sub_rr", "op_mul", "op_div", "op_div_rr", "op_rem", "op_div_assign", "op_add_assign", "op_mul_assign",
          "div_euclid", "rem_euclid", "divrem_euclid", "v_powf", "cmp", "sum", "product"]
F_VAL1 = ["op_neg", "abs", "v_sqr", "v_cubic", "v_sqrt", "v_inv", "v_exp", "v_exp_m1", "v_ln", "v_ln_1p", "trunc", "fract", "ceil", "floor",
          "round", "split_at_point", "to_int", "repr_to_int", "to_f32", "to_f64", "try_u8", "try_i64", "try_u128", "try_ibig", "try_ubig",
          "try_rbig", "try_relaxed", "with_rounding", "with_base2", "with_base10", "with_base3", "with_base16", "to_decimal", "to_binary",
          "ulp", "digits", "repr_digits", "is_int", "log2_bounds", "log2_est", "hash", "fmt", "repr_fmt", "serde_json", "postcard"]
F_VALINT = ["op_add_int", "op_mul_int", "op_div_int", "op_int_div", "cmp_int"]
F_VALSMALL = ["op_div_u8", "op_sub_i32"]
F_VALSHIFT = ["shl", "shr", "shl_assign", "shr_assign"]
F_VALPREC = ["with_precision", "with_base_prec10", "with_base_prec2", "fmt_prec"]
Q_2 = ["add", "sub", "mul", "div", "div_rr", "rem", "div_assign", "rem_assign", "div_euclid", "rem_euclid", "divrem_euclid", "simplest_in",
       "is_simpler_than", "cmp"]
Q_1 = ["inv", "neg", "abs", "sqr", "cubic", "trunc", "ceil", "floor", "round", "fract", "split_at_point", "to_int", "is_int", "to_f32", "to_f64",
       "to_f32_fast", "to_f64_fast", "try_f32", "try_f64", "try_ibig", "try_ubig", "log2_bounds", "fmt", "relax", "serde_json"]
Q_INT = ["div_ibig", "ibig_div", "mul_ibig", "add_ibig", "cmp_int"]
Q_UINT = ["div_ubig", "ubig_div", "next_up", "next_down", "nearest"]
R_2 = ["add", "sub", "mul", "div", "rem", "div_euclid", "rem_euclid", "divrem_euclid", "cmp"]
R_1 = ["inv", "trunc", "ceil", "floor", "round", "fract", "to_f64", "to_f32_fast", "fmt", "canonicalize"]
R_INT = ["div_ibig", "ibig_div"]


def gen_integer(rng, tier, out):
    k = rng.below(100)
    if k < 22:
        op = rng.choice(U_UU)
        a = edge_int(rng, tier, False)
        b = edge_int(rng, tier, False) if rng.chance(3, 4) else rng.choice([0, 0, 1, 2, a, a + 1, max(a - 1, 0)])
        if op in ("ilog", "remove"):
            b = rng.choice([0, 1, 2, 3, 10, 1 << 64, b])
        if op in ("gcd", "gcd_rr", "gcd_ext", "gcd_ext_rr") and rng.chance(1, 6):
            a = b = 0
        out.append("u.%s %s %s" % (op, hx(a), hx(b)))
    elif k < 30:
        out.append("u.%s %s" % (rng.choice(U_U), hx(edge_int(rng, tier, False))))
    elif k < 36:
        a = edge_int(rng, tier, False)
        n = rng.choice([0, 1, 63, 64, 65, a.bit_length(), a.bit_length() + 1, 1 << 20, 1 << 32, (1 << 63), (1 << 64) - 1])
        out.append("u.%s %s %x" % (rng.choice(U_UN_SMALLRES), hx(a), n))
    elif k < 40:
        a = edge_int(rng, tier, False)
        n = rng.choice([0, 1, 63, 64, 65, 127, 128, 1000, 1 << 16, 1 << 20, (1 << 24) + 1])
        out.append("u.%s %s %x" % (rng.choice(U_UN_GROW), hx(a), n))
    elif k < 44:
        r = rng.below(5)
        if r == 0:
            a = small_int(rng, False)
            n = rng.choice([0, 0, 1, 2, 3, 5, 64, 65, 1 << 20, (1 << 64) - 1])
            out.append("%s %s %x" % (rng.choice(["u.nth_root", "i.nth_root"]), hx(a), n))
        elif r == 1:
            a = edge_int(rng, tier, True)
            n = rng.choice([0, 0, 1, 2, 3, 4, 5, 6, 63, 64, 65, 1 << 20, (1 << 64) - 1, (1 << 64) - 2])
            out.append("i.nth_root %s %x" % (hx(a), n))
        elif r == 2:
            a = rng.choice([0, 1, 1, 2, 3, 10, rng.bits(16), 1 << 64])
            lim = 1 << 18
            n = rng.choice([0, 1, 2, 3, 10, 100, 1000])
            if a <= 1:
                n = rng.choice([0, 1, (1 << 64) - 1, n])
            elif a == 2:
                n = rng.choice([n, 1 << 20])
            elif a.bit_length() * n > lim:
                n = lim // a.bit_length()
            sg = rng.chance(1, 2)
            out.append("%s %s %x" % ("i.pow" if sg else "u.pow", hx(-a if sg and rng.chance(1, 2) else a), n))
        elif r == 3:
            a = edge_int(rng, tier, False)
            n = rng.choice([0, 0, 1, 2, 7, 8, 63, 64, 65, 128, 1000, 1 << 20, (1 << 64) - 1])
            if rng.chance(1, 3):
                out.append("u.from_chunks %s %s %x" % (hx(a), hx(edge_int(rng, tier, False)), min(n, 1 << 20)))
            else:
                out.append("u.to_chunks %s %x" % (hx(a), n))
        else:
            out.append("u.ones %x" % rng.choice([0, 1, 63, 64, 65, 128, 1 << 16, 1 << 24]))
    elif k < 47:
        sg = rng.chance(1, 2)
        a = edge_int(rng, tier, sg)
        r = rng.choice([0, 1, 2, 2, 3, 10, 16, 35, 36, 36, 37, 38, 64, 255, 256, (1 << 32) - 1])
        out.append("%s.%s %s %x" % ("i" if sg else "u", rng.choice(["in_radix", "in_radix_fmt"]), hx(a), r))
    elif k < 50:
        nb = rng.choice([0, 1, 7, 8, 9, 15, 16, 17, 24, 100])
        data = bytes(rng.choice([0, 0xff, 0x80, rng.below(256)]) for _ in range(nb))
        out.append("%s.%s s%s" % (rng.choice("ui"), rng.choice(["from_le_bytes", "from_be_bytes"]), data.hex()))
    elif k < 53:
        r = rng.below(3)
        if r == 0:
            bits = rng.choice([0, 0x80000000, 0x7f800000, 0xff800000, 0x7fc00000, 0x7f7fffff, 0xff7fffff, 1, 0x3f800000, 0xbf800000, 0x3f000000, rng.bits(32)])
            out.append("%s %x" % (rng.choice(["u.from_f32", "i.from_f32", "q.from_f32", "q.simplest_from_f32"]), bits))
        elif r == 1:
            bits = rng.choice([0, 1 << 63, 0x7ff0000000000000, 0xfff0000000000000, 0x7ff8000000000000, 0x7fefffffffffffff, 1, 0x3ff0000000000000,
                               0xbff0000000000000, 0x3fe0000000000000, rng.bits(64)])
            out.append("%s %x" % (rng.choice(["u.from_f64", "i.from_f64", "q.from_f64", "q.simplest_from_f64"]), bits))
        else:
            out.append("u.from_ibig %s" % hx(edge_int(rng, tier, True)))
    elif k < 63:
        op = rng.choice(U_PRIM)
        ty = rng.choice(list(UTYPES))
        out.append("u.%s %s %s %s" % (op, ty, hx(edge_int(rng, tier, False)), hx(uprim(rng, ty))))
    elif k < 75:
        op = rng.choice(I_II)
        a = edge_int(rng, tier)
        b = edge_int(rng, tier) if rng.chance(3, 4) else rng.choice([0, 0, 1, -1, a, -a, a + 1])
        if op.startswith("gcd") and rng.chance(1, 6):
            a = b = 0
        out.append("i.%s %s %s" % (op, hx(a), hx(b)))
    elif k < 79:
        op = rng.choice(I_IU)
        a, b = edge_int(rng, tier), edge_int(rng, tier, False)
        if rng.chance(1, 3):
            b = rng.choice([0, 0, 1, 2])
        if op.startswith("gcd") and rng.chance(1, 5):
            a = b = 0
        out.append("i.%s %s %s" % (op, hx(a), hx(b)))
    elif k < 82:
        op = rng.choice(I_UI)
        a, b = edge_int(rng, tier, False), edge_int(rng, tier)
        if rng.chance(1, 3):
            b = rng.choice([0, 0, 1, -1])
        if op.startswith("gcd") and rng.chance(1, 5):
            a = b = 0
        out.append("i.%s %s %s" % (op, hx(a), hx(b)))
    elif k < 85:
        out.append("i.%s %s" % (rng.choice(I_I), hx(edge_int(rng, tier))))
    elif k < 87:
        a = edge_int(rng, tier)
        op = rng.choice(["shl", "shr", "shr_r", "shl_assign", "shr_assign", "bit"])
        if op.startswith("shl"):
            n = rng.choice([0, 1, 63, 64, 65, 1000, 1 << 20, 1 << 24])
        else:
            n = rng.choice([0, 1, 63, 64, 65, a.bit_length(), 1 << 32, 1 << 63, (1 << 64) - 1])
        out.append("i.%s %s %x" % (op, hx(a), n))
    elif k < 93:
        op = rng.choice(I_PU)
        ty = rng.choice(list(UTYPES))
        a = edge_int(rng, tier)
        if rng.chance(1, 3):
            a = rng.choice([-1, -7, -255, -256, -(1 << 64), 7, 0])
        out.append("i.%s %s %s %s" % (op, ty, hx(a), hx(uprim(rng, ty))))
    elif k < 97:
        op = rng.choice(I_PI)
        ty = rng.choice(list(ITYPES))
        a = edge_int(rng, tier)
        if rng.chance(1, 3):
            a = rng.choice([-1, 1, -7, 0, 2, -2])
        out.append("i.%s %s %s %s" % (op, ty, hx(a), hx(iprim(rng, ty))))
    else:
        r = rng.below(4)
        if r == 0:
            ty = rng.choice(list(UTYPES))
            a, b = uprim(rng, ty), uprim(rng, ty)
            out.append("b.%s %s %s %s" % (rng.choice(B_U2), ty, hx(a), hx(b)))
        elif r == 1:
            ty = rng.choice(["u8", "u16", "u32", "u64", "u128"])
            out.append("b.%s %s %s" % (rng.choice(B_NU1), ty, hx(uprim(rng, ty))))
        elif r == 2:
            ty = rng.choice(list(UTYPES))
            out.append("b.%s %s %s" % (rng.choice(B_U1), ty, hx(uprim(rng, ty))))
        else:
            ty = rng.choice(list(ITYPES))
            out.append("b.%s %s %s %s" % (rng.choice(B_I2), ty, hx(iprim(rng, ty)), hx(iprim(rng, ty))))


def gen_modular(rng, tier, out):
    m = rng.choice([0, 0, 1, 1, 2, 3, 4, 255, (1 << 64) - 1, 1 << 64, (1 << 64) + 1, (1 << 128) - 1, abs(gen_int(rng, tier)), rng.bits(70) | 1])
    a = edge_int(rng, tier)
    r = rng.below(10)
    if r == 0:
        out.append("m.new %s" % hx(m))
    elif r < 3:
        out.append("m.%s %s %s" % (rng.choice(M_1), hx(m), hx(a)))
    elif r < 6:
        b = rng.choice([0, 1, m, 2, edge_int(rng, tier)])
        out.append("m.%s %s %s %s" % (rng.choice(M_2), hx(m), hx(a), hx(b)))
    elif r < 7:
        e = rng.choice([0, 1, 2, 3, 255, rng.bits(64), rng.bits(130)])
        out.append("m.pow %s %s %s" % (hx(m), hx(a), hx(e)))
    elif r < 9:
        m2 = rng.choice([m, m, m + 1, 1, 0, 7, abs(gen_int(rng, tier))])
        out.append("m.%s %s %s %s %s" % (rng.choice(M_RINGS), hx(m), hx(a), hx(edge_int(rng, tier)), hx(m2)))
    else:
        op = rng.choice(M_CONST)
        out.append("m.%s %s %s" % (op, hx(m), hx(a if op == "rem_const" else abs(a))))


def fexp(rng, huge):
    c = [0, 0, 1, -1, 2, -2, 5, -7, 64, -64, 1000, -1000, rng.range(-300, 300)]
    if huge:
        c += [1 << 40, -(1 << 40), 1 << 62, -(1 << 62), I64MAX, -I64MAX, I64MAX - 1, -I64MAX + 1, I64MAX - 70, -I64MAX + 70, 1 << 61, -(1 << 61)]
    return rng.choice(c)


def fsig(rng, base, prec, limited):
    """a significand; with limited=True it has at most prec digits in the base (valid FBig)"""
    k = rng.below(10)
    if k < 3:
        v = rng.choice([0, 1, 1, 2, 3, base - 1, base, base + 1])
    elif k < 5:
        v = base ** rng.choice([1, 2, 3, 10, 40])
        v += rng.choice([0, 0, 1, -1])
    elif k < 8:
        v = rng.bits(rng.choice([8, 20, 60, 64, 70, 130]))
    else:
        v = abs(gen_int(rng, "quick"))
    if limited and prec > 0:
        cap = base ** prec
        if v >= cap:
            v %= cap
    return -v if rng.chance(2, 5) else v


def fval(rng, base, prec, limited, huge, inf_ok=True):
    if inf_ok and rng.chance(1, 14):
        return rng.choice(["inf 0", "-inf 0"])
    s = fsig(rng, base, prec, limited)
    return "%s %s" % (hx(s), hx(fexp(rng, huge)))


def small_exponent(rng, x, cap=0):
    """keep |x| below ~2^16 (argument of exp, exponent of powf) so that the result exponent stays small"""
    if x.startswith(("inf", "-inf")):
        return x
    s = int(x.split()[0], 16)
    m = abs(s) % 4096
    if cap:
        m %= cap
    return "%s %s" % (hx(-m if s < 0 else m), hx(rng.range(-40, 4)))


def gen_float(rng, tier, out):
    bt = rng.choice(list(BASES))
    base = BASES[bt]
    mode = rng.choice(MODES)
    prec = rng.choice([0, 0, 1, 1, 2, 3, 5, 10, 17, 53, 64, 100, 200])
    huge = prec > 0 and rng.chance(1, 3)
    head = "%s %s %x" % (bt, mode, prec)
    k = rng.below(100)
    if k < 16:
        op = rng.choice(F_CTX2)
        hg = huge and op not in ("rem", "powf")
        x, y = fval(rng, base, prec, False, hg), fval(rng, base, prec, False, hg)
        if op == "powf":
            y = small_exponent(rng, y)
        out.append("f.%s %s %s %s" % (op, head, x, y))
    elif k < 28:
        op = rng.choice(F_CTX1)
        hg = huge and op not in ("exp", "exp_m1", "ln", "ln_1p")     # ln scales by 2^|log2 x|: exponents must fit memory
        x = fval(rng, base, prec, False, hg)
        if op in ("exp", "exp_m1"):
            x = small_exponent(rng, x)
        out.append("f.%s %s %s" % (op, head, x))
    elif k < 32:
        n = rng.choice([0, 1, -1, 2, -2, 3, 10, -10, 255, 1000]) if not huge else rng.choice([0, 1, -1, 2, 3, 1 << 62, -(1 << 62), 1 << 64])
        opn = rng.choice(["powi", "v_powi"])
        x = fval(rng, base, prec, opn == "v_powi", huge)
        if not x.startswith(("inf", "-inf")) and abs(n) > 1000:
            s = int(x.split()[0], 16)
            if abs(s) > 1:
                x = "%s %s" % (rng.choice(["1", "-1", "0"]), x.split()[1])
        out.append("f.%s %s %s %s" % (opn, head, x, hx(n)))
    elif k < 34:
        out.append("f.convert_int %s %s 0" % (head, hx(edge_int(rng, tier))))
    elif k < 54:
        op = rng.choice(F_VAL2)
        hg = huge and op not in ("op_rem", "div_euclid", "rem_euclid", "divrem_euclid", "v_powf")
        x, y = fval(rng, base, prec, True, hg), fval(rng, base, prec, True, hg)
        if op == "v_powf":
            y = small_exponent(rng, y, base ** prec if prec else 0)
        out.append("f.%s %s %s %s" % (op, head, x, y))
    elif k < 78:
        op = rng.choice(F_VAL1)
        hg = huge and op not in ("v_exp", "v_exp_m1", "v_ln", "v_ln_1p", "to_int", "repr_to_int", "try_ibig", "try_ubig", "try_rbig", "try_relaxed", "trunc", "fract",
                                 "ceil", "floor", "round", "split_at_point", "fmt", "repr_fmt", "with_base2", "with_base10", "with_base3",
                                 "with_base16", "to_decimal", "to_binary", "serde_json", "postcard")
        x = fval(rng, base, prec, True, hg)
        if op in ("v_exp", "v_exp_m1"):
            x = small_exponent(rng, x, base ** prec if prec else 0)
        out.append("f.%s %s %s" % (op, head, x))
    elif k < 84:
        op = rng.choice(F_VALINT)
        out.append("f.%s %s %s %s" % (op, head, fval(rng, base, prec, True, huge), hx(small_int(rng))))
    elif k < 87:
        op = rng.choice(F_VALSMALL)
        n = rng.choice([0, 0, 1, 2, 255]) if op == "op_div_u8" else rng.choice([0, 1, -1, (1 << 31) - 1, -(1 << 31)])
        out.append("f.%s %s %s %s" % (op, head, fval(rng, base, prec, True, huge), hx(n)))
    elif k < 92:
        n = rng.choice([0, 1, -1, 64, -64, 1 << 62, -(1 << 62), I64MAX, -I64MAX, -I64MAX + 1])
        out.append("f.%s %s %s %s" % (rng.choice(F_VALSHIFT), head, fval(rng, base, prec, True, True), hx(n)))
    elif k < 96:
        n = rng.choice([0, 0, 1, 2, 5, 50, 300])
        out.append("f.%s %s %s %x" % (rng.choice(F_VALPREC), head, fval(rng, base, prec, True, False), n))
    elif k < 98:
        out.append("f.from_parts %s %s %s" % (head, hx(edge_int(rng, tier)), hx(fexp(rng, True))))
    else:
        r = rng.below(3)
        if r == 0:
            out.append("f.from_f32 %s %x" % (head, rng.choice([0, 0x80000000, 0x7f800000, 0xff800000, 0x7fc00000, 1, 0x3f800000, rng.bits(32)])))
        elif r == 1:
            out.append("f.from_f64 %s %x" % (head, rng.choice([0, 1 << 63, 0x7ff0000000000000, 0xfff0000000000000, 0x7ff8000000000000, 1, rng.bits(64)])))
        else:
            n, d = small_int(rng), max(1, small_int(rng, False))
            out.append("f.from_rbig %s %s %s" % (head, hx(n), hx(d)))


def rat_parts(rng, tier):
    import math
    n = edge_int(rng, tier) if rng.chance(1, 2) else small_int(rng)
    d = max(1, edge_int(rng, tier, False) if rng.chance(1, 2) else small_int(rng, False))
    g = math.gcd(n, d)
    return n // g, d // g


def gen_rational(rng, tier, out):
    fam = rng.choice(["q", "q", "r"])
    n, d = rat_parts(rng, tier)
    if rng.chance(1, 6):
        n = 0
        d = 1
    k = rng.below(20)
    if k == 0:
        dd = rng.choice([0, 0, 1, 2, edge_int(rng, tier, False)])
        out.append("%s.from_parts %s %s" % (fam, hx(edge_int(rng, tier)), hx(dd)))
    elif k == 1:
        dd = rng.choice([0, 0, 1, -1, edge_int(rng, tier)])
        out.append("%s.from_parts_signed %s %s" % (fam, hx(edge_int(rng, tier)), hx(dd)))
    elif k < 9:
        n2, d2 = rat_parts(rng, tier)
        if rng.chance(1, 4):
            n2, d2 = 0, 1
        out.append("%s.%s %s %s %s %s" % (fam, rng.choice(Q_2 if fam == "q" else R_2), hx(n), hx(d), hx(n2), hx(d2)))
    elif k < 14:
        out.append("%s.%s %s %s" % (fam, rng.choice(Q_1 if fam == "q" else R_1), hx(n), hx(d)))
    elif k < 16:
        v = rng.choice([0, 0, 1, -1, small_int(rng)])
        out.append("%s.%s %s %s %s" % (fam, rng.choice(Q_INT if fam == "q" else R_INT), hx(n), hx(d), hx(v)))
    elif k < 18:
        op = rng.choice(Q_UINT)
        v = rng.choice([0, 0, 1, 1, 2, d, d + 1, max(d - 1, 0), small_int(rng, False)])
        if op in ("next_up", "next_down", "nearest"):
            v = rng.choice([0, 1, 1, 2, 3, 10, 1000, d, d + 1, max(d - 1, 0), rng.bits(12), 1 << 64, 1 << 40])
        out.append("q.%s %s %s %s" % (op, hx(n), hx(d), hx(v)))
    elif k < 19:
        e = rng.choice([0, 1, 2, 3, 10, 100])
        if abs(n).bit_length() + d.bit_length() > 200:
            e = min(e, 3)
        out.append("%s.pow %s %s %x" % (fam, hx(n), hx(d), e))
    else:
        out.append("q.%s %s %s %x" % (rng.choice(["to_float2", "to_float10"]), hx(n), hx(d), rng.choice([0, 0, 1, 2, 10, 53, 100])))


PIECES = ["", "0", "1", "9", "a", "f", "z", "Z", "G", "_", "__", "+", "-", "--", "+-", ".", "..", "e", "E", "p", "P", "@", "/", "//", "0x", "0X", "0b",
          "0o", "0d", "x", " ", "\t", "\n", "inf", "-inf", "Inf", "infinity", "nan", "NaN", "e+", "e-", "e99999999999999999999", "e-99999999999999999999",
          "p9223372036854775807", "e9223372036854775807", "e-9223372036854775808", "e9223372036854775808", "@36", "@-5",
          "é", "٣", "１", "∞", "\U0001f600", " ", "−", "́", "\u0000", "123456789012345678901234567890", "0.", ".0", "1_000", "_1", "1_",
          "1/", "/1", "1/0", "0/0", "-1/-1", "1/+2", "1 / 2", "0x1p-3", "1e", "1e1e1", "1.5e3", "0x.8", "-0", "+0", "-.", "+.e1", "._", "_.1", "1._2", "1.e_1", "1e_1", "1e1_"]
PARSERS_S = ["ubig", "ibig", "ubig_prefix", "ibig_prefix", "rbig", "relaxed", "rbig_prefix", "relaxed_prefix"]
PARSERS_R = ["ubig_radix", "ibig_radix", "ubig_default", "ibig_default", "rbig_radix", "relaxed_radix"]
FBASES = ["2", "3", "8", "a", "10", "24"]


def rand_string(rng):
    k = rng.below(10)
    if k == 0:
        return rng.choice(PIECES)
    if k < 7:
        return "".join(rng.choice(PIECES) for _ in range(rng.range(1, 5)))
    if k < 9:
        # mostly digits with one odd character somewhere
        n = rng.choice([1, 2, 19, 20, 21, 39, 40, 100, 700])
        s = "".join(rng.choice("0123456789") for _ in range(n))
        p = rng.below(len(s) + 1)
        return s[:p] + rng.choice(PIECES) + s[p:]
    return "".join(chr(rng.choice([rng.range(32, 126), rng.range(0x80, 0x7ff), rng.range(0x800, 0xd7ff), rng.range(0x10000, 0x10ffff)])) for _ in range(rng.range(1, 8)))


# ------------------------------------------------------------------------------------------------
# ownership forms x size classes of the operations with a documented panic
# ------------------------------------------------------------------------------------------------
FORMS6 = ["vv", "vr", "rv", "rr", "av", "ar"]
FORMS4 = ["vv", "vr", "rv", "rr"]
INT_OPS6 = ["add", "sub", "mul", "div", "rem"]
INT_OPS4 = ["divrem", "div_euclid", "rem_euclid", "divrem_euclid", "gcd", "gcd_ext"]
INT_DIVLIKE = ["div", "rem", "divrem", "div_euclid", "rem_euclid", "divrem_euclid", "divrem_assign"]
MIXED4 = ["div_iu", "rem_iu", "div_ui", "rem_ui", "sub_ui"]
SIZE_CLASSES = ["w1_w1", "w1_w2", "w2_w1", "w2_w2", "same_lowdiff", "same_topdiff", "same_equal", "a_longer", "b_longer", "big_w1", "w1_big",
                "big_w2", "w2_big"]


def forms_of(op):
    if op == "divrem_assign":
        return ["av", "ar"]
    return FORMS6 if op in INT_OPS6 else FORMS4


def size_pair(rng, cls):
    """a pair of magnitudes (lo, hi) with lo <= hi of the word-count class; lo < hi except for same_equal"""
    n = rng.choice([3, 3, 4, 5, 8, 17])
    if cls == "w1_w1":
        a, b = gen_mag(rng, 1), gen_mag(rng, 1)
    elif cls in ("w1_w2", "w2_w1"):
        a, b = gen_mag(rng, 1), gen_mag(rng, 2)
    elif cls == "w2_w2":
        a, b = gen_mag(rng, 2), gen_mag(rng, 2)
    elif cls == "same_lowdiff":
        hi = gen_mag(rng, n) >> 64 << 64
        a, b = hi | rng.bits(63), hi | (1 << 63) | rng.bits(63)
    elif cls == "same_topdiff":
        # the smaller number has the larger low words: a word-wise subtraction borrows all the way up
        t = rng.range(1, (1 << 64) - 2)
        a = (t << (64 * (n - 1))) | ((1 << (64 * (n - 1))) - 1 - rng.bits(20))
        b = ((t + 1) << (64 * (n - 1))) | rng.bits(20)
    elif cls == "same_equal":
        a = b = gen_mag(rng, n)
    elif cls in ("a_longer", "b_longer"):
        a, b = gen_mag(rng, n), gen_mag(rng, n + rng.choice([1, 1, 2, 5]))
    elif cls in ("big_w1", "w1_big"):
        a, b = gen_mag(rng, 1), gen_mag(rng, n)
    else:
        a, b = gen_mag(rng, 2), gen_mag(rng, n)
    lo, hi = min(a, b), max(a, b)
    if lo == hi and cls != "same_equal":
        hi += 1
    return lo, hi


def ordered(cls, lo, hi, want_a_less):
    """orient the pair: the class name says which operand is the long one; want_a_less overrides it where both have the same length"""
    if cls in ("w2_w1", "a_longer", "big_w1", "big_w2"):
        return hi, lo
    if cls in ("w1_w2", "b_longer", "w1_big", "w2_big"):
        return lo, hi
    return (lo, hi) if want_a_less else (hi, lo)


def forms_sweep(rng):
    """every ownership form x every size class for every violated documented precondition (always part of a run)"""
    out = []
    # unsigned subtraction below zero
    for form in FORMS6:
        for cls in SIZE_CLASSES:
            lo, hi = size_pair(rng, cls)
            if cls == "same_equal":
                out.append("u.sub@%s %s %s" % (form, hx(lo), hx(hi)))          # equal operands: no panic
                continue
            a, b = ordered(cls, lo, hi, True)
            out.append("u.sub@%s %s %s" % (form, hx(a), hx(b)))                 # a < b for the classes that allow it
            if a < b and cls in ("same_lowdiff", "same_topdiff", "w1_w1", "w2_w2"):
                out.append("u.sub@%s %s %s" % (form, hx(b), hx(a)))             # and the mirrored, legal one
    # division by zero, gcd(0, 0)
    dividends = [0, 1, None, None, None, None]
    for fam in "ui":
        for op in INT_DIVLIKE:
            for form in forms_of(op):
                for i, d in enumerate(dividends):
                    a = d if d is not None else gen_mag(rng, [1, 2, 3, rng.choice([4, 9, 33])][i - 2])
                    if fam == "i" and rng.chance(1, 2):
                        a = -a
                    out.append("%s.%s@%s %s 0" % (fam, op, form, hx(a)))
        for op in ("gcd", "gcd_ext"):
            for form in FORMS4:
                out.append("%s.%s@%s 0 0" % (fam, op, form))
                out.append("%s.%s@%s 0 %s" % (fam, op, form, hx(gen_mag(rng, rng.choice([1, 2, 3, 5])))))
                out.append("%s.%s@%s %s 0" % (fam, op, form, hx(gen_mag(rng, rng.choice([1, 2, 3, 5])))))
    for op in ("div_iu", "rem_iu", "div_ui", "rem_ui"):
        for form in FORMS4:
            for nw in (0, 1, 2, 4):
                out.append("i.%s@%s %s 0" % (op, form, hx(gen_mag(rng, nw))))
    # floats: division / remainder by zero, an infinite operand; rationals: division by zero
    def fin(bt):
        return "%s %s" % (hx(fsig(rng, BASES[bt], 5, True)), hx(rng.range(-9, 9)))
    for form in FORMS6:
        for op in ("op_div", "op_rem"):
            bt = rng.choice(list(BASES))
            out.append("f.%s@%s %s %s 5 %s 0 0" % (op, form, bt, rng.choice(MODES), fin(bt)))
        for op in ("op_add", "op_sub", "op_mul", "op_div", "op_rem"):
            bt = rng.choice(list(BASES))
            x, y = fin(bt), rng.choice(["inf 0", "-inf 0"])
            if rng.chance(1, 2):
                x, y = y, x
            out.append("f.%s@%s %s %s 5 %s %s" % (op, form, bt, rng.choice(MODES), x, y))
        out.append("f.op_div@%s %s %s 0 %s 0 3 0" % (form, rng.choice(list(BASES)), rng.choice(MODES), hx(rng.bits(12))))
        for fam in "qr":
            for op in ("div", "rem"):
                n, d = rat_parts(rng, "quick")
                out.append("%s.%s@%s %s %s 0 1" % (fam, op, form, hx(n), hx(d)))
    return out


def gen_forms(rng, tier, out):
    """random member of the form x size-class product (legal and violating alike)"""
    k = rng.below(10)
    if k < 6:
        fam = rng.choice("ui")
        op = rng.choice(INT_OPS6 + INT_OPS4 + ["divrem_assign"])
        cls = rng.choice(SIZE_CLASSES)
        lo, hi = size_pair(rng, cls)
        a, b = ordered(cls, lo, hi, rng.chance(1, 2))
        if fam == "i":
            a, b = (-a if rng.chance(1, 2) else a), (-b if rng.chance(1, 2) else b)
        if op != "sub" and rng.chance(1, 5):
            b = 0
        if op in ("gcd", "gcd_ext") and rng.chance(1, 6):
            a = b = 0
        out.append("%s.%s@%s %s %s" % (fam, op, rng.choice(forms_of(op)), hx(a), hx(b)))
    elif k < 7:
        op = rng.choice(MIXED4)
        a, b = edge_int(rng, tier, True), edge_int(rng, tier, True)
        if op.endswith("_iu"):
            b = abs(b)
        else:
            a = abs(a)
        if rng.chance(1, 4):
            b = 0
        out.append("i.%s@%s %s %s" % (op, rng.choice(FORMS4), hx(a), hx(b)))
    elif k < 9:
        bt = rng.choice(list(BASES))
        prec = rng.choice([0, 1, 2, 5, 17, 64])
        op = rng.choice(["op_add", "op_sub", "op_mul", "op_div", "op_rem"])
        if prec == 0 and op == "op_div":
            prec = 3
        x, y = fval(rng, BASES[bt], prec, True, False), fval(rng, BASES[bt], prec, True, False)
        if rng.chance(1, 5):
            y = "0 0"
        out.append("f.%s@%s %s %s %x %s %s" % (op, rng.choice(FORMS6), bt, rng.choice(MODES), prec, x, y))
    else:
        fam = rng.choice("qr")
        n, d = rat_parts(rng, tier)
        n2, d2 = rat_parts(rng, tier)
        if rng.chance(1, 4):
            n2, d2 = 0, 1
        out.append("%s.%s@%s %s %s %s %s" % (fam, rng.choice(["add", "sub", "mul", "div", "rem"]), rng.choice(FORMS6), hx(n), hx(d), hx(n2), hx(d2)))


# ------------------------------------------------------------------------------------------------
# malformed text built from well-formed literals: one foreign character at every position
# ------------------------------------------------------------------------------------------------
TEMPLATES = ["0", "-0", "+0", "7", "-12", "0.5", "-0.5", "+0.", ".5", "0x1f", "-0x1.8p3", "0X10", "0b101", "0o17", "1e5", "0e0", "-1.5e-3", "1_000",
             "0_1", "1/2", "-0/1", "0x1/0x2", "1.5@3", "0x.8p-1", "00", "0x0", "0p0", "inf", "-inf", "z0", "0z"]
FOREIGN = ["\u00e9", "\u00d7", "\u0663", "\u4e00", "\uff11", "\u221e", "\u2212", "\U0001f600", "\U00010000", "\u0301", "\u0080", "\u07ff", "\u0800",
           "\uffff", "\U0010ffff"]
FOREIGN_ASCII = ["\u0000", " ", "\u007f", "x", "X", "_", ".", "-", "+", "/", "e", "p", "@", "#"]


QUICK_TEMPLATES = ["0", "-0.5", "0x1.8p3", "1_0e-2", "1/0x2", "+0b1@1", "0x.8", "-0x_p1"]     # every structural position once: after the sign, the leading
#                      zero, the radix prefix, a digit, the point, the scale marker, its sign, the underscore, the slash; start and end


def parser_configs(radixes=(2, 10, 16, 36)):
    cfg = ["p.%s" % p for p in PARSERS_S]
    for p in PARSERS_R:
        for r in radixes:
            cfg.append("p.%s %x" % (p, r))
    for p in ("fbig", "repr"):
        for b in FBASES:
            cfg.append("p.%s %s" % (p, b))
    return cfg


def inject(t, pos, ch, replace):
    return t[:pos] + ch + t[pos + (1 if replace else 0):]


def parse_sweep(rng, tier):
    """every parser configuration x every template x every character position: one multi-byte character inserted
    (quick: six templates covering every structural position, the byte width and the radix rotate;
    thorough: all templates, every width, insertion and replacement)"""
    out = []
    wide = ["\u00e9", "\u4e00", "\U0001f600"]          # 2, 3 and 4 bytes in UTF-8
    rot = rng.below(12)
    if tier == "quick":
        for ti, t in enumerate(QUICK_TEMPLATES):
            for ci, cfg in enumerate(parser_configs(radixes=((2, 10, 16, 36)[(ti + rot) % 4],))):
                out.append("%s %s" % (cfg, sx(t)))                     # the well-formed literal itself
                for pos in range(len(t) + 1):
                    out.append("%s %s" % (cfg, sx(inject(t, pos, wide[(pos + ti + ci + rot) % 3], False))))
        return out
    for cfg in parser_configs():
        for t in TEMPLATES + QUICK_TEMPLATES:
            out.append("%s %s" % (cfg, sx(t)))
            for pos in range(len(t) + 1):
                for ch in wide:
                    out.append("%s %s" % (cfg, sx(inject(t, pos, ch, False))))
                    if pos < len(t):
                        out.append("%s %s" % (cfg, sx(inject(t, pos, ch, True))))
    return out


def gen_parse_inject(rng, out):
    t = rng.choice(TEMPLATES)
    for _ in range(rng.choice([1, 1, 1, 2, 3])):
        ch = rng.choice(FOREIGN) if rng.chance(3, 4) else rng.choice(FOREIGN_ASCII)
        t = inject(t, rng.below(len(t) + 1), ch, rng.chance(1, 3) and len(t) > 0)
    out.append("%s %s" % (rng.choice(parser_configs()), sx(t)))
    if rng.chance(1, 4):
        # the same text inside a JSON string for the human-readable deserialisers
        esc = t.replace("\\", "\\\\").replace('"', '\\"').replace("\u0000", "\\u0000")
        out.append("d.%s.json %s" % (rng.choice(DE_TYPES), sx('"%s"' % esc)))



STRUCT = ["0", "1", "7", "9", "a", "f", "_", ".", ".", "+", "-", "e", "E", "@", "p", "P", "b", "B", "o", "h", "H", "0x", "0X", "0b", "0o", "/", "/",
          "\u00e9", "\u4e00", "\U0001f600", "\u00d7", "\u0080"]


def gen_parse_struct(rng, out):
    """well-formed UTF-8 made of the characters the parsers compute slice indices from (sign, radix prefix, point, scale markers
    of every base, slash, underscore) with multi-byte characters in between: every find / rfind / [2..] path of the index-level models"""
    n = rng.choice([1, 2, 3, 4, 5, 6, 8, 12])
    t = "".join(rng.choice(STRUCT) for _ in range(n))
    if rng.chance(1, 3):
        t = rng.choice(["0x", "0X", "-0x", "+0x", "0x.", "0x_"]) + t
    out.append("%s %s" % (rng.choice(parser_configs()), sx(t)))


GROWTH_KINDS = ["set_bit", "set_bit", "clear_bit", "shl", "ishl", "add", "mulw"]
GROWTH_HOW = ["fresh", "shrunk", "cloned", "grown"]


def growth_sweep(rng):
    """buffer growth at the capacity edge (always part of a run): every operation that pushes words x every way the value was
    built x every word index len-1 .. cap+2 (the harness reads len / cap of the built value through the repr_layout hook)"""
    out = []
    for kind in ["set_bit", "clear_bit", "shl", "ishl", "add", "mulw"]:
        for how in GROWTH_HOW:
            for nw in (3, 4, 9):
                for pos in range(10):
                    if kind == "mulw" and pos > 0:
                        continue
                    out.append("u.growth %s %s %x %s %x" % (kind, how, pos, hx(gen_mag(rng, nw)), rng.choice([0, 1, 63, rng.below(64)])))
    return out


def gen_growth(rng, out):
    nw = rng.choice([1, 2, 3, 3, 4, 5, 8, 9, 16, 17, 33, 70])
    v = gen_mag(rng, nw)
    if rng.chance(1, 4):
        v = (1 << (64 * nw)) - 1
    out.append("u.growth %s %s %x %s %x" % (rng.choice(GROWTH_KINDS), rng.choice(GROWTH_HOW), rng.below(10), hx(v), rng.below(64)))


TINY_EXP = [-(10 ** 6), -(10 ** 8), -3 * 10 ** 9, -(1 << 40), -(1 << 62), -I64MAX + 70, 10 ** 6, 10 ** 8, 3 * 10 ** 9, 1 << 40, 1 << 62, I64MAX - 70,
            -1000, -64, -17, -5, -1, 0, 5]
SPLIT_OPS = ["trunc", "fract", "ceil", "floor", "round", "split_at_point", "is_int"]       # never need B^|exponent|
TOINT_NEG_OPS = ["repr_to_int", "try_ibig", "try_ubig"]                                     # fast for tiny values, huge results for large ones


def gen_float_tiny(rng, out):
    """the integer / fractional part of floats with a huge exponent of either sign (a tiny or an astronomically large value): the
    result is the value itself, zero or one - expected at once, in every base (B^|exponent| must never be formed)"""
    bt = rng.choice(["3", "a", "3", "a", "2", "10"])
    base = BASES[bt]
    prec = rng.choice([1, 2, 5, 17, 53])
    s = fsig(rng, base, prec, True)
    if s == 0:
        s = 1
    head = "%s %s %x" % (bt, rng.choice(MODES), prec)
    r = rng.below(10)
    if r < 7:
        out.append("f.%s %s %s %s" % (rng.choice(SPLIT_OPS), head, hx(s), hx(rng.choice(TINY_EXP))))
    elif r < 9:
        out.append("f.%s %s %s %s" % (rng.choice(TOINT_NEG_OPS), head, hx(s), hx(rng.choice([e for e in TINY_EXP if e <= 5]))))
    else:
        # FBig::to_int: round_fract's debug assertion forms B^|exponent| in checked builds: exponents down to -10^6 only
        out.append("f.to_int %s %s %s" % (head, hx(s), hx(rng.choice([-(10 ** 6), -(10 ** 5), -1000, -64, -5, -1, 0, 5]))))


def tiny_sweep(rng):
    out = []
    for bt in ("3", "a"):
        for op in ("trunc", "fract", "ceil", "floor", "round", "split_at_point"):
            for e in (-(10 ** 6), -(10 ** 8), -3 * 10 ** 9, 3 * 10 ** 9):
                s = rng.choice([123, -123, 1, -1, BASES[bt] ** 4 - 1])
                out.append("f.%s %s %s 5 %s %s" % (op, bt, rng.choice(MODES), hx(s), hx(e)))
        for op in TOINT_NEG_OPS:
            out.append("f.%s %s %s 5 %s %s" % (op, bt, rng.choice(MODES), hx(123), hx(-3 * 10 ** 9)))
    return out

DE_TYPES = ["ubig", "ibig", "fbig", "dbig", "repr", "rbig", "relaxed"]
JSON_PIECES = ['"', "0", "1", "-1", "1.5", "1e5", "[", "]", "{", "}", ",", ":", "null", "true", '"0x10"', '"12"', '"-12"', '"1/2"', '"1e5"', '"1.5"', '"inf"', '"-inf"',
               '"a"', '""', '"1/0"', '"_"', "[1,2]", "[true,[1]]", '{"significand":"1","exponent":0}', "[[1],0,0]", "18446744073709551616", "-9223372036854775809",
               '"é"', " ", '"0b101"', "[0,[]]", "[false,[1,2,3]]", "[1,[0]]"]


# ------------------------------------------------------------------------------------------------
# round 4: Repr::new at the end of the exponent range, the struct form and the JSON route of the deserialisers, timing
# ------------------------------------------------------------------------------------------------
DE_ALL = ["ubig", "ibig", "fbig", "dbig", "tbig", "hbig", "repr", "rbig", "relaxed"]
DE_FLOAT_BASE = {"fbig": 2, "dbig": 10, "tbig": 3, "hbig": 16, "repr": 10}


def bx(b):
    return "s" + bytes(b).hex()


JSON_TEXTS = ['"12"', ' "12" ', '\t"12"\n', '"12" x', '"12"1', '"12""', "12", "-1", "1.5", "null", "true", "[1,2]", '["12"]', '{"a":"1"}',
              '{"significand":"1","exponent":0}', '{"numerator":"1","denominator":"2"}', "", " ", '"', '"12', '"\\u0031\\u0032"', '"\\u00312"',
              '"\\u003"', '"\\u003g"', '"\\uD83D\\uDE00"', '"\\ud83d"', '"\\ud83dx"', '"\\ud83d\\u0031"', '"\\ud83d\\n"', '"\\ude00"', '"\\n1"', '"1\n"',
              '"1\x1f"', '"\\x31"', '"\\"', '"\\\\"', '"1\\/2"', '"1/2"', '"-1/-2"', '"4/6"', '"1/0"', '"0/0"', '"0/5"', '"0x10"', '"0b101/0b11"',
              '"0x10/3"', '"inf"', '"-inf"', '"+inf"', '"Inf"', '"infinity"', '"inf "', '"1.5e3"', '"1.5"', '"-0.5"', '"0x1.8p3"', '"1e9223372036854775807"',
              '"10e9223372036854775807"', '"1e-9223372036854775808"', '"\u00e9"', '"1\u00e9"', '"\\u00e9"', '"1_000"', '"_"', '""', '"\\b"', '"1\\t"',
              '"\U0001f600"', '"7"\r', '"7"\x0c']
JSON_RAW = [b'"1\xff"', b'"\xc3"', b'"1\xc3\xa9"', b'\xff', b'"1\xed\xa0\x80"', b'"\x00"', b'"1\x7f"', b'"12"\x00']


def json_sweep(rng):
    """every deserialisable type x a fixed list of JSON texts (strings with every escape form, paired / lone surrogates, control
    characters, raw non-UTF-8 bytes, trailing characters, every non-string JSON value): always part of a run"""
    out = []
    for ty in DE_ALL:
        for t in JSON_TEXTS:
            out.append("d.%s.json %s" % (ty, sx(t)))
        for b in JSON_RAW:
            out.append("d.%s.json %s" % (ty, bx(b)))
    return out


def end_of_range(rng, base):
    """(significand, exponent): a significand with k trailing zero digits at the exponent isize::MAX - k + delta"""
    k = rng.choice([0, 1, 1, 2, 3, 5, 17, 40])
    m = rng.choice([1, 1, base - 1, base + 1, rng.bits(20) * base + 1, rng.bits(70) * base + 1])
    if m % base == 0:
        m += 1
    s = m * base ** k
    if rng.chance(1, 2):
        s = -s
    e = I64MAX - k + rng.choice([-1, 0, 0, 1, 1, 2, k]) if rng.chance(3, 4) else rng.choice([0, 1, -1, -I64MAX, -I64MAX + k, I64MAX, I64MAX - 1, 1 << 62])
    return s, max(-I64MAX, min(I64MAX, e))


def repr_new_sweep(rng):
    out = []
    for bt in ("2", "3", "a", "10"):
        base = BASES[bt]
        for k in (0, 1, 2, 7):
            for d in (-1, 0, 1):
                m = rng.choice([1, base + 1, rng.bits(66) * base + 1])
                s = m * base ** k * rng.choice([1, -1])
                for op in ("repr_new", "from_parts"):
                    out.append("f.%s %s %s 0 %s %s" % (op, bt, rng.choice(MODES), hx(s), hx(min(I64MAX, I64MAX - k + d))))
        out.append("f.repr_new %s Zero 0 0 %s" % (bt, hx(I64MAX)))
        out.append("f.repr_new %s Zero 0 %s %s" % (bt, hx(base ** 9), hx(-I64MAX)))
    return out


def gen_repr_new(rng, out):
    bt = rng.choice(["2", "3", "a", "10"])
    s, e = end_of_range(rng, BASES[bt])
    out.append("f.%s %s %s 0 %s %s" % (rng.choice(["repr_new", "repr_new", "from_parts"]), bt, rng.choice(MODES), hx(s), hx(e)))


def struct_case(rng, ty, edge):
    if ty in ("rbig", "relaxed"):
        n = rng.choice([0, 0, 1, -1, 4, -6, 1 << 64, rng.bits(70), -rng.bits(130)])
        d = rng.choice([0, 0, 1, 2, 6, 1 << 64, rng.bits(70), abs(n)])
        return "d.%s.struct %s %s" % (ty, hx(n), hx(d))
    base = DE_FLOAT_BASE[ty]
    if edge == 0:
        s, e = 0, rng.choice([0, 1, -1, 2, -2, I64MAX, -I64MAX])
    elif edge == 1:
        s, e = end_of_range(rng, base)
    else:
        s, e = fsig(rng, base, 0, False), fexp(rng, False)
    nd = 0
    t = abs(s)
    while t and t % base == 0:
        t //= base
    while t:
        t //= base
        nd += 1
    p = rng.choice([0, 0, nd, nd, nd + 1, max(nd - 1, 0), max(nd - 1, 0), 1, 100])
    if ty == "repr":
        return "d.repr.struct %s %s" % (hx(s), hx(e))
    return "d.%s.struct %s %s %x" % (ty, hx(s), hx(e), p)


def struct_sweep(rng):
    out = []
    for ty in ("fbig", "dbig", "tbig", "hbig", "repr", "rbig", "relaxed"):
        for edge in (0, 0, 0, 1, 1, 1, 1, 1, 1, 2, 2, 2):
            out.append(struct_case(rng, ty, edge))
    out += ["d.dbig.struct a 7fffffffffffffff 0", "d.repr.struct 64 7ffffffffffffffe", "d.fbig.struct 2 7fffffffffffffff 1", "d.relaxed.struct 1 0",
            "d.rbig.struct 0 0", "d.relaxed.struct 0 0", "d.rbig.struct 1 0", "d.hbig.struct -1000 7ffffffffffffffe 0", "d.tbig.struct 9 7ffffffffffffffe 0"]
    return out


JSON_ATOMS = ["1", "12", "-7", "0", "0x1f", "0b101", "1/2", "-4/6", "1/0", "1.5", "1e5", "inf", "-inf", "_", "", " ", "1_0", "0x1.8p3", "é", "/", "+", "z"]
JSON_ESC = ["\\u0031", "\\u002f", "\\u002F", "\\/", "\\n", "\\\\", '\\"', "\\ud83d\\ude00", "\\ud83d", "\\udc00", "\\u12", "\\q", "\\u00e9", "\\b", "\\u0000"]


def gen_json(rng, out):
    body = "".join(rng.choice(JSON_ATOMS) if rng.chance(2, 3) else rng.choice(JSON_ESC) for _ in range(rng.choice([1, 1, 2, 3])))
    if rng.chance(1, 2):
        body = rng.choice(TEMPLATES) if rng.chance(1, 2) else body
    pre = rng.choice(["", "", " ", "\n\t "])
    post = rng.choice(["", "", " ", "\n", " x", ",", '"'])
    text = pre + '"' + body + '"' + post
    if rng.chance(1, 10):
        text = rng.choice(["", body, "[" + text + "]", '{"a":' + text + "}", text[:-1] if post == "" else text])
    out.append("d.%s.json %s" % (rng.choice(DE_ALL), sx(text)))


def gen_deser(rng, out):
    k = rng.below(10)
    if k < 4:
        gen_json(rng, out)
    elif k < 8:
        out.append(struct_case(rng, rng.choice(["fbig", "dbig", "tbig", "hbig", "repr", "rbig", "relaxed"]), rng.choice([0, 1, 1, 2])))
    else:
        gen_repr_new(rng, out)


def gen_lehmer(rng, out):
    """gcd / gcd_ext of two multi-word values (gcd_large / gcd_ext_large: the Lehmer loops), incl. a common factor, equal
    lengths, a much shorter second operand, Fibonacci-like pairs (quotients of one: the longest runs)"""
    nw = rng.choice([3, 3, 4, 5, 8, 17, 40])
    a = gen_mag(rng, nw)
    k = rng.below(8)
    if k >= 6:
        # the same number of words with a tiny top word in the smaller operand: the guess fails (quotient of the leading
        # words above COEFF_LIMIT) and the Euclidean fallback has to make the progress
        a = a | (1 << (64 * nw - 1))
        b = (rng.choice([1, 1, 2, 255]) << (64 * (nw - 1))) + rng.bits(64 * (nw - 1))
    elif k == 0:
        b = gen_mag(rng, nw)
    elif k == 1:
        b = gen_mag(rng, rng.choice([3, max(3, nw - 1), max(3, nw // 2)]))
    elif k == 2:
        g = gen_mag(rng, rng.choice([1, 2, 3]))
        a, b = a * g, gen_mag(rng, max(3, nw - 1)) * g
    elif k == 3:
        x, y = 1, 1
        while y.bit_length() < 64 * nw:
            x, y = y, x + y
        a, b = y, x
    elif k == 4:
        b = a + rng.choice([1, -1, 1 << 64])
    else:
        b = (a >> 64) + 1 if nw > 3 else a ^ 1
    if rng.chance(1, 2):
        a, b = b, a
    fam = rng.choice("ui")
    if fam == "i":
        a, b = (-a if rng.chance(1, 2) else a), (-b if rng.chance(1, 2) else b)
    out.append("%s.%s %s %s" % (fam, rng.choice(["gcd", "gcd_ext", "gcd_ext", "gcd_ext_rr"]), hx(a), hx(b)))


def gen_timing(rng, out):
    """thorough tier only: T.<op> runs <op> twice and reports the faster run; the oracle compares it with the cost bound of
    Cross/CostClasses.v (sizes chosen so that the bound is far above the scheduling noise only for the larger ones)"""
    k = rng.below(12)
    big = lambda bits: rng.bits(bits) | (1 << (bits - 1))
    if k == 0:
        n = rng.choice([1 << 16, 1 << 20, 1 << 23])
        out.append("T.u.%s %s %s" % (rng.choice(["add", "sub", "cmp"]), hx(big(n) + 1), hx(big(n - 1))))
    elif k == 1:
        n = rng.choice([1 << 14, 1 << 17, 1 << 20])
        out.append("T.u.mul %s %s" % (hx(big(n)), hx(big(n // rng.choice([1, 2, 7])))))
    elif k == 2:
        n = rng.choice([1 << 14, 1 << 16, 1 << 18])
        out.append("T.u.%s %s %s" % (rng.choice(["div", "rem", "divrem", "gcd", "gcd_ext"]), hx(big(n)), hx(big(n // rng.choice([2, 3])))))
    elif k == 3:
        out.append("T.u.%s %s" % (rng.choice(["fmt", "sqrt"]), hx(big(rng.choice([1 << 14, 1 << 17])))))
    elif k == 4:
        out.append("T.u.%s %s %x" % (rng.choice(["shl", "set_bit"]), hx(big(rng.choice([8, 200, 1 << 12]))), rng.choice([1 << 20, 1 << 24, (1 << 27) + 3])))
    elif k == 5:
        a = rng.choice([3, 10, big(64), big(200)])
        out.append("T.u.pow %s %x" % (hx(a), (1 << 18) // a.bit_length()))
    elif k == 6:
        bt = rng.choice(list(BASES))
        p = rng.choice([100, 1000, 5000])
        x, y = fsig(rng, BASES[bt], p, True) | 1, fsig(rng, BASES[bt], p, True) | 1
        out.append("T.f.%s %s %s %x %s %s %s %s" % (rng.choice(["op_add", "op_mul", "op_div"]), bt, rng.choice(MODES), p, hx(BASES[bt] ** (p - 1) + abs(x) % BASES[bt] ** (p - 1)), hx(rng.range(-50, 50)),
                                                    hx(BASES[bt] ** (p - 1) + abs(y) % BASES[bt] ** (p - 1)), hx(rng.range(-50, 50))))
    elif k == 7:
        bt = rng.choice(list(BASES))
        p = rng.choice([30, 100, 300, 800])
        x = BASES[bt] ** (p - 1) + rng.bits(40) % BASES[bt] ** (p - 1)
        out.append("T.f.%s %s %s %x %s %s" % (rng.choice(["v_exp", "v_ln", "v_ln_1p", "v_exp_m1"]), bt, rng.choice(["HalfEven", "Zero", "Up"]), p, hx(x), hx(-(p - 1) - rng.choice([0, 1, 3]))))
    elif k == 8:
        bt = rng.choice(["3", "a", "2", "10"])
        out.append("T.f.%s %s Zero 40 %s %s" % (rng.choice(["repr_to_int", "try_ibig"]), bt, hx(rng.range(1, 200) * 2 + 1), hx(rng.choice([1000, 100000, 1000000]))))
    elif k == 9:
        n, d = rng.bits(64) | 1, (rng.bits(64) | 1) + (1 << 64)
        out.append("T.q.%s %s %s %s" % (rng.choice(["next_up", "next_down"]), hx(n), hx(d), hx(rng.choice([100, 10000, 1000000]))))
    elif k == 10:
        out.append("T.p.ubig %s" % sx("".join(rng.choice("0123456789") for _ in range(rng.choice([1000, 30000, 200000])))))
    else:
        out.append("T.u.in_radix_fmt %s %x" % (hx(big(rng.choice([1 << 14, 1 << 16]))), rng.choice([3, 10, 36])))


# ------------------------------------------------------------------------------------------------
# operand lengths exactly at every size threshold of the sources (coq/gen/Params.v, regenerated from the tree under check
# before the cases are generated): an edited threshold moves the sweep
# ------------------------------------------------------------------------------------------------
PARAMS_FALLBACK = {"mul_threshold_simple": 24, "mul_threshold_karatsuba": 192, "karatsuba_min_len": 3, "toom3_min_len": 16, "mul_simple_chunk_len": 1024,
                   "sqr_max_len_simple": 30, "div_threshold_simple": 32, "fmt_chunk_len": 16, "parse_chunk_len": 256}


if hasattr(sys, "set_int_max_str_digits"):
    sys.set_int_max_str_digits(0)          # decimal texts of 600-word numbers for the parsers


def source_thresholds():
    import re
    vals = {}
    try:
        with open(os.path.join(core.COQ, "gen", "Params.v")) as f:
            for m in re.finditer(r"Definition\s+(\w+)\s*:\s*Z\s*:=\s*(\d+)\s*\.", f.read()):
                vals[m.group(1)] = int(m.group(2))
    except OSError:
        pass
    return vals or dict(PARAMS_FALLBACK)


def threshold_lengths(tier):
    """word counts T-1, T, T+1 for every threshold T, and around 2T and T/2 (squarings, pow intermediates, 2n-by-n divisions,
    the halves of the Karatsuba / Toom recursion); the largest thresholds keep only T-1, T, T+1"""
    ls = set()
    for t in source_thresholds().values():
        if t < 1 or t > 4096:
            continue
        cand = [t - 1, t, t + 1]
        if t <= (512 if tier == "quick" else 2048):
            cand += [2 * t - 1, 2 * t, 2 * t + 1, t // 2 - 1, t // 2, t // 2 + 1, (t + 1) // 2]
        ls.update(c for c in cand if 1 <= c <= 4100)
    return sorted(ls)


def full_mag(rng, nwords):
    """exactly nwords words with the top bit set (its square has exactly 2 * nwords words)"""
    return (1 << (64 * nwords - 1)) | rng.bits(64 * nwords - 1)


def threshold_sweep(rng, tier):
    """mul / sqr / cubic / pow / div / rem / gcd / gcd_ext / sqrt / printing / parsing with operand lengths exactly at every size
    threshold of the sources and their neighbours, for EQUAL operands (squaring shortcut) as well as different ones; every panic
    outside the documented table is a violation (always part of a run, never truncated)"""
    out = []
    for n in threshold_lengths(tier):
        a, b = full_mag(rng, n), gen_mag(rng, n)
        if b == a:
            b ^= 1
        ha, hb = hx(a), hx(b)
        out.append("u.sqr %s" % ha)
        out.append("u.mul %s %s" % (ha, ha))                     # x * y with y == x
        out.append("u.mul@rr %s %s" % (ha, ha))                  # &x * &x
        out.append("u.mul %s %s" % (ha, hb))                     # balanced, different
        out.append("i.mul %s %s" % (hx(-a), hb))
        out.append("u.mul %s %s" % (hx(full_mag(rng, n + rng.choice([1, 2, n // 2 + 1, n]))), hb))   # unbalanced: chunks of n words
        out.append("u.pow %s 2" % ha)
        if n <= 1100:
            out.append("u.cubic %s" % ha)
            out.append("u.pow %s 3" % hb)
        if n % 2 == 0:
            h = full_mag(rng, n // 2)
            out.append("u.pow %s 4" % hx(h))                     # the second squaring has exactly n words
            out.append("u.pow %s 5" % hx(h))
        if n % 4 == 0 and n <= 1100:
            out.append("u.pow %s 8" % hx(full_mag(rng, n // 4)))
        big = full_mag(rng, 2 * n)
        out.append("u.divrem %s %s" % (hx(big), hb))             # 2n by n
        out.append("u.div %s %s" % (hx(full_mag(rng, n + 1)), ha))
        out.append("u.rem %s %s" % (ha, hx(full_mag(rng, max(1, n // 2)))))
        out.append("u.%s %s %s" % (rng.choice(["gcd", "gcd_ext"]), ha, hb))
        out.append("u.gcd_ext %s %s" % (hx(big), hb))
        out.append("u.sqrt %s" % ha)
        out.append("u.sqrt_rem %s" % hx(big))
        if n <= 600:
            out.append("u.fmt %s" % hb)
            out.append("u.in_radix_fmt %s %x" % (ha, rng.choice([3, 10, 36])))
            out.append("p.ubig %s" % sx(str(b)))
            out.append("p.ubig_radix %x %s" % (16, sx("%x" % a)))
    return out


def gen_threshold(rng, tier, out):
    """random member of the threshold family (signs, forms, lengths off by a few words)"""
    ls = threshold_lengths(tier)
    n = max(1, rng.choice(ls) + rng.choice([0, 0, 0, 1, -1, 2, -2]))
    if n > 1100:
        n = rng.choice([l for l in ls if l <= 1100])
    a = full_mag(rng, n) if rng.chance(1, 2) else gen_mag(rng, n)
    k = rng.below(8)
    if k == 0:
        out.append("%s.sqr %s" % (rng.choice("ui"), hx(a)))
    elif k == 1:
        out.append("u.mul@%s %s %s" % (rng.choice(FORMS6), hx(a), hx(a)))
    elif k == 2:
        out.append("i.mul@%s %s %s" % (rng.choice(FORMS6), hx(-a if rng.chance(1, 2) else a), hx(a if rng.chance(1, 2) else gen_mag(rng, n))))
    elif k == 3:
        e = rng.choice([2, 3, 4, 5, 6, 8])
        m = max(1, n // rng.choice([1, 2, 2, 4]))
        if m * e > 2400:
            e = 2
        out.append("%s.pow %s %x" % (rng.choice("ui"), hx(full_mag(rng, m)), e))
    elif k == 4:
        out.append("u.cubic %s" % hx(a))
    elif k == 5:
        out.append("u.%s %s %s" % (rng.choice(["divrem", "div", "rem", "gcd", "gcd_ext"]), hx(full_mag(rng, n + rng.choice([0, 1, n]))), hx(a)))
    elif k == 6:
        out.append("u.%s %s" % (rng.choice(["sqrt", "sqrt_rem", "cbrt"]), hx(a)))
    else:
        m = min(n, 300)
        out.append(rng.choice(["u.fmt %s" % hx(gen_mag(rng, m)), "p.ubig %s" % sx(str(gen_mag(rng, m))), "u.in_radix_fmt %s a" % hx(gen_mag(rng, m))]))


def gen_parse(rng, tier, out):
    if rng.chance(1, 3):
        return gen_parse_inject(rng, out)
    if rng.chance(1, 3):
        return gen_parse_struct(rng, out)
    k = rng.below(10)
    if k < 3:
        out.append("p.%s %s" % (rng.choice(PARSERS_S), sx(rand_string(rng))))
    elif k < 5:
        r = rng.choice([0, 1, 2, 2, 10, 16, 36, 36, 37, 255, (1 << 32) - 1, rng.range(2, 36)])
        out.append("p.%s %x %s" % (rng.choice(PARSERS_R), r, sx(rand_string(rng))))
    elif k < 8:
        out.append("p.%s %s %s" % (rng.choice(["fbig", "repr"]), rng.choice(FBASES), sx(rand_string(rng))))
    elif k < 9:
        s = "".join(rng.choice(JSON_PIECES) for _ in range(rng.range(1, 4)))
        out.append("d.%s.json %s" % (rng.choice(DE_TYPES), sx(s)))
    else:
        nb = rng.choice([0, 1, 2, 3, 8, 9, 10, 17, 40])
        data = bytes(rng.choice([0, 1, 2, 0x7f, 0x80, 0xff, rng.below(256)]) for _ in range(nb))
        out.append("d.%s.postcard s%s" % (rng.choice(DE_TYPES), data.hex()))


def gen_cases(rng, tier, n):
    # the two systematic sweeps come first (their word values and character widths depend on the seed, the classes do not)
    first = threshold_sweep(rng.fork("threshold"), tier)         # never truncated
    n = max(n - len(first), n // 2)
    out = (repr_new_sweep(rng.fork("reprnew")) + struct_sweep(rng.fork("struct")) + json_sweep(rng.fork("json")) +
           growth_sweep(rng.fork("growth")) + tiny_sweep(rng.fork("tiny")) + forms_sweep(rng.fork("forms")) + parse_sweep(rng.fork("parse"), tier))
    if len(out) > n // 2:
        out = out[:n // 2]
    hangs = 0
    ntime = 0
    while len(out) < n:
        k = rng.below(100)
        m = len(out)
        if tier == "thorough" and ntime < 400 and rng.chance(1, 40):
            gen_timing(rng, out)
            ntime += 1
        elif k < 6:
            gen_forms(rng, tier, out)
        elif k < 8:
            gen_growth(rng, out)
        elif k < 10:
            gen_float_tiny(rng, out)
        elif k < 11:
            gen_lehmer(rng, out)
        elif k < 12:
            gen_threshold(rng, tier, out)
        elif k < 16:
            gen_deser(rng, out)
        elif k < 39:
            gen_integer(rng, tier, out)
        elif k < 45:
            gen_modular(rng, tier, out)
        elif k < 72:
            gen_float(rng, tier, out)
        elif k < 84:
            gen_rational(rng, tier, out)
        else:
            gen_parse(rng, tier, out)
        # every hanging case costs one watchdog period: bound the number of Farey walks with a large limit
        for c in out[m:]:
            t = c.split()
            slow = t[0] in ("q.next_up", "q.next_down", "q.nearest") and len(t[3]) > 6
            if slow:
                hangs += 1
                if hangs > (12 if tier == "quick" else 60):
                    out.pop()
    return first + out[:n]
