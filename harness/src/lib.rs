//! Shared plumbing of the correspondence harness: the line protocol, conversions between the
//! textual integers of the case files and dashu values *through raw words only* (no parser or
//! printer of the library under test is involved), panic capture and classification.

pub use dashu_int::{IBig, Sign, UBig, Word};
use std::io::{BufRead, Write};
use std::panic::{catch_unwind, AssertUnwindSafe};

pub const WB: usize = Word::BITS as usize;

/// parse `[-]hex` into (negative?, little-endian words)
pub fn hex_words(s: &str) -> (bool, Vec<Word>) {
    let (neg, body) = match s.strip_prefix('-') {
        Some(b) => (true, b),
        None => (false, s),
    };
    let digits: Vec<u8> = body.bytes().map(|c| (c as char).to_digit(16).expect("hex digit") as u8).collect();
    let per = WB / 4;
    let mut words = Vec::with_capacity(digits.len() / per + 1);
    let mut i = digits.len();
    while i > 0 {
        let lo = i.saturating_sub(per);
        let mut w: Word = 0;
        for &d in &digits[lo..i] {
            w = (w << 4) | d as Word;
        }
        words.push(w);
        i = lo;
    }
    while let Some(&0) = words.last() {
        words.pop();
    }
    (neg, words)
}

pub fn ubig(s: &str) -> UBig {
    let (neg, w) = hex_words(s);
    assert!(!neg || w.is_empty(), "negative value for UBig argument");
    UBig::from_words(&w)
}

pub fn ibig(s: &str) -> IBig {
    let (neg, w) = hex_words(s);
    let m = UBig::from_words(&w);
    IBig::from_parts(if neg { Sign::Negative } else { Sign::Positive }, m)
}

pub fn usz(s: &str) -> usize {
    usize::from_str_radix(s, 16).expect("usize")
}

pub fn words_hex(neg: bool, words: &[Word]) -> String {
    let mut n = words.len();
    while n > 0 && words[n - 1] == 0 {
        n -= 1;
    }
    if n == 0 {
        return "0".to_string();
    }
    let mut s = String::with_capacity(n * WB / 4 + 1);
    if neg {
        s.push('-');
    }
    s.push_str(&format!("{:x}", words[n - 1]));
    for i in (0..n - 1).rev() {
        s.push_str(&format!("{:0width$x}", words[i], width = WB / 4));
    }
    s
}

pub fn hu(x: &UBig) -> String {
    words_hex(false, x.as_words())
}

pub fn hi(x: &IBig) -> String {
    let (s, w) = x.as_sign_words();
    words_hex(s == Sign::Negative, w)
}

pub fn hopt(x: Option<usize>) -> String {
    match x {
        Some(v) => format!("some {:x}", v),
        None => "none".to_string(),
    }
}

/// map a panic message to the documented panic classes (error.rs of the three crates)
pub fn classify_panic(msg: &str) -> String {
    let table: &[(&str, &str)] = &[
        ("divisor must not be 0", "DivideBy0"),
        ("Divisor or denominator must not be zero", "DivideBy0"),
        ("UBig result must not be negative", "NegativeUBig"),
        ("finding 0th root is not allowed", "RootZeroth"),
        ("the root is a complex number", "RootNegative"),
        ("logarithm is not defined for 0, base 0 and base 1", "LogOperand"),
        ("try to allocate too much memory", "AllocateTooMuch"),
        ("out of memory", "OutOfMemory"),
        ("invalid radix", "InvalidRadix"),
        ("Modulo values from different rings", "DifferentRings"),
        ("Division by a non-invertible Modulo", "NonInvertible"),
        ("arithmetic operations with the infinity are not allowed", "OperateWithInf"),
        ("precision cannot be 0 (unlimited) for this operation", "UnlimitedPrecision"),
        ("powering on negative bases could result in complex number", "PowerNegativeBase"),
    ];

    for (pat, cls) in table {
        if msg.contains(pat) {
            return cls.to_string();
        }
    }
    let short: String = msg.chars().filter(|c| !c.is_whitespace()).take(60).collect();
    format!("Undocumented:{}", short)
}

/// Run the line protocol: `id op args...` per stdin line -> `id answer` per stdout line.
pub fn serve<F: Fn(&str, &[&str]) -> String>(f: F) {
    std::panic::set_hook(Box::new(|_| {}));
    let stdin = std::io::stdin();
    let stdout = std::io::stdout();
    let mut out = stdout.lock();
    for line in stdin.lock().lines() {
        let line = line.unwrap();
        let toks: Vec<&str> = line.split_whitespace().collect();
        if toks.len() < 2 {
            continue;
        }
        let id = toks[0];
        let op = toks[1];
        let args = &toks[2..];
        let r = catch_unwind(AssertUnwindSafe(|| f(op, args)));
        let ans = match r {
            Ok(s) => s,
            Err(e) => {
                let msg = if let Some(s) = e.downcast_ref::<String>() {
                    s.clone()
                } else if let Some(s) = e.downcast_ref::<&str>() {
                    s.to_string()
                } else {
                    "?".to_string()
                };
                format!("panic {}", classify_panic(&msg))
            }
        };
        writeln!(out, "{} {}", id, ans).unwrap();
        out.flush().unwrap();
    }
}

// ------------------------------------------------------------------------------------------------
// floats and rationals
// ------------------------------------------------------------------------------------------------
pub use dashu_base::Approximation::{self, Exact, Inexact};
pub use dashu_float::round::{mode, Rounding};
pub use dashu_float::{Context, FBig, Repr};
pub use dashu_ratio::{RBig, Relaxed};

/// signed decimal `isize` token (exponents): `[-]hex`
pub fn isz(s: &str) -> isize {
    match s.strip_prefix('-') {
        Some(b) => -(isize::from_str_radix(b, 16).expect("isize")),
        None => isize::from_str_radix(s, 16).expect("isize"),
    }
}

pub fn hisz(v: isize) -> String {
    if v < 0 {
        format!("-{:x}", (v as i128).unsigned_abs())
    } else {
        format!("{:x}", v)
    }
}

pub fn rounding_str(r: Rounding) -> &'static str {
    match r {
        Rounding::NoOp => "NoOp",
        Rounding::AddOne => "AddOne",
        Rounding::SubOne => "SubOne",
    }
}

/// a float value as tokens: `<significand hex> <exponent hex>` or `inf` / `-inf`
pub fn hrepr<const B: Word>(r: &Repr<B>) -> String {
    if r.is_infinite() {
        return if r.sign() == Sign::Negative { "-inf 0".into() } else { "inf 0".into() };
    }
    format!("{} {}", hi(r.significand()), hisz(r.exponent()))
}

/// `Rounded<FBig>` as tokens: `<sig> <exp> <Exact|NoOp|AddOne|SubOne> <precision hex>`
pub fn hrounded<R: dashu_float::round::Round, const B: Word>(x: &Approximation<FBig<R, B>, Rounding>) -> String {
    match x {
        Exact(v) => format!("{} Exact {:x}", hrepr(v.repr()), v.precision()),
        Inexact(v, r) => format!("{} {} {:x}", hrepr(v.repr()), rounding_str(*r), v.precision()),
    }
}

/// build a float from case tokens `<sig> <exp>` (`inf`/`-inf` as significand give the infinities)
pub fn repr_of<const B: Word>(sig: &str, exp: &str) -> Repr<B> {
    match sig {
        "inf" => Repr::infinity(),
        "-inf" => Repr::neg_infinity(),
        _ => Repr::new(ibig(sig), isz(exp)),
    }
}

/// Dispatch on (base, mode) tokens to concrete const-generic types.
/// Usage: `with_float!(base_str, mode_str, |R, B| expr_using::<R, B>())` where inside the body the
/// identifiers given are a type alias (the rounding mode) and a const (the base).
#[macro_export]
macro_rules! with_float {
    ($base:expr, $mode:expr, |$R:ident, $B:ident| $body:expr) => {{
        macro_rules! __with_mode {
            ($bb:literal) => {{
                const $B: $crate::Word = $bb;
                match $mode {
                    "Zero" => { type $R = $crate::mode::Zero; $body }
                    "Away" => { type $R = $crate::mode::Away; $body }
                    "Up" => { type $R = $crate::mode::Up; $body }
                    "Down" => { type $R = $crate::mode::Down; $body }
                    "HalfEven" => { type $R = $crate::mode::HalfEven; $body }
                    "HalfAway" => { type $R = $crate::mode::HalfAway; $body }
                    other => panic!("unknown mode {}", other),
                }
            }};
        }
        match $base {
            "2" => __with_mode!(2),
            "3" => __with_mode!(3),
            "5" => __with_mode!(5),
            "7" => __with_mode!(7),
            "8" => __with_mode!(8),
            "a" => __with_mode!(10),
            "10" => __with_mode!(16),
            "24" => __with_mode!(36),
            other => panic!("unsupported base {} (hex)", other),
        }
    }};
}

pub fn rbig(num: &str, den: &str) -> RBig {
    RBig::from_parts(ibig(num), ubig(den))
}

pub fn relaxed(num: &str, den: &str) -> Relaxed {
    Relaxed::from_parts(ibig(num), ubig(den))
}

/// a rational as tokens `<num> <den>` exactly as stored (no reduction by the harness)
pub fn hq(x: &RBig) -> String {
    format!("{} {}", hi(x.numerator()), hu(x.denominator()))
}

pub fn hqr(x: &Relaxed) -> String {
    format!("{} {}", hi(x.numerator()), hu(x.denominator()))
}
