//! Shared plumbing of the correspondence harness: the line protocol, conversions between the
//! textual integers of the case files and dashu values *through raw words only* (no parser or
//! printer of the library under test is involved), panic capture and classification.

use dashu_int::{IBig, Sign, UBig, Word};
use std::io::{BufRead, Write};
use std::panic::{catch_unwind, AssertUnwindSafe};

pub const WB: usize = Word::BITS as usize;

/// parse `[-]hex` into (negative?, little-endian words)
pub fn hex_words(s: &str) -> (bool, Vec<Word>) {
    let (neg, body) = match s.strip_prefix('-') {
        Some(b) => (true, b),
        None => (false, s),
    };
    let digits: Vec<u8> = body.bytes().map(|c| (c as char).to_digit(16).expect("hex digit") as u8).collect();
    let per = WB / 4;
    let mut words = Vec::with_capacity(digits.len() / per + 1);
    let mut i = digits.len();
    while i > 0 {
        let lo = i.saturating_sub(per);
        let mut w: Word = 0;
        for &d in &digits[lo..i] {
            w = (w << 4) | d as Word;
        }
        words.push(w);
        i = lo;
    }
    while let Some(&0) = words.last() {
        words.pop();
    }
    (neg, words)
}

pub fn ubig(s: &str) -> UBig {
    let (neg, w) = hex_words(s);
    assert!(!neg || w.is_empty(), "negative value for UBig argument");
    UBig::from_words(&w)
}

pub fn ibig(s: &str) -> IBig {
    let (neg, w) = hex_words(s);
    let m = UBig::from_words(&w);
    IBig::from_parts(if neg { Sign::Negative } else { Sign::Positive }, m)
}

pub fn usz(s: &str) -> usize {
    usize::from_str_radix(s, 16).expect("usize")
}

pub fn words_hex(neg: bool, words: &[Word]) -> String {
    let mut n = words.len();
    while n > 0 && words[n - 1] == 0 {
        n -= 1;
    }
    if n == 0 {
        return "0".to_string();
    }
    let mut s = String::with_capacity(n * WB / 4 + 1);
    if neg {
        s.push('-');
    }
    s.push_str(&format!("{:x}", words[n - 1]));
    for i in (0..n - 1).rev() {
        s.push_str(&format!("{:0width$x}", words[i], width = WB / 4));
    }
    s
}

pub fn hu(x: &UBig) -> String {
    words_hex(false, x.as_words())
}

pub fn hi(x: &IBig) -> String {
    let (s, w) = x.as_sign_words();
    words_hex(s == Sign::Negative, w)
}

pub fn hopt(x: Option<usize>) -> String {
    match x {
        Some(v) => format!("some {:x}", v),
        None => "none".to_string(),
    }
}

/// map a panic message to the documented panic classes (error.rs of the three crates)
pub fn classify_panic(msg: &str) -> String {
    let table: &[(&str, &str)] = &[
        ("divisor must not be 0", "DivideBy0"),
        ("Divisor or denominator must not be zero", "DivideBy0"),
        ("UBig result must not be negative", "NegativeUBig"),
        ("finding 0th root is not allowed", "RootZeroth"),
        ("the root is a complex number", "RootNegative"),
        ("logarithm is not defined for 0, base 0 and base 1", "LogOperand"),
        ("try to allocate too much memory", "AllocateTooMuch"),
        ("out of memory", "OutOfMemory"),
        ("invalid radix", "InvalidRadix"),
        ("Modulo values from different rings", "DifferentRings"),
        ("Division by a non-invertible Modulo", "NonInvertible"),
        ("arithmetic operations with the infinity are not allowed", "OperateWithInf"),
        ("precision cannot be 0 (unlimited) for this operation", "UnlimitedPrecision"),
        ("powering on negative bases could result in complex number", "PowerNegativeBase"),
    ];

    for (pat, cls) in table {
        if msg.contains(pat) {
            return cls.to_string();
        }
    }
    let short: String = msg.chars().filter(|c| !c.is_whitespace()).take(60).collect();
    format!("Undocumented:{}", short)
}

/// Run the line protocol: `id op args...` per stdin line -> `id answer` per stdout line.
pub fn serve<F: Fn(&str, &[&str]) -> String>(f: F) {
    std::panic::set_hook(Box::new(|_| {}));
    let stdin = std::io::stdin();
    let stdout = std::io::stdout();
    let mut out = stdout.lock();
    for line in stdin.lock().lines() {
        let line = line.unwrap();
        let toks: Vec<&str> = line.split_whitespace().collect();
        if toks.len() < 2 {
            continue;
        }
        let id = toks[0];
        let op = toks[1];
        let args = &toks[2..];
        let r = catch_unwind(AssertUnwindSafe(|| f(op, args)));
        let ans = match r {
            Ok(s) => s,
            Err(e) => {
                let msg = if let Some(s) = e.downcast_ref::<String>() {
                    s.clone()
                } else if let Some(s) = e.downcast_ref::<&str>() {
                    s.to_string()
                } else {
                    "?".to_string()
                };
                format!("panic {}", classify_panic(&msg))
            }
        };
        writeln!(out, "{} {}", id, ans).unwrap();
        out.flush().unwrap();
    }
}
