//! smoke test of the shared helpers (not a property check)
use hlib::*;
fn run(op: &str, a: &[&str]) -> String {
    match op {
        "fadd" => with_float!(a[0], a[1], |R, B| {
            let ctx = Context::<R>::new(usz(a[2]));
            let x = FBig::<R, B>::from_repr(repr_of::<B>(a[3], a[4]), ctx);
            let y = FBig::<R, B>::from_repr(repr_of::<B>(a[5], a[6]), ctx);
            format!("ok {}", hrounded(&ctx.add(x.repr(), y.repr())))
        }),
        "qadd" => format!("ok {}", hq(&(rbig(a[0], a[1]) + rbig(a[2], a[3])))),
        _ => "unknown-op".into(),
    }
}
fn main() { serve(run); }
