//! C07: integer text and byte encodings.  One case per line: `id op args...`.
//! Strings and byte strings travel as `x<hex of the bytes>` (`x` alone = empty).
use dashu_int::{IBig, Sign, UBig};
use hlib::*;
use std::fmt::{self, Binary, Debug, Display, Formatter, LowerHex, Octal, UpperHex};
use std::str::FromStr;

fn unhex(s: &str) -> Vec<u8> {
    let b = s.strip_prefix('x').expect("x-prefixed hex").as_bytes();
    assert!(b.len() % 2 == 0);
    b.chunks(2).map(|p| u8::from_str_radix(std::str::from_utf8(p).unwrap(), 16).unwrap()).collect()
}
fn hexs(b: &[u8]) -> String {
    let mut s = String::with_capacity(2 * b.len() + 1);
    s.push('x');
    for v in b {
        s.push_str(&format!("{:02x}", v));
    }
    s
}

/// every formatter flag combination, selected at run time (format specs are compile-time in Rust)
macro_rules! spec_table {
    ($m:ident, $($a:tt)*) => {
        $m!($($a)*; NW: (".", ""), (".0", "0"), (".#", "#"), (".#0", "#0"), (".+", "+"), (".+0", "+0"), (".+#", "+#"), (".+#0", "+#0"); WW: (".w", "w$"), (".0w", "0w$"), (".#w", "#w$"), (".#0w", "#0w$"), (".+w", "+w$"), (".+0w", "+0w$"), (".+#w", "+#w$"), (".+#0w", "+#0w$"), (".<w", "<w$"), (".<0w", "<0w$"), (".<#w", "<#w$"), (".<#0w", "<#0w$"), (".<+w", "<+w$"), (".<+0w", "<+0w$"), (".<+#w", "<+#w$"), (".<+#0w", "<+#0w$"), (".^w", "^w$"), (".^0w", "^0w$"), (".^#w", "^#w$"), (".^#0w", "^#0w$"), (".^+w", "^+w$"), (".^+0w", "^+0w$"), (".^+#w", "^+#w$"), (".^+#0w", "^+#0w$"), (".>w", ">w$"), (".>0w", ">0w$"), (".>#w", ">#w$"), (".>#0w", ">#0w$"), (".>+w", ">+w$"), (".>+0w", ">+0w$"), (".>+#w", ">+#w$"), (".>+#0w", ">+#0w$"), (".*<w", "*<w$"), (".*<0w", "*<0w$"), (".*<#w", "*<#w$"), (".*<#0w", "*<#0w$"), (".*<+w", "*<+w$"), (".*<+0w", "*<+0w$"), (".*<+#w", "*<+#w$"), (".*<+#0w", "*<+#0w$"), (".*^w", "*^w$"), (".*^0w", "*^0w$"), (".*^#w", "*^#w$"), (".*^#0w", "*^#0w$"), (".*^+w", "*^+w$"), (".*^+0w", "*^+0w$"), (".*^+#w", "*^+#w$"), (".*^+#0w", "*^+#0w$"), (".*>w", "*>w$"), (".*>0w", "*>0w$"), (".*>#w", "*>#w$"), (".*>#0w", "*>#0w$"), (".*>+w", "*>+w$"), (".*>+0w", "*>+0w$"), (".*>+#w", "*>+#w$"), (".*>+#0w", "*>+#0w$"), (".S<w", "ß<w$"), (".S<0w", "ß<0w$"), (".S<#w", "ß<#w$"), (".S<#0w", "ß<#0w$"), (".S<+w", "ß<+w$"), (".S<+0w", "ß<+0w$"), (".S<+#w", "ß<+#w$"), (".S<+#0w", "ß<+#0w$"), (".S^w", "ß^w$"), (".S^0w", "ß^0w$"), (".S^#w", "ß^#w$"), (".S^#0w", "ß^#0w$"), (".S^+w", "ß^+w$"), (".S^+0w", "ß^+0w$"), (".S^+#w", "ß^+#w$"), (".S^+#0w", "ß^+#0w$"), (".S>w", "ß>w$"), (".S>0w", "ß>0w$"), (".S>#w", "ß>#w$"), (".S>#0w", "ß>#0w$"), (".S>+w", "ß>+w$"), (".S>+0w", "ß>+0w$"), (".S>+#w", "ß>+#w$"), (".S>+#0w", "ß>+#0w$"))
    };
}
macro_rules! fmt_one {
    ($spec:expr, $w:expr, $v:expr, $tr:literal; NW: $(($k:literal, $s:literal)),*; WW: $(($k2:literal, $s2:literal)),*) => {
        match $spec {
            $( $k => format!(concat!("{:", $s, $tr, "}"), $v), )*
            $( $k2 => format!(concat!("{:", $s2, $tr, "}"), $v, w = $w), )*
            other => panic!("unknown format spec {}", other),
        }
    };
}

fn fmt_disp<T: Display>(v: &T, spec: &str, w: usize) -> String {
    spec_table!(fmt_one, spec, w, v, "")
}
fn fmt_any<T: Display + Binary + Octal + LowerHex + UpperHex>(v: &T, tr: &str, spec: &str, w: usize) -> String {
    match tr {
        "disp" => spec_table!(fmt_one, spec, w, v, ""),
        "bin" => spec_table!(fmt_one, spec, w, v, "b"),
        "oct" => spec_table!(fmt_one, spec, w, v, "o"),
        "lhex" => spec_table!(fmt_one, spec, w, v, "x"),
        "uhex" => spec_table!(fmt_one, spec, w, v, "X"),
        other => panic!("unknown trait {}", other),
    }
}

/// Rust's own integer layout routine applied to (sign, prefix, digit text)
struct PadRef<'a> {
    nonneg: bool,
    prefix: &'a str,
    digits: &'a str,
}
impl Display for PadRef<'_> {
    fn fmt(&self, f: &mut Formatter) -> fmt::Result {
        f.pad_integral(self.nonneg, self.prefix, self.digits)
    }
}

/// `{:?}` with run-time flags: Debug of UBig/IBig honours `+` and `#` only; width, fill, alignment and `0` must be ignored
fn fmt_dbg<T: Debug>(v: &T, spec: &str, w: usize) -> String {
    match spec {
        "." => format!("{:?}", v),
        ".#" => format!("{:#?}", v),
        ".+" => format!("{:+?}", v),
        ".+#" => format!("{:+#?}", v),
        ".w" => format!("{:w$?}", v, w = w),
        ".0w" => format!("{:0w$?}", v, w = w),
        ".#0w" => format!("{:#0w$?}", v, w = w),
        ".+w" => format!("{:+w$?}", v, w = w),
        ".<w" => format!("{:<w$?}", v, w = w),
        ".*^+#w" => format!("{:*^+#w$?}", v, w = w),
        ".*>#w" => format!("{:*>#w$?}", v, w = w),
        other => panic!("unknown debug spec {}", other),
    }
}

fn perr(e: dashu_base::ParseError) -> String {
    format!("err {:?}", e)
}

fn run(op: &str, a: &[&str]) -> String {
    match op {
        // fmt <u|i> <kind> <spec> <width> <value>
        "fmt" => {
            let (ty, kind, spec, w) = (a[0], a[1], a[2], usz(a[3]));
            let v = ibig(a[4]);
            let (sign, mag) = v.clone().into_parts();
            let neg = sign == Sign::Negative;
            let alt = spec.contains('#');
            let radix = kind.strip_prefix('r').map(|r| u32::from_str_radix(r, 16).unwrap());
            // the text under test
            let out = match (ty, radix) {
                ("u", None) => fmt_any(&mag, kind, spec, w),
                ("i", None) => fmt_any(&v, kind, spec, w),
                ("u", Some(r)) => fmt_disp(&mag.in_radix(r), spec, w),
                ("i", Some(r)) => fmt_disp(&v.in_radix(r), spec, w),
                _ => panic!("bad type"),
            };
            // reference layout: Formatter::pad_integral over the plain digits of the magnitude
            let (digits, prefix) = match (kind, radix) {
                (_, Some(r)) => (if alt { format!("{:#}", mag.in_radix(r)) } else { format!("{}", mag.in_radix(r)) }, ""),
                ("disp", _) => (format!("{}", mag), ""),
                ("bin", _) => (format!("{:b}", mag), "0b"),
                ("oct", _) => (format!("{:o}", mag), "0o"),
                ("lhex", _) => (format!("{:x}", mag), "0x"),
                ("uhex", _) => (format!("{:X}", mag), "0x"),
                _ => panic!("bad kind"),
            };
            let nonneg = !(ty == "i" && neg);
            let reference = fmt_disp(&PadRef { nonneg, prefix, digits: &digits }, spec, w);
            // primitive formatting of the same value where it fits (negative: decimal only, the
            // primitive prints two's complement in the other radices)
            let prim = if radix.is_some() {
                "na".to_string()
            } else if nonneg {
                match u128::try_from(&mag) {
                    Ok(p) => hexs(fmt_any(&p, kind, spec, w).as_bytes()),
                    Err(_) => "na".to_string(),
                }
            } else if kind == "disp" {
                match i128::try_from(&v) {
                    Ok(p) => hexs(fmt_any(&p, kind, spec, w).as_bytes()),
                    Err(_) => "na".to_string(),
                }
            } else {
                "na".to_string()
            };
            format!("ok {} {} {}", hexs(out.as_bytes()), hexs(reference.as_bytes()), prim)
        }
        // dbg <u|i> <spec> <width> <value>: the Debug text, and the primitive's `{:?}` where it is comparable
        "dbg" => {
            let (ty, spec, w) = (a[0], a[1], usz(a[2]));
            let v = ibig(a[3]);
            let mag = v.clone().into_parts().1;
            let out = if ty == "u" { fmt_dbg(&mag, spec, w) } else { fmt_dbg(&v, spec, w) };
            let prim = if spec != "." && spec != ".+" {
                "na".to_string()
            } else if ty == "u" {
                match u128::try_from(&mag) { Ok(p) => hexs(fmt_dbg(&p, spec, w).as_bytes()), Err(_) => "na".to_string() }
            } else {
                match i128::try_from(&v) { Ok(p) => hexs(fmt_dbg(&p, spec, w).as_bytes()), Err(_) => "na".to_string() }
            };
            format!("ok {} {}", hexs(out.as_bytes()), prim)
        }
        // serde <u|i> <value>: human readable serialisation (serde_json) and the value read back from it
        "serde" => {
            let v = ibig(a[1]);
            if a[0] == "u" {
                let m = v.into_parts().1;
                let js = serde_json::to_string(&m).expect("serialize");
                let back: UBig = serde_json::from_str(&js).expect("deserialize");
                format!("ok {} {}", hexs(js.as_bytes()), hu(&back))
            } else {
                let js = serde_json::to_string(&v).expect("serialize");
                let back: IBig = serde_json::from_str(&js).expect("deserialize");
                format!("ok {} {}", hexs(js.as_bytes()), hi(&back))
            }
        }
        // deser <u|i> <text>: the text as a JSON string through the human readable deserialiser
        "deser" => {
            let bytes = unhex(a[1]);
            let s = std::str::from_utf8(&bytes).expect("case text must be UTF-8");
            let js = serde_json::to_string(s).expect("json string");
            if a[0] == "u" {
                match serde_json::from_str::<UBig>(&js) { Ok(v) => format!("ok {}", hu(&v)), Err(_) => "err serde".to_string() }
            } else {
                match serde_json::from_str::<IBig>(&js) { Ok(v) => format!("ok {}", hi(&v)), Err(_) => "err serde".to_string() }
            }
        }
        // to_string (ToString goes through Display)
        "tostr" => {
            let v = ibig(a[1]);
            let s = if a[0] == "u" { v.into_parts().1.to_string() } else { v.to_string() };
            format!("ok {}", hexs(s.as_bytes()))
        }
        // parse <api> <radix> <text>
        "parse" => {
            let radix = u32::from_str_radix(a[1], 16).unwrap();
            let bytes = unhex(a[2]);
            let s = std::str::from_utf8(&bytes).expect("case text must be UTF-8");
            match a[0] {
                "ur" => UBig::from_str_radix(s, radix).map(|v| format!("ok {}", hu(&v))).unwrap_or_else(perr),
                "ir" => IBig::from_str_radix(s, radix).map(|v| format!("ok {}", hi(&v))).unwrap_or_else(perr),
                "uf" => UBig::from_str(s).map(|v| format!("ok {}", hu(&v))).unwrap_or_else(perr),
                "if" => IBig::from_str(s).map(|v| format!("ok {}", hi(&v))).unwrap_or_else(perr),
                "us" => s.parse::<UBig>().map(|v| format!("ok {}", hu(&v))).unwrap_or_else(perr),
                "is" => s.parse::<IBig>().map(|v| format!("ok {}", hi(&v))).unwrap_or_else(perr),
                "up" => UBig::from_str_with_radix_prefix(s).map(|(v, r)| format!("ok {} {:x}", hu(&v), r)).unwrap_or_else(perr),
                "ip" => IBig::from_str_with_radix_prefix(s).map(|(v, r)| format!("ok {} {:x}", hi(&v), r)).unwrap_or_else(perr),
                "ud" => UBig::from_str_with_radix_default(s, radix).map(|(v, r)| format!("ok {} {:x}", hu(&v), r)).unwrap_or_else(perr),
                "id" => IBig::from_str_with_radix_default(s, radix).map(|(v, r)| format!("ok {} {:x}", hi(&v), r)).unwrap_or_else(perr),
                other => panic!("unknown parse api {}", other),
            }
        }
        // numtr <u|i> <radix> <text>: num_traits::Num::from_str_radix (third_party/num_traits.rs), next to the inherent function
        "numtr" => {
            let radix = u32::from_str_radix(a[1], 16).unwrap();
            let bytes = unhex(a[2]);
            let s = std::str::from_utf8(&bytes).expect("case text must be UTF-8");
            if a[0] == "u" {
                let t = <UBig as num_traits::Num>::from_str_radix(s, radix).map(|v| format!("ok {}", hu(&v))).unwrap_or_else(perr);
                let i = UBig::from_str_radix(s, radix).map(|v| format!("ok {}", hu(&v))).unwrap_or_else(perr);
                if t == i { t } else { format!("ok trait-differs-from-inherent {} / {}", t.replace(' ', "_"), i.replace(' ', "_")) }
            } else {
                let t = <IBig as num_traits::Num>::from_str_radix(s, radix).map(|v| format!("ok {}", hi(&v))).unwrap_or_else(perr);
                let i = IBig::from_str_radix(s, radix).map(|v| format!("ok {}", hi(&v))).unwrap_or_else(perr);
                if t == i { t } else { format!("ok trait-differs-from-inherent {} / {}", t.replace(' ', "_"), i.replace(' ', "_")) }
            }
        }
        // print then parse again through the library (round trip), all in one radix
        "roundtrip" => {
            let radix = u32::from_str_radix(a[0], 16).unwrap();
            let v = ibig(a[1]);
            let s = format!("{}", v.in_radix(radix));
            let back = IBig::from_str_radix(&s, radix);
            let su = format!("{:#}", v.clone().into_parts().1.in_radix(radix));
            let backu = UBig::from_str_radix(&su, radix);
            match (back, backu) {
                (Ok(b), Ok(bu)) => format!("ok {} {}", hi(&b), hu(&bu)),
                _ => "err roundtrip".to_string(),
            }
        }
        // to_bytes <u|i> <le|be> <value>  ->  bytes, value decoded again by the library
        "to_bytes" => {
            let v = ibig(a[2]);
            match (a[0], a[1]) {
                ("u", "le") => { let m = v.into_parts().1; let b = m.to_le_bytes(); format!("ok {} {}", hexs(&b), hu(&UBig::from_le_bytes(&b))) }
                ("u", "be") => { let m = v.into_parts().1; let b = m.to_be_bytes(); format!("ok {} {}", hexs(&b), hu(&UBig::from_be_bytes(&b))) }
                ("i", "le") => { let b = v.to_le_bytes(); format!("ok {} {}", hexs(&b), hi(&IBig::from_le_bytes(&b))) }
                ("i", "be") => { let b = v.to_be_bytes(); format!("ok {} {}", hexs(&b), hi(&IBig::from_be_bytes(&b))) }
                _ => panic!("bad to_bytes form"),
            }
        }
        // from_bytes <u|i> <le|be> <bytes>
        "from_bytes" => {
            let b = unhex(a[2]);
            match (a[0], a[1]) {
                ("u", "le") => format!("ok {}", hu(&UBig::from_le_bytes(&b))),
                ("u", "be") => format!("ok {}", hu(&UBig::from_be_bytes(&b))),
                ("i", "le") => format!("ok {}", hi(&IBig::from_le_bytes(&b))),
                ("i", "be") => format!("ok {}", hi(&IBig::from_be_bytes(&b))),
                _ => panic!("bad from_bytes form"),
            }
        }
        // to_chunks <value> <chunk_bits>  ->  value rebuilt by from_chunks, count, chunks
        "to_chunks" => {
            let v = ubig(a[0]);
            let cb = usz(a[1]);
            let chunks = v.to_chunks(cb);
            let back = UBig::from_chunks(chunks.iter(), cb);
            let mut s = format!("ok {} {:x}", hu(&back), chunks.len());
            for c in chunks.iter() {
                s.push(' ');
                s.push_str(&hu(c));
            }
            s
        }
        // from_chunks <chunk_bits> <chunk>...
        "from_chunks" => {
            let cb = usz(a[0]);
            let chunks: Vec<UBig> = a[1..].iter().map(|c| ubig(c)).collect();
            format!("ok {}", hu(&UBig::from_chunks(chunks.iter(), cb)))
        }
        _ => format!("unknown-op {}", op),
    }
}

/// every `ok` answer carries the word size of the answering build (`wb=<bits>`): the oracle runs the word-level
/// as-is models at exactly that size (CONFIGS default / w32).  Debug texts depend on the word size by design
/// (all digits below a DOUBLE word): they are marked `dbg` so that the cross-configuration comparison skips them.
fn run_wb(op: &str, a: &[&str]) -> String {
    let s = run(op, a);
    if s.starts_with("ok") {
        format!("{}{} wb={}", s, if op == "dbg" { " dbg" } else { "" }, dashu_int::Word::BITS)
    } else {
        s
    }
}

fn main() {
    serve(run_wb);
}
