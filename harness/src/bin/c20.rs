//! C20: literal macros.  The macro front ends (`macros/src/parse/*.rs`) of the working tree are
//! compiled INTO this binary (proc_macro2 runs in fallback mode outside a proc-macro), so one
//! process pushes thousands of literals through `parse_integer / parse_binary_float /
//! parse_decimal_float / parse_ratio / parse_static_ratio`, interprets the emitted token stream by
//! the shape of the three code generators (u32 const / `from_le_bytes` / static word arrays),
//! evaluates it with the real constructors and also parses the same text with the run-time parser.
//!
//! case:  `<op> <flags> <rtradix> <rttext> <tok> <tok> ...`
//!   op      int | fbin | fdec | rat
//!   flags   letters: u|i (int signedness)  s (static_ variant)  e (embedded = `dashu::` paths)
//!           x (rat: the run-time type is Relaxed)   - (nothing)
//!   rtradix hex; 0 = use the radix-prefix parser (floats ignore it)
//!   rttext  `x<hex bytes>` text for the run-time parser, `-` = no run-time comparison
//!   tok     L|I|P|G + hex bytes of the token text (literal, ident, punct, group); lower-case kind
//!           letter = glued to the previous token without white space
//! answer: `lexerr` | `toks <n> <tok>*n reject rt <..>` | `toks <n> <tok>*n ok <shape...> val <value...> rt <value...|err|na>`
//!   (toks = the token trees proc_macro2 produced from the source text, same encoding as in the case)
#![allow(dead_code, unused_imports, deprecated)]
mod parse {
    pub mod common {
        include!(concat!(env!("DASHU_REPO"), "/macros/src/parse/common.rs"));
    }
    pub mod int {
        include!(concat!(env!("DASHU_REPO"), "/macros/src/parse/int.rs"));
    }
    pub mod float {
        include!(concat!(env!("DASHU_REPO"), "/macros/src/parse/float.rs"));
    }
    pub mod ratio {
        include!(concat!(env!("DASHU_REPO"), "/macros/src/parse/ratio.rs"));
    }
}

use dashu_float::{round::mode, DBig};
use hlib::*;
use proc_macro2::{Delimiter, TokenStream, TokenTree};
use std::mem::ManuallyDrop;
use std::panic::{catch_unwind, AssertUnwindSafe};
use std::str::FromStr;

type FBin = FBig<mode::Zero, 2>;

fn unhex(s: &str) -> Vec<u8> {
    let b = s.as_bytes();
    assert!(b.len() % 2 == 0);
    b.chunks(2).map(|p| u8::from_str_radix(std::str::from_utf8(p).unwrap(), 16).unwrap()).collect()
}

fn flatten(ts: TokenStream, out: &mut Vec<String>) {
    for t in ts {
        match t {
            TokenTree::Group(g) => {
                let (o, c) = match g.delimiter() {
                    Delimiter::Parenthesis => ("(", ")"),
                    Delimiter::Brace => ("{", "}"),
                    Delimiter::Bracket => ("[", "]"),
                    Delimiter::None => ("<<", ">>"),
                };
                out.push(o.to_string());
                flatten(g.stream(), out);
                out.push(c.to_string());
            }
            TokenTree::Ident(i) => out.push(i.to_string()),
            TokenTree::Punct(p) => out.push(p.as_char().to_string()),
            TokenTree::Literal(l) => out.push(l.to_string()),
        }
    }
}

type A<'a> = &'a [String];

fn find(a: A, from: usize, pat: &[&str]) -> Option<usize> {
    if a.len() < pat.len() {
        return None;
    }
    (from..=a.len() - pat.len()).find(|&i| pat.iter().enumerate().all(|(k, p)| a[i + k] == *p))
}
fn has(a: A, id: &str) -> bool {
    a.iter().any(|x| x == id)
}
fn is_open(s: &str) -> bool {
    s == "(" || s == "[" || s == "{" || s == "<<"
}
fn is_close(s: &str) -> bool {
    s == ")" || s == "]" || s == "}" || s == ">>"
}
/// index of the delimiter closing the one at `open`
fn close_of(a: A, open: usize) -> usize {
    let mut d = 0i32;
    for i in open..a.len() {
        if is_open(&a[i]) {
            d += 1;
        } else if is_close(&a[i]) {
            d -= 1;
            if d == 0 {
                return i;
            }
        }
    }
    panic!("unbalanced")
}
/// top-level comma separated arguments of the call whose `(` is at `open`
fn args_of<'a>(a: A<'a>, open: usize) -> Vec<A<'a>> {
    let end = close_of(a, open);
    let mut out = Vec::new();
    let mut d = 0i32;
    let mut st = open + 1;
    for i in open + 1..end {
        if is_open(&a[i]) {
            d += 1;
        } else if is_close(&a[i]) {
            d -= 1;
        } else if a[i] == "," && d == 0 {
            out.push(&a[st..i]);
            st = i + 1;
        }
    }
    if st < end {
        out.push(&a[st..end]);
    }
    out
}
/// numeric literal with an optional type suffix
fn num(s: &str) -> u128 {
    let d: String = s.chars().take_while(|c| c.is_ascii_digit()).collect();
    assert!(!d.is_empty(), "number expected: {}", s);
    let suf = &s[d.len()..];
    assert!(matches!(suf, "" | "u8" | "u16" | "u32" | "u64" | "usize" | "isize"), "suffix {}", suf);
    d.parse().unwrap()
}
fn suffix(s: &str) -> String {
    s.chars().skip_while(|c| c.is_ascii_digit()).collect()
}
/// `[-] <lit>isize`
fn signed_num(a: A) -> i128 {
    match a {
        [m, l] if m == "-" => -(num(l) as i128),
        [l] => num(l) as i128,
        _ => panic!("signed literal expected: {:?}", a),
    }
}
fn sign_of(a: A) -> Sign {
    let n = has(a, "Negative");
    let p = has(a, "Positive");
    assert!(n != p && has(a, "Sign"), "sign path expected: {:?}", a);
    if n {
        Sign::Negative
    } else {
        Sign::Positive
    }
}
fn sg(s: Sign) -> &'static str {
    if s == Sign::Negative {
        "-"
    } else {
        "+"
    }
}
/// `<lit> as _`
fn u32_arg(a: A) -> u128 {
    assert!(a.len() == 3 && a[1] == "as" && a[2] == "_" && suffix(&a[0]) == "u32", "`<u32> as _` expected: {:?}", a);
    num(&a[0])
}
fn list_hex(v: &[u128]) -> String {
    if v.is_empty() {
        "-".to_string()
    } else {
        v.iter().map(|x| format!("{:x}", x)).collect::<Vec<_>>().join(",")
    }
}
/// `[ a , b , ]` starting at `open`
fn array_at(a: A, open: usize) -> Vec<u128> {
    assert!(a[open] == "[");
    let end = close_of(a, open);
    a[open + 1..end].iter().filter(|x| *x != ",").map(|x| num(x)).collect()
}

/// the data selector block of `quote_words`: (max_len, [(len, data) for 16, 32, 64])
struct Words {
    max_len: u128,
    sel: Vec<(u128, Vec<u128>)>,
}
fn words_at(a: A, from: usize) -> (Words, usize) {
    let t = find(a, from, &["trait", "DataSource"]).expect("DataSource");
    let mut sel = Vec::new();
    let mut max_len = None;
    let mut last = t;
    for bits in ["16", "32", "64"] {
        // `DataSelector<16> {` - the const argument may carry a type suffix (`16u32`) when it is interpolated
        let i = (t..a.len().saturating_sub(4))
            .find(|&i| {
                a[i] == "DataSelector" && a[i + 1] == "<" && a[i + 3] == ">" && a[i + 4] == "{" && {
                    let d: String = a[i + 2].chars().take_while(|c| c.is_ascii_digit()).collect();
                    d == bits && matches!(&a[i + 2][d.len()..], "" | "u32")
                }
            })
            .expect("selector");
        let open = i + 4;
        let end = close_of(a, open);
        let body = &a[open..end];
        let ty = format!("u{}", bits);
        let l = find(body, 0, &["const", "LEN", ":", "usize", "="]).expect("LEN");
        let len = num(&body[l + 5]);
        assert!(suffix(&body[l + 5]) == "usize");
        let d = find(body, 0, &["const", "DATA", ":", "[", &ty, ";"]).expect("DATA");
        let decl = num(&body[d + 6]);
        assert!(body[d + 7] == "]" && body[d + 8] == "=");
        let arr = array_at(body, d + 9);
        assert!(arr.len() as u128 == decl, "declared array length differs from the data");
        match max_len {
            None => max_len = Some(decl),
            Some(m) => assert!(m == decl, "selector arrays of different lengths"),
        }
        let tyi = find(body, 0, &["type", "Int", "=", &ty]).expect("Int");
        let _ = tyi;
        sel.push((len, arr));
        last = end;
    }
    // the tail that picks the selector by word size and slices LEN words
    let s = find(a, last, &["type", "Select", "=", "DataSelector", "<", "{"]).expect("Select");
    let b = find(a, s, &["Word", ":", ":", "BITS", "}", ">"]).expect("Word::BITS");
    let c = find(a, b, &["static", "DATA_COPY", ":", "["]).expect("DATA_COPY");
    let e = find(a, c, &["=", "Select", ":", ":", "DATA", ";"]).expect("= Select::DATA");
    let u = find(a, e, &["from_raw_parts", "(", "DATA_COPY", ".", "as_ptr", "(", ")", ",", "Select", ":", ":", "LEN", ")"]).expect("from_raw_parts");
    // the data trait declares the same max_len
    let dt = find(a, t, &["const", "DATA", ":", "[", "Self", ":", ":", "Int", ";"]).expect("trait DATA");
    assert!(num(&a[dt + 9]) == max_len.unwrap());
    (Words { max_len: max_len.unwrap(), sel }, u + 13)
}
fn words_str(w: &Words) -> String {
    let mut s = format!("{:x}", w.max_len);
    for (l, d) in &w.sel {
        s.push_str(&format!(" {:x} {}", l, list_hex(d)));
    }
    s
}
/// the native-word-size slice, leaked to get the 'static lifetime the constructors ask for
fn native_words(w: &Words) -> &'static [Word] {
    let k = match Word::BITS {
        16 => 0,
        32 => 1,
        _ => 2,
    };
    let (len, data) = &w.sel[k];
    let v: Vec<Word> = data.iter().map(|&x| Word::try_from(x).expect("word range")).collect();
    let leaked: &'static [Word] = Box::leak(v.into_boxed_slice());
    &leaked[..*len as usize]
}

/// one of the integer generator shapes; returns (shape text, value built by the real constructor)
fn int_shape(a: A) -> (String, IBig) {
    if let Some(i) = find(a, 0, &["from_static_words", "("]) {
        let ty = a[i - 3].clone();
        let (w, _) = words_at(a, 0);
        let args = args_of(a, i + 1);
        let nw = native_words(&w);
        let (sign, v) = match (ty.as_str(), args.len()) {
            ("UBig", 1) => {
                assert!(args[0] == ["DATA"]);
                let x = ManuallyDrop::new(unsafe { UBig::from_static_words(nw) });
                (Sign::Positive, IBig::from(UBig::from_words(x.as_words())))
            }
            ("IBig", 2) => {
                assert!(args[1] == ["DATA"]);
                let s = sign_of(args[0]);
                let x = ManuallyDrop::new(unsafe { IBig::from_static_words(s, nw) });
                let (s2, ws) = x.as_sign_words();
                (s, IBig::from_parts(s2, UBig::from_words(ws)))
            }
            _ => panic!("from_static_words call shape"),
        };
        assert!(find(a, 0, &["static", "VALUE", ":"]).is_some() && a[a.len() - 3..] == ["&", "VALUE", "}"]);
        (format!("static {} {} {}", &ty[..1], sg(sign), words_str(&w)), v)
    } else if let Some(i) = find(a, 0, &["from_le_bytes", "(", "&", "BYTES", ")"]) {
        assert!(a[i - 3] == "UBig");
        let c = find(a, 0, &["const", "BYTES", ":", "[", "u8", ";"]).expect("BYTES");
        let n = num(&a[c + 6]);
        assert!(suffix(&a[c + 6]) == "usize" && a[c + 7] == "]" && a[c + 8] == "=");
        let arr = array_at(a, c + 9);
        assert!(arr.len() as u128 == n, "declared byte count differs from the data");
        let bytes: Vec<u8> = arr.iter().map(|&x| u8::try_from(x).expect("byte")).collect();
        let mag = UBig::from_le_bytes(&bytes);
        if let Some(p) = find(a, 0, &["IBig", ":", ":", "from_parts", "("]) {
            let args = args_of(a, p + 4);
            assert!(args.len() == 2);
            let s = sign_of(args[0]);
            (format!("bytes I {} {:x} {}", sg(s), n, list_hex(&arr)), IBig::from_parts(s, mag))
        } else {
            (format!("bytes U + {:x} {}", n, list_hex(&arr)), IBig::from(mag))
        }
    } else if let Some(i) = find(a, 0, &["UBig", ":", ":", "from_dword", "("]) {
        let args = args_of(a, i + 4);
        assert!(args.len() == 1 && close_of(a, i + 4) == a.len() - 1);
        let u = u32_arg(args[0]);
        (format!("c32 U + {:x}", u), IBig::from(UBig::from_dword(u as u32 as _)))
    } else if let Some(i) = find(a, 0, &["IBig", ":", ":", "from_parts_const", "("]) {
        let args = args_of(a, i + 4);
        assert!(args.len() == 2 && close_of(a, i + 4) == a.len() - 1);
        let s = sign_of(args[0]);
        let u = u32_arg(args[1]);
        (format!("c32 I {} {:x}", sg(s), u), IBig::from_parts_const(s, u as u32 as _))
    } else {
        panic!("unknown integer generator shape")
    }
}

fn check_ns(a: A, embedded: bool) {
    // every path of the expansion goes through `::dashu::...` (embedded) or `::dashu_*`
    let uses_meta = has(a, "dashu");
    let uses_sub = a.iter().any(|x| x.starts_with("dashu_"));
    assert!(uses_meta == embedded && uses_sub == !embedded, "namespace of the expansion");
}

fn fl_tokens<R: dashu_float::round::Round, const B: Word>(f: &FBig<R, B>) -> String {
    format!("{} {:x}", hrepr(f.repr()), f.precision())
}

/// float generator shapes. `dec` selects DBig / Repr<10>
fn float_shape(a: A, dec: bool) -> (String, String) {
    let ty_ok = |i: usize| {
        // the type the constructor is called on
        if dec {
            a[i - 3] == "DBig"
        } else {
            a[i - 3] == ">" && has(&a[..i], "FBig") && has(&a[..i], "Zero")
        }
    };
    if let Some(i) = find(a, 0, &["from_static_words", "("]) {
        let (w, _) = words_at(a, 0);
        let args = args_of(a, i + 1);
        assert!(args.len() == 3 && args[1] == ["DATA"]);
        let s = sign_of(args[0]);
        let e = signed_num(args[2]);
        // Repr::<B>::from_static_words
        assert!(a[i - 3] == ">" && a[i - 4] == (if dec { "10" } else { "2" }) && a[i - 5] == "<" && a[i - 8] == "Repr");
        // the FBig constructor wrapped around it
        let c = (0..i).rev().find(|&k| a[k] == "(").expect("outer call");
        let ctor = a[c - 1].clone();
        assert!(ty_ok(c - 1), "float type of the static constructor");
        let outer = args_of(a, c);
        let nw = native_words(&w);
        let extra: Option<usize> = if outer.len() == 2 { Some(num(&outer[1][0]) as usize) } else { None };
        let val = if dec {
            let r = unsafe { Repr::<10>::from_static_words(s, nw, e as isize) };
            let f = ManuallyDrop::new(match (ctor.as_str(), extra) {
                ("from_repr_const", None) => DBig::from_repr_const(r),
                _ => panic!("unknown static float constructor {}", ctor),
            });
            fl_tokens(&*f)
        } else {
            let r = unsafe { Repr::<2>::from_static_words(s, nw, e as isize) };
            let f = ManuallyDrop::new(match (ctor.as_str(), extra) {
                ("from_repr_const", None) => FBin::from_repr_const(r),
                _ => panic!("unknown static float constructor {}", ctor),
            });
            fl_tokens(&*f)
        };
        (format!("fstatic {} {} {} {}", sg(s), hisz(e as isize), ctor, words_str(&w)), val)
    } else if let Some(i) = find(a, 0, &["from_parts_const", "("]).filter(|&i| a[i - 3] != "IBig") {
        assert!(ty_ok(i));
        let args = args_of(a, i + 1);
        assert!(args.len() == 4);
        let s = sign_of(args[0]);
        let u = u32_arg(args[1]);
        let e = signed_num(args[2]);
        assert!(args[3].len() == 4 && args[3][0] == "Some" && suffix(&args[3][2]) == "usize");
        let p = num(&args[3][2]);
        let st = has(a, "static");
        if st {
            assert!(find(a, 0, &["static", "VALUE", ":"]).is_some() && a[a.len() - 3..] == ["&", "VALUE", "}"]);
        } else {
            assert!(close_of(a, i + 1) == a.len() - 1);
        }
        let val = if dec {
            fl_tokens(&DBig::from_parts_const(s, u as u32 as _, e as isize, Some(p as usize)))
        } else {
            fl_tokens(&FBin::from_parts_const(s, u as u32 as _, e as isize, Some(p as usize)))
        };
        (format!("fc32 {} {} {:x} {} {:x}", st as u8, sg(s), u, hisz(e as isize), p), val)
    } else if let Some(i) = find(a, 0, &["let", "repr", "="]) {
        let n = find(a, i, &["new", "("]).expect("Repr::new");
        assert!(a[n - 3] == ">" && a[n - 4] == (if dec { "10" } else { "2" }) && a[n - 8] == "Repr");
        let args = args_of(a, n + 1);
        assert!(args.len() == 2);
        let (ishape, sig) = int_shape(args[0]);
        let e = signed_num(args[1]);
        let c = find(a, n, &["let", "context", "="]).expect("context");
        let cn = find(a, c, &["new", "("]).expect("Context::new");
        assert!(has(&a[c..cn], "Context") && (dec || has(&a[c..cn], "Zero")));
        let cargs = args_of(a, cn + 1);
        assert!(cargs.len() == 1 && suffix(&cargs[0][0]) == "usize");
        let p = num(&cargs[0][0]);
        let fr = find(a, cn, &["from_repr", "(", "repr", ",", "context", ")", "}"]).expect("from_repr");
        assert!(fr + 7 == a.len() && a[fr - 3] == (if dec { "DBig" } else { "FBig" }));
        let val = if dec {
            fl_tokens(&DBig::from_repr(Repr::<10>::new(sig, e as isize), Context::new(p as usize)))
        } else {
            fl_tokens(&FBin::from_repr(Repr::<2>::new(sig, e as isize), Context::new(p as usize)))
        };
        (format!("fheap {} {:x} {}", hisz(e as isize), p, ishape), val)
    } else {
        panic!("unknown float generator shape")
    }
}

fn ratio_shape(a: A) -> (String, String) {
    if has(a, "NUM_DATA") {
        let i = find(a, 0, &["from_static_words", "("]).expect("from_static_words");
        assert!(a[i - 3] == "Relaxed");
        let args = args_of(a, i + 1);
        assert!(args.len() == 3 && args[1] == ["NUM_DATA"] && args[2] == ["DEN_DATA"]);
        let s = sign_of(args[0]);
        let n0 = find(a, 0, &["static", "NUM_DATA", ":"]).unwrap();
        let d0 = find(a, 0, &["static", "DEN_DATA", ":"]).unwrap();
        assert!(n0 < d0);
        let (wn, endn) = words_at(a, n0);
        assert!(endn <= d0 + 3 || endn < find(a, d0, &["trait"]).unwrap());
        let (wd, _) = words_at(a, d0);
        let v = find(a, d0, &["static", "VALUE", ":"]).expect("VALUE");
        let eq = find(a, v, &["="]).unwrap();
        let ty = a[eq - 1].clone();
        let transmuted = has(&a[eq..], "transmute");
        assert!((ty == "RBig" && transmuted) || (ty == "Relaxed" && !transmuted));
        assert!(a[a.len() - 3..] == ["&", "VALUE", "}"]);
        let x = ManuallyDrop::new(unsafe { Relaxed::from_static_words(s, native_words(&wn), native_words(&wd)) });
        let (sn, wsn) = x.numerator().as_sign_words();
        let val = format!("{} {}", words_hex(sn == Sign::Negative, wsn), words_hex(false, x.denominator().as_words()));
        (format!("rstatic {} {} {} {}", &ty[..2], sg(s), words_str(&wn), words_str(&wd)), val)
    } else if let Some(i) = find(a, 0, &["from_parts_const", "("]).filter(|&i| a[i - 3] == "RBig" || a[i - 3] == "Relaxed") {
        let ty = a[i - 3].clone();
        let args = args_of(a, i + 1);
        assert!(args.len() == 3 && close_of(a, i + 1) == a.len() - 1);
        let s = sign_of(args[0]);
        let n = u32_arg(args[1]);
        let d = u32_arg(args[2]);
        let val = if ty == "RBig" {
            hq(&RBig::from_parts_const(s, n as u32 as _, d as u32 as _))
        } else {
            hqr(&Relaxed::from_parts_const(s, n as u32 as _, d as u32 as _))
        };
        (format!("rc32 {} {} {:x} {:x}", &ty[..2], sg(s), n, d), val)
    } else if let Some(i) = find(a, 0, &["from_parts", "("]).filter(|&i| a[i - 3] == "RBig" || a[i - 3] == "Relaxed") {
        let ty = a[i - 3].clone();
        let args = args_of(a, i + 1);
        assert!(args.len() == 2 && close_of(a, i + 1) == a.len() - 1);
        let (ns, nv) = int_shape(args[0]);
        let (ds, dv) = int_shape(args[1]);
        assert!(ns.contains(" I ") && ds.contains(" U "));
        let dv = UBig::try_from(dv).unwrap();
        let val = if ty == "RBig" { hq(&RBig::from_parts(nv, dv)) } else { hqr(&Relaxed::from_parts(nv, dv)) };
        (format!("rparts {} n {} d {}", &ty[..2], ns, ds), val)
    } else {
        panic!("unknown ratio generator shape")
    }
}

fn build_source(toks: &[&str]) -> (String, Vec<(char, String)>) {
    let mut src = String::new();
    let mut want = Vec::new();
    for t in toks {
        let k = t.chars().next().unwrap();
        let text = String::from_utf8(unhex(&t[1..])).unwrap();
        if k.is_ascii_uppercase() && !src.is_empty() {
            src.push(' ');
        }
        src.push_str(&text);
        want.push((k.to_ascii_uppercase(), text));
    }
    (src, want)
}

fn run(op: &str, args: &[&str]) -> String {
    let flags = args[0];
    let radix = u32::from_str_radix(args[1], 16).unwrap();
    let rttext: Option<String> = if args[2] == "-" { None } else { Some(String::from_utf8(unhex(&args[2][1..])).unwrap()) };
    let (src, want) = build_source(&args[3..]);
    let ts = match TokenStream::from_str(&src) {
        Ok(t) => t,
        Err(_) => return "lexerr".to_string(),
    };
    let got: Vec<(char, String)> = ts
        .clone()
        .into_iter()
        .map(|t| match t {
            TokenTree::Literal(l) => ('L', l.to_string()),
            TokenTree::Ident(i) => ('I', i.to_string()),
            TokenTree::Punct(p) => ('P', p.as_char().to_string()),
            TokenTree::Group(g) => ('G', g.to_string()),
        })
        .collect();
    let _ = want;
    // the tokens the front end really receives are part of the answer: the oracle runs the Coq
    // model of the token loop on them
    let toks = format!(
        "toks {:x} {}",
        got.len(),
        got.iter().map(|(k, s)| format!("{}{}", k, s.bytes().map(|b| format!("{:02x}", b)).collect::<String>())).collect::<Vec<_>>().join(" ")
    );
    let st = flags.contains('s');
    let emb = flags.contains('e');
    let signed = flags.contains('i');
    let relaxed = flags.contains('x');
    let out = catch_unwind(AssertUnwindSafe(|| match op {
        "int" => parse::int::parse_integer(signed, st, emb, ts),
        "fbin" => parse::float::parse_binary_float(st, emb, ts),
        "fdec" => parse::float::parse_decimal_float(st, emb, ts),
        "rat" => {
            if st {
                parse::ratio::parse_static_ratio(emb, ts)
            } else {
                parse::ratio::parse_ratio(emb, ts)
            }
        }
        _ => panic!("unknown op"),
    }));
    let rt = match (&rttext, op) {
        (None, _) => "na".to_string(),
        (Some(t), "int") => {
            let r = match (signed, radix) {
                (false, 0) => UBig::from_str_with_radix_prefix(t).map(|x| hu(&x.0)),
                (false, r) => UBig::from_str_radix(t, r).map(|x| hu(&x)),
                (true, 0) => IBig::from_str_with_radix_prefix(t).map(|x| hi(&x.0)),
                (true, r) => IBig::from_str_radix(t, r).map(|x| hi(&x)),
            };
            r.unwrap_or_else(|_| "err".to_string())
        }
        (Some(t), "fbin") => FBin::from_str(t).map(|f| fl_tokens(&f)).unwrap_or_else(|_| "err".to_string()),
        (Some(t), "fdec") => DBig::from_str(t).map(|f| fl_tokens(&f)).unwrap_or_else(|_| "err".to_string()),
        (Some(t), _) => {
            let r = match (relaxed, radix) {
                (false, 0) => RBig::from_str_with_radix_prefix(t).map(|x| hq(&x.0)),
                (false, r) => RBig::from_str_radix(t, r).map(|x| hq(&x)),
                (true, 0) => Relaxed::from_str_with_radix_prefix(t).map(|x| hqr(&x.0)),
                (true, r) => Relaxed::from_str_radix(t, r).map(|x| hqr(&x)),
            };
            r.unwrap_or_else(|_| "err".to_string())
        }
    };
    let out = match out {
        Ok(o) => o,
        Err(_) => return format!("{} reject rt {}", toks.trim_end(), rt),
    };
    let mut atoms = Vec::new();
    flatten(out, &mut atoms);
    // the emitted code is read by the shape of the three generators; code this reader does not recognise (or whose
    // constructor refuses the arguments) is reported as such together with the run-time value, so that the crate phase
    // still compiles the real invocation and compares what it builds with the run-time parser
    let read = catch_unwind(AssertUnwindSafe(|| {
        check_ns(&atoms, emb);
        match op {
            "int" => {
                let (s, v) = int_shape(&atoms);
                assert!(s.contains(if signed { " I " } else { " U " }), "constructor type");
                (s, hi(&v))
            }
            "fbin" => float_shape(&atoms, false),
            "fdec" => float_shape(&atoms, true),
            _ => ratio_shape(&atoms),
        }
    }));
    match read {
        Ok((shape, val)) => format!("{} ok {} val {} rt {}", toks.trim_end(), shape, val, rt),
        Err(e) => {
            let msg = e.downcast_ref::<String>().cloned().or_else(|| e.downcast_ref::<&str>().map(|s| s.to_string())).unwrap_or_default();
            let word: String = msg.chars().filter(|c| c.is_ascii_alphanumeric()).take(40).collect();
            format!("{} shapeerr {} rt {}", toks.trim_end(), if word.is_empty() { "unknown".to_string() } else { word }, rt)
        }
    }
}

fn main() {
    serve(run);
}
