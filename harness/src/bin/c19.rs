//! C19: results do not depend on word size / build features / serialization medium.
//! The same case file is answered by this binary built in every configuration of core.CONFIGS the
//! plug-in lists; all answers are word-size independent tokens (integers as [-]hex through raw
//! words, strings and byte strings as `x<hex>`).  Serialization cases answer with the encoded
//! bytes, the value decoded again, and a canonical-layout flag read through the verif hooks.
use dashu_base::{BitTest, DivRem, DivRemAssign, DivRemEuclid, EstimatedLog2, ExtendedGcd, Gcd, SquareRoot};
use dashu_int::fast_div::ConstDivisor;
use dashu_int::verif_hooks::{mul_kernel, repr_layout_ibig, repr_layout_ubig, MUL_PARAMS};
use hlib::*;
use std::str::FromStr;

fn unhex(s: &str) -> Vec<u8> {
    let b = s.strip_prefix('x').expect("x-prefixed hex").as_bytes();
    assert!(b.len() % 2 == 0);
    b.chunks(2).map(|p| u8::from_str_radix(std::str::from_utf8(p).unwrap(), 16).unwrap()).collect()
}
fn hexs(b: &[u8]) -> String {
    let mut s = String::with_capacity(2 * b.len() + 1);
    s.push('x');
    for v in b {
        s.push_str(&format!("{:02x}", v));
    }
    s
}
fn fb(x: (f32, f32)) -> String {
    format!("ok bounds {:x} {:x}", x.0.to_bits(), x.1.to_bits())
}
fn u128_of(s: &str) -> u128 {
    u128::from_str_radix(s, 16).expect("u128")
}

/// canonical layout of an integer (what Repr must look like for this value), as one flag:
/// no leading zero word, zero is positive, <= 2 words inline with capacity = max(1, len), else heap
/// with capacity >= len.
fn lay(cap: isize, len: usize, inline: bool, neg: bool, words: &[Word]) -> bool {
    let nw = words.len();
    let top_ok = words.last().map_or(true, |&t| t != 0);
    let shape = if nw <= 1 {
        inline && cap.unsigned_abs() == 1
    } else if nw == 2 {
        inline && cap.unsigned_abs() == 2
    } else {
        !inline && nw <= cap.unsigned_abs()
    };
    let sign_ok = if neg { cap < 0 && nw > 0 } else { cap > 0 };
    top_ok && len == nw && shape && sign_ok
}
fn lay_u(x: &UBig) -> bool {
    let (c, l, i) = repr_layout_ubig(x);
    lay(c, l, i, false, x.as_words())
}
fn lay_i(x: &IBig) -> bool {
    let (c, l, i) = repr_layout_ibig(x);
    let (s, w) = x.as_sign_words();
    lay(c, l, i, s == Sign::Negative, w)
}
fn b01(b: bool) -> &'static str {
    if b { "1" } else { "0" }
}

// ------------------------------------------------------------------------------------------------
// serialization round trips: `<postcard bytes> <decoded> <json text> <decoded>`
// ------------------------------------------------------------------------------------------------
fn pc<T: serde::Serialize>(x: &T) -> Vec<u8> {
    postcard::to_allocvec(x).expect("postcard serialization")
}
fn js<T: serde::Serialize>(x: &T) -> String {
    serde_json::to_string(x).expect("json serialization")
}

fn show_f<R: dashu_float::round::Round, const B: Word>(v: &FBig<R, B>) -> String {
    format!("{} {:x} {}", hrepr(v.repr()), v.precision(), b01(lay_i(v.repr().significand())))
}
fn show_r<const B: Word>(v: &Repr<B>) -> String {
    format!("{} {}", hrepr(v), b01(lay_i(v.significand())))
}
fn show_q(v: &RBig) -> String {
    format!("{} {}", hq(v), b01(lay_i(v.numerator()) && lay_u(v.denominator())))
}
fn show_qr(v: &Relaxed) -> String {
    format!("{} {}", hqr(v), b01(lay_i(v.numerator()) && lay_u(v.denominator())))
}

macro_rules! de_pc {
    ($t:ty, $bytes:expr, |$v:ident| $show:expr) => {
        match postcard::take_from_bytes::<$t>($bytes) {
            Ok(($v, rest)) => {
                // canonical: the value re-serializes, and that encoding decodes to the same tokens
                let again = pc(&$v);
                let back: $t = postcard::from_bytes(&again).expect("re-decoding a re-encoded value");
                let s1 = $show;
                let s2 = { let $v = back; $show };
                format!("ok {:x} {} {} {}", $bytes.len() - rest.len(), s1, hexs(&again), b01(s1 == s2))
            }
            Err(_) => "err decode".to_string(),
        }
    };
}
macro_rules! de_js {
    ($t:ty, $text:expr, |$v:ident| $show:expr) => {
        match serde_json::from_slice::<$t>($text) {
            Ok($v) => {
                let again = js(&$v);
                let back: $t = serde_json::from_str(&again).expect("re-decoding a re-encoded value");
                let s1 = $show;
                let s2 = { let $v = back; $show };
                format!("ok {} {} {}", s1, hexs(again.as_bytes()), b01(s1 == s2))
            }
            Err(_) => "err decode".to_string(),
        }
    };
}

fn run(op: &str, a: &[&str]) -> String {
    match op {
        // -------------------------------------------------------------------------- integers
        "add" => format!("ok {}", hi(&(ibig(a[0]) + ibig(a[1])))),
        "sub" => format!("ok {}", hi(&(ibig(a[0]) - &ibig(a[1])))),
        "mul" => format!("ok {}", hi(&(&ibig(a[0]) * &ibig(a[1])))),
        "sqr" => format!("ok {}", hu(&ibig(a[0]).sqr())),
        "pow" => format!("ok {}", hi(&ibig(a[0]).pow(usz(a[1])))),
        "usub" => format!("ok {}", hu(&(ubig(a[0]) - ubig(a[1])))),
        "divrem" => {
            let (q, r) = ibig(a[0]).div_rem(ibig(a[1]));
            let q2 = ibig(a[0]) / ibig(a[1]);
            let r2 = &ibig(a[0]) % &ibig(a[1]);
            assert!(q == q2 && r == r2, "div_rem differs from / and %");
            format!("ok {} {}", hi(&q), hi(&r))
        }
        "diveuc" => {
            let (q, r) = ibig(a[0]).div_rem_euclid(ibig(a[1]));
            format!("ok {} {}", hi(&q), hu(&r))
        }
        "and" => format!("ok {}", hi(&(ibig(a[0]) & ibig(a[1])))),
        "or" => format!("ok {}", hi(&(ibig(a[0]) | ibig(a[1])))),
        "xor" => format!("ok {}", hi(&(ibig(a[0]) ^ ibig(a[1])))),
        "not" => format!("ok {}", hi(&!ibig(a[0]))),
        "shl" => format!("ok {}", hi(&(ibig(a[0]) << usz(a[1])))),
        "shr" => format!("ok {}", hi(&(ibig(a[0]) >> usz(a[1])))),
        "bitlen" => format!("ok {:x}", ibig(a[0]).bit_len()),
        "tz" => format!("ok {}", hopt(ibig(a[0]).trailing_zeros())),
        "ones" => format!("ok {:x}", ubig(a[0]).count_ones()),
        "cmp" => format!("ok {}", match ibig(a[0]).cmp(&ibig(a[1])) {
            std::cmp::Ordering::Less => "-1",
            std::cmp::Ordering::Equal => "0",
            std::cmp::Ordering::Greater => "1",
        }),
        "gcd" => format!("ok {}", hu(&ibig(a[0]).gcd(&ibig(a[1])))),
        "gcdext" => {
            let (g, s, t) = ubig(a[0]).gcd_ext(&ubig(a[1]));
            format!("ok {} {} {}", hu(&g), hi(&s), hi(&t))
        }
        "sqrt" => format!("ok {}", hu(&ubig(a[0]).sqrt())),
        "nthroot" => format!("ok {}", hu(&ubig(a[0]).nth_root(usz(a[1])))),
        "ilog" => format!("ok {:x}", ubig(a[0]).ilog(&ubig(a[1]))),
        "modpow" => {
            let ring = ConstDivisor::new(ubig(a[0]));
            let x = ring.reduce(ibig(a[1]));
            format!("ok {}", hu(&x.pow(&ubig(a[2])).residue()))
        }
        "modmul" => {
            let ring = ConstDivisor::new(ubig(a[0]));
            let x = ring.reduce(ibig(a[1]));
            let y = ring.reduce(ibig(a[2]));
            format!("ok {}", hu(&(x * y).residue()))
        }
        "modsqr" => {
            let ring = ConstDivisor::new(ubig(a[0]));
            let x = ring.reduce(ibig(a[1]));
            let y = x.clone() * x.clone();
            let z = x.sqr();
            assert!(y.residue() == z.residue(), "sqr differs from x * x");
            format!("ok {}", hu(&z.residue()))
        }
        // hist <v0> <v1> ... : a short history with state.  The destination starts as v0 and receives v1, v2, ... through
        // Clone::clone_from (buffer reuse / reallocation / inline shortcut are counted in WORDS: a value of 65..128 bits is inline
        // in the 64-bit builds and heap-stored in the 32-bit builds); the same is done to an FBig (significand) and an RBig
        // (numerator).  After every step: the value through raw words, and at the end the decimal text, the JSON text read back
        // and the layout flag of the final destination.
        "hist" => {
            let mut dst = ibig(a[0]);
            let mut f = FBig::<dashu_float::round::mode::Zero, 10>::from_parts(ibig(a[0]), 3);
            let mut q = rbig(a[0], "7");
            let mut out = String::new();
            for t in &a[1..] {
                let src = ibig(t);
                dst.clone_from(&src);
                f.clone_from(&FBig::<dashu_float::round::mode::Zero, 10>::from_parts(src.clone(), 5));
                q.clone_from(&rbig(t, "b"));
                let same = f.repr().significand() * IBig::from(10).pow(f.repr().exponent() as usize) == &src * IBig::from(10).pow(5)
                    && q.numerator() * IBig::from(11) == &src * IBig::from(q.denominator().clone());
                out.push_str(&format!(" {} {}", hi(&dst), b01(same)));
            }
            let j = js(&dst);
            let back: IBig = serde_json::from_str(&j).expect("json round trip");
            format!("ok{} {} {} {}", out, hexs(format!("{}", dst).as_bytes()), hi(&back), b01(lay_i(&dst)))
        }
        // cdivrem <a> <m>: division by a prepared ConstDivisor in every form (value, reference, assign, / and %)
        "cdivrem" => {
            let ring = ConstDivisor::new(ubig(a[1]));
            let x = ibig(a[0]);
            let (q, r) = x.clone().div_rem(&ring);
            let (q2, r2) = (&x).div_rem(&ring);
            let mut t = x.clone();
            let r3 = t.div_rem_assign(&ring);
            let (q4, r4) = (x.clone() / &ring, x.clone() % &ring);
            let (q5, r5) = (&x / &ring, &x % &ring);
            assert!(q == q2 && r == r2 && q == t && r == r3 && q == q4 && r == r4 && q == q5 && r == r5, "ConstDivisor forms differ");
            // the magnitudes too (UBig forms)
            let m = x.clone().into_parts().1;
            let (uq, ur) = m.clone().div_rem(&ring);
            let mut ut = m.clone();
            let ur2 = ut.div_rem_assign(&ring);
            assert!(uq == ut && ur == ur2, "UBig ConstDivisor forms differ");
            format!("ok {} {} {} {}", hi(&q), hi(&r), hu(&uq), hu(&ur))
        }
        // text in a radix, both directions
        "tostr" => {
            let r = u32::from_str_radix(a[0], 16).unwrap();
            format!("ok {}", hexs(format!("{}", ibig(a[1]).in_radix(r)).as_bytes()))
        }
        "fromstr" => {
            let r = u32::from_str_radix(a[0], 16).unwrap();
            let b = unhex(a[1]);
            match std::str::from_utf8(&b) {
                Ok(s) => match IBig::from_str_radix(s, r) {
                    Ok(v) => format!("ok {} {}", hi(&v), b01(lay_i(&v))),
                    Err(_) => "err parse".to_string(),
                },
                Err(_) => "err utf8".to_string(),
            }
        }
        // little/big-endian bytes
        "tobytes" => {
            let v = ibig(a[0]);
            let m = v.clone().into_parts().1;
            format!("ok {} {} {} {}", hexs(&m.to_le_bytes()), hexs(&m.to_be_bytes()), hexs(&v.to_le_bytes()), hexs(&v.to_be_bytes()))
        }
        "frombytes" => {
            let b = unhex(a[0]);
            let (ul, ub, il, ib) = (UBig::from_le_bytes(&b), UBig::from_be_bytes(&b), IBig::from_le_bytes(&b), IBig::from_be_bytes(&b));
            format!("ok {} {} {} {} {}", hu(&ul), hu(&ub), hi(&il), hi(&ib), b01(lay_u(&ul) && lay_u(&ub) && lay_i(&il) && lay_i(&ib)))
        }
        // conversions to machine floats (compared across configurations)
        "tof64" => {
            let v = ibig(a[0]);
            let (f, e) = match v.to_f64() {
                Exact(f) => (f, "Exact"),
                Inexact(f, Sign::Positive) => (f, "Pos"),
                Inexact(f, Sign::Negative) => (f, "Neg"),
            };
            let (g, e2) = match v.to_f32() {
                Exact(f) => (f, "Exact"),
                Inexact(f, Sign::Positive) => (f, "Pos"),
                Inexact(f, Sign::Negative) => (f, "Neg"),
            };
            format!("ok {:x} {} {:x} {}", f.to_bits(), e, g.to_bits(), e2)
        }
        // -------------------------------------------------------------------------- log2 bounds
        "log2b" => match a[0] {
            "ubig" => fb(ubig(a[1]).log2_bounds()),
            "ibig" => fb(ibig(a[1]).log2_bounds()),
            "u8" => fb((u128_of(a[1]) as u8).log2_bounds()),
            "u16" => fb((u128_of(a[1]) as u16).log2_bounds()),
            "u32" => fb((u128_of(a[1]) as u32).log2_bounds()),
            "u64" => fb((u128_of(a[1]) as u64).log2_bounds()),
            "u128" => fb(u128_of(a[1]).log2_bounds()),
            "i64" => fb((u128_of(a[1]) as i64).wrapping_neg().log2_bounds()),
            "f32" => fb(f32::from_bits(u128_of(a[1]) as u32).log2_bounds()),
            "f64" => fb(f64::from_bits(u128_of(a[1]) as u64).log2_bounds()),
            "rbig" => fb(rbig(a[1], a[2]).log2_bounds()),
            "relaxed" => fb(relaxed(a[1], a[2]).log2_bounds()),
            "fbig" => with_float!(a[1], "Zero", |R, B| {
                let r: Repr<B> = repr_of(a[2], a[3]);
                fb(FBig::<R, B>::from_repr(r, Context::new(0)).log2_bounds())
            }),
            other => panic!("unknown log2b type {}", other),
        },
        // -------------------------------------------------------------------------- floats
        // f<op> <base> <mode> <precision> <sig1> <exp1> [<sig2> <exp2>]
        "fadd" | "fsub" | "fmul" | "fdiv" | "fsqrt" | "fexp" | "fln" | "fpowi" => with_float!(a[0], a[1], |R, B| {
            let ctx = Context::<R>::new(usz(a[2]));
            let x = repr_of::<B>(a[3], a[4]);
            let y = if a.len() >= 7 { repr_of::<B>(a[5], a[6]) } else { Repr::<B>::zero() };
            let r = match op {
                "fadd" => ctx.add(&x, &y),
                "fsub" => ctx.sub(&x, &y),
                "fmul" => ctx.mul(&x, &y),
                "fdiv" => ctx.div(&x, &y),
                "fsqrt" => ctx.sqrt(&x),
                "fexp" => ctx.exp(&x),
                "fln" => ctx.ln(&x),
                _ => ctx.powi(&x, ibig(a[5])),
            };
            format!("ok {}", hrounded(&r))
        }),
        // fcmp <base> <mode> <sig1> <exp1> <sig2> <exp2>: Ord of two floats of one base, both call directions
        // (the shortcut of repr_cmp_same_base goes through the digit ESTIMATES, which differ between the std / no_std
        // estimators and between word sizes: the answer must not)
        "fcmp" => with_float!(a[0], a[1], |R, B| {
            let x = FBig::<R, B>::from_repr(repr_of::<B>(a[2], a[3]), Context::new(0));
            let y = FBig::<R, B>::from_repr(repr_of::<B>(a[4], a[5]), Context::new(0));
            let c = |o: core::cmp::Ordering| match o { core::cmp::Ordering::Less => "lt", core::cmp::Ordering::Equal => "eq", core::cmp::Ordering::Greater => "gt" };
            format!("ok {} {}", c(x.cmp(&y)), c(y.cmp(&x)))
        }),
        // fx <sub> <base> <mode> <precision> <sig1> <exp1> [<sig2> <exp2>]: Context::mul / add / sub / sqrt with exponents anywhere
        // in isize (signed hex down to -8000000000000000).  The answer carries xr=1 when the exponents of the two factors of a
        // product do not add up within isize (the true result is not representable: open finding
        // float_exponent_range_unchecked, builds with and without overflow checks legitimately differ there); the operation
        // itself runs under catch_unwind so that the flag is reported by every build.
        "fx" => with_float!(a[1], a[2], |R, B| {
            fn iszx(s: &str) -> isize {
                let v = match s.strip_prefix('-') {
                    Some(b) => -(i128::from_str_radix(b, 16).expect("exponent")),
                    None => i128::from_str_radix(s, 16).expect("exponent"),
                };
                isize::try_from(v).expect("exponent within isize")
            }
            let ctx = Context::<R>::new(usz(a[3]));
            let x = Repr::<B>::new(ibig(a[4]), iszx(a[5]));
            let y = if a.len() >= 8 { Repr::<B>::new(ibig(a[6]), iszx(a[7])) } else { Repr::<B>::zero() };
            let xr = a[0] == "mul" && isize::try_from(x.exponent() as i128 + y.exponent() as i128).is_err();
            let sub = a[0].to_string();
            let res = std::panic::catch_unwind(std::panic::AssertUnwindSafe(|| {
                let r = match sub.as_str() {
                    "mul" => ctx.mul(&x, &y),
                    "add" => ctx.add(&x, &y),
                    "sub" => ctx.sub(&x, &y),
                    "sqrt" => ctx.sqrt(&x),
                    other => panic!("unknown fx op {}", other),
                };
                hrounded(&r)
            })).unwrap_or_else(|_| "panic".to_string());
            format!("ok xr={} {}", b01(xr), res)
        }),
        // text of a float: Display, and the value parsed again
        "ftostr" => with_float!(a[0], a[1], |R, B| {
            let v = FBig::<R, B>::from_repr(repr_of::<B>(a[3], a[4]), Context::new(usz(a[2])));
            let s = format!("{}", v);
            match FBig::<R, B>::from_str(&s) {
                Ok(back) => format!("ok {} {}", hexs(s.as_bytes()), hrepr(back.repr())),
                Err(_) => format!("ok {} unparsable", hexs(s.as_bytes())),
            }
        }),
        "ffromstr" => with_float!(a[0], a[1], |R, B| {
            let b = unhex(a[2]);
            match std::str::from_utf8(&b) {
                Ok(s) => match FBig::<R, B>::from_str(s) {
                    Ok(v) => format!("ok {}", show_f(&v)),
                    Err(_) => "err parse".to_string(),
                },
                Err(_) => "err utf8".to_string(),
            }
        }),
        // -------------------------------------------------------------------------- rationals
        "qadd" | "qsub" | "qmul" | "qdiv" => {
            let (x, y) = (rbig(a[0], a[1]), rbig(a[2], a[3]));
            let r = match op {
                "qadd" => x + y,
                "qsub" => x - y,
                "qmul" => x * y,
                _ => x / y,
            };
            format!("ok {}", show_q(&r))
        }
        "qfromstr" => {
            let b = unhex(a[0]);
            match std::str::from_utf8(&b) {
                Ok(s) => match RBig::from_str(s) {
                    Ok(v) => format!("ok {}", show_q(&v)),
                    Err(_) => "err parse".to_string(),
                },
                Err(_) => "err utf8".to_string(),
            }
        }
        // operations whose code carries debug assertions that earlier failed (DESIGN 5.1 #13, #14, #25):
        // the answers of the debug and the release builds are compared
        "qnext" => {
            let (x, lim) = (rbig(a[0], a[1]), ubig(a[2]));
            format!("ok {} {}", show_q(&x.next_up(&lim)), show_q(&x.next_down(&lim)))
        }
        "qtof64" => {
            let x = rbig(a[0], a[1]);
            let (f, e) = match x.to_f64() {
                Exact(f) => (f, "Exact"),
                Inexact(f, Sign::Positive) => (f, "Pos"),
                Inexact(f, Sign::Negative) => (f, "Neg"),
            };
            let (g, e2) = match x.to_f32() {
                Exact(f) => (f, "Exact"),
                Inexact(f, Sign::Positive) => (f, "Pos"),
                Inexact(f, Sign::Negative) => (f, "Neg"),
            };
            format!("ok {:x} {} {:x} {}", f.to_bits(), e, g.to_bits(), e2)
        }
        // FBig -> f64 / f32.  `wide` is read through the public API: the base-2 conversion that
        // to_f64 (HalfEven, 53 bits) resp. to_f32 (own mode, 24 bits) performs internally hands over a
        // significand with more bits than the target precision (open finding F06: debug builds then
        // trip a debug assertion, release builds round a second time).  The conversions themselves
        // run under catch_unwind so that the class flag is reported by every build.
        "ftof64" => with_float!(a[0], a[1], |R, B| {
            let repr = repr_of::<B>(a[3], a[4]);
            let ctx = usz(a[2]);
            let v = FBig::<R, B>::from_repr(repr.clone(), Context::new(ctx));
            // (a binary float is not converted to another base at all: nothing is handed over, nothing can be wide)
            let w64 = B != 2 && std::panic::catch_unwind(std::panic::AssertUnwindSafe(|| {
                FBig::<mode::HalfEven, B>::from_repr(repr.clone(), Context::new(ctx))
                    .with_base_and_precision::<2>(53).value().repr().significand().bit_len() > 53
            })).unwrap_or(true);
            let w32 = B != 2 && std::panic::catch_unwind(std::panic::AssertUnwindSafe(|| {
                v.clone().with_base_and_precision::<2>(24).value().repr().significand().bit_len() > 24
            })).unwrap_or(true);
            let p64 = std::panic::catch_unwind(std::panic::AssertUnwindSafe(|| match v.to_f64() {
                Exact(f) => format!("{:x} Exact", f.to_bits()),
                Inexact(f, r) => format!("{:x} {}", f.to_bits(), rounding_str(r)),
            })).unwrap_or_else(|_| "panic -".to_string());
            let p32 = std::panic::catch_unwind(std::panic::AssertUnwindSafe(|| match v.to_f32() {
                Exact(f) => format!("{:x} Exact", f.to_bits()),
                Inexact(f, r) => format!("{:x} {}", f.to_bits(), rounding_str(r)),
            })).unwrap_or_else(|_| "panic -".to_string());
            format!("ok wide={}{} {} {}", b01(w64), b01(w32), p64, p32)
        }),
        // -------------------------------------------------------------------------- serialization
        "ser_ubig" => {
            let x = ubig(a[0]);
            let (p, j) = (pc(&x), js(&x));
            let y: UBig = postcard::from_bytes(&p).expect("postcard round trip");
            let z: UBig = serde_json::from_str(&j).expect("json round trip");
            format!("ok {} {} {} {} {}", hexs(&p), hu(&y), hexs(j.as_bytes()), hu(&z), b01(lay_u(&y) && lay_u(&z)))
        }
        "ser_ibig" => {
            let x = ibig(a[0]);
            let (p, j) = (pc(&x), js(&x));
            let y: IBig = postcard::from_bytes(&p).expect("postcard round trip");
            let z: IBig = serde_json::from_str(&j).expect("json round trip");
            format!("ok {} {} {} {} {}", hexs(&p), hi(&y), hexs(j.as_bytes()), hi(&z), b01(lay_i(&y) && lay_i(&z)))
        }
        // ser_fbig <base> <mode> <precision> <sig> <exp>
        "ser_fbig" => with_float!(a[0], a[1], |R, B| {
            let x = FBig::<R, B>::from_repr(repr_of::<B>(a[3], a[4]), Context::new(usz(a[2])));
            let (p, j) = (pc(&x), js(&x));
            let y: FBig<R, B> = postcard::from_bytes(&p).expect("postcard round trip");
            let z = serde_json::from_str::<FBig<R, B>>(&j);
            let zs = match z {
                Ok(z) => show_f(&z),
                Err(_) => "unparsable".to_string(),
            };
            format!("ok {} {} {} {}", hexs(&p), show_f(&y), hexs(j.as_bytes()), zs)
        }),
        "ser_repr" => with_float!(a[0], "Zero", |R, B| {
            let x = repr_of::<B>(a[1], a[2]);
            let (p, j) = (pc(&x), js(&x));
            let y: Repr<B> = postcard::from_bytes(&p).expect("postcard round trip");
            let z = serde_json::from_str::<Repr<B>>(&j);
            let zs = match z {
                Ok(z) => show_r(&z),
                Err(_) => "unparsable".to_string(),
            };
            format!("ok {} {} {} {}", hexs(&p), show_r(&y), hexs(j.as_bytes()), zs)
        }),
        "ser_rbig" => {
            let x = rbig(a[0], a[1]);
            let (p, j) = (pc(&x), js(&x));
            let y: RBig = postcard::from_bytes(&p).expect("postcard round trip");
            let z: RBig = serde_json::from_str(&j).expect("json round trip");
            format!("ok {} {} {} {}", hexs(&p), show_q(&y), hexs(j.as_bytes()), show_q(&z))
        }
        "ser_relaxed" => {
            let x = relaxed(a[0], a[1]);
            let (p, j) = (pc(&x), js(&x));
            let y: Relaxed = postcard::from_bytes(&p).expect("postcard round trip");
            let z: Relaxed = serde_json::from_str(&j).expect("json round trip");
            format!("ok {} {} {} {}", hexs(&p), show_qr(&y), hexs(j.as_bytes()), show_qr(&z))
        }
        // arbitrary bytes into the binary deserializers
        "de_ubig" => { let b = unhex(a[0]); de_pc!(UBig, &b[..], |v| format!("{} {}", hu(&v), b01(lay_u(&v)))) }
        "de_ibig" => { let b = unhex(a[0]); de_pc!(IBig, &b[..], |v| format!("{} {}", hi(&v), b01(lay_i(&v)))) }
        "de_rbig" => { let b = unhex(a[0]); de_pc!(RBig, &b[..], |v| show_q(&v)) }
        "de_relaxed" => { let b = unhex(a[0]); de_pc!(Relaxed, &b[..], |v| show_qr(&v)) }
        "de_fbig" => with_float!(a[0], a[1], |R, B| { let b = unhex(a[2]); de_pc!(FBig<R, B>, &b[..], |v| show_f(&v)) }),
        "de_repr" => with_float!(a[0], "Zero", |R, B| { let b = unhex(a[1]); de_pc!(Repr<B>, &b[..], |v| show_r(&v)) }),
        // arbitrary token streams into the human-readable deserializers
        "dej_ubig" => { let b = unhex(a[0]); de_js!(UBig, &b[..], |v| format!("{} {}", hu(&v), b01(lay_u(&v)))) }
        "dej_ibig" => { let b = unhex(a[0]); de_js!(IBig, &b[..], |v| format!("{} {}", hi(&v), b01(lay_i(&v)))) }
        "dej_rbig" => { let b = unhex(a[0]); de_js!(RBig, &b[..], |v| show_q(&v)) }
        "dej_relaxed" => { let b = unhex(a[0]); de_js!(Relaxed, &b[..], |v| show_qr(&v)) }
        // floats: the text form does not carry the precision (Display prints the digits of the
        // significand only), so the re-decoded value is compared as a number, not with its precision
        "dej_fbig" => with_float!(a[0], a[1], |R, B| {
            let b = unhex(a[2]);
            match serde_json::from_slice::<FBig<R, B>>(&b[..]) {
                Ok(v) => {
                    let again = js(&v);
                    let back: FBig<R, B> = serde_json::from_str(&again).expect("re-decoding a re-encoded value");
                    format!("ok {} {} {}", show_f(&v), hexs(again.as_bytes()), b01(hrepr(v.repr()) == hrepr(back.repr())))
                }
                Err(_) => "err decode".to_string(),
            }
        }),
        // kmul <which> <positive 0/1> <c> <a> <b>: c + (+-) a * b through ONE multiplication kernel (1 = schoolbook,
        // 2 = Karatsuba, 3 = Toom-3, 0 = size dispatch) on the word slices of THIS build: a and b take the number of
        // words they need here (a the longer one), c is the accumulator of len(a) + len(b) words.  The answer is the
        // word-size-free total  value(c') + carry * B^len(c)  (as a signed integer), then len=<len(a)>,<len(b)> in words of this build.
        "kmul" => {
            let which = u8::from_str_radix(a[0], 16).unwrap();
            let positive = a[1] == "1";
            let (x, y) = (ubig(a[3]), ubig(a[4]));
            let (xw, yw): (Vec<Word>, Vec<Word>) = (x.as_words().to_vec(), y.as_words().to_vec());
            let (xw, yw) = if xw.len() >= yw.len() { (xw, yw) } else { (yw, xw) };
            let n = xw.len() + yw.len();
            let cv = ubig(a[2]);
            let mut c: Vec<Word> = cv.as_words().to_vec();
            assert!(c.len() <= n, "accumulator too long for this build");
            c.resize(n, 0);
            let carry = mul_kernel(which, &mut c, positive, &xw, &yw);
            let total = IBig::from(UBig::from_words(&c)) + (IBig::from(carry as i128) << (n * WB));
            format!("ok {} len={:x},{:x}", hi(&total), xw.len(), yw.len())
        }
        // the thresholds of mul (counted in words: identical numbers, different operand sizes in the two word sizes)
        "mulparams" => {
            let (t1, t2, m1, m2) = MUL_PARAMS;
            format!("ok {:x} {:x} {:x} {:x}", t1, t2, m1, m2)
        }
        // which build is this?  (word bits, debug assertions) - informational, canonicalised away
        // the cfg values the architecture chain of integer/src/arch/mod.rs tests: fb=<force_bits or ->, the target
        // architecture and pointer width (the oracle runs the regenerated chain on them and must arrive at WB)
        "config" => {
            let fb = if cfg!(force_bits = "16") { "16" } else if cfg!(force_bits = "32") { "32" } else if cfg!(force_bits = "64") { "64" } else { "-" };
            format!("ok config {:x} {} fb={} arch={} pw={}", WB, b01(cfg!(debug_assertions)), fb, std::env::consts::ARCH, usize::BITS)
        }
        _ => format!("err unknown-op-{}", op),
    }
}

/// every `ok` answer carries the word size of the build as its second token (`wb=40` / `wb=20`): the oracle runs
/// the word-level as-is models at exactly that word size; the token is canonicalised away before builds are diffed
fn main() {
    serve(|op, a| {
        let r = run(op, a);
        match r.strip_prefix("ok ") {
            Some(rest) => format!("ok wb={:x} {}", WB, rest),
            None => r,
        }
    });
}
