//! C03: float arithmetic under the rounding contract.
//! case: `<op> <base hex> <mode> <precision hex> <sig1> <exp1> [<sig2> <exp2>]`
//! answer: `ok <sig> <exp> <Exact|NoOp|AddOne|SubOne|NoFlag> <precision>`
use dashu_base::SquareRoot;
use hlib::*;

fn run(op: &str, a: &[&str]) -> String {
    with_float!(a[0], a[1], |R, B| {
        let p = usz(a[2]);
        let ctx = Context::<R>::new(p);
        let x = repr_of::<B>(a[3], a[4]);
        let two = a.len() >= 7;
        let y = if two { repr_of::<B>(a[5], a[6]) } else { Repr::<B>::zero() };
        let fx = || FBig::<R, B>::from_repr(x.clone(), ctx);
        let fy = || FBig::<R, B>::from_repr(y.clone(), ctx);
        let val = |v: FBig<R, B>| format!("ok {} NoFlag {:x}", hrepr(v.repr()), v.precision());
        match op {
            "add" => format!("ok {}", hrounded(&ctx.add(&x, &y))),
            "sub" => format!("ok {}", hrounded(&ctx.sub(&x, &y))),
            "mul" => format!("ok {}", hrounded(&ctx.mul(&x, &y))),
            "div" => format!("ok {}", hrounded(&ctx.div(&x, &y))),
            "sqr" => format!("ok {}", hrounded(&ctx.sqr(&x))),
            "cubic" => format!("ok {}", hrounded(&ctx.cubic(&x))),
            "sqrt" => format!("ok {}", hrounded(&ctx.sqrt(&x))),
            "inv" => format!("ok {}", hrounded(&ctx.inv(&x))),
            // operators, every ownership form
            "add_vv" => val(fx() + fy()),
            "add_vr" => val(fx() + &fy()),
            "add_rv" => val(&fx() + fy()),
            "add_rr" => val(&fx() + &fy()),
            "sub_vv" => val(fx() - fy()),
            "sub_vr" => val(fx() - &fy()),
            "sub_rv" => val(&fx() - fy()),
            "sub_rr" => val(&fx() - &fy()),
            "mul_vv" => val(fx() * fy()),
            "mul_vr" => val(fx() * &fy()),
            "mul_rv" => val(&fx() * fy()),
            "mul_rr" => val(&fx() * &fy()),
            "div_vv" => val(fx() / fy()),
            "div_vr" => val(fx() / &fy()),
            "div_rv" => val(&fx() / fy()),
            "div_rr" => val(&fx() / &fy()),
            "add_assign" => { let mut v = fx(); v += fy(); val(v) }
            "sub_assign" => { let mut v = fx(); v -= fy(); val(v) }
            "mul_assign" => { let mut v = fx(); v *= fy(); val(v) }
            "div_assign" => { let mut v = fx(); v /= fy(); val(v) }
            "fsqr" => val(fx().sqr()),
            "fcubic" => val(fx().cubic()),
            "fsqrt" => val(fx().sqrt()),
            _ => format!("unknown-op {}", op),
        }
    })
}

fn main() {
    serve(run);
}
