//! C03: float arithmetic under the rounding contract.
//! case: `<op> <base hex> <mode> <precision hex> <sig1> <exp1> [<sig2> <exp2>]`
//! answer: `ok <sig> <exp> <Exact|NoOp|AddOne|SubOne|NoFlag> <precision>`
//! extra forms: `mulp_*/divp_* <base> <mode> <p1> <sig1> <exp1> <sig2> <exp2> <p2>` (operands with their own
//! precisions), `mulprim_fi|mulprim_if|divprim_fi|divprim_if <base> <mode> <p> <sig1> <exp1> <n> 0` (primitive /
//! IBig operand n), `rfract <base> <mode> <k> <integer> <fract>` -> `ok <NoOp|AddOne|SubOne>` (Round::round_fract
//! called directly: the f32 pre-filter against the exact comparison).
//! round 3: `addl subl mull divl sqrl cubicl sqrtl invl` = the Context methods with operands of ANY length (the
//! Repr operands need not fit the precision); `rem` (Context::rem), `rem_vv|vr|rv|rr|assign` (FBig % FBig),
//! `remeuc_*` (rem_euclid), `diveuc_*` -> `ok <q>`, `divremeuc_*` -> `ok <q> <sig> <exp> NoFlag <prec>`;
//! `finv finv_r` (Inverse for FBig / &FBig), `addprim_fi|addprim_if|subprim_fi|subprim_if`.
//! round 4: `addx subx mulx sqrx cubicx` = the Context methods with exponents next to isize::MAX / isize::MIN (exponent
//! token `min` = isize::MIN); `prod <base> <mode> (<precision> <sig> <exp>)*` = Product for FBig (by value / by reference).
use dashu_base::{DivEuclid, DivRemEuclid, Inverse, RemEuclid, SquareRoot};
use dashu_float::round::Round;
use hlib::*;
use std::convert::TryFrom;

fn run(op: &str, a: &[&str]) -> String {
    with_float!(a[0], a[1], |R, B| {
        if op == "rfract" {
            let adj = <R as Round>::round_fract::<B>(&ibig(a[3]), ibig(a[4]), usz(a[2]));
            return format!("ok {}", rounding_str(adj));
        }
        if op == "prod" {
            // Product for FBig: `prod <base> <mode> (<precision> <sig> <exp>)*`
            let fs: Vec<FBig<R, B>> = a[2..]
                .chunks(3)
                .map(|c| FBig::<R, B>::from_repr(repr_of::<B>(c[1], c[2]), Context::<R>::new(usz(c[0]))))
                .collect();
            let v: FBig<R, B> = if a.len() % 2 == 0 { fs.iter().product() } else { fs.into_iter().product() };
            return format!("ok {} NoFlag {:x}", hrepr(v.repr()), v.precision());
        }
        let p = usz(a[2]);
        let ctx = Context::<R>::new(p);
        // the exponent token `min` is isize::MIN (hlib::isz cannot read it)
        let rp = |sig: &str, exp: &str| -> Repr<B> {
            if exp == "min" { Repr::<B>::new(ibig(sig), isize::MIN) } else { repr_of::<B>(sig, exp) }
        };
        let x = rp(a[3], a[4]);
        let two = a.len() >= 7;
        let y = if two { rp(a[5], a[6]) } else { Repr::<B>::zero() };
        let fx = || FBig::<R, B>::from_repr(x.clone(), ctx);
        let fy = || FBig::<R, B>::from_repr(y.clone(), ctx);
        let val = |v: FBig<R, B>| format!("ok {} NoFlag {:x}", hrepr(v.repr()), v.precision());
        match op {
            "add" | "addl" | "addx" => format!("ok {}", hrounded(&ctx.add(&x, &y))),
            "sub" | "subl" | "subx" => format!("ok {}", hrounded(&ctx.sub(&x, &y))),
            "mul" | "mull" | "mulx" => format!("ok {}", hrounded(&ctx.mul(&x, &y))),
            "div" | "divl" => format!("ok {}", hrounded(&ctx.div(&x, &y))),
            "sqr" | "sqrl" | "sqrx" => format!("ok {}", hrounded(&ctx.sqr(&x))),
            "cubic" | "cubicl" | "cubicx" => format!("ok {}", hrounded(&ctx.cubic(&x))),
            "sqrt" | "sqrtl" => format!("ok {}", hrounded(&ctx.sqrt(&x))),
            "inv" | "invl" => format!("ok {}", hrounded(&ctx.inv(&x))),
            "rem" => format!("ok {}", hrounded(&ctx.rem(&x, &y))),
            "rem_vv" => val(fx() % fy()),
            "rem_vr" => val(fx() % &fy()),
            "rem_rv" => val(&fx() % fy()),
            "rem_rr" => val(&fx() % &fy()),
            "rem_assign" => { let mut v = fx(); v %= fy(); val(v) }
            "remeuc_vv" => val(fx().rem_euclid(fy())),
            "remeuc_vr" => val(fx().rem_euclid(&fy())),
            "remeuc_rv" => val((&fx()).rem_euclid(fy())),
            "remeuc_rr" => val((&fx()).rem_euclid(&fy())),
            "diveuc_vv" => format!("ok {}", hi(&fx().div_euclid(fy()))),
            "diveuc_vr" => format!("ok {}", hi(&fx().div_euclid(&fy()))),
            "diveuc_rv" => format!("ok {}", hi(&(&fx()).div_euclid(fy()))),
            "diveuc_rr" => format!("ok {}", hi(&(&fx()).div_euclid(&fy()))),
            "divremeuc_vv" => { let (q, r) = fx().div_rem_euclid(fy()); format!("ok {} {} NoFlag {:x}", hi(&q), hrepr(r.repr()), r.precision()) }
            "divremeuc_vr" => { let (q, r) = fx().div_rem_euclid(&fy()); format!("ok {} {} NoFlag {:x}", hi(&q), hrepr(r.repr()), r.precision()) }
            "divremeuc_rv" => { let (q, r) = (&fx()).div_rem_euclid(fy()); format!("ok {} {} NoFlag {:x}", hi(&q), hrepr(r.repr()), r.precision()) }
            "divremeuc_rr" => { let (q, r) = (&fx()).div_rem_euclid(&fy()); format!("ok {} {} NoFlag {:x}", hi(&q), hrepr(r.repr()), r.precision()) }
            "finv" => val(fx().inv()),
            "finv_r" => val((&fx()).inv()),
            // operators, every ownership form
            "add_vv" => val(fx() + fy()),
            "add_vr" => val(fx() + &fy()),
            "add_rv" => val(&fx() + fy()),
            "add_rr" => val(&fx() + &fy()),
            "sub_vv" => val(fx() - fy()),
            "sub_vr" => val(fx() - &fy()),
            "sub_rv" => val(&fx() - fy()),
            "sub_rr" => val(&fx() - &fy()),
            "mul_vv" => val(fx() * fy()),
            "mul_vr" => val(fx() * &fy()),
            "mul_rv" => val(&fx() * fy()),
            "mul_rr" => val(&fx() * &fy()),
            "div_vv" => val(fx() / fy()),
            "div_vr" => val(fx() / &fy()),
            "div_rv" => val(&fx() / fy()),
            "div_rr" => val(&fx() / &fy()),
            "add_assign" => { let mut v = fx(); v += fy(); val(v) }
            "sub_assign" => { let mut v = fx(); v -= fy(); val(v) }
            "mul_assign" => { let mut v = fx(); v *= fy(); val(v) }
            "div_assign" => { let mut v = fx(); v /= fy(); val(v) }
            // operands carrying different precisions: the result context is Context::max
            "mulp_vv" | "mulp_vr" | "mulp_rv" | "mulp_rr" | "divp_vv" | "divp_vr" | "divp_rv" | "divp_rr" | "mulp_assign" | "divp_assign" => {
                let c2 = Context::<R>::new(usz(a[7]));
                let l = fx();
                let r = FBig::<R, B>::from_repr(y.clone(), c2);
                match op {
                    "mulp_vv" => val(l * r),
                    "mulp_vr" => val(l * &r),
                    "mulp_rv" => val(&l * r),
                    "mulp_rr" => val(&l * &r),
                    "divp_vv" => val(l / r),
                    "divp_vr" => val(l / &r),
                    "divp_rv" => val(&l / r),
                    "divp_rr" => val(&l / &r),
                    "mulp_assign" => { let mut v = l; v *= r; val(v) }
                    _ => { let mut v = l; v /= r; val(v) }
                }
            }
            // primitive / big-integer operand, converted by FBig::from (precision = its digit count, at least 1)
            "mulprim_fi" | "mulprim_if" | "divprim_fi" | "divprim_if" | "addprim_fi" | "addprim_if" | "subprim_fi" | "subprim_if" => {
                let n = ibig(a[5]);
                let l = fx();
                match (op, i64::try_from(&n)) {
                    ("addprim_fi", Ok(k)) => val(l + k),
                    ("addprim_fi", Err(_)) => val(&l + &n),
                    ("addprim_if", Ok(k)) => val(k + &l),
                    ("addprim_if", Err(_)) => val(n + l),
                    ("subprim_fi", Ok(k)) => val(&l - k),
                    ("subprim_fi", Err(_)) => val(l - n),
                    ("subprim_if", Ok(k)) => val(k - l),
                    ("subprim_if", Err(_)) => val(&n - &l),
                    ("mulprim_fi", Ok(k)) => val(l * k),
                    ("mulprim_fi", Err(_)) => val(&l * &n),
                    ("mulprim_if", Ok(k)) => val(k * &l),
                    ("mulprim_if", Err(_)) => val(n * l),
                    ("divprim_fi", Ok(k)) => val(&l / k),
                    ("divprim_fi", Err(_)) => val(l / n),
                    ("divprim_if", Ok(k)) => val(k / l),
                    (_, _) => val(&n / &l),
                }
            }
            "fsqr" => val(fx().sqr()),
            "fcubic" => val(fx().cubic()),
            "fsqrt" => val(fx().sqrt()),
            _ => format!("unknown-op {}", op),
        }
    })
}

fn main() {
    serve(run);
}
