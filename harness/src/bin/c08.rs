//! C08: float text I/O, base and precision changes.
//! Texts travel as hex-encoded UTF-8 bytes (`-` = empty).  Floats as `<sig> <exp>` through raw words.
//! case forms (all start with `<op> <base hex> <mode>`):
//!   parse|parse_native|parse_repr  <text>
//!   disp|disp_repr|lexp|lexp_repr|uexp|uexp_repr  <sig> <exp> <p0> <flags> <width|-> <prec|->
//!   bin|oct|lhex|uhex[_repr]  <sig> <exp> <p0> <flags> <width|-> <prec|->     {:b} (base 2) {:o} (8) {:x} {:X} (2, 16)
//!   dbg|dbg_alt|dbg_repr|dbg_repr_alt  <sig> <exp> <p0>
//!   rt|rt_exp  <sig> <exp> <p0>                       print (no options) then FromStr
//!   with_precision <sig> <exp> <p0> <p>
//!   with_base <newbase> <sig> <exp> <p0> ; with_base_prec <newbase> <sig> <exp> <p0> <p>
//!   to_decimal|to_binary <sig> <exp> <p0>
//!   fpc <sig> <exp> <min_precision|->                 FBig::from_parts_const (what the literal macros expand to)
//!   wb_prec <newbase> <p0>                             the f32 bounds with_base divides + the precision it chooses
//!   from_f32|from_f64|from_f32_repr|from_f64_repr <bits>
use core::fmt;
use core::str::FromStr;
use hlib::*;
use std::convert::TryFrom;

fn unhex(s: &str) -> String {
    if s == "-" {
        return String::new();
    }
    let b: Vec<u8> = (0..s.len() / 2).map(|i| u8::from_str_radix(&s[2 * i..2 * i + 2], 16).unwrap()).collect();
    String::from_utf8(b).expect("utf8")
}

fn tohex(s: &str) -> String {
    if s.is_empty() {
        return "-".into();
    }
    s.bytes().map(|b| format!("{:02x}", b)).collect()
}

fn opt(s: &str) -> Option<usize> {
    if s == "-" {
        None
    } else {
        Some(usz(s))
    }
}

macro_rules! fmt_one {
    ($v:expr, $w:expr, $p:expr, $pre:literal, $ty:literal) => {
        match ($w, $p) {
            (None, None) => format!(concat!("{:", $pre, $ty, "}"), $v),
            (Some(w), None) => format!(concat!("{:", $pre, "w$", $ty, "}"), $v, w = w),
            (None, Some(p)) => format!(concat!("{:", $pre, ".p$", $ty, "}"), $v, p = p),
            (Some(w), Some(p)) => format!(concat!("{:", $pre, "w$.p$", $ty, "}"), $v, w = w, p = p),
        }
    };
}

macro_rules! fmt_flags {
    ($v:expr, $fl:expr, $w:expr, $p:expr, $ty:literal) => {
        match $fl {
            "-" => fmt_one!($v, $w, $p, "", $ty),
            "+" => fmt_one!($v, $w, $p, "+", $ty),
            "0" => fmt_one!($v, $w, $p, "0", $ty),
            "+0" => fmt_one!($v, $w, $p, "+0", $ty),
            "<" => fmt_one!($v, $w, $p, "*<", $ty),
            "<+" => fmt_one!($v, $w, $p, "*<+", $ty),
            "<0" => fmt_one!($v, $w, $p, "*<0", $ty),
            "<+0" => fmt_one!($v, $w, $p, "*<+0", $ty),
            ">" => fmt_one!($v, $w, $p, "*>", $ty),
            ">+" => fmt_one!($v, $w, $p, "*>+", $ty),
            ">0" => fmt_one!($v, $w, $p, "*>0", $ty),
            ">+0" => fmt_one!($v, $w, $p, "*>+0", $ty),
            "^" => fmt_one!($v, $w, $p, "*^", $ty),
            "^+" => fmt_one!($v, $w, $p, "*^+", $ty),
            "^0" => fmt_one!($v, $w, $p, "*^0", $ty),
            "^+0" => fmt_one!($v, $w, $p, "*^+0", $ty),
            other => panic!("flags {}", other),
        }
    };
}

fn f_disp(v: &dyn fmt::Display, fl: &str, w: Option<usize>, p: Option<usize>) -> String {
    fmt_flags!(v, fl, w, p, "")
}
fn f_lexp(v: &dyn fmt::LowerExp, fl: &str, w: Option<usize>, p: Option<usize>) -> String {
    fmt_flags!(v, fl, w, p, "e")
}
fn f_uexp(v: &dyn fmt::UpperExp, fl: &str, w: Option<usize>, p: Option<usize>) -> String {
    fmt_flags!(v, fl, w, p, "E")
}

fn f_bin(v: &dyn fmt::Binary, fl: &str, w: Option<usize>, p: Option<usize>) -> String {
    fmt_flags!(v, fl, w, p, "b")
}
fn f_oct(v: &dyn fmt::Octal, fl: &str, w: Option<usize>, p: Option<usize>) -> String {
    fmt_flags!(v, fl, w, p, "o")
}
fn f_lhex(v: &dyn fmt::LowerHex, fl: &str, w: Option<usize>, p: Option<usize>) -> String {
    fmt_flags!(v, fl, w, p, "x")
}
fn f_uhex(v: &dyn fmt::UpperHex, fl: &str, w: Option<usize>, p: Option<usize>) -> String {
    fmt_flags!(v, fl, w, p, "X")
}

/// The radix-specific formats of impl_fmt_with_base!: Binary (base 2), Octal (base 8), LowerHex / UpperHex (base 16:
/// positional with the marker 'h'; base 2: hexadecimal form 0x1.8p3), of an FBig (mode R) or a bare Repr (`_repr`).
fn radix<R: dashu_float::round::Round>(op: &str, a: &[&str]) -> String {
    let b = u64::from_str_radix(a[0], 16).unwrap();
    let (fl, w, p) = (a[5], opt(a[6]), opt(a[7]));
    let is_repr = op.ends_with("_repr");
    macro_rules! go {
        ($B:literal, $f:ident) => {{
            let repr = repr_of::<$B>(a[2], a[3]);
            if is_repr {
                $f(&repr, fl, w, p)
            } else {
                let x = FBig::<R, $B>::from_repr(repr, Context::<R>::new(usz(a[4])));
                $f(&x, fl, w, p)
            }
        }};
    }
    let s = match (op.trim_end_matches("_repr"), b) {
        ("bin", 2) => go!(2, f_bin),
        ("oct", 8) => go!(8, f_oct),
        ("lhex", 2) => go!(2, f_lhex),
        ("lhex", 16) => go!(16, f_lhex),
        ("uhex", 2) => go!(2, f_uhex),
        ("uhex", 16) => go!(16, f_uhex),
        (o, b) => panic!("no format {} for base {}", o, b),
    };
    format!("ok {}", tohex(&s))
}

fn perr(e: dashu_base::ParseError) -> String {
    format!("err {:?}", e)
}

fn hval<R: dashu_float::round::Round, const B: Word>(v: &FBig<R, B>) -> String {
    format!("{} {:x}", hrepr(v.repr()), v.precision())
}

/// Base pairs of the base-change operations (source => targets).  Every class of pair occurs for every
/// family of source bases: same base; NewB = B^n (B in {2,3,4,5,6,10}, n = 2..5); B = NewB^n; a common root
/// without one being a power of the other (4<->8, 8<->16, 8<->32, 9<->27, 4<->32, 16<->32); one base a
/// multiple of the other; coprime bases.  (hlib::with_float knows the sources 2 3 5 7 8 10 16 36 only.)
macro_rules! dispatch_pairs {
    ($R:ty, $b:expr, $nb:expr, $op:expr, $a:expr; $( $B:literal => [$($NB:literal),*] );* $(;)?) => {
        match $b {
            $( $B => match $nb {
                $( $NB => conv2::<$R, $B, $NB>($op, $a), )*
                other => panic!("unsupported target base {} for source {}", other, $B),
            }, )*
            other => panic!("unsupported source base {}", other),
        }
    };
}

macro_rules! dispatch_src {
    ($R:ty, $b:expr, $op:expr, $a:expr; $($B:literal),*) => {
        match $b {
            $( $B => conv_fixed::<$R, $B>($op, $a), )*
            other => panic!("unsupported source base {}", other),
        }
    };
}

fn conv2<R: dashu_float::round::Round, const B: Word, const NB: Word>(op: &str, a: &[&str]) -> String {
    if op == "wb_prec" {
        // the two f32 bounds FBig::with_base divides (public API: EstimatedLog2), then the precision it chose:
        // the context of 1 (exact in every base) after with_base
        use dashu_base::EstimatedLog2;
        let p0 = usz(a[3]);
        let lb = dashu_int::UBig::from(B as u64).pow(p0).log2_bounds().0;
        let ub = (NB as u64).log2_bounds().1;
        let one = FBig::<R, B>::from_repr(repr_of::<B>("1", "0"), Context::<R>::new(p0));
        let r = std::panic::catch_unwind(std::panic::AssertUnwindSafe(|| one.with_base::<NB>()));
        return match r {
            Ok(v) => format!("ok {:x} {:x} {}", lb.to_bits(), ub.to_bits(), hrounded(&v)),
            Err(_) => format!("ok {:x} {:x} panic", lb.to_bits(), ub.to_bits()),
        };
    }
    let x = FBig::<R, B>::from_repr(repr_of::<B>(a[3], a[4]), Context::<R>::new(usz(a[5])));
    if op == "with_base" {
        format!("ok {}", hrounded(&x.with_base::<NB>()))
    } else {
        format!("ok {}", hrounded(&x.with_base_and_precision::<NB>(usz(a[6]))))
    }
}

fn conv_fixed<R: dashu_float::round::Round, const B: Word>(op: &str, a: &[&str]) -> String {
    let x = FBig::<R, B>::from_repr(repr_of::<B>(a[2], a[3]), Context::<R>::new(usz(a[4])));
    if op == "to_decimal" {
        format!("ok {}", hrounded(&x.to_decimal()))
    } else {
        format!("ok {}", hrounded(&x.to_binary()))
    }
}

fn conv<R: dashu_float::round::Round>(op: &str, a: &[&str]) -> String {
    let b = u64::from_str_radix(a[0], 16).unwrap();
    if op == "to_decimal" || op == "to_binary" {
        return dispatch_src!(R, b, op, a; 2, 3, 4, 5, 6, 7, 8, 9, 10, 16, 25, 27, 32, 36, 100);
    }
    let nb = u64::from_str_radix(a[2], 16).unwrap();
    dispatch_pairs!(R, b, nb, op, a;
        2 => [2, 3, 4, 5, 6, 8, 10, 16, 32];
        3 => [2, 3, 9, 10, 16, 27];
        4 => [2, 3, 4, 8, 10, 16, 32];
        5 => [2, 3, 5, 10, 16, 25];
        6 => [2, 3, 6, 10, 36];
        7 => [2, 3, 10, 16];
        8 => [2, 3, 4, 8, 10, 16, 32];
        9 => [2, 3, 9, 10, 27];
        10 => [2, 3, 5, 10, 16, 100];
        16 => [2, 3, 4, 8, 10, 16, 32];
        25 => [2, 5, 10, 25];
        27 => [2, 3, 9, 10, 27];
        32 => [2, 4, 8, 10, 16, 32];
        36 => [2, 3, 6, 10, 16, 36];
        100 => [2, 3, 10, 100];
    )
}

fn run(op: &str, a: &[&str]) -> String {
    match op {
        "from_f32" | "from_f64" | "from_f32_repr" | "from_f64_repr" => {
            let bits = u64::from_str_radix(a[2], 16).unwrap();
            return with_float!("2", a[1], |R, B| {
                let _ = B;
                match op {
                    "from_f32" => match FBig::<R, 2>::try_from(f32::from_bits(bits as u32)) {
                        Ok(v) => format!("ok {}", hval(&v)),
                        Err(e) => format!("err {:?}", e),
                    },
                    "from_f64" => match FBig::<R, 2>::try_from(f64::from_bits(bits)) {
                        Ok(v) => format!("ok {}", hval(&v)),
                        Err(e) => format!("err {:?}", e),
                    },
                    "from_f32_repr" => match Repr::<2>::try_from(f32::from_bits(bits as u32)) {
                        Ok(v) => format!("ok {}", hrepr(&v)),
                        Err(e) => format!("err {:?}", e),
                    },
                    _ => match Repr::<2>::try_from(f64::from_bits(bits)) {
                        Ok(v) => format!("ok {}", hrepr(&v)),
                        Err(e) => format!("err {:?}", e),
                    },
                }
            });
        }
        "fpc" => {
            // FBig::from_parts_const(sign, significand: DoubleWord, exponent, min_precision): the constructor the
            // fbig!/dbig! macros expand to for a short significand (the long ones: Repr::new + Context::new + from_repr)
            // fpc <base> <mode> <sig: signed, magnitude below 2^128> <exp> <min_precision|->
            let neg = a[2].starts_with('-');
            let mag = u128::from_str_radix(a[2].trim_start_matches('-'), 16).unwrap();
            let e = isz(a[3]);
            let mp = opt(a[4]);
            return with_float!(a[0], a[1], |R, B| {
                let v = FBig::<R, B>::from_parts_const(if neg { dashu_base::Sign::Negative } else { dashu_base::Sign::Positive }, mag, e, mp);
                format!("ok {}", hval(&v))
            });
        }
        "bin" | "oct" | "lhex" | "uhex" | "bin_repr" | "oct_repr" | "lhex_repr" | "uhex_repr" => {
            return match a[1] {
                "Zero" => radix::<mode::Zero>(op, a),
                "Away" => radix::<mode::Away>(op, a),
                "Up" => radix::<mode::Up>(op, a),
                "Down" => radix::<mode::Down>(op, a),
                "HalfEven" => radix::<mode::HalfEven>(op, a),
                "HalfAway" => radix::<mode::HalfAway>(op, a),
                other => panic!("unknown mode {}", other),
            };
        }
        "with_base" | "with_base_prec" | "to_decimal" | "to_binary" | "wb_prec" => {
            return match a[1] {
                "Zero" => conv::<mode::Zero>(op, a),
                "Away" => conv::<mode::Away>(op, a),
                "Up" => conv::<mode::Up>(op, a),
                "Down" => conv::<mode::Down>(op, a),
                "HalfEven" => conv::<mode::HalfEven>(op, a),
                "HalfAway" => conv::<mode::HalfAway>(op, a),
                other => panic!("unknown mode {}", other),
            };
        }
        _ => {}
    }
    with_float!(a[0], a[1], |R, B| {
        match op {
            "parse" => {
                let s = unhex(a[2]);
                match FBig::<R, B>::from_str(&s) {
                    Ok(v) => format!("ok {}", hval(&v)),
                    Err(e) => perr(e),
                }
            }
            "parse_native" => {
                let s = unhex(a[2]);
                #[allow(deprecated)]
                match FBig::<R, B>::from_str_native(&s) {
                    Ok(v) => format!("ok {}", hval(&v)),
                    Err(e) => perr(e),
                }
            }
            "parse_repr" => {
                let s = unhex(a[2]);
                #[allow(deprecated)]
                match Repr::<B>::from_str_native(&s) {
                    Ok((r, nd)) => format!("ok {} {:x}", hrepr(&r), nd),
                    Err(e) => perr(e),
                }
            }
            _ => {
                let repr = repr_of::<B>(a[2], a[3]);
                let x = FBig::<R, B>::from_repr(repr.clone(), Context::<R>::new(usz(a[4])));
                match op {
                    "disp" => format!("ok {}", tohex(&f_disp(&x, a[5], opt(a[6]), opt(a[7])))),
                    "disp_repr" => format!("ok {}", tohex(&f_disp(&repr, a[5], opt(a[6]), opt(a[7])))),
                    "lexp" => format!("ok {}", tohex(&f_lexp(&x, a[5], opt(a[6]), opt(a[7])))),
                    "lexp_repr" => format!("ok {}", tohex(&f_lexp(&repr, a[5], opt(a[6]), opt(a[7])))),
                    "uexp" => format!("ok {}", tohex(&f_uexp(&x, a[5], opt(a[6]), opt(a[7])))),
                    "uexp_repr" => format!("ok {}", tohex(&f_uexp(&repr, a[5], opt(a[6]), opt(a[7])))),
                    "dbg" => format!("ok {}", tohex(&format!("{:?}", x))),
                    "dbg_alt" => format!("ok {}", tohex(&format!("{:#?}", x))),
                    "dbg_repr" => format!("ok {}", tohex(&format!("{:?}", repr))),
                    "dbg_repr_alt" => format!("ok {}", tohex(&format!("{:#?}", repr))),
                    "rt" | "rt_exp" => {
                        let s = if op == "rt" { format!("{}", x) } else { format!("{:e}", x) };
                        match FBig::<R, B>::from_str(&s) {
                            Ok(v) => format!("ok {} {}", tohex(&s), hval(&v)),
                            Err(e) => format!("ok {} {}", tohex(&s), perr(e)),
                        }
                    }
                    "with_precision" => format!("ok {}", hrounded(&x.with_precision(usz(a[5])))),
                    _ => format!("unknown-op {}", op),
                }
            }
        }
    })
}

fn main() {
    serve(run);
}
