//! C17: the hand-managed integer storage is memory-safe and keeps its invariants.
//!
//! A case is a HISTORY: `hist <step> ; <step> ; ...` over a pool of 4 live `IBig` values (all zero at
//! the start).  After every step the harness prints
//!     `S <outcome> <value of the destination slot> <cap0> <len0> ... <cap3> <len3> <live> <words> <flags>`
//! where cap/len come from `verif_hooks::repr_layout_ibig`, `live`/`words` are the number of heap
//! blocks / words allocated inside dashu calls of this history that are still alive (counting
//! allocator below), `flags` are allocator-detected errors (bit 0 bad/double free, 1 LAYOUT mismatch:
//! `dealloc` / `realloc` called with a size or an alignment different from the one the block was
//! allocated with - the GlobalAlloc contract -, 2 write outside the block, 4 write after free).  At the end: `E v0 v1 v2 v3 live words flags`
//! after all four values were dropped (ledger must be back to 0 0).  Nothing is judged here.
//!
//! The guard allocator is harness code, not dashu: every block gets 64 bytes on both sides (checked at free): in front the
//! bookkeeping words, a poisoned canary word and then FOUR words directly before the block that are ZERO for most blocks
//! (a scan that runs off the front of a block of zero words - Buffer::pop_zeros - keeps going and its length underflows:
//! overflow panic in the checked profile, an absurd length otherwise) and poisoned for blocks of 4k + 3 words (code that
//! reads the word before the block as data sees garbage); behind the block 64 poisoned bytes.  Fresh memory is filled with
//! 0xCD, freed memory with 0xDD and kept in a quarantine ring (checked for writes when it leaves the ring), `realloc` always
//! moves, a request above 2^30 bytes returns null (the library's own out-of-memory path runs), a second release of a block
//! is recorded (flag bit 0) and NOT performed.
use dashu_base::{BitTest, DivRem, Gcd, PowerOfTwo, SquareRoot, UnsignedAbs};
use dashu_int::verif_hooks::repr_layout_ibig;
use hlib::*;
use std::alloc::{GlobalAlloc, Layout, System};
use std::mem::take;
use std::panic::{catch_unwind, AssertUnwindSafe};
use std::sync::atomic::{AtomicBool, AtomicIsize, AtomicUsize, Ordering::SeqCst};

// ------------------------------------------------------------------------------------------------
// guard + counting allocator
// ------------------------------------------------------------------------------------------------
const PAD: usize = 64;
const ALLOC_LIMIT: usize = 1 << 30;
const FRONT_WORDS: usize = 4; // words 4..8 of the front pad, directly before the block
const MAGIC_LIVE: usize = 0x5afe_b10c_a11c_0de5;
const MAGIC_DEAD: usize = 0xdead_b10c_dead_b10c;
static IN_OP: AtomicBool = AtomicBool::new(false);
static DLIVE: AtomicIsize = AtomicIsize::new(0);
static DWORDS: AtomicIsize = AtomicIsize::new(0);
static FLAGS: AtomicUsize = AtomicUsize::new(0);
static ALLOCS: AtomicUsize = AtomicUsize::new(0);
const QN: usize = 512;
static mut QUAR: [(usize, usize); QN] = [(0, 0); QN];
static mut QPOS: usize = 0;
static QLOCK: AtomicBool = AtomicBool::new(false);

struct Guard;

unsafe fn release(p: *mut u8, size: usize) {
    // leaving the quarantine: the body must still be 0xDD
    let body = p.add(PAD);
    for i in 0..size {
        if *body.add(i) != 0xDD {
            FLAGS.fetch_or(16, SeqCst);
            break;
        }
    }
    System.dealloc(p, Layout::from_size_align_unchecked(size + 2 * PAD, PAD));
}

unsafe impl GlobalAlloc for Guard {
    unsafe fn alloc(&self, l: Layout) -> *mut u8 {
        if l.align() > PAD {
            return System.alloc(l);
        }
        let size = l.size();
        if size > ALLOC_LIMIT {
            return std::ptr::null_mut();
        }
        let p = System.alloc(Layout::from_size_align_unchecked(size + 2 * PAD, PAD));
        if p.is_null() {
            return p;
        }
        let tagged = IN_OP.load(SeqCst);
        *(p as *mut usize) = size;
        *(p as *mut usize).add(1) = MAGIC_LIVE;
        *(p as *mut usize).add(2) = tagged as usize | l.align() << 8;
        *(p as *mut usize).add(3) = 0xA5A5_A5A5_A5A5_A5A5;
        let front: usize = if (size / 8) % 4 == 3 { 0xA5A5_A5A5_A5A5_A5A5 } else { 0 };
        for i in 0..FRONT_WORDS {
            *(p as *mut usize).add(4 + i) = front;
        }
        let body = p.add(PAD);
        std::ptr::write_bytes(body, 0xCD, size);
        std::ptr::write_bytes(body.add(size), 0xA5, PAD);
        if tagged {
            DLIVE.fetch_add(1, SeqCst);
            DWORDS.fetch_add((size / 8) as isize, SeqCst);
            ALLOCS.fetch_add(1, SeqCst);
        }
        body
    }

    unsafe fn dealloc(&self, ptr: *mut u8, l: Layout) {
        if l.align() > PAD {
            return System.dealloc(ptr, l);
        }
        let p = ptr.sub(PAD);
        let size = *(p as *mut usize);
        let magic = *(p as *mut usize).add(1);
        let tagged = *(p as *mut usize).add(2) & 0xff;
        let align = *(p as *mut usize).add(2) >> 8;
        if magic != MAGIC_LIVE {
            // double free or a pointer that was never handed out: do not touch it
            FLAGS.fetch_or(1, SeqCst);
            return;
        }
        if size != l.size() || align != l.align() {
            // freed with a layout that is not the layout of the allocation
            FLAGS.fetch_or(2, SeqCst);
        }
        if *(p as *mut usize).add(3) != 0xA5A5_A5A5_A5A5_A5A5 {
            FLAGS.fetch_or(4, SeqCst);
        }
        let front: usize = if (size / 8) % 4 == 3 { 0xA5A5_A5A5_A5A5_A5A5 } else { 0 };
        for i in 0..FRONT_WORDS {
            if *(p as *mut usize).add(4 + i) != front {
                FLAGS.fetch_or(4, SeqCst);
            }
        }
        for i in 0..PAD {
            if *ptr.add(size + i) != 0xA5 {
                FLAGS.fetch_or(4, SeqCst);
                break;
            }
        }
        *(p as *mut usize).add(1) = MAGIC_DEAD;
        std::ptr::write_bytes(ptr, 0xDD, size);
        if tagged == 1 {
            DLIVE.fetch_sub(1, SeqCst);
            DWORDS.fetch_sub((size / 8) as isize, SeqCst);
        }
        if size > (1 << 16) {
            return release(p, size);
        }
        while QLOCK.swap(true, SeqCst) {}
        let old = QUAR[QPOS];
        QUAR[QPOS] = (p as usize, size);
        QPOS = (QPOS + 1) % QN;
        QLOCK.store(false, SeqCst);
        if old.0 != 0 {
            release(old.0 as *mut u8, old.1);
        }
    }
    // realloc always moves; the layout handed in must be the layout of the allocation
    unsafe fn realloc(&self, ptr: *mut u8, l: Layout, new_size: usize) -> *mut u8 {
        if l.align() > PAD {
            return System.realloc(ptr, l, new_size);
        }
        let p = ptr.sub(PAD);
        let size = *(p as *mut usize);
        let magic = *(p as *mut usize).add(1);
        let align = *(p as *mut usize).add(2) >> 8;
        if magic != MAGIC_LIVE {
            FLAGS.fetch_or(1, SeqCst);
            return std::ptr::null_mut();
        }
        if size != l.size() || align != l.align() {
            FLAGS.fetch_or(2, SeqCst);
        }
        if new_size > ALLOC_LIMIT {
            // the request cannot be satisfied: the old block stays valid and owned by the caller (GlobalAlloc contract)
            return std::ptr::null_mut();
        }
        let new = self.alloc(Layout::from_size_align_unchecked(new_size, align));
        if !new.is_null() {
            std::ptr::copy_nonoverlapping(ptr, new, size.min(new_size));
            // release with the recorded layout: the mismatch (if any) is already flagged once
            self.dealloc(ptr, Layout::from_size_align_unchecked(size, align));
        }
        new
    }
}

// under Miri (support run of the thorough tier) the interpreter itself checks every access and every
// allocator call; the guard allocator would only hide the real block boundaries from it
#[cfg(not(miri))]
#[global_allocator]
static GLOBAL: Guard = Guard;
#[cfg(miri)]
#[allow(dead_code)]
static GLOBAL: Guard = Guard;

// ------------------------------------------------------------------------------------------------
// statics built exactly as `static_ubig!` / `static_ibig!` build them
// ------------------------------------------------------------------------------------------------
fn statics(k: usize) -> &'static IBig {
    use dashu_macros::static_ibig;
    match k {
        0 => static_ibig!(0),
        1 => static_ibig!(-0x1234),
        2 => static_ibig!(0xffffffffffffffff0000000000000001),
        3 => static_ibig!(0x1_0000000000000000_0000000000000000),
        4 => static_ibig!(-0xdeadbeef_0123456789abcdef_fedcba9876543210_00000000ffffffff),
        5 => static_ibig!(0x7_ffffffffffffffff_ffffffffffffffff_ffffffffffffffff_ffffffffffffffff_ffffffffffffffff_ffffffffffffffff_ffffffffffffffff_ffffffffffffffff),
        _ => static_ibig!(-0x1_0000000000000000_0000000000000000_0000000000000000_0000000000000000_0000000000000000_0000000000000000_0000000000000000_0000000000000000_0000000000000000_0000000000000000_0000000000000000_0000000000000001),
    }
}
fn ustatics(k: usize) -> &'static UBig {
    use dashu_macros::static_ubig;
    match k {
        0 => static_ubig!(0),
        1 => static_ubig!(0x1234),
        2 => static_ubig!(0xffffffffffffffff0000000000000001),
        3 => static_ubig!(0x1_0000000000000000_0000000000000000),
        4 => static_ubig!(0xdeadbeef_0123456789abcdef_fedcba9876543210_00000000ffffffff),
        5 => static_ubig!(0x7_ffffffffffffffff_ffffffffffffffff_ffffffffffffffff_ffffffffffffffff_ffffffffffffffff_ffffffffffffffff_ffffffffffffffff_ffffffffffffffff),
        _ => static_ubig!(0x1_0000000000000000_0000000000000000_0000000000000000_0000000000000000_0000000000000000_0000000000000000_0000000000000000_0000000000000000_0000000000000000_0000000000000000_0000000000000000_0000000000000001),
    }
}

// ------------------------------------------------------------------------------------------------
// steps
// ------------------------------------------------------------------------------------------------
type Pool = [IBig; 4];

fn mag_bytes_le(x: &str, pad: usize) -> (bool, Vec<u8>) {
    let (neg, w) = hex_words(x);
    let mut b: Vec<u8> = Vec::new();
    for v in &w {
        b.extend_from_slice(&v.to_le_bytes());
    }
    while let Some(&0) = b.last() {
        b.pop();
    }
    b.extend(std::iter::repeat(0).take(pad));
    (neg, b)
}

fn sg(neg: bool) -> Sign {
    if neg {
        Sign::Negative
    } else {
        Sign::Positive
    }
}

/// magnitude of a non-negative slot, by value (the slot becomes zero)
fn take_u(pool: &mut Pool, i: usize) -> UBig {
    UBig::try_from(take(&mut pool[i])).expect("nonneg")
}
fn ref_u(pool: &Pool, i: usize) -> &UBig {
    pool[i].as_ubig().expect("nonneg")
}

macro_rules! binop_forms {
    ($pool:expr, $form:expr, $d:expr, $a:expr, $b:expr, $take:ident, $refer:ident, $T:ty, |$x:ident, $y:ident| $e:expr, |$xa:ident, $ya:ident| $ea:expr) => {{
        let (d, a, b) = ($d, $a, $b);
        let r: $T = match $form {
            "vv" => {
                let $x = $take($pool, a);
                let $y = if a == b { $x.clone() } else { $take($pool, b) };
                $e
            }
            "vr" => {
                let $x = $take($pool, a);
                if a == b {
                    let t = $x.clone();
                    let $y = &t;
                    $e
                } else {
                    let $y = $refer($pool, b);
                    $e
                }
            }
            "rv" => {
                if a == b {
                    let $y = $take($pool, b);
                    let t = $y.clone();
                    let $x = &t;
                    $e
                } else {
                    let $y = $take($pool, b);
                    let $x = $refer($pool, a);
                    $e
                }
            }
            "rr" => {
                let $x = $refer($pool, a);
                let $y = $refer($pool, b);
                $e
            }
            "av" => {
                let mut $xa = $take($pool, a);
                let $ya = if a == b { $xa.clone() } else { $take($pool, b) };
                $ea;
                $xa
            }
            "ar" => {
                let mut $xa = $take($pool, a);
                if a == b {
                    let t = $xa.clone();
                    let $ya = &t;
                    $ea;
                } else {
                    let $ya = $refer($pool, b);
                    $ea;
                }
                $xa
            }
            other => panic!("bad form {}", other),
        };
        $pool[d] = r.into();
    }};
}

fn take_i(pool: &mut Pool, i: usize) -> IBig {
    take(&mut pool[i])
}
fn ref_i(pool: &Pool, i: usize) -> &IBig {
    &pool[i]
}

fn nonneg(pool: &Pool, idx: &[usize]) -> bool {
    idx.iter().all(|&i| pool[i] >= IBig::ZERO)
}

/// returns the destination slot, or Err("e") when a precondition of the step does not hold
fn do_step(pool: &mut Pool, t: &[&str]) -> Result<usize, &'static str> {
    let s = |i: usize| usz(t[i]);
    let op = t[0];
    match op {
        "fw" => {
            let (neg, mut w) = hex_words(t[2]);
            w.extend(std::iter::repeat(0).take(s(3)));
            pool[s(1)] = IBig::from_parts(sg(neg), UBig::from_words(&w));
            Ok(s(1))
        }
        "fle" | "fbe" => {
            let (neg, mut b) = mag_bytes_le(t[2], s(3));
            let u = if op == "fle" {
                UBig::from_le_bytes(&b)
            } else {
                b.reverse();
                UBig::from_be_bytes(&b)
            };
            pool[s(1)] = IBig::from_parts(sg(neg), u);
            Ok(s(1))
        }
        "ones" => {
            pool[s(1)] = UBig::ones(s(2)).into();
            Ok(s(1))
        }
        "dw" => {
            let (neg, w) = hex_words(t[2]);
            let lo = *w.first().unwrap_or(&0) as u128;
            let hi = *w.get(1).unwrap_or(&0) as u128;
            let u = if hi == 0 && s(3) == 1 { UBig::from_word(lo as Word) } else { UBig::from_dword(lo | hi << 64) };
            pool[s(1)] = IBig::from_parts(sg(neg), u);
            Ok(s(1))
        }
        "prim" => {
            let (neg, w) = hex_words(t[3]);
            let m = (*w.first().unwrap_or(&0) as u128) | ((*w.get(1).unwrap_or(&0) as u128) << 64);
            let v: IBig = match t[2] {
                "u8" => IBig::from(m as u8),
                "u16" => IBig::from(m as u16),
                "u32" => IBig::from(m as u32),
                "u64" => IBig::from(m as u64),
                "u128" => IBig::from(m),
                "usize" => IBig::from(m as usize),
                "i8" => IBig::from(if neg { (m as i8).wrapping_neg() } else { m as i8 }),
                "i16" => IBig::from(if neg { (m as i16).wrapping_neg() } else { m as i16 }),
                "i32" => IBig::from(if neg { (m as i32).wrapping_neg() } else { m as i32 }),
                "i64" => IBig::from(if neg { (m as i64).wrapping_neg() } else { m as i64 }),
                "i128" => IBig::from(if neg { (m as i128).wrapping_neg() } else { m as i128 }),
                _ => IBig::from(if neg { (m as isize).wrapping_neg() } else { m as isize }),
            };
            pool[s(1)] = v;
            Ok(s(1))
        }
        "st" => {
            pool[s(1)] = statics(s(2)).clone();
            Ok(s(1))
        }
        "scf" => {
            pool[s(1)].clone_from(statics(s(2)));
            Ok(s(1))
        }
        "sadd" => {
            // reference + static reference, signed
            let r = &pool[s(2)] + statics(s(3));
            pool[s(1)] = r;
            Ok(s(1))
        }
        "smul" => {
            if !nonneg(pool, &[s(2)]) {
                return Err("e");
            }
            let r = ref_u(pool, s(2)) * ustatics(s(3));
            pool[s(1)] = r.into();
            Ok(s(1))
        }
        "cl" => {
            let c = pool[s(2)].clone();
            pool[s(1)] = c;
            Ok(s(1))
        }
        "cf" => {
            let (d, src) = (s(1), s(2));
            if d == src {
                let c = pool[d].clone();
                pool[d].clone_from(&c);
            } else {
                let c = take(&mut pool[src]);
                pool[d].clone_from(&c);
                pool[src] = c;
            }
            Ok(d)
        }
        "ucf" => {
            // UBig::clone_from between magnitudes
            let (d, src) = (s(1), s(2));
            if !nonneg(pool, &[d, src]) {
                return Err("e");
            }
            let mut x = take_u(pool, d);
            if d == src {
                let c = x.clone();
                x.clone_from(&c);
            } else {
                x.clone_from(ref_u(pool, src));
            }
            pool[d] = x.into();
            Ok(d)
        }
        "dr" => {
            drop(take(&mut pool[s(1)]));
            Ok(s(1))
        }
        "mv" => {
            let v = take(&mut pool[s(2)]);
            pool[s(1)] = v;
            Ok(s(1))
        }
        "sw" => {
            pool.swap(s(1), s(2));
            Ok(s(1))
        }
        "neg" => {
            let v = take(&mut pool[s(1)]);
            pool[s(1)] = -v;
            Ok(s(1))
        }
        "negr" => {
            let v = -&pool[s(2)];
            pool[s(1)] = v;
            Ok(s(1))
        }
        "abs" => {
            let v = take(&mut pool[s(1)]);
            pool[s(1)] = dashu_base::Abs::abs(v);
            Ok(s(1))
        }
        "uadd" | "usub" | "umul" | "udiv" | "urem" | "uand" | "uor" | "uxor" | "ugcd" => {
            let (form, d, a, b) = (t[1], s(2), s(3), s(4));
            if !nonneg(pool, &[a, b]) {
                return Err("e");
            }
            match op {
                "uadd" => binop_forms!(pool, form, d, a, b, take_u, ref_u, UBig, |x, y| x + y, |x, y| x += y),
                "usub" => binop_forms!(pool, form, d, a, b, take_u, ref_u, UBig, |x, y| x - y, |x, y| x -= y),
                "umul" => binop_forms!(pool, form, d, a, b, take_u, ref_u, UBig, |x, y| x * y, |x, y| x *= y),
                "udiv" => binop_forms!(pool, form, d, a, b, take_u, ref_u, UBig, |x, y| x / y, |x, y| x /= y),
                "urem" => binop_forms!(pool, form, d, a, b, take_u, ref_u, UBig, |x, y| x % y, |x, y| x %= y),
                "uand" => binop_forms!(pool, form, d, a, b, take_u, ref_u, UBig, |x, y| x & y, |x, y| x &= y),
                "uor" => binop_forms!(pool, form, d, a, b, take_u, ref_u, UBig, |x, y| x | y, |x, y| x |= y),
                "uxor" => binop_forms!(pool, form, d, a, b, take_u, ref_u, UBig, |x, y| x ^ y, |x, y| x ^= y),
                _ => binop_forms!(pool, form, d, a, b, take_u, ref_u, UBig, |x, y| x.gcd(y), |x, y| x = x.gcd(y)),
            }
            Ok(d)
        }
        "iadd" | "isub" | "imul" | "idiv" | "irem" | "iand" | "ior" | "ixor" => {
            let (form, d, a, b) = (t[1], s(2), s(3), s(4));
            match op {
                "iadd" => binop_forms!(pool, form, d, a, b, take_i, ref_i, IBig, |x, y| x + y, |x, y| x += y),
                "isub" => binop_forms!(pool, form, d, a, b, take_i, ref_i, IBig, |x, y| x - y, |x, y| x -= y),
                "imul" => binop_forms!(pool, form, d, a, b, take_i, ref_i, IBig, |x, y| x * y, |x, y| x *= y),
                "idiv" => binop_forms!(pool, form, d, a, b, take_i, ref_i, IBig, |x, y| x / y, |x, y| x /= y),
                "irem" => binop_forms!(pool, form, d, a, b, take_i, ref_i, IBig, |x, y| x % y, |x, y| x %= y),
                "iand" => binop_forms!(pool, form, d, a, b, take_i, ref_i, IBig, |x, y| x & y, |x, y| x &= y),
                "ior" => binop_forms!(pool, form, d, a, b, take_i, ref_i, IBig, |x, y| x | y, |x, y| x |= y),
                _ => binop_forms!(pool, form, d, a, b, take_i, ref_i, IBig, |x, y| x ^ y, |x, y| x ^= y),
            }
            Ok(d)
        }
        "udivrem" => {
            // (q, r) of magnitudes by reference into d and e
            let (d, e, a, b) = (s(1), s(2), s(3), s(4));
            if !nonneg(pool, &[a, b]) || d == e {
                return Err("e");
            }
            let (q, r) = ref_u(pool, a).div_rem(ref_u(pool, b));
            pool[d] = q.into();
            pool[e] = r.into();
            Ok(d)
        }
        "shl" | "shr" => {
            let (form, d, a, n) = (t[1], s(2), s(3), s(4));
            if !nonneg(pool, &[a]) {
                return Err("e");
            }
            let r: UBig = match (op, form) {
                ("shl", "v") => take_u(pool, a) << n,
                ("shl", "r") => ref_u(pool, a) << n,
                ("shl", _) => {
                    let mut x = take_u(pool, a);
                    x <<= n;
                    x
                }
                (_, "v") => take_u(pool, a) >> n,
                (_, "r") => ref_u(pool, a) >> n,
                _ => {
                    let mut x = take_u(pool, a);
                    x >>= n;
                    x
                }
            };
            pool[d] = r.into();
            Ok(d)
        }
        "ishl" | "ishr" => {
            let (form, d, a, n) = (t[1], s(2), s(3), s(4));
            let r: IBig = match (op, form) {
                ("ishl", "v") => take_i(pool, a) << n,
                ("ishl", _) => ref_i(pool, a) << n,
                (_, "v") => take_i(pool, a) >> n,
                _ => ref_i(pool, a) >> n,
            };
            pool[d] = r;
            Ok(d)
        }
        "setbit" | "clrbit" | "chb" | "npow2" => {
            let (d, n) = (s(1), s(2));
            if !nonneg(pool, &[d]) {
                return Err("e");
            }
            let mut x = take_u(pool, d);
            match op {
                "setbit" => x.set_bit(n),
                "clrbit" => x.clear_bit(n),
                "chb" => x.clear_high_bits(n),
                _ => x = x.next_power_of_two(),
            }
            pool[d] = x.into();
            Ok(d)
        }
        "split" => {
            // (lo, hi) = x_a.split_bits(n) by value into d and e
            let (d, e, a, n) = (s(1), s(2), s(3), s(4));
            if !nonneg(pool, &[a]) || d == e {
                return Err("e");
            }
            let (lo, hi) = take_u(pool, a).split_bits(n);
            pool[d] = lo.into();
            pool[e] = hi.into();
            Ok(d)
        }
        "pow" => {
            let (d, a, e) = (s(1), s(2), s(3));
            let r = pool[a].pow(e);
            pool[d] = r;
            Ok(d)
        }
        "sqr" => {
            let (d, a) = (s(1), s(2));
            if !nonneg(pool, &[a]) {
                return Err("e");
            }
            let r = ref_u(pool, a).sqr();
            pool[d] = r.into();
            Ok(d)
        }
        "sqrt" => {
            let (d, a) = (s(1), s(2));
            if !nonneg(pool, &[a]) {
                return Err("e");
            }
            let r = ref_u(pool, a).sqrt();
            pool[d] = r.into();
            Ok(d)
        }
        "ring" => {
            // ring <kind> d a b e: arithmetic modulo |pool[b]| through fast_div::ConstDivisor, modular::Reduced and
            // the num_modular::Reducer interface.  With a modulus of >= 3 words every path into
            // Buffer::into_boxed_slice is taken (ConstLargeDivisor::new, ReducedLarge::from_ubig / one,
            // inv_large, convert_from_normalized); the ring and its elements are dropped inside the step.
            use dashu_int::fast_div::ConstDivisor;
            use num_modular::Reducer;
            let kind = t[1];
            let (d, a, b, e) = (s(2), s(3), s(4), s(5));
            let m: UBig = pool[b].clone().unsigned_abs();
            if m <= UBig::ONE && kind != "new0" {
                return Err("e");
            }
            let r: IBig = match kind {
                "new0" => {
                    // no precondition: ConstDivisor::new(0) panics (documented) after the modulus was taken
                    let ring = ConstDivisor::new(take(&mut pool[b]).unsigned_abs());
                    ring.value().into()
                }
                "cf" => {
                    // Reduced::clone_from between elements of two rings (moduli of different lengths): y2 is an element of
                    // the ring over |pool[d]| (when that is a valid modulus), it becomes a copy of x
                    let ring = ConstDivisor::new(m);
                    let x = ring.reduce(pool[a].clone());
                    let m2: UBig = pool[d].clone().unsigned_abs();
                    if m2 > UBig::ONE {
                        let ring2 = ConstDivisor::new(m2);
                        let mut y2 = ring2.reduce(0u8);
                        y2.clone_from(&x);
                        y2.residue().into()
                    } else {
                        x.residue().into()
                    }
                }
                "new" => {
                    // the modulus is moved into the divisor (slot b becomes zero) and read back
                    let ring = ConstDivisor::new(take(&mut pool[b]).unsigned_abs());
                    ring.value().into()
                }
                "res" => {
                    let ring = ConstDivisor::new(m);
                    ring.reduce(pool[a].clone()).residue().into()
                }
                "mul" => {
                    let ring = ConstDivisor::new(m);
                    let x = ring.reduce(pool[a].clone());
                    let y = ring.reduce(pool[d].clone());
                    let z = &x * &y;
                    let z2 = z.clone() + &x;
                    drop(z);
                    (z2 - y).residue().into()
                }
                "inv" => {
                    let ring = ConstDivisor::new(m);
                    let x = ring.reduce(pool[a].clone());
                    match x.inv() {
                        Some(v) => v.residue().into(),
                        None => IBig::ZERO,
                    }
                }
                "pow" => {
                    let ring = ConstDivisor::new(m);
                    ring.reduce(pool[a].clone()).pow(&UBig::from(e)).residue().into()
                }
                "rem" => {
                    let ring = ConstDivisor::new(m);
                    &pool[a] % &ring
                }
                "remv" => {
                    let ring = ConstDivisor::new(m);
                    take(&mut pool[a]) % &ring
                }
                "div" => {
                    let ring = ConstDivisor::new(m);
                    &pool[a] / &ring
                }
                "rmul" | "rinv" | "rpow" | "rneg" => {
                    let ring = <ConstDivisor as Reducer<UBig>>::new(&m);
                    let x = ring.transform(pool[a].clone().unsigned_abs());
                    let y = match kind {
                        "rmul" => {
                            let q = ring.sqr(x.clone());
                            ring.mul(&q, &x)
                        }
                        "rinv" => match ring.inv(x) {
                            Some(v) => v,
                            None => ring.transform(UBig::ZERO),
                        },
                        "rpow" => ring.pow(x, &UBig::from(e)),
                        _ => {
                            let n = ring.neg(x.clone());
                            ring.sub(&n, &ring.dbl(x))
                        }
                    };
                    Reducer::residue(&ring, y).into()
                }
                other => panic!("bad ring kind {}", other),
            };
            pool[d] = r;
            Ok(d)
        }
        "isqrt" => {
            // <IBig as SquareRoot>::sqrt: panics (documented) for a negative operand
            let (d, a) = (s(1), s(2));
            let r = pool[a].sqrt();
            pool[d] = r.into();
            Ok(d)
        }
        "sqrtrem" => {
            let (d, e, a) = (s(1), s(2), s(3));
            if !nonneg(pool, &[a]) || d == e {
                return Err("e");
            }
            let (q, r) = dashu_base::SquareRootRem::sqrt_rem(ref_u(pool, a));
            pool[d] = q.into();
            pool[e] = r.into();
            Ok(d)
        }
        "inot" => {
            let (form, d, a) = (t[1], s(2), s(3));
            let r: IBig = if form == "v" { !take_i(pool, a) } else { !ref_i(pool, a) };
            pool[d] = r;
            Ok(d)
        }
        "pstr" => {
            // IBig::from_str_radix(text, radix): the parser is the thing under test (buffer of estimated size, error exits)
            let (d, radix) = (s(1), s(2) as u32);
            match IBig::from_str_radix(t[3], radix) {
                Ok(v) => {
                    pool[d] = v;
                    Ok(d)
                }
                Err(_) => Err("perr"),
            }
        }
        "addp" | "mulp" | "subp" => {
            // arithmetic with a primitive operand, assigned in place
            let d = s(1);
            let (neg, w) = hex_words(t[3]);
            let m = *w.first().unwrap_or(&0);
            let x = &mut pool[d];
            match (op, t[2], neg) {
                ("addp", "u64", _) => *x += m as u64,
                ("addp", "u8", _) => *x += m as u8,
                ("addp", _, false) => *x += m as i64,
                ("addp", _, true) => *x += (m as i64).wrapping_neg(),
                ("subp", "u64", _) => *x -= m as u64,
                ("subp", "u8", _) => *x -= m as u8,
                ("subp", _, false) => *x -= m as i64,
                ("subp", _, true) => *x -= (m as i64).wrapping_neg(),
                (_, "u64", _) => *x *= m as u64,
                (_, "u8", _) => *x *= m as u8,
                (_, _, false) => *x *= m as i64,
                (_, _, true) => *x *= (m as i64).wrapping_neg(),
            }
            Ok(d)
        }
        "rt" => {
            // round trips through the conversions; the slot is rebuilt from the converted form
            let d = s(1);
            let x = take(&mut pool[d]);
            let y: IBig = match t[2] {
                "le" => IBig::from_le_bytes(&x.to_le_bytes()),
                "be" => IBig::from_be_bytes(&x.to_be_bytes()),
                "ule" => {
                    let (sn, m) = x.into_parts();
                    IBig::from_parts(sn, UBig::from_le_bytes(&m.to_le_bytes()))
                }
                "ube" => {
                    let (sn, m) = x.into_parts();
                    IBig::from_parts(sn, UBig::from_be_bytes(&m.to_be_bytes()))
                }
                "words" => {
                    let (sn, w) = x.as_sign_words();
                    IBig::from_parts(sn, UBig::from_words(w))
                }
                "parts" => {
                    let (sn, m) = x.into_parts();
                    IBig::from_parts(sn, m)
                }
                "str10" => IBig::from_str_radix(&x.to_string(), 10).unwrap(),
                "str16" => IBig::from_str_radix(&format!("{:x}", x), 16).unwrap(),
                "str7" => IBig::from_str_radix(&x.in_radix(7).to_string(), 7).unwrap(),
                "chunks" => {
                    let (sn, m) = x.into_parts();
                    let ch = m.to_chunks(s(3));
                    IBig::from_parts(sn, UBig::from_chunks(ch.iter(), s(3)))
                }
                "u128" => match u128::try_from(&x) {
                    Ok(v) => IBig::from(v),
                    Err(_) => x,
                },
                "i128" => match i128::try_from(&x) {
                    Ok(v) => IBig::from(v),
                    Err(_) => x,
                },
                "ubig" => match UBig::try_from(x.clone()) {
                    Ok(u) => IBig::from(u),
                    Err(_) => x,
                },
                other => panic!("bad rt {}", other),
            };
            pool[d] = y;
            Ok(d)
        }
        "rd" => {
            // read-only uses of a slot: nothing may change
            let d = s(1);
            let x = &pool[d];
            let mut h = 0usize;
            h += x.to_le_bytes().len();
            h += x.to_be_bytes().len();
            h += x.to_string().len();
            h += format!("{:#x}", x).len();
            h += x.bit_len();
            h += x.as_sign_words().1.len();
            let _ = x.to_f64();
            let _ = x.to_f32();
            h += (x.clone() == *x) as usize;
            let _ = u64::try_from(x);
            std::hint::black_box(h);
            Ok(d)
        }
        other => panic!("unknown step {}", other),
    }
}

/// `scr la lb`: the scratch memory of the product of an la-word by an lb-word operand through the size dispatch
/// mul::add_signed_mul.  Answers `ok <reserved> <needed>`: the words mul::memory_requirement_exact reserves and the
/// smallest number of words with which the kernel still runs (found by bisection with
/// verif_hooks::mul_kernel_scratch; with fewer words the bump allocator's
/// `expect("internal error: not enough memory allocated")` fires), `panic ...` when the reserved amount itself fails.
fn scratch_probe(la: usize, lb: usize) -> String {
    use dashu_int::verif_hooks::{mul_kernel_scratch, mul_scratch_words};
    let (la, lb) = if la >= lb { (la, lb) } else { (lb, la) };
    if lb == 0 || la > 20000 {
        return "err size".into();
    }
    let mut x: u64 = 0x9e37_79b9_7f4a_7c15 ^ ((la as u64) << 32 | lb as u64);
    let mut next = || {
        x ^= x << 13;
        x ^= x >> 7;
        x ^= x << 17;
        x as Word
    };
    let a: Vec<Word> = (0..la).map(|_| next()).collect();
    let b: Vec<Word> = (0..lb).map(|_| next()).collect();
    let reserved = mul_scratch_words(la + lb, la, lb);
    let works = |k: usize| -> Result<Vec<Word>, String> {
        let mut c: Vec<Word> = vec![0; la + lb];
        match catch_unwind(AssertUnwindSafe(|| {
            let _ = mul_kernel_scratch(&mut c, true, &a, &b, k);
        })) {
            Ok(()) => Ok(c),
            Err(e) => Err(if let Some(s) = e.downcast_ref::<String>() {
                s.clone()
            } else if let Some(s) = e.downcast_ref::<&str>() {
                s.to_string()
            } else {
                "?".to_string()
            }),
        }
    };
    let full = match works(reserved) {
        Ok(c) => c,
        Err(msg) => return format!("panic {}", classify_panic(&msg)),
    };
    // bisection: works(hi) holds, works(lo - 1) fails (or lo = 0)
    let (mut lo, mut hi) = (0usize, reserved);
    while lo < hi {
        let mid = lo + (hi - lo) / 2;
        match works(mid) {
            Ok(c) => {
                if c != full {
                    return "err result-depends-on-scratch".into();
                }
                hi = mid
            }
            Err(msg) => {
                if !msg.contains("not enough memory allocated") {
                    return format!("panic {}", classify_panic(&msg));
                }
                lo = mid + 1
            }
        }
    }
    format!("ok {:x} {:x}", reserved, hi)
}

fn run(op: &str, args: &[&str]) -> String {
    if op == "scr" {
        return scratch_probe(usz(args[0]), usz(args[1]));
    }
    if op != "hist" {
        return "err unknown-op".into();
    }
    let base_live = DLIVE.load(SeqCst);
    let base_words = DWORDS.load(SeqCst);
    FLAGS.store(0, SeqCst);
    let mut out = String::with_capacity(1 << 12);
    out.push_str("ok");
    {
        let mut pool: Pool = [IBig::ZERO, IBig::ZERO, IBig::ZERO, IBig::ZERO];
        for step in args.split(|t| *t == ";") {
            if step.is_empty() {
                continue;
            }
            IN_OP.store(true, SeqCst);
            let r = catch_unwind(AssertUnwindSafe(|| do_step(&mut pool, step)));
            IN_OP.store(false, SeqCst);
            let (outcome, d) = match r {
                Ok(Ok(d)) => ("ok".to_string(), d),
                Ok(Err(e)) => (e.to_string(), usize::MAX),
                Err(e) => {
                    let msg = if let Some(s) = e.downcast_ref::<String>() {
                        s.clone()
                    } else if let Some(s) = e.downcast_ref::<&str>() {
                        s.to_string()
                    } else {
                        "?".to_string()
                    };
                    drop(e);
                    (format!("p{}", classify_panic(&msg)), usize::MAX)
                }
            };
            out.push_str(" S ");
            out.push_str(&outcome);
            out.push(' ');
            if d < 4 {
                out.push_str(&hi(&pool[d]));
            } else {
                out.push('-');
            }
            for x in pool.iter() {
                let (c, l, _) = repr_layout_ibig(x);
                out.push_str(&format!(" {} {:x}", hisz(c), l));
            }
            out.push_str(&format!(
                " {} {} {:x}",
                hisz(DLIVE.load(SeqCst) - base_live),
                hisz(DWORDS.load(SeqCst) - base_words),
                FLAGS.load(SeqCst)
            ));
        }
        out.push_str(" E");
        for x in pool.iter() {
            out.push(' ');
            out.push_str(&hi(x));
        }
        IN_OP.store(true, SeqCst);
        drop(pool);
        IN_OP.store(false, SeqCst);
    }
    out.push_str(&format!(
        " {} {} {:x}",
        hisz(DLIVE.load(SeqCst) - base_live),
        hisz(DWORDS.load(SeqCst) - base_words),
        FLAGS.load(SeqCst)
    ));
    out
}

fn main() {
    serve(run);
}
