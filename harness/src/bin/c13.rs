//! C13: reduced-ring (modular) arithmetic.  One case per line: `id op args...`, integers as [-]hex.
//! The ring is built inside every case; `ctor` = n (ConstDivisor::new) | w (from_word) | d (from_dword).
use dashu_int::fast_div::ConstDivisor;
use dashu_int::modular::Reduced;
use dashu_int::{DoubleWord, IBig, UBig, Word};
use hlib::*;
use num_modular::Reducer;

fn ring(ctor: &str, m: &str) -> ConstDivisor {
    let m = ubig(m);
    match ctor {
        "w" => ConstDivisor::from_word(Word::try_from(&m).expect("from_word needs a one-word modulus")),
        "d" => ConstDivisor::from_dword(DoubleWord::try_from(&m).expect("from_dword needs a two-word modulus")),
        _ => ConstDivisor::new(m),
    }
}

/// reduce a signed case integer: non-negative values alternate between the UBig and the IBig entry
fn red<'a>(r: &'a ConstDivisor, s: &str) -> Reduced<'a> {
    if s.starts_with('-') || s.len() % 2 == 0 {
        r.reduce(ibig(s))
    } else {
        r.reduce(ubig(s))
    }
}

fn out(x: &Reduced) -> String {
    format!("ok {}", hu(&x.residue()))
}

fn reduce_prim<'a>(r: &'a ConstDivisor, ty: &str, v: &IBig) -> Reduced<'a> {
    macro_rules! go {
        ($t:ty) => {
            r.reduce(<$t>::try_from(v).expect("primitive out of range"))
        };
    }
    match ty {
        "bool" => r.reduce(!v.is_zero()),
        "u8" => go!(u8),
        "u16" => go!(u16),
        "u32" => go!(u32),
        "u64" => go!(u64),
        "u128" => go!(u128),
        "usize" => go!(usize),
        "i8" => go!(i8),
        "i16" => go!(i16),
        "i32" => go!(i32),
        "i64" => go!(i64),
        "i128" => go!(i128),
        "isize" => go!(isize),
        _ => panic!("unknown primitive type"),
    }
}

fn binop<'a>(op: &str, form: &str, x: Reduced<'a>, y: Reduced<'a>) -> Reduced<'a> {
    macro_rules! forms {
        ($o:tt, $oa:tt) => {
            match form {
                "vv" => x $o y,
                "vr" => x $o &y,
                "rv" => &x $o y,
                "rr" => &x $o &y,
                "av" => { let mut z = x; z $oa y; z }
                "ar" => { let mut z = x; z $oa &y; z }
                _ => panic!("unknown call form"),
            }
        };
    }
    match op {
        "add" => forms!(+, +=),
        "sub" => forms!(-, -=),
        "mul" => forms!(*, *=),
        "div" => forms!(/, /=),
        _ => panic!("unknown binary operator"),
    }
}

/// answer of a Reducer operation: residue of the result, whether `check` accepts it, and the raw form
fn rout(r: &ConstDivisor, t: UBig) -> String {
    let chk = Reducer::<UBig>::check(r, &t);
    let raw = hu(&t);
    format!("{} {} {}", hu(&Reducer::<UBig>::residue(r, t)), chk as u8, raw)
}

/// round 5: every `ok` answer carries the word size of the build (`wb=64`, `wb=32` under force_bits="32"); the oracle
/// evaluates the as-is models at that word size
fn run(op: &str, a: &[&str]) -> String {
    let s = run0(op, a);
    if s.starts_with("ok") {
        format!("{} wb={}", s, Word::BITS)
    } else {
        s
    }
}

fn run0(op: &str, a: &[&str]) -> String {
    match op {
        // reduce <kind> <ctor> <m> <a>   kind = u | i | primitive type
        "reduce" => {
            let r = ring(a[1], a[2]);
            let x = match a[0] {
                "u" => r.reduce(ubig(a[3])),
                "i" => r.reduce(ibig(a[3])),
                ty => reduce_prim(&r, ty, &ibig(a[3])),
            };
            format!("ok {} {}", hu(&x.residue()), hu(&x.modulus()))
        }
        // <binop> <form> <ctor> <m> <a> <b>
        "add" | "sub" | "mul" | "div" => {
            let r = ring(a[1], a[2]);
            let z = binop(op, a[0], red(&r, a[3]), red(&r, a[4]));
            format!("ok {} {}", hu(&z.residue()), hu(&z.modulus()))
        }
        // neg <v|r> <ctor> <m> <a>
        "neg" => {
            let r = ring(a[1], a[2]);
            let x = red(&r, a[3]);
            out(&if a[0] == "v" { -x } else { -&x })
        }
        "dbl" => {
            let r = ring(a[0], a[1]);
            out(&red(&r, a[2]).dbl())
        }
        "sqr" => {
            let r = ring(a[0], a[1]);
            out(&red(&r, a[2]).sqr())
        }
        // pow <ctor> <m> <a> <e>
        "pow" => {
            let r = ring(a[0], a[1]);
            out(&red(&r, a[2]).pow(&ubig(a[3])))
        }
        "inv" => {
            let r = ring(a[0], a[1]);
            match red(&r, a[2]).inv() {
                None => "ok none".to_string(),
                Some(v) => format!("ok some {}", hu(&v.residue())),
            }
        }
        // eq <ctor> <m> <a> <b>
        "eq" => {
            let r = ring(a[0], a[1]);
            format!("ok {}", (red(&r, a[2]) == red(&r, a[3])) as u8)
        }
        // clone / clone_from keep value and ring: cl <ctor> <m> <a> <b>  -> residue of (b.clone_from(a); b + a.clone())
        "cl" => {
            let r = ring(a[0], a[1]);
            let x = red(&r, a[2]);
            let mut y = red(&r, a[3]);
            y.clone_from(&x);
            out(&(y + x.clone()))
        }
        // clx <c|f> <m1> <m2> <a> <b> <c>: source x = r1.reduce(a); destination y = r2.reduce(b) in ANOTHER ConstDivisor instance
        // (any modulus); `f`: y.clone_from(&x), `c`: y = x.clone().  Afterwards y must be x: modulus, residue, ring identity
        // (y == x and y + r1.reduce(c) must not panic)
        "clx" => {
            let r1 = ConstDivisor::new(ubig(a[1]));
            let r2 = ConstDivisor::new(ubig(a[2]));
            let x = red(&r1, a[3]);
            let mut y = red(&r2, a[4]);
            if a[0] == "f" {
                y.clone_from(&x);
            } else {
                y = x.clone();
            }
            let z = red(&r1, a[5]);
            let md = hu(&y.modulus());
            let rs = hu(&y.residue());
            let e = (y == x) as u8;
            let sum = &y + &z;
            format!("ok {} {} {} {}", md, rs, e, hu(&sum.residue()))
        }
        // mix <what> <m1> <m2> <a> <b>: operands from two different ConstDivisor instances
        "mix" => {
            let r1 = ConstDivisor::new(ubig(a[1]));
            let r2 = ConstDivisor::new(ubig(a[2]));
            let x = red(&r1, a[3]);
            let y = red(&r2, a[4]);
            match a[0] {
                "eq" => format!("ok {}", (x == y) as u8),
                "add_ar" => { let mut z = x; z += &y; out(&z) }
                "sub_rv" => out(&(&x - y)),
                "mul_ar" => { let mut z = x; z *= &y; out(&z) }
                "div_ar" => { let mut z = x; z /= &y; out(&z) }
                w => out(&binop(w, "rr", x, y)),
            }
        }
        // new0 <ctor>: a zero modulus through ConstDivisor::new / from_word / from_dword / Reducer::new
        "new0" => {
            let r = match a[0] {
                "w" => ConstDivisor::from_word(0),
                "d" => ConstDivisor::from_dword(0),
                "r" => <ConstDivisor as Reducer<UBig>>::new(&UBig::ZERO),
                _ => ConstDivisor::new(UBig::ZERO),
            };
            format!("ok {}", hu(&r.value()))
        }
        // ---- the num_modular::Reducer implementation (values are in the pre-shifted form) ----
        "r_modulus" => {
            let r = <ConstDivisor as Reducer<UBig>>::new(&ubig(a[0]));
            format!("ok {}", hu(&Reducer::<UBig>::modulus(&r)))
        }
        "r_transform" => {
            let r = <ConstDivisor as Reducer<UBig>>::new(&ubig(a[0]));
            let t = r.transform(ubig(a[1]));
            format!("ok {}", rout(&r, t))
        }
        // r_check <m> <t>: is the arbitrary value t accepted as a reduced form?
        "r_check" => {
            let r = <ConstDivisor as Reducer<UBig>>::new(&ubig(a[0]));
            format!("ok {}", Reducer::<UBig>::check(&r, &ubig(a[1])) as u8)
        }
        "r_is_zero" => {
            let r = <ConstDivisor as Reducer<UBig>>::new(&ubig(a[0]));
            let t = r.transform(ubig(a[1]));
            format!("ok {}", Reducer::<UBig>::is_zero(&r, &t) as u8)
        }
        "r_add" | "r_sub" | "r_mul" => {
            let r = <ConstDivisor as Reducer<UBig>>::new(&ubig(a[0]));
            let x = r.transform(ubig(a[1]));
            let y = r.transform(ubig(a[2]));
            let z = match op {
                "r_add" => Reducer::<UBig>::add(&r, &x, &y),
                "r_sub" => Reducer::<UBig>::sub(&r, &x, &y),
                _ => Reducer::<UBig>::mul(&r, &x, &y),
            };
            format!("ok {}", rout(&r, z))
        }
        "r_dbl" | "r_neg" | "r_sqr" => {
            let r = <ConstDivisor as Reducer<UBig>>::new(&ubig(a[0]));
            let x = r.transform(ubig(a[1]));
            let z = match op {
                "r_dbl" => Reducer::<UBig>::dbl(&r, x),
                "r_neg" => Reducer::<UBig>::neg(&r, x),
                _ => Reducer::<UBig>::sqr(&r, x),
            };
            format!("ok {}", rout(&r, z))
        }
        "r_pow" => {
            let r = <ConstDivisor as Reducer<UBig>>::new(&ubig(a[0]));
            let x = r.transform(ubig(a[1]));
            let z = Reducer::<UBig>::pow(&r, x, &ubig(a[2]));
            format!("ok {}", rout(&r, z))
        }
        "r_inv" => {
            let r = <ConstDivisor as Reducer<UBig>>::new(&ubig(a[0]));
            let x = r.transform(ubig(a[1]));
            match Reducer::<UBig>::inv(&r, x) {
                None => "ok none".to_string(),
                Some(z) => format!("ok some {}", rout(&r, z)),
            }
        }
        _ => format!("unknown-op {}", op),
    }
}

fn main() {
    serve(run);
}
