//! C16: termination and panics.  Every case is one public operation applied to edge arguments; the
//! answer is only the OUTCOME CLASS: `ok`, `err <Kind>` (a refused conversion / parse), or
//! `panic <Class>`.  Hangs and crashes are detected by the runner (per-case watchdog).
//! A capping global allocator turns a runaway allocation into an `out of memory` panic / abort
//! instead of exhausting the machine.
//!
//! Case formats (integers `[-]hex`, strings `s<hex of the UTF-8 bytes>`):
//!   u.<op> / i.<op> / b.<op>      integer operations          `u.div a b`, `i.rem_p u8 a p`
//!   m.<op>                        modular ring                `m.pow modulus a e`
//!   f.<op> base mode prec ...     float operations            `f.ln a HalfEven 10 sig exp`
//!   q.<op> / r.<op>               RBig / Relaxed operations   `q.div n d n2 d2`
//!   p.<parser> ...                parsers                     `p.ubig_radix 10 s3132`
//!   d.<type>.<format> s<hex>      deserialisers               `d.ubig.json s2231...`
use dashu_base::*;
use dashu_float::round::Round;
use dashu_int::fast_div::ConstDivisor;
use hlib::*;
use std::alloc::{GlobalAlloc, Layout, System};
use std::hint::black_box as bb;
use std::io::{BufRead, Write};
use std::panic::{catch_unwind, AssertUnwindSafe};
use std::str::FromStr;
use std::sync::atomic::{AtomicUsize, Ordering::Relaxed as Rlx};

// ------------------------------------------------------------------------------------------------
// capping allocator (512 MiB per worker)
// ------------------------------------------------------------------------------------------------
struct Cap;
static USED: AtomicUsize = AtomicUsize::new(0);
const LIMIT: usize = 512 << 20;
unsafe impl GlobalAlloc for Cap {
    unsafe fn alloc(&self, l: Layout) -> *mut u8 {
        if USED.fetch_add(l.size(), Rlx) + l.size() > LIMIT {
            USED.fetch_sub(l.size(), Rlx);
            return std::ptr::null_mut();
        }
        let p = System.alloc(l);
        if p.is_null() {
            USED.fetch_sub(l.size(), Rlx);
        }
        p
    }
    unsafe fn dealloc(&self, p: *mut u8, l: Layout) {
        USED.fetch_sub(l.size(), Rlx);
        System.dealloc(p, l)
    }
}
#[global_allocator]
static A: Cap = Cap;

// ------------------------------------------------------------------------------------------------
// helpers
// ------------------------------------------------------------------------------------------------
fn s_arg(t: &str) -> String {
    let h = t.strip_prefix('s').expect("string token");
    let bytes: Vec<u8> = (0..h.len() / 2).map(|i| u8::from_str_radix(&h[2 * i..2 * i + 2], 16).expect("hex")).collect();
    String::from_utf8(bytes).expect("case strings are valid UTF-8")
}

fn b_arg(t: &str) -> Vec<u8> {
    let h = t.strip_prefix('s').expect("bytes token");
    (0..h.len() / 2).map(|i| u8::from_str_radix(&h[2 * i..2 * i + 2], 16).expect("hex")).collect()
}

fn u32a(t: &str) -> u32 {
    u32::from_str_radix(t, 16).expect("u32")
}

fn perr(e: ParseError) -> String {
    format!("err {:?}", e)
}

fn cerr(e: dashu_base::ConversionError) -> String {
    format!("err {:?}", e)
}

fn okp<T>(r: Result<T, ParseError>) -> String {
    match r {
        Ok(v) => {
            bb(&v);
            "ok".into()
        }
        Err(e) => perr(e),
    }
}

fn okc<T>(r: Result<T, dashu_base::ConversionError>) -> String {
    match r {
        Ok(v) => {
            bb(&v);
            "ok".into()
        }
        Err(e) => cerr(e),
    }
}

fn ok<T>(v: T) -> String {
    bb(&v);
    "ok".into()
}

/// the panic classes of hlib plus those only C16 distinguishes
fn classify(msg: &str) -> String {
    let table: &[(&str, &str)] = &[
        ("the greatest common divisor is not defined between zeros", "GcdZeroZero"),
        ("logarithm is not defined for non-positive", "LogOperand"),
        ("attempt to divide by zero", "DivideBy0"),
        ("attempt to calculate the remainder with a divisor of zero", "DivideBy0"),
        ("attempt to divide with overflow", "PrimOverflow"),
        ("attempt to calculate the remainder with overflow", "PrimOverflow"),
        // documented panics raised by a plain assert! instead of an error.rs helper
        ("assertion failed: chunk_bits > 0", "ChunkBitsZero"),
        ("assertion failed: precision > 0", "UnlimitedPrecision"),
        ("assertion failed: self.is_finite()", "OperateWithInf"),
        ("exponent is too large", "ExponentOverflow"),
        ("the exponent of the result is too large", "ExponentOverflow"),
        ("attempt to add with overflow", "ArithOverflow"),
        ("attempt to subtract with overflow", "ArithOverflow"),
        ("attempt to multiply with overflow", "ArithOverflow"),
        ("attempt to negate with overflow", "ArithOverflow"),
        ("attempt to shift left with overflow", "ArithOverflow"),
        ("attempt to shift right with overflow", "ArithOverflow"),
        ("called `Result::unwrap()` on an `Err` value: OutOfBounds", "UnwrapOutOfBounds"),
        ("capacity overflow", "AllocateTooMuch"),
        ("the number to be parsed is too large", "AllocateTooMuch"),
    ];
    for (pat, cls) in table {
        if msg.contains(pat) {
            return cls.to_string();
        }
    }
    hlib::classify_panic(msg)
}

macro_rules! with_prim_u {
    ($ty:expr, |$T:ident| $body:expr) => {
        match $ty {
            "u8" => { type $T = u8; $body }
            "u16" => { type $T = u16; $body }
            "u32" => { type $T = u32; $body }
            "u64" => { type $T = u64; $body }
            "u128" => { type $T = u128; $body }
            "usize" => { type $T = usize; $body }
            other => panic!("unknown unsigned type {}", other),
        }
    };
}
macro_rules! with_prim_nu {
    ($ty:expr, |$T:ident| $body:expr) => {
        match $ty {
            "u8" => { type $T = u8; $body }
            "u16" => { type $T = u16; $body }
            "u32" => { type $T = u32; $body }
            "u64" => { type $T = u64; $body }
            "u128" => { type $T = u128; $body }
            other => panic!("unknown unsigned type {}", other),
        }
    };
}
macro_rules! with_prim_i {
    ($ty:expr, |$T:ident| $body:expr) => {
        match $ty {
            "i8" => { type $T = i8; $body }
            "i16" => { type $T = i16; $body }
            "i32" => { type $T = i32; $body }
            "i64" => { type $T = i64; $body }
            "i128" => { type $T = i128; $body }
            "isize" => { type $T = isize; $body }
            other => panic!("unknown signed type {}", other),
        }
    };
}

fn pu<T: TryFrom<u128>>(t: &str) -> T {
    T::try_from(u128::from_str_radix(t, 16).expect("u128")).ok().expect("primitive in range")
}
fn pi<T: TryFrom<i128>>(t: &str) -> T {
    let v = match t.strip_prefix('-') {
        Some(b) => (u128::from_str_radix(b, 16).expect("i128") as i128).wrapping_neg(),
        None => u128::from_str_radix(t, 16).expect("i128") as i128,
    };
    T::try_from(v).ok().expect("primitive in range")
}


// ------------------------------------------------------------------------------------------------
// ownership forms: `<op>@<form>` with form in vv vr rv rr (operator / method on values and
// references) and av ar (assigning operator with an owned / borrowed right-hand side)
// ------------------------------------------------------------------------------------------------
macro_rules! op_forms {
    ($form:expr, $x:expr, $y:expr, $op:tt, $opa:tt) => {{
        let (x, y) = ($x, $y);
        match $form {
            "vv" => ok(x $op y),
            "vr" => ok(x $op &y),
            "rv" => ok(&x $op y),
            "rr" => ok(&x $op &y),
            "av" => { let mut v = x; v $opa y; ok(v) }
            "ar" => { let mut v = x; v $opa &y; ok(v) }
            _ => "unknown-op".into(),
        }
    }};
}
macro_rules! op_forms4 {
    ($form:expr, $x:expr, $y:expr, $op:tt) => {{
        let (x, y) = ($x, $y);
        match $form {
            "vv" => ok(x $op y),
            "vr" => ok(x $op &y),
            "rv" => ok(&x $op y),
            "rr" => ok(&x $op &y),
            _ => "unknown-op".into(),
        }
    }};
}
macro_rules! m_forms {
    ($form:expr, $x:expr, $y:expr, $m:ident) => {{
        let (x, y) = ($x, $y);
        match $form {
            "vv" => ok(x.$m(y)),
            "vr" => ok(x.$m(&y)),
            "rv" => ok((&x).$m(y)),
            "rr" => ok((&x).$m(&y)),
            _ => "unknown-op".into(),
        }
    }};
}
macro_rules! int_forms {
    ($op:expr, $form:expr, $x:expr, $y:expr) => {
        match $op {
            "add" => op_forms!($form, $x, $y, +, +=),
            "sub" => op_forms!($form, $x, $y, -, -=),
            "mul" => op_forms!($form, $x, $y, *, *=),
            "div" => op_forms!($form, $x, $y, /, /=),
            "rem" => op_forms!($form, $x, $y, %, %=),
            "divrem" => m_forms!($form, $x, $y, div_rem),
            "div_euclid" => m_forms!($form, $x, $y, div_euclid),
            "rem_euclid" => m_forms!($form, $x, $y, rem_euclid),
            "divrem_euclid" => m_forms!($form, $x, $y, div_rem_euclid),
            "gcd" => m_forms!($form, $x, $y, gcd),
            "gcd_ext" => m_forms!($form, $x, $y, gcd_ext),
            "divrem_assign" => {
                let (mut v, y) = ($x, $y);
                match $form {
                    "av" => { let r = v.div_rem_assign(y); ok((v, r)) }
                    "ar" => { let r = v.div_rem_assign(&y); ok((v, r)) }
                    _ => "unknown-op".into(),
                }
            }
            _ => "unknown-op".into(),
        }
    };
}

fn forms_u(op: &str, form: &str, a: &[&str]) -> String {
    int_forms!(op, form, ubig(a[0]), ubig(a[1]))
}

fn forms_i(op: &str, form: &str, a: &[&str]) -> String {
    match op {
        // mixed UBig / IBig operands
        "div_iu" => op_forms4!(form, ibig(a[0]), ubig(a[1]), /),
        "rem_iu" => op_forms4!(form, ibig(a[0]), ubig(a[1]), %),
        "div_ui" => op_forms4!(form, ubig(a[0]), ibig(a[1]), /),
        "rem_ui" => op_forms4!(form, ubig(a[0]), ibig(a[1]), %),
        "sub_ui" => op_forms4!(form, ubig(a[0]), ibig(a[1]), -),
        _ => int_forms!(op, form, ibig(a[0]), ibig(a[1])),
    }
}

fn forms_f<R: Round, const B: Word>(op: &str, form: &str, a: &[&str]) -> String {
    let ctx = Context::<R>::new(usz(a[0]));
    let x = FBig::<R, B>::from_repr(repr_of::<B>(a[1], a[2]), ctx);
    let y = FBig::<R, B>::from_repr(repr_of::<B>(a[3], a[4]), ctx);
    match op {
        "op_add" => op_forms!(form, x, y, +, +=),
        "op_sub" => op_forms!(form, x, y, -, -=),
        "op_mul" => op_forms!(form, x, y, *, *=),
        "op_div" => op_forms!(form, x, y, /, /=),
        "op_rem" => op_forms!(form, x, y, %, %=),
        _ => "unknown-op".into(),
    }
}

fn forms_q(op: &str, form: &str, a: &[&str]) -> String {
    let (x, y) = (rbig(a[0], a[1]), rbig(a[2], a[3]));
    match op {
        "add" => op_forms!(form, x, y, +, +=),
        "sub" => op_forms!(form, x, y, -, -=),
        "mul" => op_forms!(form, x, y, *, *=),
        "div" => op_forms!(form, x, y, /, /=),
        "rem" => op_forms!(form, x, y, %, %=),
        _ => "unknown-op".into(),
    }
}

fn forms_r(op: &str, form: &str, a: &[&str]) -> String {
    let (x, y) = (relaxed(a[0], a[1]), relaxed(a[2], a[3]));
    match op {
        "add" => op_forms!(form, x, y, +, +=),
        "sub" => op_forms!(form, x, y, -, -=),
        "mul" => op_forms!(form, x, y, *, *=),
        "div" => op_forms!(form, x, y, /, /=),
        "rem" => op_forms!(form, x, y, %, %=),
        _ => "unknown-op".into(),
    }
}

// ------------------------------------------------------------------------------------------------
// buffer growth at the capacity edge: u.growth <kind> <how> <pos> <value> [<offset>]
//   how  = fresh | shrunk | cloned | grown      (how the value was built: the capacity of its buffer depends on it)
//   pos  = 0..=9 selects the word index  len-1, len, len+1, (len+cap)/2, cap-2, cap-1, cap, cap+1, cap+2, 2*cap+3
//          with len / cap read through verif_hooks::repr_layout_ubig AFTER the value was built
//   kind = set_bit | clear_bit | shl | ishl | add | mulw    (operations that push words onto the buffer)
// the result is compared with the same value computed without touching the buffer under test
// ------------------------------------------------------------------------------------------------
fn growth(a: &[&str]) -> String {
    use dashu_int::verif_hooks::repr_layout_ubig;
    let (kind, how, pos) = (a[0], a[1], usz(a[2]));
    let v = ubig(a[3]);
    let off = if a.len() > 4 { usz(a[4]) % 64 } else { 63 };
    let x: UBig = match how {
        "fresh" => v.clone(),
        "shrunk" => { let k = 64 * (3 + (pos % 5)); (v.clone() << k) >> k }
        "cloned" => { let mut y = (UBig::ONE << (64 * (v.bit_len() / 64 + 9))) + UBig::ONE; y.clone_from(&v); y }
        "grown" => { let mut y = v.clone(); y += UBig::ONE << (64 * (v.bit_len() / 64 + 4)); y -= UBig::ONE << (64 * (v.bit_len() / 64 + 4)); y }
        _ => return "unknown-op".into(),
    };
    if x != v {
        panic!("growth: value changed while building it");
    }
    let (cap, len, _) = repr_layout_ubig(&x);
    let cap = cap.unsigned_abs();
    let idx = match pos {
        0 => len.saturating_sub(1), 1 => len, 2 => len + 1, 3 => (len + cap) / 2, 4 => cap.saturating_sub(2), 5 => cap.saturating_sub(1),
        6 => cap, 7 => cap + 1, 8 => cap + 2, _ => 2 * cap + 3,
    };
    let n = 64 * idx + off;
    let bit = UBig::ONE << n;
    let ok_if = |got: UBig, want: UBig| -> String { if got == want { "ok".into() } else { panic!("growth: wrong result") } };
    match kind {
        "set_bit" => { let mut y = x; y.set_bit(n); let want = if v.bit(n) { v.clone() } else { v.clone() + &bit }; ok_if(y, want) }
        "clear_bit" => { let mut y = x; y.clear_bit(n); let want = if v.bit(n) { v.clone() - &bit } else { v.clone() }; ok_if(y, want) }
        "shl" => { let sh = n.saturating_sub(v.bit_len()); let y = x << sh; ok_if(y, v.clone() * (UBig::ONE << sh)) }
        "ishl" => { let sh = n.saturating_sub(v.bit_len()); let mut y = IBig::from(x); y <<= sh; ok_if(y.unsigned_abs(), v.clone() * (UBig::ONE << sh)) }
        "add" => { let y = x + &bit; let want = if v.bit(n) { (v.clone() - &bit) + (UBig::ONE << (n + 1)) } else { &v | &bit }; ok_if(y, want) }
        "mulw" => { let y = x * u64::MAX; ok_if(y, (v.clone() << 64) - &v) }
        _ => "unknown-op".into(),
    }
}

// ------------------------------------------------------------------------------------------------
// integers
// ------------------------------------------------------------------------------------------------
fn int_u(op: &str, a: &[&str]) -> String {
    if op == "growth" {
        return growth(a);
    }
    let x = || ubig(a[0]);
    let y = || ubig(a[1]);
    let n = || usz(a[1]);
    match op {
        "add" => ok(x() + y()),
        "sub" => ok(x() - y()),
        "sub_rr" => ok(&x() - &y()),
        "sub_assign" => { let mut v = x(); v -= y(); ok(v) }
        "mul" => ok(x() * y()),
        "div" => ok(x() / y()),
        "div_rr" => ok(&x() / &y()),
        "rem" => ok(x() % y()),
        "rem_rv" => ok(&x() % y()),
        "divrem" => ok(x().div_rem(y())),
        "divrem_rr" => ok((&x()).div_rem(&y())),
        "div_euclid" => ok(x().div_euclid(y())),
        "rem_euclid" => ok(x().rem_euclid(y())),
        "divrem_euclid" => ok(x().div_rem_euclid(y())),
        "div_assign" => { let mut v = x(); v /= y(); ok(v) }
        "rem_assign" => { let mut v = x(); v %= y(); ok(v) }
        "divrem_assign" => { let mut v = x(); let r = v.div_rem_assign(y()); ok((v, r)) }
        "is_multiple_of" => ok(x().is_multiple_of(&y())),
        "gcd" => ok(x().gcd(y())),
        "gcd_rr" => ok((&x()).gcd(&y())),
        "gcd_ext" => ok(x().gcd_ext(y())),
        "gcd_ext_rr" => ok((&x()).gcd_ext(&y())),
        "sqrt" => ok(x().sqrt()),
        "cbrt" => ok(x().cbrt()),
        "sqrt_rem" => ok(x().sqrt_rem()),
        "nth_root" => ok(x().nth_root(n())),
        "ilog" => ok(x().ilog(&y())),
        "pow" => ok(x().pow(n())),
        "sqr" => ok(x().sqr()),
        "cubic" => ok(x().cubic()),
        "shl" => ok(x() << n()),
        "shr" => ok(x() >> n()),
        "shl_assign" => { let mut v = x(); v <<= n(); ok(v) }
        "shr_assign" => { let mut v = x(); v >>= n(); ok(v) }
        "bit" => ok(x().bit(n())),
        "set_bit" => { let mut v = x(); v.set_bit(n()); ok(v) }
        "clear_bit" => { let mut v = x(); v.clear_bit(n()); ok(v) }
        "split_bits" => ok(x().split_bits(n())),
        "clear_high_bits" => { let mut v = x(); v.clear_high_bits(n()); ok(v) }
        "trailing_zeros" => ok(x().trailing_zeros()),
        "trailing_ones" => ok(x().trailing_ones()),
        "count_ones" => ok(x().count_ones()),
        "count_zeros" => ok(x().count_zeros()),
        "bit_len" => ok(x().bit_len()),
        "is_power_of_two" => ok(x().is_power_of_two()),
        "next_power_of_two" => ok(x().next_power_of_two()),
        "ones" => ok(UBig::ones(usz(a[0]))),
        "log2_bounds" => ok(x().log2_bounds()),
        "log2_est" => ok(x().log2_est()),
        "in_radix" => ok(format!("{}", x().in_radix(u32a(a[1])))),
        "in_radix_fmt" => ok(format!("{:#>+12}", x().in_radix(u32a(a[1])))),
        "fmt" => ok((format!("{}", x()), format!("{:?}", x()), format!("{:#x}", x()), format!("{:#b}", x()), format!("{:o}", x()), format!("{:#X}", x()), format!("{:+010}", x()), format!("{:#?}", x()))),
        "to_chunks" => ok(x().to_chunks(n())),
        "from_chunks" => { let c = [x(), y()]; ok(UBig::from_chunks(c.iter(), usz(a[2]))) }
        "to_le_bytes" => ok(x().to_le_bytes()),
        "to_be_bytes" => ok(x().to_be_bytes()),
        "from_le_bytes" => ok(UBig::from_le_bytes(&b_arg(a[0]))),
        "from_be_bytes" => ok(UBig::from_be_bytes(&b_arg(a[0]))),
        "to_f32" => ok(x().to_f32()),
        "to_f64" => ok(x().to_f64()),
        "remove" => { let mut v = x(); let e = v.remove(&y()); ok((v, e)) }
        "cmp" => ok((x().cmp(&y()), x() == y(), x().abs_cmp(&y()))),
        "try_u8" => okc(u8::try_from(x())),
        "try_u64" => okc(u64::try_from(&x())),
        "try_i64" => okc(i64::try_from(x())),
        "try_u128" => okc(u128::try_from(x())),
        "try_usize" => okc(usize::try_from(x())),
        "try_f32" => okc(f32::try_from(x())),
        "try_f64" => okc(f64::try_from(x())),
        "from_f32" => okc(UBig::try_from(f32::from_bits(u32a(a[0])))),
        "from_f64" => okc(UBig::try_from(f64::from_bits(u64::from_str_radix(a[0], 16).expect("u64")))),
        "from_ibig" => okc(UBig::try_from(ibig(a[0]))),
        "sum" => ok([x(), y()].iter().sum::<UBig>()),
        "product" => ok([x(), y()].iter().product::<UBig>()),
        // primitive operand forms: <ty> <a> <p>
        "sub_p" => with_prim_u!(a[0], |T| ok(ubig(a[1]) - pu::<T>(a[2]))),
        "sub_p_rr" => with_prim_u!(a[0], |T| ok(&ubig(a[1]) - &pu::<T>(a[2]))),
        "p_sub" => with_prim_u!(a[0], |T| ok(pu::<T>(a[2]) - ubig(a[1]))),
        "sub_assign_p" => with_prim_u!(a[0], |T| { let mut v = ubig(a[1]); v -= pu::<T>(a[2]); ok(v) }),
        "add_p" => with_prim_u!(a[0], |T| ok(ubig(a[1]) + pu::<T>(a[2]))),
        "mul_p" => with_prim_u!(a[0], |T| ok(pu::<T>(a[2]) * ubig(a[1]))),
        "div_p" => with_prim_u!(a[0], |T| ok(ubig(a[1]) / pu::<T>(a[2]))),
        "p_div" => with_prim_u!(a[0], |T| ok(pu::<T>(a[2]) / ubig(a[1]))),
        "rem_p" => with_prim_u!(a[0], |T| ok(ubig(a[1]) % pu::<T>(a[2]))),
        "rem_p_rr" => with_prim_u!(a[0], |T| ok(&ubig(a[1]) % &pu::<T>(a[2]))),
        "divrem_p" => with_prim_u!(a[0], |T| ok(ubig(a[1]).div_rem(pu::<T>(a[2])))),
        "div_assign_p" => with_prim_u!(a[0], |T| { let mut v = ubig(a[1]); v /= pu::<T>(a[2]); ok(v) }),
        "divrem_assign_p" => with_prim_u!(a[0], |T| { let mut v = ubig(a[1]); let r = v.div_rem_assign(pu::<T>(a[2])); ok((v, r)) }),
        "and_p" => with_prim_u!(a[0], |T| ok(ubig(a[1]) & pu::<T>(a[2]))),
        "p_and" => with_prim_u!(a[0], |T| ok(pu::<T>(a[2]) & ubig(a[1]))),
        "or_p" => with_prim_u!(a[0], |T| ok(ubig(a[1]) | pu::<T>(a[2]))),
        "xor_p" => with_prim_u!(a[0], |T| ok(pu::<T>(a[2]) ^ ubig(a[1]))),
        _ => "unknown-op".into(),
    }
}

fn int_i(op: &str, a: &[&str]) -> String {
    let x = || ibig(a[0]);
    let y = || ibig(a[1]);
    let n = || usz(a[1]);
    match op {
        "add" => ok(x() + y()),
        "sub" => ok(x() - y()),
        "mul" => ok(x() * y()),
        "neg" => ok(-x()),
        "abs" => ok((x().abs(), x().unsigned_abs(), x().signum())),
        "div" => ok(x() / y()),
        "div_rr" => ok(&x() / &y()),
        "rem" => ok(x() % y()),
        "rem_vr" => ok(x() % &y()),
        "divrem" => ok(x().div_rem(y())),
        "divrem_rr" => ok((&x()).div_rem(&y())),
        "div_euclid" => ok(x().div_euclid(y())),
        "rem_euclid" => ok(x().rem_euclid(y())),
        "divrem_euclid" => ok(x().div_rem_euclid(y())),
        "divrem_euclid_rr" => ok((&x()).div_rem_euclid(&y())),
        "div_assign" => { let mut v = x(); v /= y(); ok(v) }
        "rem_assign" => { let mut v = x(); v %= y(); ok(v) }
        "divrem_assign" => { let mut v = x(); let r = v.div_rem_assign(y()); ok((v, r)) }
        "is_multiple_of" => ok(x().is_multiple_of(&y())),
        // mixed UBig / IBig forms
        "div_iu" => ok(x() / ubig(a[1])),
        "rem_iu" => ok(x() % ubig(a[1])),
        "div_ui" => ok(ubig(a[0]) / y()),
        "rem_ui" => ok(ubig(a[0]) % y()),
        "divrem_ui" => ok(ubig(a[0]).div_rem(y())),
        "divrem_iu" => ok(x().div_rem(ubig(a[1]))),
        "sub_ui" => ok(ubig(a[0]) - y()),
        "gcd" => ok(x().gcd(y())),
        "gcd_rr" => ok((&x()).gcd(&y())),
        "gcd_iu" => ok(x().gcd(ubig(a[1]))),
        "gcd_ui" => ok(ubig(a[0]).gcd(y())),
        "gcd_ext" => ok(x().gcd_ext(y())),
        "gcd_ext_rr" => ok((&x()).gcd_ext(&y())),
        "gcd_ext_iu" => ok(x().gcd_ext(ubig(a[1]))),
        "sqrt" => ok(x().sqrt()),
        "cbrt" => ok(x().cbrt()),
        "nth_root" => ok(x().nth_root(n())),
        "ilog" => ok(x().ilog(&ubig(a[1]))),
        "pow" => ok(x().pow(n())),
        "sqr" => ok(x().sqr()),
        "cubic" => ok(x().cubic()),
        "shl" => ok(x() << n()),
        "shr" => ok(x() >> n()),
        "shr_r" => ok(&x() >> n()),
        "shl_assign" => { let mut v = x(); v <<= n(); ok(v) }
        "shr_assign" => { let mut v = x(); v >>= n(); ok(v) }
        "bit" => ok(x().bit(n())),
        "trailing_zeros" => ok(x().trailing_zeros()),
        "trailing_ones" => ok(x().trailing_ones()),
        "bit_len" => ok(x().bit_len()),
        "not" => ok(!x()),
        "and" => ok(x() & y()),
        "or" => ok(x() | y()),
        "xor" => ok(x() ^ y()),
        "and_iu" => ok(x() & ubig(a[1])),
        "log2_bounds" => ok(x().log2_bounds()),
        "in_radix" => ok(format!("{}", x().in_radix(u32a(a[1])))),
        "in_radix_fmt" => ok(format!("{:_<+#9}", x().in_radix(u32a(a[1])))),
        "fmt" => ok((format!("{}", x()), format!("{:?}", x()), format!("{:#x}", x()), format!("{:#b}", x()), format!("{:o}", x()), format!("{:#X}", x()), format!("{:+010}", x()), format!("{:#?}", x()))),
        "to_le_bytes" => ok(x().to_le_bytes()),
        "to_be_bytes" => ok(x().to_be_bytes()),
        "from_le_bytes" => ok(IBig::from_le_bytes(&b_arg(a[0]))),
        "from_be_bytes" => ok(IBig::from_be_bytes(&b_arg(a[0]))),
        "to_f32" => ok(x().to_f32()),
        "to_f64" => ok(x().to_f64()),
        "cmp" => ok((x().cmp(&y()), x() == y(), x().abs_cmp(&y()))),
        "try_u8" => okc(u8::try_from(x())),
        "try_i8" => okc(i8::try_from(x())),
        "try_i64" => okc(i64::try_from(&x())),
        "try_u64" => okc(u64::try_from(x())),
        "try_i128" => okc(i128::try_from(x())),
        "try_isize" => okc(isize::try_from(x())),
        "try_f32" => okc(f32::try_from(x())),
        "try_f64" => okc(f64::try_from(x())),
        "from_f32" => okc(IBig::try_from(f32::from_bits(u32a(a[0])))),
        "from_f64" => okc(IBig::try_from(f64::from_bits(u64::from_str_radix(a[0], 16).expect("u64")))),
        "sum" => ok([x(), y()].iter().sum::<IBig>()),
        "product" => ok([x(), y()].iter().product::<IBig>()),
        // primitive operand forms, unsigned primitive: <ty> <a> <p>
        "add_pu" => with_prim_u!(a[0], |T| ok(ibig(a[1]) + pu::<T>(a[2]))),
        "sub_pu" => with_prim_u!(a[0], |T| ok(ibig(a[1]) - pu::<T>(a[2]))),
        "pu_sub" => with_prim_u!(a[0], |T| ok(pu::<T>(a[2]) - ibig(a[1]))),
        "mul_pu" => with_prim_u!(a[0], |T| ok(pu::<T>(a[2]) * ibig(a[1]))),
        "div_pu" => with_prim_u!(a[0], |T| ok(ibig(a[1]) / pu::<T>(a[2]))),
        "pu_div" => with_prim_u!(a[0], |T| ok(pu::<T>(a[2]) / ibig(a[1]))),
        "pu_div_rr" => with_prim_u!(a[0], |T| ok(&pu::<T>(a[2]) / &ibig(a[1]))),
        "rem_pu" => with_prim_u!(a[0], |T| ok(ibig(a[1]) % pu::<T>(a[2]))),
        "rem_pu_rr" => with_prim_u!(a[0], |T| ok(&ibig(a[1]) % &pu::<T>(a[2]))),
        "divrem_pu" => with_prim_u!(a[0], |T| ok(ibig(a[1]).div_rem(pu::<T>(a[2])))),
        "divrem_pu_rr" => with_prim_u!(a[0], |T| ok((&ibig(a[1])).div_rem(&pu::<T>(a[2])))),
        "div_assign_pu" => with_prim_u!(a[0], |T| { let mut v = ibig(a[1]); v /= pu::<T>(a[2]); ok(v) }),
        "divrem_assign_pu" => with_prim_u!(a[0], |T| { let mut v = ibig(a[1]); let r = v.div_rem_assign(pu::<T>(a[2])); ok((v, r)) }),
        "and_pu" => with_prim_u!(a[0], |T| ok(ibig(a[1]) & pu::<T>(a[2]))),
        "pu_and" => with_prim_u!(a[0], |T| ok(pu::<T>(a[2]) & ibig(a[1]))),
        "or_pu" => with_prim_u!(a[0], |T| ok(ibig(a[1]) | pu::<T>(a[2]))),
        // signed primitive
        "add_pi" => with_prim_i!(a[0], |T| ok(ibig(a[1]) + pi::<T>(a[2]))),
        "pi_sub" => with_prim_i!(a[0], |T| ok(pi::<T>(a[2]) - ibig(a[1]))),
        "mul_pi" => with_prim_i!(a[0], |T| ok(ibig(a[1]) * pi::<T>(a[2]))),
        "div_pi" => with_prim_i!(a[0], |T| ok(ibig(a[1]) / pi::<T>(a[2]))),
        "pi_div" => with_prim_i!(a[0], |T| ok(pi::<T>(a[2]) / ibig(a[1]))),
        "rem_pi" => with_prim_i!(a[0], |T| ok(ibig(a[1]) % pi::<T>(a[2]))),
        "divrem_pi" => with_prim_i!(a[0], |T| ok(ibig(a[1]).div_rem(pi::<T>(a[2])))),
        "div_assign_pi" => with_prim_i!(a[0], |T| { let mut v = ibig(a[1]); v /= pi::<T>(a[2]); ok(v) }),
        "divrem_assign_pi" => with_prim_i!(a[0], |T| { let mut v = ibig(a[1]); let r = v.div_rem_assign(pi::<T>(a[2])); ok((v, r)) }),
        "and_pi" => with_prim_i!(a[0], |T| ok(ibig(a[1]) & pi::<T>(a[2]))),
        "xor_pi" => with_prim_i!(a[0], |T| ok(pi::<T>(a[2]) ^ ibig(a[1]))),
        _ => "unknown-op".into(),
    }
}

/// primitives through dashu-base traits: b.<op> <ty> a b
fn base_ops(op: &str, a: &[&str]) -> String {
    match op {
        "gcd" => with_prim_u!(a[0], |T| ok(pu::<T>(a[1]).gcd(pu::<T>(a[2])))),
        "gcd_ext" => with_prim_u!(a[0], |T| ok(pu::<T>(a[1]).gcd_ext(pu::<T>(a[2])))),
        "sqrt_rem" => with_prim_nu!(a[0], |T| ok(pu::<T>(a[1]).sqrt_rem())),
        "cbrt_rem" => with_prim_nu!(a[0], |T| ok(pu::<T>(a[1]).cbrt_rem())),
        "sqrt" => with_prim_nu!(a[0], |T| ok(pu::<T>(a[1]).sqrt())),
        "cbrt" => with_prim_nu!(a[0], |T| ok(pu::<T>(a[1]).cbrt())),
        "log2_bounds" => with_prim_u!(a[0], |T| ok(pu::<T>(a[1]).log2_bounds())),
        "bit_len" => with_prim_u!(a[0], |T| ok(pu::<T>(a[1]).bit_len())),
        "divrem_euclid" => with_prim_i!(a[0], |T| ok(pi::<T>(a[1]).div_rem_euclid(pi::<T>(a[2])))),
        "divrem" => with_prim_i!(a[0], |T| ok(pi::<T>(a[1]).div_rem(pi::<T>(a[2])))),
        _ => "unknown-op".into(),
    }
}

/// modular ring: m.<op> <modulus> <a> [<b>|<e>] [<modulus2>]
fn modular(op: &str, a: &[&str]) -> String {
    if op == "new" {
        return ok(ConstDivisor::new(ubig(a[0])));
    }
    let ring = ConstDivisor::new(ubig(a[0]));
    let x = ring.reduce(ibig(a[1]));
    match op {
        "reduce" => ok(x.residue()),
        "add" => ok((x.clone() + ring.reduce(ibig(a[2]))).residue()),
        "sub" => ok((x.clone() - ring.reduce(ibig(a[2]))).residue()),
        "mul" => ok((x.clone() * ring.reduce(ibig(a[2]))).residue()),
        "div" => ok((x.clone() / ring.reduce(ibig(a[2]))).residue()),
        "div_assign" => { let mut v = x.clone(); v /= ring.reduce(ibig(a[2])); ok(v.residue()) }
        "inv" => ok(x.inv().map(|v| v.residue())),
        "neg" => ok((-x).residue()),
        "sqr" => ok(x.sqr().residue()),
        "pow" => ok(x.pow(&ubig(a[2])).residue()),
        "fmt" => ok((format!("{}", x), format!("{:?}", x), format!("{:#x}", x))),
        "eq" => ok(x == ring.reduce(ibig(a[2]))),
        // two rings
        "add2" | "sub2" | "mul2" | "div2" | "eq2" => {
            let ring2 = ConstDivisor::new(ubig(a[3]));
            let y = ring2.reduce(ibig(a[2]));
            match op {
                "add2" => ok((x + y).residue()),
                "sub2" => ok((x - y).residue()),
                "mul2" => ok((x * y).residue()),
                "div2" => ok((x / y).residue()),
                _ => ok(x == y),
            }
        }
        "rem_const" => ok(ibig(a[1]) % &ring),
        "div_const" => ok(ubig(a[1]) / &ring),
        "divrem_const" => ok(ubig(a[1]).div_rem(&ring)),
        _ => "unknown-op".into(),
    }
}

// ------------------------------------------------------------------------------------------------
// floats:  f.<op> <base> <mode> <prec> <sig> <exp> [<sig2> <exp2>] [<n>]
// ------------------------------------------------------------------------------------------------
fn fl<R: Round, const B: Word>(op: &str, a: &[&str]) -> String {
    if let Some((base, form)) = op.split_once('@') {
        return forms_f::<R, B>(base, form, a);
    }
    let p = usz(a[0]);
    let ctx = Context::<R>::new(p);
    let xr = || repr_of::<B>(a[1], a[2]);
    let yr = || repr_of::<B>(a[3], a[4]);
    let x = || FBig::<R, B>::from_repr(xr(), ctx);
    let y = || FBig::<R, B>::from_repr(yr(), ctx);
    match op {
        // context level
        "add" => ok(ctx.add(&xr(), &yr())),
        "sub" => ok(ctx.sub(&xr(), &yr())),
        "mul" => ok(ctx.mul(&xr(), &yr())),
        "div" => ok(ctx.div(&xr(), &yr())),
        "rem" => ok(ctx.rem(&xr(), &yr())),
        "sqr" => ok(ctx.sqr(&xr())),
        "cubic" => ok(ctx.cubic(&xr())),
        "sqrt" => ok(ctx.sqrt(&xr())),
        "inv" => ok(ctx.inv(&xr())),
        "powi" => ok(ctx.powi(&xr(), ibig(a[3]))),
        "powf" => ok(ctx.powf(&xr(), &yr())),
        "exp" => ok(ctx.exp(&xr())),
        "exp_m1" => ok(ctx.exp_m1(&xr())),
        "ln" => ok(ctx.ln(&xr())),
        "ln_1p" => ok(ctx.ln_1p(&xr())),
        "convert_int" => ok(ctx.convert_int::<B>(ibig(a[1]))),
        // value level
        "op_add" => ok(x() + y()),
        "op_sub" => ok(x() - y()),
        "op_sub_rr" => ok(&x() - &y()),
        "op_mul" => ok(x() * y()),
        "op_div" => ok(x() / y()),
        "op_div_rr" => ok(&x() / &y()),
        "op_rem" => ok(x() % y()),
        "op_div_assign" => { let mut v = x(); v /= y(); ok(v) }
        "op_add_assign" => { let mut v = x(); v += y(); ok(v) }
        "op_mul_assign" => { let mut v = x(); v *= y(); ok(v) }
        "div_euclid" => ok(x().div_euclid(y())),
        "rem_euclid" => ok(x().rem_euclid(y())),
        "divrem_euclid" => ok(x().div_rem_euclid(y())),
        "op_neg" => ok(-x()),
        "abs" => ok((x().abs(), x().signum(), x().sign())),
        "op_add_int" => ok(x() + ibig(a[3])),
        "op_mul_int" => ok(x() * ibig(a[3])),
        "op_div_int" => ok(x() / ibig(a[3])),
        "op_int_div" => ok(ibig(a[3]) / x()),
        "op_div_u8" => ok(x() / (usz(a[3]) as u8)),
        "op_sub_i32" => ok(x() - (isz(a[3]) as i32)),
        "v_sqr" => ok(x().sqr()),
        "v_cubic" => ok(x().cubic()),
        "v_sqrt" => ok(x().sqrt()),
        "v_inv" => ok(x().inv()),
        "v_powi" => ok(x().powi(ibig(a[3]))),
        "v_powf" => ok(x().powf(&y())),
        "v_exp" => ok(x().exp()),
        "v_exp_m1" => ok(x().exp_m1()),
        "v_ln" => ok(x().ln()),
        "v_ln_1p" => ok(x().ln_1p()),
        "shl" => ok(x() << isz(a[3])),
        "shr" => ok(x() >> isz(a[3])),
        "shl_assign" => { let mut v = x(); v <<= isz(a[3]); ok(v) }
        "shr_assign" => { let mut v = x(); v >>= isz(a[3]); ok(v) }
        "trunc" => ok(x().trunc()),
        "fract" => ok(x().fract()),
        "ceil" => ok(x().ceil()),
        "floor" => ok(x().floor()),
        "round" => ok(x().round()),
        "split_at_point" => ok(x().split_at_point()),
        "to_int" => ok(x().to_int()),
        "repr_to_int" => ok(xr().to_int()),
        "to_f32" => ok(x().to_f32()),
        "to_f64" => ok(x().to_f64()),
        "try_u8" => okc(u8::try_from(x())),
        "try_i64" => okc(i64::try_from(x())),
        "try_u128" => okc(u128::try_from(x())),
        "try_ibig" => okc(IBig::try_from(x())),
        "try_ubig" => okc(UBig::try_from(x())),
        "try_rbig" => okc(RBig::try_from(x())),
        "try_relaxed" => okc(Relaxed::try_from(x())),
        "with_precision" => ok(x().with_precision(usz(a[3]))),
        "with_rounding" => ok(x().with_rounding::<dashu_float::round::mode::HalfAway>()),
        "with_base2" => ok(x().with_base::<2>()),
        "with_base10" => ok(x().with_base::<10>()),
        "with_base3" => ok(x().with_base::<3>()),
        "with_base16" => ok(x().with_base::<16>()),
        "with_base_prec10" => ok(x().with_base_and_precision::<10>(usz(a[3]))),
        "with_base_prec2" => ok(x().with_base_and_precision::<2>(usz(a[3]))),
        "to_decimal" => ok(x().to_decimal()),
        "to_binary" => ok(x().to_binary()),
        "ulp" => ok(x().ulp()),
        "digits" => ok(x().digits()),
        "repr_digits" => ok((xr().digits(), xr().digits_ub(), xr().digits_lb())),
        "is_int" => ok((xr().is_int(), xr().is_one(), xr().is_zero(), xr().is_finite(), xr().sign())),
        "log2_bounds" => ok(xr().log2_bounds()),
        "log2_est" => ok(x().log2_est()),
        "cmp" => ok((x().cmp(&y()), x() == y(), x().partial_cmp(&y()), x().abs_cmp(&y()))),
        "cmp_int" => ok((num_order::NumOrd::num_cmp(&x(), &ibig(a[3])), num_order::NumOrd::num_eq(&x(), &ibig(a[3])))),
        "hash" => { use num_order::NumHash; let mut h = std::collections::hash_map::DefaultHasher::new(); x().num_hash(&mut h); ok(std::hash::Hasher::finish(&h)) }
        "fmt" => ok((format!("{}", x()), format!("{:?}", x()), format!("{:.3}", x()), format!("{:+012.2}", x()), format!("{:#?}", x()), format!("{:e}", x()), format!("{:E}", x()), format!("{:.0}", x()))),
        "fmt_prec" => ok(format!("{:.*}", usz(a[3]), x())),
        "repr_fmt" => ok((format!("{}", xr()), format!("{:?}", xr()))),
        "from_parts" => ok(FBig::<R, B>::from_parts(ibig(a[1]), isz(a[2]))),
        // Repr::new alone: the normalisation adds the stripped digits to the exponent (round 4, finding F14)
        "repr_new" => ok(Repr::<B>::new(ibig(a[1]), isz(a[2]))),
        "sum" => ok([x(), y()].iter().sum::<FBig<R, B>>()),
        "product" => ok([x(), y()].iter().product::<FBig<R, B>>()),
        "from_f32" => okc(FBig::<R, 2>::try_from(f32::from_bits(u32a(a[1])))),
        "from_f64" => okc(FBig::<R, 2>::try_from(f64::from_bits(u64::from_str_radix(a[1], 16).expect("u64")))),
        "from_rbig" => ok(FBig::<R, B>::from(rbig(a[1], a[2]))),
        "serde_json" => { let s = serde_json::to_string(&x()).expect("serialize"); ok(serde_json::from_str::<FBig<R, B>>(&s).is_ok()) }
        "postcard" => { let s = postcard::to_allocvec(&x()).expect("serialize"); ok(postcard::from_bytes::<FBig<R, B>>(&s).is_ok()) }
        _ => "unknown-op".into(),
    }
}

macro_rules! with_fl {
    ($base:expr, $mode:expr, $op:expr, $a:expr) => {{
        macro_rules! m {
            ($bb:literal) => {
                match $mode {
                    "Zero" => fl::<mode::Zero, $bb>($op, $a),
                    "Away" => fl::<mode::Away, $bb>($op, $a),
                    "Up" => fl::<mode::Up, $bb>($op, $a),
                    "Down" => fl::<mode::Down, $bb>($op, $a),
                    "HalfEven" => fl::<mode::HalfEven, $bb>($op, $a),
                    "HalfAway" => fl::<mode::HalfAway, $bb>($op, $a),
                    other => panic!("unknown mode {}", other),
                }
            };
        }
        match $base {
            "2" => m!(2),
            "3" => m!(3),
            "a" => m!(10),
            "10" => m!(16),
            other => panic!("unsupported base {} (hex)", other),
        }
    }};
}

// ------------------------------------------------------------------------------------------------
// rationals:  q.<op> n d [n2 d2] [k]      (r.<op> for Relaxed)
// ------------------------------------------------------------------------------------------------
fn rat(op: &str, a: &[&str]) -> String {
    if op == "from_parts" {
        return ok(RBig::from_parts(ibig(a[0]), ubig(a[1])));
    }
    if op == "from_parts_signed" {
        return ok(RBig::from_parts_signed(ibig(a[0]), ibig(a[1])));
    }
    let x = || rbig(a[0], a[1]);
    let y = || rbig(a[2], a[3]);
    match op {
        "add" => ok(x() + y()),
        "sub" => ok(x() - y()),
        "mul" => ok(x() * y()),
        "div" => ok(x() / y()),
        "div_rr" => ok(&x() / &y()),
        "rem" => ok(x() % y()),
        "div_assign" => { let mut v = x(); v /= y(); ok(v) }
        "rem_assign" => { let mut v = x(); v %= y(); ok(v) }
        "div_euclid" => ok(x().div_euclid(y())),
        "rem_euclid" => ok(x().rem_euclid(y())),
        "divrem_euclid" => ok(x().div_rem_euclid(y())),
        "div_ibig" => ok(x() / ibig(a[2])),
        "div_ubig" => ok(x() / ubig(a[2])),
        "ibig_div" => ok(ibig(a[2]) / x()),
        "ubig_div" => ok(ubig(a[2]) / x()),
        "mul_ibig" => ok(x() * ibig(a[2])),
        "add_ibig" => ok(x() + ibig(a[2])),
        "inv" => ok(x().inv()),
        "neg" => ok(-x()),
        "abs" => ok((x().abs(), x().signum(), x().sign())),
        "pow" => ok(x().pow(usz(a[2]))),
        "sqr" => ok(x().sqr()),
        "cubic" => ok(x().cubic()),
        "trunc" => ok(x().trunc()),
        "ceil" => ok(x().ceil()),
        "floor" => ok(x().floor()),
        "round" => ok(x().round()),
        "fract" => ok(x().fract()),
        "split_at_point" => ok(x().split_at_point()),
        "to_int" => ok(x().to_int()),
        "is_int" => ok((x().is_int(), x().is_one(), x().is_zero())),
        "to_f32" => ok(x().to_f32()),
        "to_f64" => ok(x().to_f64()),
        "to_f32_fast" => ok(x().to_f32_fast()),
        "to_f64_fast" => ok(x().to_f64_fast()),
        "try_f32" => okc(f32::try_from(x())),
        "try_f64" => okc(f64::try_from(x())),
        "try_ibig" => okc(IBig::try_from(x())),
        "try_ubig" => okc(UBig::try_from(x())),
        "to_float2" => ok(x().to_float::<mode::HalfEven, 2>(usz(a[2]))),
        "to_float10" => ok(x().to_float::<mode::HalfAway, 10>(usz(a[2]))),
        "from_f32" => okc(RBig::try_from(f32::from_bits(u32a(a[0])))),
        "from_f64" => okc(RBig::try_from(f64::from_bits(u64::from_str_radix(a[0], 16).expect("u64")))),
        "simplest_from_f32" => ok(RBig::simplest_from_f32(f32::from_bits(u32a(a[0])))),
        "simplest_from_f64" => ok(RBig::simplest_from_f64(f64::from_bits(u64::from_str_radix(a[0], 16).expect("u64")))),
        "next_up" => ok(x().next_up(&ubig(a[2]))),
        "next_down" => ok(x().next_down(&ubig(a[2]))),
        "nearest" => ok(x().nearest(&ubig(a[2]))),
        "simplest_in" => ok(RBig::simplest_in(x(), y())),
        "is_simpler_than" => ok(x().is_simpler_than(&y())),
        "cmp" => ok((x().cmp(&y()), x() == y(), x().abs_cmp(&y()))),
        "cmp_int" => ok(num_order::NumOrd::num_cmp(&x(), &ibig(a[2]))),
        "log2_bounds" => ok(x().log2_bounds()),
        "fmt" => ok((format!("{}", x()), format!("{:?}", x()), format!("{:#?}", x()), format!("{:+08}", x()))),
        "relax" => ok(x().relax().canonicalize()),
        "serde_json" => { let s = serde_json::to_string(&x()).expect("serialize"); ok(serde_json::from_str::<RBig>(&s).is_ok()) }
        _ => "unknown-op".into(),
    }
}

fn rlx(op: &str, a: &[&str]) -> String {
    if op == "from_parts" {
        return ok(Relaxed::from_parts(ibig(a[0]), ubig(a[1])));
    }
    if op == "from_parts_signed" {
        return ok(Relaxed::from_parts_signed(ibig(a[0]), ibig(a[1])));
    }
    let x = || relaxed(a[0], a[1]);
    let y = || relaxed(a[2], a[3]);
    match op {
        "add" => ok(x() + y()),
        "sub" => ok(x() - y()),
        "mul" => ok(x() * y()),
        "div" => ok(x() / y()),
        "rem" => ok(x() % y()),
        "div_euclid" => ok(x().div_euclid(y())),
        "rem_euclid" => ok(x().rem_euclid(y())),
        "divrem_euclid" => ok(x().div_rem_euclid(y())),
        "div_ibig" => ok(x() / ibig(a[2])),
        "ibig_div" => ok(ibig(a[2]) / x()),
        "inv" => ok(x().inv()),
        "pow" => ok(x().pow(usz(a[2]))),
        "trunc" => ok(x().trunc()),
        "ceil" => ok(x().ceil()),
        "floor" => ok(x().floor()),
        "round" => ok(x().round()),
        "fract" => ok(x().fract()),
        "to_f64" => ok(x().to_f64()),
        "to_f32_fast" => ok(x().to_f32_fast()),
        "cmp" => ok((x().cmp(&y()), x() == y())),
        "fmt" => ok((format!("{}", x()), format!("{:?}", x()))),
        "canonicalize" => ok(x().canonicalize()),
        _ => "unknown-op".into(),
    }
}

// ------------------------------------------------------------------------------------------------
// parsers and deserialisers
// ------------------------------------------------------------------------------------------------
fn parsers(op: &str, a: &[&str]) -> String {
    match op {
        "ubig" => okp(UBig::from_str(&s_arg(a[0]))),
        "ibig" => okp(IBig::from_str(&s_arg(a[0]))),
        "ubig_radix" => okp(UBig::from_str_radix(&s_arg(a[1]), u32a(a[0]))),
        "ibig_radix" => okp(IBig::from_str_radix(&s_arg(a[1]), u32a(a[0]))),
        "ubig_prefix" => okp(UBig::from_str_with_radix_prefix(&s_arg(a[0]))),
        "ibig_prefix" => okp(IBig::from_str_with_radix_prefix(&s_arg(a[0]))),
        "ubig_default" => okp(UBig::from_str_with_radix_default(&s_arg(a[1]), u32a(a[0]))),
        "ibig_default" => okp(IBig::from_str_with_radix_default(&s_arg(a[1]), u32a(a[0]))),
        "rbig" => okp(RBig::from_str(&s_arg(a[0]))),
        "relaxed" => okp(Relaxed::from_str(&s_arg(a[0]))),
        "rbig_radix" => okp(RBig::from_str_radix(&s_arg(a[1]), u32a(a[0]))),
        "relaxed_radix" => okp(Relaxed::from_str_radix(&s_arg(a[1]), u32a(a[0]))),
        "rbig_prefix" => okp(RBig::from_str_with_radix_prefix(&s_arg(a[0]))),
        "relaxed_prefix" => okp(Relaxed::from_str_with_radix_prefix(&s_arg(a[0]))),
        // floats: p.fbig <base> s..   p.repr <base> s..
        "fbig" => {
            let s = s_arg(a[1]);
            match a[0] {
                "2" => okp(FBig::<mode::Zero, 2>::from_str(&s)),
                "3" => okp(FBig::<mode::Zero, 3>::from_str(&s)),
                "8" => okp(FBig::<mode::Zero, 8>::from_str(&s)),
                "a" => okp(FBig::<mode::HalfAway, 10>::from_str(&s)),
                "10" => okp(FBig::<mode::Zero, 16>::from_str(&s)),
                "24" => okp(FBig::<mode::Zero, 36>::from_str(&s)),
                other => panic!("unsupported base {}", other),
            }
        }
        #[allow(deprecated)]
        "repr" => {
            let s = s_arg(a[1]);
            match a[0] {
                "2" => okp(Repr::<2>::from_str_native(&s)),
                "3" => okp(Repr::<3>::from_str_native(&s)),
                "8" => okp(Repr::<8>::from_str_native(&s)),
                "a" => okp(Repr::<10>::from_str_native(&s)),
                "10" => okp(Repr::<16>::from_str_native(&s)),
                "24" => okp(Repr::<36>::from_str_native(&s)),
                other => panic!("unsupported base {}", other),
            }
        }
        _ => "unknown-op".into(),
    }
}

fn de<T: serde::de::DeserializeOwned>(fmt: &str, data: &[u8]) -> String {
    match fmt {
        "json" => match serde_json::from_slice::<T>(data) {
            Ok(v) => { bb(&v); "ok".into() }
            Err(_) => "err Deserialize".into(),
        },
        "postcard" => match postcard::from_bytes::<T>(data) {
            Ok(v) => { bb(&v); "ok".into() }
            Err(_) => "err Deserialize".into(),
        },
        _ => "unknown-op".into(),
    }
}

// the struct form of a value in postcard, encoded here (not by the library's serialiser): a varint length + the
// little-endian bytes of the magnitude for the integers (IBig: even length = positive, odd = negative, padded with
// one zero byte), zigzag varint for isize, varint for usize
fn pc_varint(mut v: u128, out: &mut Vec<u8>) {
    loop {
        let b = (v & 0x7f) as u8;
        v >>= 7;
        if v == 0 {
            out.push(b);
            return;
        }
        out.push(b | 0x80);
    }
}
fn pc_int(tok: &str, signed: bool, out: &mut Vec<u8>) {
    let (neg, h) = match tok.strip_prefix('-') {
        Some(r) => (true, r),
        None => (false, tok),
    };
    let h = h.trim_start_matches('0');
    let h = if h.len() % 2 == 1 { format!("0{}", h) } else { h.to_string() };
    let mut bytes: Vec<u8> = (0..h.len() / 2).map(|i| u8::from_str_radix(&h[2 * i..2 * i + 2], 16).expect("hex")).collect();
    bytes.reverse();
    if signed && !bytes.is_empty() && ((!neg && bytes.len() % 2 == 1) || (neg && bytes.len() % 2 == 0)) {
        bytes.push(0);
    }
    pc_varint(bytes.len() as u128, out);
    out.extend_from_slice(&bytes);
}
fn pc_isize(tok: &str, out: &mut Vec<u8>) {
    let v = isz(tok) as i128;
    pc_varint(((v << 1) ^ (v >> 127)) as u128 & 0xffff_ffff_ffff_ffff, out);
}
fn struct_bytes(ty: &str, a: &[&str]) -> Vec<u8> {
    let mut out = Vec::new();
    match ty {
        "rbig" | "relaxed" => {
            pc_int(a[0], true, &mut out);
            pc_int(a[1], false, &mut out);
        }
        _ => {
            pc_int(a[0], true, &mut out);
            pc_isize(a[1], &mut out);
            if ty != "repr" {
                pc_varint(u128::from_str_radix(a[2], 16).expect("usize"), &mut out);
            }
        }
    }
    out
}

fn deser(op: &str, a: &[&str]) -> String {
    let (ty, fmt) = op.split_once('.').expect("d.<type>.<format>");
    let (fmt, data) = if fmt == "struct" { ("postcard", struct_bytes(ty, a)) } else { (fmt, b_arg(a[0])) };
    match ty {
        "ubig" => de::<UBig>(fmt, &data),
        "ibig" => de::<IBig>(fmt, &data),
        "fbig" => de::<FBig<mode::Zero, 2>>(fmt, &data),
        "dbig" => de::<FBig<mode::HalfAway, 10>>(fmt, &data),
        "tbig" => de::<FBig<mode::Zero, 3>>(fmt, &data),
        "hbig" => de::<FBig<mode::Zero, 16>>(fmt, &data),
        "repr" => de::<Repr<10>>(fmt, &data),
        "rbig" => de::<RBig>(fmt, &data),
        "relaxed" => de::<Relaxed>(fmt, &data),
        _ => "unknown-op".into(),
    }
}

fn run(op: &str, a: &[&str]) -> String {
    let (fam, name) = op.split_once('.').unwrap_or(("", op));
    if fam != "f" {
        if let Some((base, form)) = name.split_once('@') {
            return match fam {
                "u" => forms_u(base, form, a),
                "i" => forms_i(base, form, a),
                "q" => forms_q(base, form, a),
                "r" => forms_r(base, form, a),
                _ => "unknown-op".into(),
            };
        }
    }
    if fam == "T" {
        // T.<op> args: the operation twice, the faster run in microseconds (thorough tier: compared with the cost bound)
        let t0 = std::time::Instant::now();
        let r1 = run(name, a);
        let d1 = t0.elapsed();
        let t1 = std::time::Instant::now();
        let _ = run(name, a);
        let d2 = t1.elapsed();
        return format!("{} us={:x}", r1, d1.min(d2).as_micros());
    }
    match fam {
        "u" => int_u(name, a),
        "i" => int_i(name, a),
        "b" => base_ops(name, a),
        "m" => modular(name, a),
        "f" => with_fl!(a[0], a[1], name, &a[2..]),
        "q" => rat(name, a),
        "r" => rlx(name, a),
        "p" => parsers(name, a),
        "d" => deser(name, a),
        _ => "unknown-op".into(),
    }
}

fn main() {
    std::panic::set_hook(Box::new(|_| {}));
    let stdin = std::io::stdin();
    let stdout = std::io::stdout();
    let mut out = stdout.lock();
    for line in stdin.lock().lines() {
        let line = line.unwrap();
        let toks: Vec<&str> = line.split_whitespace().collect();
        if toks.len() < 2 {
            continue;
        }
        let r = catch_unwind(AssertUnwindSafe(|| run(toks[1], &toks[2..])));
        let ans = match r {
            Ok(s) => s,
            Err(e) => {
                let msg = if let Some(s) = e.downcast_ref::<String>() {
                    s.clone()
                } else if let Some(s) = e.downcast_ref::<&str>() {
                    s.to_string()
                } else {
                    "?".to_string()
                };
                format!("panic {}", classify(&msg))
            }
        };
        writeln!(out, "{} {}", toks[0], ans).unwrap();
        out.flush().unwrap();
    }
}
