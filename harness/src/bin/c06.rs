//! C06: conversions.  Floats travel as bit patterns (hex), never through a printer/parser.
//! Answers: `ok ...` / `err OutOfBounds|LossOfPrecision|Nan|Infinite` / `panic <class>`.
//! Error signs of Approximation<_, Sign>: `Eq` (Exact), `Gt` (result > exact, Positive), `Lt`.
use core::convert::TryFrom;
use dashu_base::{ConversionError, FloatEncoding};
use hlib::*;

fn cerr(e: ConversionError) -> String {
    match e {
        ConversionError::OutOfBounds => "err OutOfBounds".into(),
        ConversionError::LossOfPrecision => "err LossOfPrecision".into(),
    }
}

fn sgn(s: Sign) -> &'static str {
    match s {
        Sign::Positive => "Gt",
        Sign::Negative => "Lt",
    }
}

trait Fl: Copy {
    fn bits_hex(self) -> String;
}
impl Fl for f32 {
    fn bits_hex(self) -> String {
        format!("{:x}", self.to_bits())
    }
}
impl Fl for f64 {
    fn bits_hex(self) -> String {
        format!("{:x}", self.to_bits())
    }
}

fn happrox<F: Fl>(x: Approximation<F, Sign>) -> String {
    match x {
        Exact(v) => format!("ok {} Eq", v.bits_hex()),
        Inexact(v, s) => format!("ok {} {}", v.bits_hex(), sgn(s)),
    }
}

fn hfr<F: Fl>(x: Approximation<F, Rounding>) -> String {
    match x {
        Exact(v) => format!("ok {} Exact", v.bits_hex()),
        Inexact(v, r) => format!("ok {} {}", v.bits_hex(), rounding_str(r)),
    }
}

fn hres<T, F: Fn(&T) -> String>(r: Result<T, ConversionError>, f: F) -> String {
    match r {
        Ok(v) => format!("ok {}", f(&v)),
        Err(e) => cerr(e),
    }
}

fn f32_of(s: &str) -> f32 {
    f32::from_bits(u32::from_str_radix(s, 16).expect("f32 bits"))
}
fn f64_of(s: &str) -> f64 {
    f64::from_bits(u64::from_str_radix(s, 16).expect("f64 bits"))
}

/// every answer of the by-value and the by-reference form must agree
fn same(a: String, b: String) -> String {
    if a == b {
        a
    } else {
        format!("forms-differ {} | {}", a, b)
    }
}

macro_rules! with_uprim {
    ($name:expr, |$T:ident| $body:expr) => {
        match $name {
            "u8" => { type $T = u8; $body }
            "u16" => { type $T = u16; $body }
            "u32" => { type $T = u32; $body }
            "u64" => { type $T = u64; $body }
            "u128" => { type $T = u128; $body }
            "usize" => { type $T = usize; $body }
            o => panic!("unsigned type {}", o),
        }
    };
}
macro_rules! with_iprim {
    ($name:expr, |$T:ident| $body:expr) => {
        match $name {
            "i8" => { type $T = i8; $body }
            "i16" => { type $T = i16; $body }
            "i32" => { type $T = i32; $body }
            "i64" => { type $T = i64; $body }
            "i128" => { type $T = i128; $body }
            "isize" => { type $T = isize; $body }
            o => panic!("signed type {}", o),
        }
    };
}

fn is_signed(t: &str) -> bool {
    t.starts_with('i')
}

fn u128_of(s: &str) -> u128 {
    u128::from_str_radix(s, 16).expect("u128")
}
fn i128_of(s: &str) -> i128 {
    match s.strip_prefix('-') {
        Some(b) => (u128::from_str_radix(b, 16).expect("i128")).wrapping_neg() as i128,
        None => u128::from_str_radix(s, 16).expect("i128") as i128,
    }
}
fn hi128(v: i128) -> String {
    if v < 0 {
        format!("-{:x}", v.unsigned_abs())
    } else {
        format!("{:x}", v)
    }
}

fn run(op: &str, a: &[&str]) -> String {
    match op {
        // ---------------- primitive integers <-> UBig / IBig ----------------
        "p2u" => {
            if is_signed(a[0]) {
                with_iprim!(a[0], |T| hres(UBig::try_from(i128_of(a[1]) as T), hu))
            } else {
                with_uprim!(a[0], |T| format!("ok {}", hu(&UBig::from(u128_of(a[1]) as T))))
            }
        }
        "p2i" => {
            if is_signed(a[0]) {
                with_iprim!(a[0], |T| format!("ok {}", hi(&IBig::from(i128_of(a[1]) as T))))
            } else {
                with_uprim!(a[0], |T| format!("ok {}", hi(&IBig::from(u128_of(a[1]) as T))))
            }
        }
        "u2p" => {
            let v = ubig(a[1]);
            if is_signed(a[0]) {
                with_iprim!(a[0], |T| same(
                    hres(T::try_from(v.clone()), |x| hi128(*x as i128)),
                    hres(T::try_from(&v), |x| hi128(*x as i128))
                ))
            } else {
                with_uprim!(a[0], |T| same(
                    hres(T::try_from(v.clone()), |x| format!("{:x}", *x as u128)),
                    hres(T::try_from(&v), |x| format!("{:x}", *x as u128))
                ))
            }
        }
        "i2p" => {
            let v = ibig(a[1]);
            if is_signed(a[0]) {
                with_iprim!(a[0], |T| same(
                    hres(T::try_from(v.clone()), |x| hi128(*x as i128)),
                    hres(T::try_from(&v), |x| hi128(*x as i128))
                ))
            } else {
                with_uprim!(a[0], |T| same(
                    hres(T::try_from(v.clone()), |x| format!("{:x}", *x as u128)),
                    hres(T::try_from(&v), |x| format!("{:x}", *x as u128))
                ))
            }
        }
        "bool" => {
            let b = a[0] == "1";
            format!("ok {} {}", hu(&UBig::from(b)), hi(&IBig::from(b)))
        }
        "u2i" => format!("ok {}", hi(&IBig::from(ubig(a[0])))),
        "i2u" => hres(UBig::try_from(ibig(a[0])), hu),
        // ---------------- IEEE floats <-> integers ----------------
        "f2u" => match a[0] {
            "f32" => hres(UBig::try_from(f32_of(a[1])), hu),
            _ => hres(UBig::try_from(f64_of(a[1])), hu),
        },
        "f2i" => match a[0] {
            "f32" => hres(IBig::try_from(f32_of(a[1])), hi),
            _ => hres(IBig::try_from(f64_of(a[1])), hi),
        },
        "u2f" => match a[0] {
            "f32" => hres(f32::try_from(ubig(a[1])), |x| x.bits_hex()),
            _ => hres(f64::try_from(ubig(a[1])), |x| x.bits_hex()),
        },
        "i2f" => match a[0] {
            "f32" => hres(f32::try_from(ibig(a[1])), |x| x.bits_hex()),
            _ => hres(f64::try_from(ibig(a[1])), |x| x.bits_hex()),
        },
        "utof" => match a[0] {
            "f32" => happrox(ubig(a[1]).to_f32()),
            _ => happrox(ubig(a[1]).to_f64()),
        },
        "itof" => match a[0] {
            "f32" => happrox(ibig(a[1]).to_f32()),
            _ => happrox(ibig(a[1]).to_f64()),
        },
        "enc" => match a[0] {
            "f32" => happrox(f32::encode(i128_of(a[1]) as i32, i128_of(a[2]) as i16)),
            _ => happrox(f64::encode(i128_of(a[1]) as i64, i128_of(a[2]) as i16)),
        },
        "dec" => {
            let r = match a[0] {
                "f32" => f32_of(a[1]).decode().map(|(m, e)| (m as i128, e)),
                _ => f64_of(a[1]).decode().map(|(m, e)| (m as i128, e)),
            };
            match r {
                Ok((m, e)) => format!("ok {} {}", hi128(m), hi128(e as i128)),
                Err(core::num::FpCategory::Nan) => "err Nan".into(),
                Err(core::num::FpCategory::Infinite) => "err Infinite".into(),
                Err(_) => "err Other".into(),
            }
        }
        // ---------------- rationals ----------------
        "rtof" => {
            let (r, x) = (rbig(a[1], a[2]), relaxed(a[1], a[2]));
            match a[0] {
                "f32" => same(happrox(r.to_f32()), happrox(x.to_f32())),
                _ => same(happrox(r.to_f64()), happrox(x.to_f64())),
            }
        }
        "rtof_fast" => {
            // the two types store different fractions (Relaxed is not reduced): two answers
            let (r, x) = (rbig(a[1], a[2]), relaxed(a[1], a[2]));
            match a[0] {
                "f32" => format!("ok {} | {}", r.to_f32_fast().bits_hex(), x.to_f32_fast().bits_hex()),
                _ => format!("ok {} | {}", r.to_f64_fast().bits_hex(), x.to_f64_fast().bits_hex()),
            }
        }
        "r2f" => {
            let (r, x) = (rbig(a[1], a[2]), relaxed(a[1], a[2]));
            match a[0] {
                "f32" => same(hres(f32::try_from(r), |v| v.bits_hex()), hres(f32::try_from(x), |v| v.bits_hex())),
                _ => same(hres(f64::try_from(r), |v| v.bits_hex()), hres(f64::try_from(x), |v| v.bits_hex())),
            }
        }
        "f2r" => match a[0] {
            "f32" => same(hres(RBig::try_from(f32_of(a[1])), hq), hres(Relaxed::try_from(f32_of(a[1])), |v| hq(&v.clone().canonicalize()))),
            _ => same(hres(RBig::try_from(f64_of(a[1])), hq), hres(Relaxed::try_from(f64_of(a[1])), |v| hq(&v.clone().canonicalize()))),
        },
        // the Relaxed form is converted AS STORED (only common factors of two removed): an integer-valued 6/3 must convert
        "r2u" => same(hres(UBig::try_from(rbig(a[0], a[1])), hu), hres(UBig::try_from(relaxed(a[0], a[1])), hu)),
        "r2i" => same(hres(IBig::try_from(rbig(a[0], a[1])), hi), hres(IBig::try_from(relaxed(a[0], a[1])), hi)),
        "r2p" => {
            let r = rbig(a[1], a[2]);
            let x = relaxed(a[1], a[2]);
            if is_signed(a[0]) {
                with_iprim!(a[0], |T| same(hres(T::try_from(r), |x| hi128(*x as i128)), hres(T::try_from(x), |x| hi128(*x as i128))))
            } else {
                with_uprim!(a[0], |T| same(hres(T::try_from(r), |x| format!("{:x}", *x as u128)), hres(T::try_from(x), |x| format!("{:x}", *x as u128))))
            }
        }
        "i2r" => format!("ok {} | {}", hq(&RBig::from(ibig(a[0]))), hqr(&Relaxed::from(ibig(a[0])))),
        "u2r" => format!("ok {} | {}", hq(&RBig::from(ubig(a[0]))), hqr(&Relaxed::from(ubig(a[0])))),
        "p2r" => {
            if is_signed(a[0]) {
                with_iprim!(a[0], |T| format!("ok {}", hq(&RBig::from(i128_of(a[1]) as T))))
            } else {
                with_uprim!(a[0], |T| format!("ok {}", hq(&RBig::from(u128_of(a[1]) as T))))
            }
        }
        "rtoint" => {
            let one = |t: IBig, f: Option<(IBig, UBig)>| match f {
                None => format!("ok {} Exact", hi(&t)),
                Some((n, d)) => format!("ok {} {} {}", hi(&t), hi(&n), hu(&d)),
            };
            let x = match rbig(a[0], a[1]).to_int() {
                Exact(t) => one(t, None),
                Inexact(t, f) => one(t, Some(f.into_parts())),
            };
            let y = match relaxed(a[0], a[1]).to_int() {
                Exact(t) => one(t, None),
                Inexact(t, f) => one(t, Some(f.canonicalize().into_parts())),
            };
            same(x, y)
        }
        // RBig::to_float: `rtofl <base> <mode> <prec> <num> <den>`
        "rtofl" => with_float!(a[0], a[1], |R, B| {
            let p = usz(a[2]);
            let x: Approximation<FBig<R, B>, Rounding> = rbig(a[3], a[4]).to_float(p);
            let y: Approximation<FBig<R, B>, Rounding> = relaxed(a[3], a[4]).to_float(p);
            format!("ok {} | {}", hrounded(&x), hrounded(&y))
        }),
        // TryFrom<FBig> / TryFrom<Repr> for RBig: `fl2r <base> <sig> <exp>`
        "fl2r" => with_float!(a[0], "Zero", |R, B| {
            let r = repr_of::<B>(a[1], a[2]);
            let f = FBig::<R, B>::from_repr(r.clone(), Context::<R>::new(0));
            same(hres(RBig::try_from(r), hq), hres(RBig::try_from(f), hq))
        }),
        // ---------------- FBig ----------------
        // `fltof f32|f64 <base> <mode> <prec> <sig> <exp>`
        "fltof" => with_float!(a[1], a[2], |R, B| {
            let f = FBig::<R, B>::from_repr(repr_of::<B>(a[4], a[5]), Context::<R>::new(usz(a[3])));
            match a[0] {
                "f32" => hfr(f.to_f32()),
                _ => hfr(f.to_f64()),
            }
        }),
        // `reprtof f32|f64 <base> <sig> <exp>`
        "reprtof" => with_float!(a[1], "Zero", |R, B| {
            let _x: Option<R> = None;
            let r = repr_of::<B>(a[2], a[3]);
            match a[0] {
                "f32" => hfr(r.to_f32()),
                _ => hfr(r.to_f64()),
            }
        }),
        // `fl2f f32|f64 <mode> <sig> <exp>` (base 2)
        "fl2f" => with_float!("2", a[1], |R, B| {
            let r = repr_of::<B>(a[2], a[3]);
            let f = FBig::<R, 2>::from_repr(repr_of::<2>(a[2], a[3]), Context::<R>::new(0));
            let _ = r;
            match a[0] {
                "f32" => hres(f32::try_from(f), |v| v.bits_hex()),
                _ => hres(f64::try_from(f), |v| v.bits_hex()),
            }
        }),
        // `repr2f f32|f64 <sig> <exp>` (TryFrom<Repr<2>>)
        "repr2f" => {
            let r = repr_of::<2>(a[1], a[2]);
            match a[0] {
                "f32" => hres(f32::try_from(r), |v| v.bits_hex()),
                _ => hres(f64::try_from(r), |v| v.bits_hex()),
            }
        }
        // `f2fl f32|f64 <bits>`: TryFrom<f32> for FBig<_,2> and for Repr<2>
        "f2fl" => {
            let show = |f: &FBig<mode::Zero, 2>| format!("{} {:x}", hrepr(f.repr()), f.precision());
            let (x, y) = match a[0] {
                "f32" => (FBig::<mode::Zero, 2>::try_from(f32_of(a[1])), Repr::<2>::try_from(f32_of(a[1]))),
                _ => (FBig::<mode::Zero, 2>::try_from(f64_of(a[1])), Repr::<2>::try_from(f64_of(a[1]))),
            };
            format!("{} | {}", hres(x, show), hres(y, |r| hrepr(r)))
        }
        // `fl2i <base> <sig> <exp>`: TryFrom<FBig> for IBig and UBig
        "fl2i" => with_float!(a[0], "Zero", |R, B| {
            let f = || FBig::<R, B>::from_repr(repr_of::<B>(a[1], a[2]), Context::<R>::new(0));
            format!("{} | {}", hres(IBig::try_from(f()), hi), hres(UBig::try_from(f()), hu))
        }),
        // `fl2p <ty> <base> <sig> <exp>`
        "fl2p" => with_float!(a[1], "Zero", |R, B| {
            let f = FBig::<R, B>::from_repr(repr_of::<B>(a[2], a[3]), Context::<R>::new(0));
            if is_signed(a[0]) {
                with_iprim!(a[0], |T| hres(T::try_from(f), |x| hi128(*x as i128)))
            } else {
                with_uprim!(a[0], |T| same(
                    hres(T::try_from(f.clone()), |x| format!("{:x}", *x as u128)),
                    hres(T::try_from(f.into_repr()), |x| format!("{:x}", *x as u128))
                ))
            }
        }),
        // `i2fl <base> <int>`: From<IBig> for FBig / Repr
        "i2fl" => with_float!(a[0], "Zero", |R, B| {
            let f = FBig::<R, B>::from(ibig(a[1]));
            let r = Repr::<B>::from(ibig(a[1]));
            format!("ok {} {:x} | {}", hrepr(f.repr()), f.precision(), hrepr(&r))
        }),
        // `fltoint <base> <mode> <prec> <sig> <exp>`: FBig::to_int, Repr::to_int
        "fltoint" => with_float!(a[0], a[1], |R, B| {
            let r = repr_of::<B>(a[3], a[4]);
            let f = FBig::<R, B>::from_repr(r.clone(), Context::<R>::new(usz(a[2])));
            let sh = |x: Approximation<IBig, Rounding>| match x {
                Exact(v) => format!("{} Exact", hi(&v)),
                Inexact(v, r) => format!("{} {}", hi(&v), rounding_str(r)),
            };
            format!("ok {} | {}", sh(f.to_int()), sh(r.to_int()))
        }),
        // ---------------- Rust's own `as` casts (the contract the conversions rely on) ----------------
        // `cast_i2f f32|f64 <ty> <int>...`: (int as ty) as f32/f64, one bit pattern per value
        "cast_i2f" => {
            let mut out = Vec::new();
            for v in &a[2..] {
                let bits = if is_signed(a[1]) {
                    with_iprim!(a[1], |T| {
                        let x = i128_of(v) as T;
                        match a[0] { "f32" => (x as f32).bits_hex(), _ => (x as f64).bits_hex() }
                    })
                } else {
                    with_uprim!(a[1], |T| {
                        let x = u128_of(v) as T;
                        match a[0] { "f32" => (x as f32).bits_hex(), _ => (x as f64).bits_hex() }
                    })
                };
                out.push(bits);
            }
            format!("ok {}", out.join(" "))
        }
        // `cast_f2i <ty> f32|f64 <bits>...`: f as ty, one integer per pattern
        "cast_f2i" => {
            let mut out = Vec::new();
            for b in &a[2..] {
                let r = if is_signed(a[0]) {
                    with_iprim!(a[0], |T| match a[1] {
                        "f32" => hi128((f32_of(b) as T) as i128),
                        _ => hi128((f64_of(b) as T) as i128),
                    })
                } else {
                    with_uprim!(a[0], |T| match a[1] {
                        "f32" => format!("{:x}", (f32_of(b) as T) as u128),
                        _ => format!("{:x}", (f64_of(b) as T) as u128),
                    })
                };
                out.push(r);
            }
            format!("ok {}", out.join(" "))
        }
        _ => format!("unknown-op {}", op),
    }
}

fn main() {
    serve(run);
}
