//! C15: all call forms of an operator give the same answer; clone / clone_from.
//!
//! One case = one operation on one set of operands; EVERY call form the library offers for that
//! operation is run on the same operands (each inside its own `catch_unwind`) and the answer lists
//! `form=v,<tokens>` (returned) or `form=p,<PanicClass>` (panicked) for every form.
//! The table below is written with macros that mirror the library's macro families
//! (forward_*_binop_to_repr, impl_binop_assign_by_taking, impl_*_with_primitive, float/rational
//! helper_macros).
use dashu_base::{Abs, CubicRoot, CubicRootRem, DivEuclid, DivRem, DivRemAssign, DivRemEuclid, ExtendedGcd, Gcd, Inverse, RemEuclid, SquareRoot, SquareRootRem, UnsignedAbs};
use dashu_float::round::Rounding;
use dashu_float::round::Round;
use dashu_int::fast_div::ConstDivisor;
use dashu_int::modular::Reduced;
use hlib::*;
use std::panic::{catch_unwind, AssertUnwindSafe};

// ------------------------------------------------------------------------------------------------
// showing results
// ------------------------------------------------------------------------------------------------
trait Show {
    fn show(&self) -> String;
}
impl Show for UBig {
    fn show(&self) -> String {
        hu(self)
    }
}
impl Show for IBig {
    fn show(&self) -> String {
        hi(self)
    }
}
impl Show for String {
    fn show(&self) -> String {
        self.clone()
    }
}
impl Show for bool {
    fn show(&self) -> String {
        (*self as u8).to_string()
    }
}
macro_rules! show_unsigned { ($($t:ty)*) => {$( impl Show for $t { fn show(&self) -> String { format!("{:x}", *self) } } )*}; }
macro_rules! show_signed { ($($t:ty)*) => {$( impl Show for $t { fn show(&self) -> String {
    if *self < 0 { format!("-{:x}", (*self as i128).unsigned_abs()) } else { format!("{:x}", *self) } } } )*}; }
show_unsigned!(u8 u16 u32 u64 u128 usize);
show_signed!(i8 i16 i32 i64 i128 isize);
impl<A: Show, B: Show> Show for (A, B) {
    fn show(&self) -> String {
        format!("{},{}", self.0.show(), self.1.show())
    }
}
impl<A: Show, B: Show, C: Show> Show for (A, B, C) {
    fn show(&self) -> String {
        format!("{},{},{}", self.0.show(), self.1.show(), self.2.show())
    }
}
impl<R: Round, const B: Word> Show for FBig<R, B> {
    fn show(&self) -> String {
        let r = self.repr();
        if r.is_infinite() {
            format!("{},0,{:x}", if r.sign() == Sign::Negative { "-inf" } else { "inf" }, self.precision())
        } else {
            format!("{},{},{:x}", hi(r.significand()), hisz(r.exponent()), self.precision())
        }
    }
}
impl Show for RBig {
    fn show(&self) -> String {
        format!("{},{}", hi(self.numerator()), hu(self.denominator()))
    }
}
impl Show for Relaxed {
    fn show(&self) -> String {
        format!("{},{}", hi(self.numerator()), hu(self.denominator()))
    }
}
impl<'a> Show for Reduced<'a> {
    fn show(&self) -> String {
        hu(&self.residue())
    }
}

fn form<F: FnOnce() -> String>(name: &str, f: F) -> String {
    match catch_unwind(AssertUnwindSafe(f)) {
        Ok(s) => format!("{}=v,{}", name, s),
        Err(e) => {
            let msg = if let Some(s) = e.downcast_ref::<String>() {
                s.clone()
            } else if let Some(s) = e.downcast_ref::<&str>() {
                s.to_string()
            } else {
                "?".to_string()
            };
            format!("{}=p,{}", name, classify_panic(&msg))
        }
    }
}

// ------------------------------------------------------------------------------------------------
// the form families ($a / $b are closures building fresh operands)
// ------------------------------------------------------------------------------------------------
/// operator, val/ref x val/ref
macro_rules! own4 {
    ($out:expr, $a:ident, $b:ident, $o:tt) => {{
        $out.push(form("vv", || ($a() $o $b()).show()));
        $out.push(form("vr", || ($a() $o &$b()).show()));
        $out.push(form("rv", || (&$a() $o $b()).show()));
        $out.push(form("rr", || (&$a() $o &$b()).show()));
    }};
}
/// compound assignment, rhs by value / by reference
macro_rules! asg2 {
    ($out:expr, $a:ident, $b:ident, $o:tt) => {{
        $out.push(form("av", || { let mut z = $a(); z $o $b(); z.show() }));
        $out.push(form("ar", || { let mut z = $a(); z $o &$b(); z.show() }));
    }};
}
/// trait method, val/ref x val/ref
macro_rules! met4 {
    ($out:expr, $a:ident, $b:ident, $m:ident) => {{
        $out.push(form("m_vv", || ($a()).$m($b()).show()));
        $out.push(form("m_vr", || ($a()).$m(&$b()).show()));
        $out.push(form("m_rv", || (&$a()).$m($b()).show()));
        $out.push(form("m_rr", || (&$a()).$m(&$b()).show()));
    }};
}
/// div_rem_assign: quotient left in self, remainder returned
macro_rules! dra2 {
    ($out:expr, $a:ident, $b:ident) => {{
        $out.push(form("dra_v", || { let mut z = $a(); let r = z.div_rem_assign($b()); (z, r).show() }));
        $out.push(form("dra_r", || { let mut z = $a(); let r = z.div_rem_assign(&$b()); (z, r).show() }));
    }};
}
/// the pair (/, %) next to div_rem
macro_rules! ops_pair {
    ($out:expr, $a:ident, $b:ident) => {{
        $out.push(form("ops_vv", || ($a() / $b(), $a() % $b()).show()));
        $out.push(form("ops_rr", || (&$a() / &$b(), &$a() % &$b()).show()));
    }};
}

/// big (op) primitive: the primitive on the right, by value / by reference; `big` = the same
/// operation on the converted primitive (the form the macro forwards to)
macro_rules! prim_right {
    ($out:expr, $x:ident, $p:ident, $big:ident, $o:tt) => {{
        $out.push(form("big", || ($x() $o $big()).show()));
        $out.push(form("bv_pv", || ($x() $o $p).show()));
        $out.push(form("bv_pr", || ($x() $o &$p).show()));
        $out.push(form("br_pv", || (&$x() $o $p).show()));
        $out.push(form("br_pr", || (&$x() $o &$p).show()));
    }};
}
/// primitive (op) big
macro_rules! prim_left {
    ($out:expr, $x:ident, $p:ident, $big:ident, $o:tt) => {{
        $out.push(form("gib", || ($big() $o $x()).show()));
        $out.push(form("pv_bv", || ($p $o $x()).show()));
        $out.push(form("pr_bv", || (&$p $o $x()).show()));
        $out.push(form("pv_br", || ($p $o &$x()).show()));
        $out.push(form("pr_br", || (&$p $o &$x()).show()));
    }};
}
macro_rules! prim_asg {
    ($out:expr, $x:ident, $p:ident, $o:tt) => {{
        $out.push(form("a_pv", || { let mut z = $x(); z $o $p; z.show() }));
        $out.push(form("a_pr", || { let mut z = $x(); z $o &$p; z.show() }));
    }};
}
macro_rules! prim_divrem {
    ($out:expr, $x:ident, $p:ident, $big:ident) => {{
        $out.push(form("big", || ($x()).div_rem($big()).show()));
        $out.push(form("bv_pv", || ($x()).div_rem($p).show()));
        $out.push(form("bv_pr", || ($x()).div_rem(&$p).show()));
        $out.push(form("br_pv", || (&$x()).div_rem($p).show()));
        $out.push(form("br_pr", || (&$x()).div_rem(&$p).show()));
        $out.push(form("dra_pv", || { let mut z = $x(); let r = z.div_rem_assign($p); (z, r).show() }));
        $out.push(form("dra_pr", || { let mut z = $x(); let r = z.div_rem_assign(&$p); (z, r).show() }));
        $out.push(form("ops", || (&$x() / $p, &$x() % $p).show()));
    }};
}

/// one integer type with one primitive type: every operator the macros generate
macro_rules! int_prim_ops {
    ($out:expr, $op:expr, $x:ident, $p:ident, $big:ident) => {
        match $op {
            "add" => { prim_right!($out, $x, $p, $big, +); prim_left!($out, $x, $p, $big, +); prim_asg!($out, $x, $p, +=); }
            "sub" => { prim_right!($out, $x, $p, $big, -); prim_asg!($out, $x, $p, -=); }
            "rsub" => { prim_left!($out, $x, $p, $big, -); }
            "mul" => { prim_right!($out, $x, $p, $big, *); prim_left!($out, $x, $p, $big, *); prim_asg!($out, $x, $p, *=); }
            "div" => { prim_right!($out, $x, $p, $big, /); prim_asg!($out, $x, $p, /=); }
            "rdiv" => { prim_left!($out, $x, $p, $big, /); }
            "rem" => { prim_right!($out, $x, $p, $big, %); }
            "divrem" => { prim_divrem!($out, $x, $p, $big); }
            "and" => { prim_right!($out, $x, $p, $big, &); prim_left!($out, $x, $p, $big, &); prim_asg!($out, $x, $p, &=); }
            "or" => { prim_right!($out, $x, $p, $big, |); prim_left!($out, $x, $p, $big, |); prim_asg!($out, $x, $p, |=); }
            "xor" => { prim_right!($out, $x, $p, $big, ^); prim_left!($out, $x, $p, $big, ^); prim_asg!($out, $x, $p, ^=); }
            _ => $out.push(format!("unknown-op={}", $op)),
        }
    };
}

fn prim_u128(s: &str) -> u128 {
    u128::try_from(&ubig(s)).expect("primitive out of range")
}
fn prim_i128(s: &str) -> i128 {
    i128::try_from(&ibig(s)).expect("primitive out of range")
}

/// `up <ty> <op> <x> <p>` : UBig with an unsigned primitive
fn ubig_prim(a: &[&str]) -> Vec<String> {
    let mut out = Vec::new();
    let (ty, op, xs) = (a[0], a[1], a[2]);
    let x = || ubig(xs);
    macro_rules! go { ($t:ty) => {{
        let p: $t = <$t>::try_from(prim_u128(a[3])).expect("primitive out of range");
        let big = || UBig::from(p);
        int_prim_ops!(out, op, x, p, big)
    }}; }
    match ty {
        "u8" => go!(u8), "u16" => go!(u16), "u32" => go!(u32), "u64" => go!(u64), "u128" => go!(u128), "usize" => go!(usize),
        _ => out.push(format!("unknown-type={}", ty)),
    }
    out
}

/// `ip <ty> <op> <x> <p>` : IBig with any primitive
fn ibig_prim(a: &[&str]) -> Vec<String> {
    let mut out = Vec::new();
    let (ty, op, xs) = (a[0], a[1], a[2]);
    let x = || ibig(xs);
    macro_rules! gou { ($t:ty) => {{
        let p: $t = <$t>::try_from(prim_u128(a[3])).expect("primitive out of range");
        let big = || IBig::from(p);
        int_prim_ops!(out, op, x, p, big)
    }}; }
    macro_rules! goi { ($t:ty) => {{
        let p: $t = <$t>::try_from(prim_i128(a[3])).expect("primitive out of range");
        let big = || IBig::from(p);
        int_prim_ops!(out, op, x, p, big)
    }}; }
    match ty {
        "u8" => gou!(u8), "u16" => gou!(u16), "u32" => gou!(u32), "u64" => gou!(u64), "u128" => gou!(u128), "usize" => gou!(usize),
        "i8" => goi!(i8), "i16" => goi!(i16), "i32" => goi!(i32), "i64" => goi!(i64), "i128" => goi!(i128), "isize" => goi!(isize),
        _ => out.push(format!("unknown-type={}", ty)),
    }
    out
}

/// `uu|ii|ui|iu <op> <a> <b>`
fn int_int(kind: &str, a: &[&str]) -> Vec<String> {
    let mut out = Vec::new();
    let op = a[0];
    macro_rules! common { ($x:ident, $y:ident, $has_euclid:expr) => {
        match op {
            "add" => own4!(out, $x, $y, +),
            "sub" => own4!(out, $x, $y, -),
            "mul" => own4!(out, $x, $y, *),
            "div" => own4!(out, $x, $y, /),
            "rem" => own4!(out, $x, $y, %),
            "and" => own4!(out, $x, $y, &),
            "or" => own4!(out, $x, $y, |),
            "xor" => own4!(out, $x, $y, ^),
            "divrem" => { met4!(out, $x, $y, div_rem); ops_pair!(out, $x, $y); }
            "gcd" => met4!(out, $x, $y, gcd),
            "gcdext" => met4!(out, $x, $y, gcd_ext),
            _ => {}
        }
    }; }
    match kind {
        "uu" => {
            let x = || ubig(a[1]);
            let y = || ubig(a[2]);
            common!(x, y, true);
            match op {
                "add" => asg2!(out, x, y, +=),
                "sub" => asg2!(out, x, y, -=),
                "mul" => asg2!(out, x, y, *=),
                "div" => asg2!(out, x, y, /=),
                "rem" => asg2!(out, x, y, %=),
                "and" => asg2!(out, x, y, &=),
                "or" => asg2!(out, x, y, |=),
                "xor" => asg2!(out, x, y, ^=),
                "divrem" => dra2!(out, x, y),
                "dive" => met4!(out, x, y, div_euclid),
                "reme" => met4!(out, x, y, rem_euclid),
                "divreme" => met4!(out, x, y, div_rem_euclid),
                _ => {}
            }
        }
        "ii" => {
            let x = || ibig(a[1]);
            let y = || ibig(a[2]);
            common!(x, y, true);
            match op {
                "add" => asg2!(out, x, y, +=),
                "sub" => asg2!(out, x, y, -=),
                "mul" => asg2!(out, x, y, *=),
                "div" => asg2!(out, x, y, /=),
                "rem" => asg2!(out, x, y, %=),
                "and" => asg2!(out, x, y, &=),
                "or" => asg2!(out, x, y, |=),
                "xor" => asg2!(out, x, y, ^=),
                "divrem" => dra2!(out, x, y),
                "dive" => met4!(out, x, y, div_euclid),
                "reme" => met4!(out, x, y, rem_euclid),
                "divreme" => met4!(out, x, y, div_rem_euclid),
                _ => {}
            }
        }
        "ui" => {
            let x = || ubig(a[1]);
            let y = || ibig(a[2]);
            common!(x, y, false);
            match op {
                "rem" => asg2!(out, x, y, %=),
                "and" => asg2!(out, x, y, &=),
                _ => {}
            }
        }
        "iu" => {
            let x = || ibig(a[1]);
            let y = || ubig(a[2]);
            common!(x, y, false);
            match op {
                "add" => asg2!(out, x, y, +=),
                "sub" => asg2!(out, x, y, -=),
                "mul" => asg2!(out, x, y, *=),
                "div" => asg2!(out, x, y, /=),
                "rem" => asg2!(out, x, y, %=),
                "and" => asg2!(out, x, y, &=),
                "or" => asg2!(out, x, y, |=),
                "xor" => asg2!(out, x, y, ^=),
                _ => {}
            }
        }
        _ => {}
    }
    out
}

/// `ush|ish <shl|shr> <a> <n>`
fn int_shift(kind: &str, a: &[&str]) -> Vec<String> {
    let mut out = Vec::new();
    let n = usz(a[2]);
    macro_rules! sh { ($x:ident, $o:tt, $oa:tt) => {{
        out.push(form("v_n", || ($x() $o n).show()));
        out.push(form("r_n", || (&$x() $o n).show()));
        out.push(form("v_rn", || ($x() $o &n).show()));
        out.push(form("r_rn", || (&$x() $o &n).show()));
        out.push(form("a_n", || { let mut z = $x(); z $oa n; z.show() }));
        out.push(form("a_rn", || { let mut z = $x(); z $oa &n; z.show() }));
    }}; }
    if kind == "ush" {
        let x = || ubig(a[1]);
        if a[0] == "shl" { sh!(x, <<, <<=) } else { sh!(x, >>, >>=) }
    } else {
        let x = || ibig(a[1]);
        if a[0] == "shl" { sh!(x, <<, <<=) } else { sh!(x, >>, >>=) }
    }
    out
}

/// `cdu|cdi <div|rem|divrem> <x> <d>` : the operators taking a prepared divisor `&ConstDivisor` (integer/src/div_const.rs)
/// next to the plain operators with the same divisor
fn const_div(kind: &str, a: &[&str]) -> Vec<String> {
    let mut out = Vec::new();
    let d = ubig(a[2]);
    macro_rules! go { ($x:ident, $big:expr) => {{
        let big = || $big;
        match a[0] {
            "div" => {
                out.push(form("big", || ($x() / big()).show()));
                out.push(form("v", || { let cd = ConstDivisor::new(d.clone()); ($x() / &cd).show() }));
                out.push(form("r", || { let cd = ConstDivisor::new(d.clone()); (&$x() / &cd).show() }));
                out.push(form("a", || { let cd = ConstDivisor::new(d.clone()); let mut z = $x(); z /= &cd; z.show() }));
            }
            "rem" => {
                out.push(form("big", || ($x() % big()).show()));
                out.push(form("v", || { let cd = ConstDivisor::new(d.clone()); ($x() % &cd).show() }));
                out.push(form("r", || { let cd = ConstDivisor::new(d.clone()); (&$x() % &cd).show() }));
                out.push(form("a", || { let cd = ConstDivisor::new(d.clone()); let mut z = $x(); z %= &cd; z.show() }));
            }
            "divrem" => {
                out.push(form("big", || $x().div_rem(big()).show()));
                out.push(form("v", || { let cd = ConstDivisor::new(d.clone()); $x().div_rem(&cd).show() }));
                out.push(form("r", || { let cd = ConstDivisor::new(d.clone()); (&$x()).div_rem(&cd).show() }));
                out.push(form("a", || { let cd = ConstDivisor::new(d.clone()); let mut z = $x(); let r = z.div_rem_assign(&cd); (z, r).show() }));
            }
            _ => out.push(format!("unknown-op={}", a[0])),
        }
    }}; }
    if kind == "cdu" {
        let x = || ubig(a[1]);
        go!(x, d.clone())
    } else {
        let x = || ibig(a[1]);
        go!(x, IBig::from(d.clone()))
    }
    out
}

fn sign_of(s: &str) -> Sign {
    if s == "neg" { Sign::Negative } else { Sign::Positive }
}

/// `un <op> <a> [sign]` : unary operators and sign multiplication on integers
fn int_unary(a: &[&str]) -> Vec<String> {
    let mut out = Vec::new();
    let x = || ibig(a[1]);
    match a[0] {
        "neg" => {
            out.push(form("v", || (-x()).show()));
            out.push(form("r", || (-&x()).show()));
        }
        "uneg" => {
            let u = || ubig(a[1]);
            out.push(form("v", || (-u()).show()));
            out.push(form("r", || (-&u()).show()));
        }
        "not" => {
            out.push(form("v", || (!x()).show()));
            out.push(form("r", || (!&x()).show()));
        }
        "abs" => {
            out.push(form("v", || x().abs().show()));
            out.push(form("r", || (&x()).abs().show()));
            out.push(form("uv", || x().unsigned_abs().show()));
            out.push(form("ur", || (&x()).unsigned_abs().show()));
        }
        "mulsign" => {
            let s = sign_of(a[2]);
            out.push(form("xs", || (x() * s).show()));
            out.push(form("sx", || (s * x()).show()));
            out.push(form("as", || { let mut z = x(); z *= s; z.show() }));
        }
        "umulsign" => {
            let s = sign_of(a[2]);
            let u = || ubig(a[1]);
            out.push(form("xs", || (u() * s).show()));
            out.push(form("sx", || (s * u()).show()));
        }
        // roots: the trait methods (the only impls) next to the inherent nth_root
        "rootu" => {
            let u = || ubig(a[1]);
            out.push(form("sqrt_t", || SquareRoot::sqrt(&u()).show()));
            out.push(form("sqrt_n", || u().nth_root(2).show()));
            out.push(form("sqrtrem_t", || SquareRootRem::sqrt_rem(&u()).show()));
            out.push(form("cbrt_t", || CubicRoot::cbrt(&u()).show()));
            out.push(form("cbrt_n", || u().nth_root(3).show()));
            out.push(form("cbrtrem_t", || CubicRootRem::cbrt_rem(&u()).show()));
        }
        "rooti" => {
            out.push(form("sqrt_t", || SquareRoot::sqrt(&x()).show()));
            out.push(form("sqrt_n", || x().nth_root(2).show()));
            out.push(form("cbrt_t", || CubicRoot::cbrt(&x()).show()));
            out.push(form("cbrt_n", || x().nth_root(3).show()));
        }
        // IBig + Rounding (dashu-float): the adjustment of a rounded integer
        "addround" => {
            let r = || match a[2] { "AddOne" => Rounding::AddOne, "SubOne" => Rounding::SubOne, _ => Rounding::NoOp };
            out.push(form("v", || (x() + r()).show()));
            out.push(form("r", || (&x() + r()).show()));
            out.push(form("a", || { let mut z = x(); z += r(); z.show() }));
        }
        // pow (inherent) next to the Product of n copies and the explicit fold
        "upow" => {
            let u = || ubig(a[1]);
            let n = usz(a[2]);
            out.push(form("m", || u().pow(n).show()));
            out.push(form("prod_v", || core::iter::repeat(u()).take(n).product::<UBig>().show()));
            out.push(form("prod_r", || { let b = u(); core::iter::repeat(&b).take(n).product::<UBig>().show() }));
            out.push(form("fold", || { let b = u(); let mut acc = UBig::ONE; for _ in 0..n { acc *= &b; } acc.show() }));
        }
        "ipow" => {
            let n = usz(a[2]);
            out.push(form("m", || x().pow(n).show()));
            out.push(form("prod_v", || core::iter::repeat(x()).take(n).product::<IBig>().show()));
            out.push(form("prod_r", || { let b = x(); core::iter::repeat(&b).take(n).product::<IBig>().show() }));
            out.push(form("fold", || { let b = x(); let mut acc = IBig::ONE; for _ in 0..n { acc *= &b; } acc.show() }));
        }
        _ => out.push(format!("unknown-op={}", a[0])),
    }
    out
}

// ------------------------------------------------------------------------------------------------
// floats
// ------------------------------------------------------------------------------------------------
fn fmake<R: Round, const B: Word>(p: &str, s: &str, e: &str) -> FBig<R, B> {
    FBig::from_repr(repr_of::<B>(s, e), Context::<R>::new(usz(p)))
}

/// `f <op> <base> <mode> <p1> <s1> <e1> <p2> <s2> <e2>`
fn float_bin<R: Round, const B: Word>(op: &str, a: &[&str]) -> Vec<String> {
    let mut out = Vec::new();
    let x = || fmake::<R, B>(a[0], a[1], a[2]);
    let y = || fmake::<R, B>(a[3], a[4], a[5]);
    let ctx = || Context::max(x().context(), y().context());
    match op {
        "add" => { own4!(out, x, y, +); asg2!(out, x, y, +=); out.push(form("ctx", || ctx().add(x().repr(), y().repr()).value().show())); }
        "sub" => { own4!(out, x, y, -); asg2!(out, x, y, -=); out.push(form("ctx", || ctx().sub(x().repr(), y().repr()).value().show())); }
        "mul" => { own4!(out, x, y, *); asg2!(out, x, y, *=); out.push(form("ctx", || ctx().mul(x().repr(), y().repr()).value().show())); }
        "div" => { own4!(out, x, y, /); asg2!(out, x, y, /=); out.push(form("ctx", || ctx().div(x().repr(), y().repr()).value().show())); }
        "rem" => { own4!(out, x, y, %); asg2!(out, x, y, %=); out.push(form("ctx", || ctx().rem(x().repr(), y().repr()).value().show())); }
        "dive" => met4!(out, x, y, div_euclid),
        "reme" => met4!(out, x, y, rem_euclid),
        "divreme" => met4!(out, x, y, div_rem_euclid),
        _ => out.push(format!("unknown-op={}", op)),
    }
    out
}

/// `f mul <4|8> <mode> ...` : the forms of `*` only, in the power-of-two bases 4 and 8
fn float_mul_only<R: Round, const B: Word>(op: &str, a: &[&str]) -> Vec<String> {
    let mut out = Vec::new();
    let x = || fmake::<R, B>(a[0], a[1], a[2]);
    let y = || fmake::<R, B>(a[3], a[4], a[5]);
    let ctx = || Context::max(x().context(), y().context());
    match op {
        "mul" => { own4!(out, x, y, *); asg2!(out, x, y, *=); out.push(form("ctx", || ctx().mul(x().repr(), y().repr()).value().show())); }
        _ => out.push(format!("unknown-op={}", op)),
    }
    out
}

/// `fsh <shl|shr> <base> <mode> <p> <s> <e> <n>`
fn float_shift<R: Round, const B: Word>(op: &str, a: &[&str]) -> Vec<String> {
    let mut out = Vec::new();
    let x = || fmake::<R, B>(a[0], a[1], a[2]);
    let n = isz(a[3]);
    if op == "shl" {
        out.push(form("v", || (x() << n).show()));
        out.push(form("a", || { let mut z = x(); z <<= n; z.show() }));
    } else {
        out.push(form("v", || (x() >> n).show()));
        out.push(form("a", || { let mut z = x(); z >>= n; z.show() }));
    }
    out
}

/// `fu <op> <base> <mode> <p> <s> <e> [sign]`
fn float_unary<R: Round, const B: Word>(op: &str, a: &[&str]) -> Vec<String> {
    let mut out = Vec::new();
    let x = || fmake::<R, B>(a[0], a[1], a[2]);
    match op {
        "neg" => {
            out.push(form("v", || (-x()).show()));
            out.push(form("r", || (-&x()).show()));
        }
        "abs" => out.push(form("v", || x().abs().show())),
        "inv" => {
            out.push(form("v", || x().inv().show()));
            out.push(form("r", || (&x()).inv().show()));
            out.push(form("ctx", || x().context().inv(x().repr()).value().show()));
            out.push(form("one_div", || (FBig::<R, B>::ONE / x()).show()));
        }
        "sqr" => {
            out.push(form("m", || x().sqr().show()));
            out.push(form("ctx", || x().context().sqr(x().repr()).value().show()));
        }
        "cubic" => {
            out.push(form("m", || x().cubic().show()));
            out.push(form("ctx", || x().context().cubic(x().repr()).value().show()));
        }
        "mulsign" => {
            let s = sign_of(a[3]);
            out.push(form("xs", || (x() * s).show()));
            out.push(form("sx", || (s * x()).show()));
            out.push(form("as", || { let mut z = x(); z *= s; z.show() }));
        }
        _ => out.push(format!("unknown-op={}", op)),
    }
    out
}

/// `fp <op> <base> <mode> <p> <s> <e> <ty> <prim>` : FBig with a primitive / UBig / IBig operand
fn float_prim<R: Round, const B: Word>(op: &str, a: &[&str]) -> Vec<String> {
    let mut out = Vec::new();
    let x = || fmake::<R, B>(a[0], a[1], a[2]);
    let ty = a[3];
    macro_rules! ops { ($p:ident, $big:ident) => {
        match op {
            "add" => { prim_right!(out, x, $p, $big, +); prim_left!(out, x, $p, $big, +); prim_asg!(out, x, $p, +=); }
            "sub" => { prim_right!(out, x, $p, $big, -); prim_asg!(out, x, $p, -=); }
            "rsub" => { prim_left!(out, x, $p, $big, -); }
            "mul" => { prim_right!(out, x, $p, $big, *); prim_left!(out, x, $p, $big, *); prim_asg!(out, x, $p, *=); }
            "div" => { prim_right!(out, x, $p, $big, /); prim_asg!(out, x, $p, /=); }
            "rdiv" => { prim_left!(out, x, $p, $big, /); }
            _ => out.push(format!("unknown-op={}", op)),
        }
    }; }
    macro_rules! gou { ($t:ty) => {{
        let p: $t = <$t>::try_from(prim_u128(a[4])).expect("primitive out of range");
        let big = || FBig::<R, B>::from(p);
        ops!(p, big)
    }}; }
    macro_rules! goi { ($t:ty) => {{
        let p: $t = <$t>::try_from(prim_i128(a[4])).expect("primitive out of range");
        let big = || FBig::<R, B>::from(p);
        ops!(p, big)
    }}; }
    match ty {
        "u8" => gou!(u8), "u16" => gou!(u16), "u32" => gou!(u32), "u64" => gou!(u64), "u128" => gou!(u128), "usize" => gou!(usize),
        "i8" => goi!(i8), "i16" => goi!(i16), "i32" => goi!(i32), "i64" => goi!(i64), "i128" => goi!(i128), "isize" => goi!(isize),
        "ubig" => {
            // owned big integers are not Copy: the by-value forms take a fresh clone
            let p0 = ubig(a[4]);
            let big = || FBig::<R, B>::from(p0.clone());
            macro_rules! bigops { ($o:tt, $oa:tt, $left:expr) => {{
                out.push(form("big", || (x() $o big()).show()));
                out.push(form("bv_pv", || (x() $o p0.clone()).show()));
                out.push(form("bv_pr", || (x() $o &p0).show()));
                out.push(form("br_pv", || (&x() $o p0.clone()).show()));
                out.push(form("br_pr", || (&x() $o &p0).show()));
                out.push(form("a_pv", || { let mut z = x(); z $oa p0.clone(); z.show() }));
                out.push(form("a_pr", || { let mut z = x(); z $oa &p0; z.show() }));
                if $left {
                    out.push(form("gib", || (big() $o x()).show()));
                    out.push(form("pv_bv", || (p0.clone() $o x()).show()));
                    out.push(form("pr_bv", || (&p0 $o x()).show()));
                    out.push(form("pv_br", || (p0.clone() $o &x()).show()));
                    out.push(form("pr_br", || (&p0 $o &x()).show()));
                }
            }}; }
            macro_rules! leftops { ($o:tt) => {{
                out.push(form("gib", || (big() $o x()).show()));
                out.push(form("pv_bv", || (p0.clone() $o x()).show()));
                out.push(form("pr_bv", || (&p0 $o x()).show()));
                out.push(form("pv_br", || (p0.clone() $o &x()).show()));
                out.push(form("pr_br", || (&p0 $o &x()).show()));
            }}; }
            match op {
                "add" => bigops!(+, +=, true),
                "sub" => bigops!(-, -=, false),
                "mul" => bigops!(*, *=, true),
                "div" => bigops!(/, /=, false),
                "rsub" => leftops!(-),
                "rdiv" => leftops!(/),
                _ => out.push(format!("unknown-op={}", op)),
            }
        }
        "ibig" => {
            let p0 = ibig(a[4]);
            let big = || FBig::<R, B>::from(p0.clone());
            macro_rules! bigops { ($o:tt, $oa:tt, $left:expr) => {{
                out.push(form("big", || (x() $o big()).show()));
                out.push(form("bv_pv", || (x() $o p0.clone()).show()));
                out.push(form("bv_pr", || (x() $o &p0).show()));
                out.push(form("br_pv", || (&x() $o p0.clone()).show()));
                out.push(form("br_pr", || (&x() $o &p0).show()));
                out.push(form("a_pv", || { let mut z = x(); z $oa p0.clone(); z.show() }));
                out.push(form("a_pr", || { let mut z = x(); z $oa &p0; z.show() }));
                if $left {
                    out.push(form("gib", || (big() $o x()).show()));
                    out.push(form("pv_bv", || (p0.clone() $o x()).show()));
                    out.push(form("pr_bv", || (&p0 $o x()).show()));
                    out.push(form("pv_br", || (p0.clone() $o &x()).show()));
                    out.push(form("pr_br", || (&p0 $o &x()).show()));
                }
            }}; }
            macro_rules! leftops { ($o:tt) => {{
                out.push(form("gib", || (big() $o x()).show()));
                out.push(form("pv_bv", || (p0.clone() $o x()).show()));
                out.push(form("pr_bv", || (&p0 $o x()).show()));
                out.push(form("pv_br", || (p0.clone() $o &x()).show()));
                out.push(form("pr_br", || (&p0 $o &x()).show()));
            }}; }
            match op {
                "add" => bigops!(+, +=, true),
                "sub" => bigops!(-, -=, false),
                "mul" => bigops!(*, *=, true),
                "div" => bigops!(/, /=, false),
                "rsub" => leftops!(-),
                "rdiv" => leftops!(/),
                _ => out.push(format!("unknown-op={}", op)),
            }
        }
        _ => out.push(format!("unknown-type={}", ty)),
    }
    out
}

/// dispatch on (base, mode): a smaller table than hlib::with_float to keep the build time down
macro_rules! float_dispatch {
    ($f:ident, $base:expr, $mode:expr, $op:expr, $args:expr) => {{
        macro_rules! modes { ($b:literal) => {
            match $mode {
                "Zero" => $f::<mode::Zero, $b>($op, $args),
                "Away" => $f::<mode::Away, $b>($op, $args),
                "Up" => $f::<mode::Up, $b>($op, $args),
                "Down" => $f::<mode::Down, $b>($op, $args),
                "HalfEven" => $f::<mode::HalfEven, $b>($op, $args),
                "HalfAway" => $f::<mode::HalfAway, $b>($op, $args),
                other => panic!("unknown mode {}", other),
            }
        }; }
        match $base {
            "2" => modes!(2),
            "3" => modes!(3),
            "a" => modes!(10),
            "10" => modes!(16),
            other => panic!("unsupported base {} (hex)", other),
        }
    }};
}
macro_rules! float_dispatch_p2 {
    ($f:ident, $base:expr, $mode:expr, $op:expr, $args:expr) => {{
        match ($base, $mode) {
            ("4", "Zero") => $f::<mode::Zero, 4>($op, $args),
            ("4", "HalfEven") => $f::<mode::HalfEven, 4>($op, $args),
            ("4", "Up") => $f::<mode::Up, 4>($op, $args),
            ("8", "Zero") => $f::<mode::Zero, 8>($op, $args),
            ("8", "HalfAway") => $f::<mode::HalfAway, 8>($op, $args),
            ("8", "Down") => $f::<mode::Down, 8>($op, $args),
            (b, m) => panic!("unsupported base/mode {} {} for the bases 4 / 8", b, m),
        }
    }};
}
macro_rules! float_dispatch_small {
    ($f:ident, $base:expr, $mode:expr, $op:expr, $args:expr) => {{
        match ($base, $mode) {
            ("2", "Zero") => $f::<mode::Zero, 2>($op, $args),
            ("2", "HalfEven") => $f::<mode::HalfEven, 2>($op, $args),
            ("a", "HalfAway") => $f::<mode::HalfAway, 10>($op, $args),
            ("a", "Up") => $f::<mode::Up, 10>($op, $args),
            (b, m) => panic!("unsupported base/mode {} {} for primitive forms", b, m),
        }
    }};
}

// ------------------------------------------------------------------------------------------------
// rationals
// ------------------------------------------------------------------------------------------------
macro_rules! ratio_ops {
    ($out:expr, $op:expr, $x:ident, $y:ident) => {
        match $op {
            "add" => { own4!($out, $x, $y, +); asg2!($out, $x, $y, +=); }
            "sub" => { own4!($out, $x, $y, -); asg2!($out, $x, $y, -=); }
            "mul" => { own4!($out, $x, $y, *); asg2!($out, $x, $y, *=); }
            "div" => { own4!($out, $x, $y, /); asg2!($out, $x, $y, /=); }
            "rem" => { own4!($out, $x, $y, %); asg2!($out, $x, $y, %=); }
            "dive" => met4!($out, $x, $y, div_euclid),
            "reme" => met4!($out, $x, $y, rem_euclid),
            "divreme" => met4!($out, $x, $y, div_rem_euclid),
            _ => $out.push(format!("unknown-op={}", $op)),
        }
    };
}
/// rational (op) integer and integer (op) rational, integer owned or borrowed
macro_rules! ratio_int_ops {
    ($out:expr, $op:expr, $x:ident, $i:ident, $big:ident) => {{
        macro_rules! right { ($o:tt) => {{
            $out.push(form("big", || ($x() $o $big()).show()));
            $out.push(form("bv_pv", || ($x() $o $i()).show()));
            $out.push(form("bv_pr", || ($x() $o &$i()).show()));
            $out.push(form("br_pv", || (&$x() $o $i()).show()));
            $out.push(form("br_pr", || (&$x() $o &$i()).show()));
        }}; }
        macro_rules! left { ($o:tt) => {{
            $out.push(form("gib", || ($big() $o $x()).show()));
            $out.push(form("pv_bv", || ($i() $o $x()).show()));
            $out.push(form("pr_bv", || (&$i() $o $x()).show()));
            $out.push(form("pv_br", || ($i() $o &$x()).show()));
            $out.push(form("pr_br", || (&$i() $o &$x()).show()));
        }}; }
        match $op {
            "add" => { right!(+); left!(+); }
            "sub" => right!(-),
            "rsub" => left!(-),
            "mul" => { right!(*); left!(*); }
            "div" => right!(/),
            "rdiv" => left!(/),
            _ => $out.push(format!("unknown-op={}", $op)),
        }
    }};
}

/// `q|x <op> <n1> <d1> <n2> <d2>`
fn ratio_bin(kind: &str, a: &[&str]) -> Vec<String> {
    let mut out = Vec::new();
    if kind == "q" {
        let x = || rbig(a[1], a[2]);
        let y = || rbig(a[3], a[4]);
        ratio_ops!(out, a[0], x, y);
    } else {
        let x = || relaxed(a[1], a[2]);
        let y = || relaxed(a[3], a[4]);
        ratio_ops!(out, a[0], x, y);
    }
    out
}

/// `qi|xi <op> <n> <d> <ubig|ibig> <i>`
fn ratio_int(kind: &str, a: &[&str]) -> Vec<String> {
    let mut out = Vec::new();
    match (kind, a[3]) {
        ("qi", "ibig") => {
            let x = || rbig(a[1], a[2]);
            let i = || ibig(a[4]);
            let big = || RBig::from(ibig(a[4]));
            ratio_int_ops!(out, a[0], x, i, big);
        }
        ("qi", _) => {
            let x = || rbig(a[1], a[2]);
            let i = || ubig(a[4]);
            let big = || RBig::from(ubig(a[4]));
            ratio_int_ops!(out, a[0], x, i, big);
        }
        (_, "ibig") => {
            let x = || relaxed(a[1], a[2]);
            let i = || ibig(a[4]);
            let big = || Relaxed::from(ibig(a[4]));
            ratio_int_ops!(out, a[0], x, i, big);
        }
        _ => {
            let x = || relaxed(a[1], a[2]);
            let i = || ubig(a[4]);
            let big = || Relaxed::from(ubig(a[4]));
            ratio_int_ops!(out, a[0], x, i, big);
        }
    }
    out
}

/// `qu|xu <op> <n> <d> [sign]`
fn ratio_unary(kind: &str, a: &[&str]) -> Vec<String> {
    let mut out = Vec::new();
    macro_rules! un { ($x:ident) => {
        match a[0] {
            "neg" => {
                out.push(form("v", || (-$x()).show()));
                out.push(form("r", || (-&$x()).show()));
            }
            "abs" => out.push(form("v", || $x().abs().show())),
            "inv" => {
                out.push(form("v", || $x().inv().show()));
                out.push(form("r", || (&$x()).inv().show()));
            }
            "mulsign" => {
                let s = sign_of(a[3]);
                out.push(form("xs", || ($x() * s).show()));
            }
            _ => out.push(format!("unknown-op={}", a[0])),
        }
    }; }
    if kind == "qu" {
        let x = || rbig(a[1], a[2]);
        un!(x)
    } else {
        let x = || relaxed(a[1], a[2]);
        un!(x)
    }
    out
}

// ------------------------------------------------------------------------------------------------
// reduced ring
// ------------------------------------------------------------------------------------------------
/// `m <op> <modulus> <a> <b>` / `m neg <modulus> <a>`
fn reduced(a: &[&str]) -> Vec<String> {
    let mut out = Vec::new();
    let ring = ConstDivisor::new(ubig(a[1]));
    let ring2 = ConstDivisor::new(ubig(a[1]));
    let x = || ring.reduce(ibig(a[2]));
    if a[0] == "sqr" {
        out.push(form("m", || x().sqr().show()));
        out.push(form("mul_vv", || (x() * x()).show()));
        out.push(form("mul_rr", || (&x() * &x()).show()));
        return out;
    }
    if a[0] == "dbl" {
        out.push(form("m", || x().dbl().show()));
        out.push(form("add_vv", || (x() + x()).show()));
        out.push(form("add_rr", || (&x() + &x()).show()));
        return out;
    }
    if a[0] == "neg" {
        out.push(form("v", || (-x()).show()));
        out.push(form("r", || (-&x()).show()));
        return out;
    }
    // ops prefixed with x: the right operand lives in a second ring with the same modulus
    let other = a[0].starts_with('x');
    let y = || if other { ring2.reduce(ibig(a[3])) } else { ring.reduce(ibig(a[3])) };
    match a[0].trim_start_matches('x') {
        "add" => { own4!(out, x, y, +); asg2!(out, x, y, +=); }
        "sub" => { own4!(out, x, y, -); asg2!(out, x, y, -=); }
        "mul" => { own4!(out, x, y, *); asg2!(out, x, y, *=); }
        "div" => { own4!(out, x, y, /); asg2!(out, x, y, /=); }
        _ => out.push(format!("unknown-op={}", a[0])),
    }
    out
}

// ------------------------------------------------------------------------------------------------
// clone / clone_from
// ------------------------------------------------------------------------------------------------
fn layout_u(x: &UBig) -> String {
    let (cap, len, inline) = dashu_int::verif_hooks::repr_layout_ubig(x);
    format!("{},{:x},{}", hisz(cap), len, inline as u8)
}
fn layout_i(x: &IBig) -> String {
    let (cap, len, inline) = dashu_int::verif_hooks::repr_layout_ibig(x);
    format!("{},{:x},{}", hisz(cap), len, inline as u8)
}

/// `clone <src> <dst0> <shift>`: the destination is `dst0 >> shift` (shifting in place keeps the old
/// buffer, so its capacity ranges over everything the library allows for that length).
/// answer tokens: src value/layout, dst layout before, dst value/layout after clone_from,
/// clone value/layout, then the independence probes.
fn clone_int(a: &[&str]) -> Vec<String> {
    let mut out = Vec::new();
    let sh = usz(a[2]);
    // IBig (sign + magnitude)
    out.push(form("ibig", || {
        let src = ibig(a[0]);
        let mut dst = ibig(a[1]);
        dst >>= sh;
        let before = layout_i(&dst);
        dst.clone_from(&src);
        let after = format!("{},{}", hi(&dst), layout_i(&dst));
        let c = src.clone();
        let cl = format!("{},{}", hi(&c), layout_i(&c));
        // independence: mutate the copies, the source must keep its value and layout; then mutate
        // the source, the copies must keep theirs
        let src_layout = layout_i(&src);
        let mut d2 = dst;
        d2 += IBig::ONE;
        d2 <<= 70;
        let mut c2 = c.clone();
        c2 *= IBig::from(-3);
        let ind1 = (hi(&src) == hi(&ibig(a[0])) && layout_i(&src) == src_layout) as u8;
        let mut s2 = src;
        let keep = hi(&c);
        s2 -= IBig::ONE;
        s2 <<= 3;
        let ind2 = (hi(&c) == keep) as u8;
        drop(s2);
        let ind3 = (hi(&c) == keep && hi(&(c2 / IBig::from(-3))) == keep) as u8;
        format!("{},{},{},{},{}{}{}", src_layout, before, after, cl, ind1, ind2, ind3)
    }));
    // UBig of the magnitudes
    out.push(form("ubig", || {
        let src = ubig(a[0].trim_start_matches('-'));
        let mut dst = ubig(a[1].trim_start_matches('-'));
        dst >>= sh;
        let before = layout_u(&dst);
        dst.clone_from(&src);
        let after = format!("{},{}", hu(&dst), layout_u(&dst));
        let c = src.clone();
        let cl = format!("{},{}", hu(&c), layout_u(&c));
        let src_layout = layout_u(&src);
        let mut d2 = dst;
        d2 += UBig::ONE;
        d2 <<= 70;
        let ind1 = (hu(&src) == hu(&ubig(a[0].trim_start_matches('-'))) && layout_u(&src) == src_layout) as u8;
        let keep = hu(&c);
        let mut s2 = src;
        s2 += UBig::ONE;
        s2 <<= 3;
        let ind2 = (hu(&c) == keep) as u8;
        drop(s2);
        drop(d2);
        let ind3 = (hu(&c) == keep) as u8;
        format!("{},{},{},{},{}{}{}", src_layout, before, after, cl, ind1, ind2, ind3)
    }));
    out
}

/// `clonef <base> <mode> <p1> <s1> <e1> <p2> <s2> <e2>` : FBig clone / clone_from (value + context)
fn clone_float<R: Round, const B: Word>(_op: &str, a: &[&str]) -> Vec<String> {
    let mut out = Vec::new();
    out.push(form("clone", || {
        let src = fmake::<R, B>(a[0], a[1], a[2]);
        let c = src.clone();
        let s0 = src.show();
        let mut m = c.clone();
        if !m.repr().is_infinite() {
            m <<= 5;
            m += FBig::<R, B>::ONE;
        } else {
            m = -m;
        }
        format!("{},{},{}", c.show(), (src.show() == s0) as u8, (c == src) as u8)
    }));
    out.push(form("clone_from", || {
        let src = fmake::<R, B>(a[0], a[1], a[2]);
        let mut dst = fmake::<R, B>(a[3], a[4], a[5]);
        dst.clone_from(&src);
        let r = dst.show();
        let s0 = src.show();
        // equal to clone(), and a follow-up operation sees the same value and precision
        let c = src.clone();
        let same = dst == c && dst.precision() == c.precision()
            && (dst.repr().is_infinite() || (&dst * &src).show() == (&c * &src).show());
        if !dst.repr().is_infinite() {
            dst <<= 3;
            dst *= FBig::<R, B>::from(7u8);
        } else {
            dst = -dst;
        }
        format!("{},{},{}", r, (src.show() == s0) as u8, same as u8)
    }));
    out
}

/// `cloneq <n1> <d1> <n2> <d2>` : RBig / Relaxed clone and clone_from
fn clone_ratio(a: &[&str]) -> Vec<String> {
    let mut out = Vec::new();
    out.push(form("rbig", || {
        let src = rbig(a[0], a[1]);
        let mut dst = rbig(a[2], a[3]);
        dst.clone_from(&src);
        let c = src.clone();
        let same = dst == c && (&dst - &c).show() == (&c - &src).show() && (&dst * &src).show() == (&c * &src).show();
        let r = format!("{},{},{}", dst.show(), c.show(), same as u8);
        let s0 = src.show();
        dst += RBig::ONE;
        let ok1 = src.show() == s0 && c.show() == s0;
        drop(src);
        format!("{},{}", r, (ok1 && c.show() == s0) as u8)
    }));
    out.push(form("relaxed", || {
        let src = relaxed(a[0], a[1]);
        let mut dst = relaxed(a[2], a[3]);
        dst.clone_from(&src);
        let c = src.clone();
        let same = dst == c && (&dst - &c).show() == (&c - &src).show() && (&dst * &src).show() == (&c * &src).show();
        let r = format!("{},{},{}", dst.show(), c.show(), same as u8);
        let s0 = src.show();
        dst += Relaxed::ONE;
        let ok1 = src.show() == s0 && c.show() == s0;
        drop(src);
        format!("{},{}", r, (ok1 && c.show() == s0) as u8)
    }));
    out
}

/// `clonem <modulus> <a> <b> [<modulus of the destination>]` : Reduced clone and clone_from; the
/// destination may live in another ring (same or different representation / word count)
fn clone_reduced(a: &[&str]) -> Vec<String> {
    let mut out = Vec::new();
    let m_src = ubig(a[0]);
    let m_dst = if a.len() > 3 { ubig(a[3]) } else { ubig(a[0]) };
    out.push(form("reduced", || {
        let ring = ConstDivisor::new(m_src.clone());
        let ring2 = ConstDivisor::new(m_dst.clone());
        let src = ring.reduce(ibig(a[1]));
        let mut dst = ring2.reduce(ibig(a[2]));
        dst.clone_from(&src);
        let c = src.clone();
        // `==` and `+` panic with 'different rings' if clone_from left the destination in its old ring
        let eq = (dst == c) as u8;
        let sum = &dst + &src;
        let r = format!("{},{},{},{},{},{}", dst.show(), hu(&dst.modulus()), c.show(), hu(&c.modulus()), eq, sum.show());
        let s0 = src.show();
        dst += ring.reduce(1u8);
        let ok1 = src.show() == s0 && c.show() == s0;
        drop(src);
        format!("{},{}", r, (ok1 && c.show() == s0) as u8)
    }));
    // a history of clone_from: other ring -> ring of src -> back -> ring of src again
    out.push(form("chain", || {
        let ring = ConstDivisor::new(m_src.clone());
        let ring2 = ConstDivisor::new(m_dst.clone());
        let src = ring.reduce(ibig(a[1]));
        let other = ring2.reduce(ibig(a[2]));
        let mut z = other.clone();
        z.clone_from(&src);
        z.clone_from(&other);
        let mid = format!("{},{},{}", z.show(), hu(&z.modulus()), (z == other) as u8);
        z.clone_from(&src);
        let prod = &z * &src;
        format!("{},{},{},{},{}", mid, z.show(), hu(&z.modulus()), (z == src) as u8, prod.show())
    }));
    out
}


// ------------------------------------------------------------------------------------------------
// Sum / Product over owned and borrowed items next to the explicit folds
// ------------------------------------------------------------------------------------------------
macro_rules! fold_forms {
    ($out:expr, $op:expr, $items:ident, $t:ty) => {{
        if $op == "sum" {
            $out.push(form("owned", || $items().into_iter().sum::<$t>().show()));
            $out.push(form("refs", || $items().iter().sum::<$t>().show()));
            $out.push(form("fold_v", || $items().into_iter().fold(<$t>::ZERO, |acc, x| acc + x).show()));
            $out.push(form("fold_r", || { let v = $items(); let mut acc = <$t>::ZERO; for x in v.iter() { acc += x; } acc.show() }));
            $out.push(form("fold_rv", || { let v = $items(); let mut acc = <$t>::ZERO; for x in v.iter() { acc = &acc + x; } acc.show() }));
        } else {
            $out.push(form("owned", || $items().into_iter().product::<$t>().show()));
            $out.push(form("refs", || $items().iter().product::<$t>().show()));
            $out.push(form("fold_v", || $items().into_iter().fold(<$t>::ONE, |acc, x| acc * x).show()));
            $out.push(form("fold_r", || { let v = $items(); let mut acc = <$t>::ONE; for x in v.iter() { acc *= x; } acc.show() }));
            $out.push(form("fold_rv", || { let v = $items(); let mut acc = <$t>::ONE; for x in v.iter() { acc = &acc * x; } acc.show() }));
        }
    }};
}

/// `it <sum|prod> <u|i> items...`
fn iter_fold(a: &[&str]) -> Vec<String> {
    let mut out = Vec::new();
    let op = a[0];
    match a[1] {
        "u" => {
            let items = || -> Vec<UBig> { a[2..].iter().map(|c| ubig(c)).collect() };
            fold_forms!(out, op, items, UBig);
            // Sum<T> / Product<T> exist for every T the big type can be added to / multiplied by: primitive items
            // (the low 16 bits of every item)
            let prims = || -> Vec<u16> { a[2..].iter().map(|c| u16::try_from(&(ubig(c) & UBig::from(0xffffu16))).unwrap()).collect() };
            if op == "sum" {
                out.push(form("prims", || prims().into_iter().sum::<UBig>().show()));
                out.push(form("prims_r", || prims().iter().sum::<UBig>().show()));
            } else {
                out.push(form("prims", || prims().into_iter().product::<UBig>().show()));
                out.push(form("prims_r", || prims().iter().product::<UBig>().show()));
            }
        }
        "i" => {
            let items = || -> Vec<IBig> { a[2..].iter().map(|c| ibig(c)).collect() };
            fold_forms!(out, op, items, IBig);
            let prims = || -> Vec<i16> { a[2..].iter().map(|c| u16::try_from(&(ibig(c) & IBig::from(0xffffu16))).unwrap() as i16).collect() };
            if op == "sum" {
                out.push(form("prims", || prims().into_iter().sum::<IBig>().show()));
                out.push(form("prims_r", || prims().iter().sum::<IBig>().show()));
            } else {
                out.push(form("prims", || prims().into_iter().product::<IBig>().show()));
                out.push(form("prims_r", || prims().iter().product::<IBig>().show()));
            }
        }
        // RBig / Relaxed: rational/src/iter.rs exists but is not a module of the crate (no `mod iter;`),
        // so Sum / Product are not offered for rationals
        other => out.push(format!("unknown-kind={}", other)),
    }
    out
}

/// `itf <sum|prod> <base> <mode> (p s e)...`
fn iter_fold_float<R: Round, const B: Word>(op: &str, a: &[&str]) -> Vec<String> {
    let mut out = Vec::new();
    let items = || -> Vec<FBig<R, B>> { a.chunks(3).map(|c| fmake::<R, B>(c[0], c[1], c[2])).collect() };
    fold_forms!(out, op, items, FBig<R, B>);
    out
}

/// `fm <op> <base> <mode> <p> <s> <e> [n]` : FBig method next to the Context method at the same precision
fn float_method<R: Round, const B: Word>(op: &str, a: &[&str]) -> Vec<String> {
    let mut out = Vec::new();
    let x = || fmake::<R, B>(a[0], a[1], a[2]);
    match op {
        "sqrt" => {
            out.push(form("m", || x().sqrt().show()));
            out.push(form("ctx", || x().context().sqrt(x().repr()).value().show()));
        }
        "exp" => {
            out.push(form("m", || x().exp().show()));
            out.push(form("ctx", || x().context().exp(x().repr()).value().show()));
        }
        "exp_m1" => {
            out.push(form("m", || x().exp_m1().show()));
            out.push(form("ctx", || x().context().exp_m1(x().repr()).value().show()));
        }
        "ln" => {
            out.push(form("m", || x().ln().show()));
            out.push(form("ctx", || x().context().ln(x().repr()).value().show()));
        }
        "ln_1p" => {
            out.push(form("m", || x().ln_1p().show()));
            out.push(form("ctx", || x().context().ln_1p(x().repr()).value().show()));
        }
        "powi" => {
            let n = || ibig(a[3]);
            out.push(form("m", || x().powi(n()).show()));
            out.push(form("ctx", || x().context().powi(x().repr(), n()).value().show()));
        }
        _ => out.push(format!("unknown-op={}", op)),
    }
    out
}

fn run(op: &str, a: &[&str]) -> String {
    let forms: Vec<String> = match op {
        "uu" | "ii" | "ui" | "iu" => int_int(op, a),
        "up" => ubig_prim(a),
        "ip" => ibig_prim(a),
        "ush" | "ish" => int_shift(op, a),
        "un" => int_unary(a),
        "f" if a[1] == "4" || a[1] == "8" => float_dispatch_p2!(float_mul_only, a[1], a[2], a[0], &a[3..]),
        "f" => float_dispatch!(float_bin, a[1], a[2], a[0], &a[3..]),
        "cdu" | "cdi" => const_div(op, a),
        "fsh" => float_dispatch!(float_shift, a[1], a[2], a[0], &a[3..]),
        "fu" => float_dispatch!(float_unary, a[1], a[2], a[0], &a[3..]),
        "fp" => float_dispatch_small!(float_prim, a[1], a[2], a[0], &a[3..]),
        "q" | "x" => ratio_bin(op, a),
        "qi" | "xi" => ratio_int(op, a),
        "qu" | "xu" => ratio_unary(op, a),
        "m" => reduced(a),
        "it" => iter_fold(a),
        "itf" => float_dispatch!(iter_fold_float, a[1], a[2], a[0], &a[3..]),
        "fm" => float_dispatch!(float_method, a[1], a[2], a[0], &a[3..]),
        "clone" => clone_int(a),
        "clonef" => float_dispatch!(clone_float, a[0], a[1], "clone", &a[2..]),
        "cloneq" => clone_ratio(a),
        "clonem" => clone_reduced(a),
        _ => return format!("unknown-op {}", op),
    };
    if forms.is_empty() {
        return format!("unknown-op {} {}", op, a.first().unwrap_or(&""));
    }
    format!("ok {}", forms.join(" "))
}

fn main() {
    serve(run);
}
