//! C10: rounding to integers / to fewer digits.
//! float cases:    `<op> <base hex> <mode> <precision hex> <sig> <exp> [<new precision hex>]`
//!   trunc floor ceil round fract      -> `ok <sig> <exp> <precision>`
//!   split                             -> `ok <sig> <exp> <precision> <sig> <exp> <precision>`
//!   to_int repr_to_int                -> `ok <int> <Exact|NoOp|AddOne|SubOne>`
//!   with_precision                    -> `ok <sig> <exp> <flag> <precision>`
//! rational cases: `<op> <num> <den>`  (r* = RBig, x* = Relaxed)
//!   rtrunc rfloor rceil rround        -> `ok <int>`
//!   rfract                            -> `ok <num> <den>`
//!   rsplit                            -> `ok <int> <num> <den>`
//! primitives:     `round_fract <base> <mode> <int> <fract> <digits>`  -> `ok <NoOp|AddOne|SubOne>`
//!                 `round_ratio <mode> <int> <num> <den>`              -> `ok <NoOp|AddOne|SubOne>`
//!                 `round_fract_any` / `round_ratio_any`: the same calls on arbitrary input (assertions may fire)
//!                 `round_fract_half <base> <mode> <int> <digits> <delta> <+|->`: fract = +-(B^digits / 2 + delta)
//! round 3 (a significand token `inf` / `-inf` gives the infinities in every float case):
//!   wp2 <base> <mode> <precision> <sig> <exp> <np1> <np2>   with_precision(np1).value().with_precision(np2)
//!                                     -> `ok <sig> <exp> <flag> <precision> <sig> <exp> <flag> <precision>`
//!   wr_wp <base> <mode> <new mode> <precision> <sig> <exp> <np>   with_rounding::<new>().with_precision(np)
//!   wbp_same <base> <mode> <precision> <sig> <exp> <np>           with_base_and_precision::<base>(np)
//!                                     -> `ok <sig> <exp> <flag> <precision>`
use dashu_float::round::Round;
use hlib::*;

fn hint(x: &Approximation<IBig, Rounding>) -> String {
    match x {
        Exact(v) => format!("ok {} Exact", hi(v)),
        Inexact(v, r) => format!("ok {} {}", hi(v), rounding_str(*r)),
    }
}

/// `repr_of` of the library plus the exponent tokens `min` / `max` (isize::MIN / isize::MAX, which `isz` cannot read)
fn repr10<const B: Word>(sig: &str, exp: &str) -> Repr<B> {
    match exp {
        "min" => Repr::new(ibig(sig), isize::MIN),
        "max" => Repr::new(ibig(sig), isize::MAX),
        _ => repr_of::<B>(sig, exp),
    }
}

fn wr_wp<R: Round, R2: Round, const B: Word>(p: usize, sig: &str, exp: &str, np: usize) -> String {
    let f = FBig::<R, B>::from_repr(repr_of::<B>(sig, exp), Context::<R>::new(p));
    format!("ok {}", hrounded(&f.with_rounding::<R2>().with_precision(np)))
}

fn run(op: &str, a: &[&str]) -> String {
    match op {
        "wr_wp" => {
            return with_float!(a[0], a[1], |R, B| {
                let (p, np) = (usz(a[3]), usz(a[6]));
                match a[2] {
                    "Zero" => wr_wp::<R, mode::Zero, B>(p, a[4], a[5], np),
                    "Away" => wr_wp::<R, mode::Away, B>(p, a[4], a[5], np),
                    "Up" => wr_wp::<R, mode::Up, B>(p, a[4], a[5], np),
                    "Down" => wr_wp::<R, mode::Down, B>(p, a[4], a[5], np),
                    "HalfEven" => wr_wp::<R, mode::HalfEven, B>(p, a[4], a[5], np),
                    "HalfAway" => wr_wp::<R, mode::HalfAway, B>(p, a[4], a[5], np),
                    other => panic!("unknown mode {}", other),
                }
            });
        }
        "rtrunc" => return format!("ok {}", hi(&rbig(a[0], a[1]).trunc())),
        "rfloor" => return format!("ok {}", hi(&rbig(a[0], a[1]).floor())),
        "rceil" => return format!("ok {}", hi(&rbig(a[0], a[1]).ceil())),
        "rround" => return format!("ok {}", hi(&rbig(a[0], a[1]).round())),
        "rfract" => return format!("ok {}", hq(&rbig(a[0], a[1]).fract())),
        "rsplit" => {
            let (t, f) = rbig(a[0], a[1]).split_at_point();
            return format!("ok {} {}", hi(&t), hq(&f));
        }
        "xtrunc" => return format!("ok {}", hi(&relaxed(a[0], a[1]).trunc())),
        "xfloor" => return format!("ok {}", hi(&relaxed(a[0], a[1]).floor())),
        "xceil" => return format!("ok {}", hi(&relaxed(a[0], a[1]).ceil())),
        "xround" => return format!("ok {}", hi(&relaxed(a[0], a[1]).round())),
        "xfract" => return format!("ok {}", hqr(&relaxed(a[0], a[1]).fract())),
        "xsplit" => {
            let (t, f) = relaxed(a[0], a[1]).split_at_point();
            return format!("ok {} {}", hi(&t), hqr(&f));
        }
        "round_ratio" | "round_ratio_any" => {
            return with_float!("a", a[0], |R, B| {
                let _ = B;
                let r = <R as Round>::round_ratio(&ibig(a[1]), ibig(a[2]), &ibig(a[3]));
                format!("ok {}", rounding_str(r))
            });
        }
        // round 4: a fraction next to one half of B^k, built here so that k can be 2^24 and more (the f32 pre-filter of
        // round_fract with a rounded `precision as f32`): fract = sgn * (B^k / 2 + delta)
        "round_fract_half" => {
            return with_float!(a[0], a[1], |R, B| {
                let k = usz(a[3]);
                let half: IBig = (UBig::from_word(B).pow(k) >> 1usize).into();
                let f = half + ibig(a[4]);
                let f = if a[5] == "-" { -f } else { f };
                let r = <R as Round>::round_fract::<B>(&ibig(a[2]), f, k);
                format!("ok {}", rounding_str(r))
            });
        }
        "round_fract" | "round_fract_any" => {
            return with_float!(a[0], a[1], |R, B| {
                let r = <R as Round>::round_fract::<B>(&ibig(a[2]), ibig(a[3]), usz(a[4]));
                format!("ok {}", rounding_str(r))
            });
        }
        _ => {}
    }
    with_float!(a[0], a[1], |R, B| {
        let p = usz(a[2]);
        let ctx = Context::<R>::new(p);
        let x = repr10::<B>(a[3], a[4]);
        let f = FBig::<R, B>::from_repr(x.clone(), ctx);
        let val = |v: &FBig<R, B>| format!("{} {:x}", hrepr(v.repr()), v.precision());
        match op {
            "trunc" => format!("ok {}", val(&f.trunc())),
            "floor" => format!("ok {}", val(&f.floor())),
            "ceil" => format!("ok {}", val(&f.ceil())),
            "round" => format!("ok {}", val(&f.round())),
            "fract" => format!("ok {}", val(&f.fract())),
            "split" => {
                let (t, fr) = f.split_at_point();
                format!("ok {} {}", val(&t), val(&fr))
            }
            "to_int" => hint(&f.to_int()),
            "repr_to_int" => hint(&x.to_int()),
            "with_precision" => format!("ok {}", hrounded(&f.with_precision(usz(a[5])))),
            "wp2" => {
                let first = f.with_precision(usz(a[5]));
                let second = first.clone().value().with_precision(usz(a[6]));
                format!("ok {} {}", hrounded(&first), hrounded(&second))
            }
            "wbp_same" => format!("ok {}", hrounded(&f.with_base_and_precision::<B>(usz(a[5])))),
            _ => format!("unknown-op {}", op),
        }
    })
}

fn main() {
    serve(run);
}
