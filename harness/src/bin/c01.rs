//! C01: integer ring arithmetic. One case per line: `id op args...`, integers as [-]hex, counts as hex.
//!
//! Public API ops take a call form: vv vr rv rr (by value / by reference on each side) and
//! av ar (compound assignment by value / by reference).  The answer carries the value through raw
//! words plus a flag `1` when the result is stored canonically (no leading zero word, inline iff
//! at most two words).
//! Kernel ops (`kmul`, `ksqr`) drive the word-slice multipliers through `dashu_int::verif_hooks`.
//!
//! The binary is built twice (CONFIGS default / w32 = `--cfg force_bits="32"`).  Every answer carries the word size of
//! the build as a token `W40` / `W20`, so that the oracle runs the word-level models at that word size.  `kmul`, `ksqr`,
//! `kmem` give lengths in 64-bit words (the 32-bit build doubles them: same operand values, twice the words);
//! `kmul32`, `ksqr32` give lengths in 32-bit words (`kmul64`: in 64-bit words, 64-bit build only) and `wk` (one word kernel of add.rs / mul/mod.rs through
//! `verif_hooks::word_kernel`) names its word size: they run on the matching build only (`ok na NATIVE` elsewhere).
//! Answers with the token `NATIVE` are per build (not compared between the builds).
use dashu_int::verif_hooks as vh;
use dashu_int::{DoubleWord, IBig, UBig, Word};
use hlib::*;

/// 64-bit words per word of this build's kernels: 1, or 2 for the 32-bit build
const SCALE: usize = 64 / (vh::WORD_BITS as usize);

fn wtag() -> String {
    format!("W{:x}", vh::WORD_BITS)
}

fn canon_u(x: &UBig) -> u8 {
    let w = x.as_words();
    let (_, len, inline) = vh::repr_layout_ubig(x);
    let norm = w.last().map_or(true, |&t| t != 0);
    (norm && (inline == (w.len() <= 2)) && (len == w.len() || (w.len() <= 2 && len <= 2))) as u8
}

fn canon_i(x: &IBig) -> u8 {
    let (_, w) = x.as_sign_words();
    let (cap, len, inline) = vh::repr_layout_ibig(x);
    let norm = w.last().map_or(true, |&t| t != 0);
    // zero is never negative
    let zero_ok = !w.is_empty() || cap > 0;
    (norm && zero_ok && (inline == (w.len() <= 2)) && (len == w.len() || (w.len() <= 2 && len <= 2))) as u8
}

fn ou(x: UBig) -> String {
    format!("ok {} {} {}", hu(&x), canon_u(&x), wtag())
}
fn oi(x: IBig) -> String {
    format!("ok {} {} {}", hi(&x), canon_i(&x), wtag())
}

macro_rules! forms6 {
    ($form:expr, $x:expr, $y:expr, $op:tt, $opa:tt) => {{
        let (x, y) = ($x, $y);
        match $form {
            "vv" => x $op y,
            "vr" => x $op &y,
            "rv" => &x $op y,
            "rr" => &x $op &y,
            "av" => { let mut t = x; t $opa y; t }
            "ar" => { let mut t = x; t $opa &y; t }
            f => panic!("unknown form {}", f),
        }
    }};
}
macro_rules! forms4 {
    ($form:expr, $x:expr, $y:expr, $op:tt) => {{
        let (x, y) = ($x, $y);
        match $form {
            "vv" => x $op y,
            "vr" => x $op &y,
            "rv" => &x $op y,
            "rr" => &x $op &y,
            f => panic!("unknown form {}", f),
        }
    }};
}

fn prim_bits(ty: &str) -> u32 {
    match ty {
        "u8" | "i8" => 8,
        "u16" | "i16" => 16,
        "u32" | "i32" => 32,
        "u64" | "i64" | "usize" | "isize" => 64,
        _ => 128,
    }
}

/// `big op prim` / `prim op big` for unsigned primitives; `side` = l (big on the left) | r
macro_rules! uprim {
    ($ty:expr, $p:expr, |$v:ident| $body:expr) => {
        match $ty {
            "u8" => { let $v = $p as u8; $body }
            "u16" => { let $v = $p as u16; $body }
            "u32" => { let $v = $p as u32; $body }
            "u64" => { let $v = $p as u64; $body }
            "usize" => { let $v = $p as usize; $body }
            _ => { let $v = $p as u128; $body }
        }
    };
}
macro_rules! iprim {
    ($ty:expr, $p:expr, |$v:ident| $body:expr) => {
        match $ty {
            "i8" => { let $v = $p as i8; $body }
            "i16" => { let $v = $p as i16; $body }
            "i32" => { let $v = $p as i32; $body }
            "i64" => { let $v = $p as i64; $body }
            "isize" => { let $v = $p as isize; $body }
            _ => { let $v = $p as i128; $body }
        }
    };
}

fn padded(s: &str, n: usize) -> Vec<Word> {
    let (neg, mut w) = hex_words(s);
    assert!(!neg && w.len() <= n, "kernel operand longer than its declared length");
    w.resize(n, 0);
    w
}

fn run(op: &str, a: &[&str]) -> String {
    match op {
        // ---------------------------------------------------------------- UBig x UBig
        "uadd" => ou(forms6!(a[0], ubig(a[1]), ubig(a[2]), +, +=)),
        "usub" => ou(forms6!(a[0], ubig(a[1]), ubig(a[2]), -, -=)),
        "umul" => ou(forms6!(a[0], ubig(a[1]), ubig(a[2]), *, *=)),
        // ---------------------------------------------------------------- IBig x IBig
        "iadd" => oi(forms6!(a[0], ibig(a[1]), ibig(a[2]), +, +=)),
        "isub" => oi(forms6!(a[0], ibig(a[1]), ibig(a[2]), -, -=)),
        "imul" => oi(forms6!(a[0], ibig(a[1]), ibig(a[2]), *, *=)),
        // ---------------------------------------------------------------- mixed
        "add_ui" => oi(forms4!(a[0], ubig(a[1]), ibig(a[2]), +)),
        "sub_ui" => oi(forms4!(a[0], ubig(a[1]), ibig(a[2]), -)),
        "mul_ui" => oi(forms4!(a[0], ubig(a[1]), ibig(a[2]), *)),
        "add_iu" => oi(forms6!(a[0], ibig(a[1]), ubig(a[2]), +, +=)),
        "sub_iu" => oi(forms6!(a[0], ibig(a[1]), ubig(a[2]), -, -=)),
        "mul_iu" => oi(forms6!(a[0], ibig(a[1]), ubig(a[2]), *, *=)),
        // ---------------------------------------------------------------- primitives
        // args: ty side(l|r|a) op(add|sub|mul) big prim
        "uprim" => {
            let (ty, side, o) = (a[0], a[1], a[2]);
            let x = ubig(a[3]);
            let p: u128 = u128::try_from(&ubig(a[4])).expect("primitive");
            assert!(prim_bits(ty) == 128 || p < (1u128 << prim_bits(ty)));
            uprim!(ty, p, |v| ou(match (side, o) {
                ("l", "add") => x + v,
                ("l", "sub") => x - v,
                ("l", "mul") => x * v,
                ("r", "add") => v + x,
                ("r", "sub") => v - x,
                ("r", "mul") => v * x,
                ("lr", "add") => &x + v,
                ("lr", "sub") => &x - v,
                ("lr", "mul") => &x * v,
                ("rr", "add") => v + &x,
                ("rr", "sub") => v - &x,
                ("rr", "mul") => v * &x,
                ("a", "add") => { let mut t = x; t += v; t }
                ("a", "sub") => { let mut t = x; t -= v; t }
                ("a", "mul") => { let mut t = x; t *= v; t }
                _ => panic!("unknown uprim form"),
            }))
        }
        "iprim_u" => {
            let (ty, side, o) = (a[0], a[1], a[2]);
            let x = ibig(a[3]);
            let p: u128 = u128::try_from(&ubig(a[4])).expect("primitive");
            assert!(prim_bits(ty) == 128 || p < (1u128 << prim_bits(ty)));
            uprim!(ty, p, |v| oi(match (side, o) {
                ("l", "add") => x + v,
                ("l", "sub") => x - v,
                ("l", "mul") => x * v,
                ("r", "add") => v + x,
                ("r", "sub") => v - x,
                ("r", "mul") => v * x,
                ("lr", "add") => &x + v,
                ("lr", "sub") => &x - v,
                ("lr", "mul") => &x * v,
                ("rr", "add") => v + &x,
                ("rr", "sub") => v - &x,
                ("rr", "mul") => v * &x,
                ("a", "add") => { let mut t = x; t += v; t }
                ("a", "sub") => { let mut t = x; t -= v; t }
                ("a", "mul") => { let mut t = x; t *= v; t }
                _ => panic!("unknown iprim form"),
            }))
        }
        "iprim_i" => {
            let (ty, side, o) = (a[0], a[1], a[2]);
            let x = ibig(a[3]);
            let p: i128 = i128::try_from(&ibig(a[4])).expect("primitive");
            let b = prim_bits(ty);
            assert!(b == 128 || (p >= -(1i128 << (b - 1)) && p < (1i128 << (b - 1))));
            iprim!(ty, p, |v| oi(match (side, o) {
                ("l", "add") => x + v,
                ("l", "sub") => x - v,
                ("l", "mul") => x * v,
                ("r", "add") => v + x,
                ("r", "sub") => v - x,
                ("r", "mul") => v * x,
                ("lr", "add") => &x + v,
                ("lr", "sub") => &x - v,
                ("lr", "mul") => &x * v,
                ("rr", "add") => v + &x,
                ("rr", "sub") => v - &x,
                ("rr", "mul") => v * &x,
                ("a", "add") => { let mut t = x; t += v; t }
                ("a", "sub") => { let mut t = x; t -= v; t }
                ("a", "mul") => { let mut t = x; t *= v; t }
                _ => panic!("unknown iprim form"),
            }))
        }
        // ---------------------------------------------------------------- sqr / cubic / pow
        "usqr" => ou(ubig(a[0]).sqr()),
        "isqr" => ou(ibig(a[0]).sqr()),
        "ucubic" => ou(ubig(a[0]).cubic()),
        "icubic" => oi(ibig(a[0]).cubic()),
        "upow" => ou(ubig(a[0]).pow(usz(a[1]))),
        "ipow" => oi(ibig(a[0]).pow(usz(a[1]))),
        // ---------------------------------------------------------------- kernels through the hooks
        // kmul which positive la lb c a b  ->  ok c' carry    (lengths in 64-bit words; kmul32: in 32-bit words)
        "kmul" | "kmul32" | "kmul64" => {
            if (op == "kmul32" && vh::WORD_BITS != 32) || (op == "kmul64" && vh::WORD_BITS != 64) {
                return "ok na NATIVE".to_string();
            }
            let sc = if op == "kmul" { SCALE } else { 1 };
            let which = usz(a[0]) as u8;
            let positive = a[1] == "1";
            let (la, lb) = (sc * usz(a[2]), sc * usz(a[3]));
            let mut c = padded(a[4], la + lb);
            let x = padded(a[5], la);
            let y = padded(a[6], lb);
            let carry = vh::mul_kernel(which, &mut c, positive, &x, &y);
            format!("ok {} {} {}{}", words_hex(false, &c), hisz(carry as isize), wtag(), if op != "kmul" { " NATIVE" } else { "" })
        }
        // ksqr la a -> ok b
        "ksqr" | "ksqr32" => {
            if op == "ksqr32" && vh::WORD_BITS != 32 {
                return "ok na NATIVE".to_string();
            }
            let la = usz(a[0]) * if op == "ksqr" { SCALE } else { 1 };
            let x = padded(a[1], la);
            let mut b = vec![0 as Word; 2 * la];
            vh::sqr_kernel(&mut b, &x);
            format!("ok {} {}{}", words_hex(false, &b), wtag(), if op == "ksqr32" { " NATIVE" } else { "" })
        }
        // wk wordbits which llen rlen lhs rhs x sx -> ok lhs' magnitude negative?   (one kernel of add.rs / mul/mod.rs)
        "wk" => {
            if usz(a[0]) != vh::WORD_BITS as usize {
                return "ok na NATIVE".to_string();
            }
            let which = usz(a[1]) as u8;
            let mut lhs = padded(a[4], usz(a[2]));
            let rhs = padded(a[5], usz(a[3]));
            let xw = padded(a[6], 2);
            let x = (xw[0] as DoubleWord) | ((xw[1] as DoubleWord) << vh::WORD_BITS);
            let sx: i128 = match a[7].strip_prefix('-') {
                Some(b) => -(i128::from_str_radix(b, 16).expect("signed word")),
                None => i128::from_str_radix(a[7], 16).expect("signed word"),
            };
            assert!(sx >= -(1i128 << (vh::WORD_BITS - 1)) && sx < (1i128 << (vh::WORD_BITS - 1)), "signed word");
            let (mag, neg) = vh::word_kernel(which, &mut lhs, &rhs, x, sx as _);
            format!("ok {} {:x} {} {} NATIVE", words_hex(false, &lhs), mag, neg as u8, wtag())
        }
        // kmem la lb -> ok <words reserved by mul::memory_requirement_exact> <least number of scratch words with which
        //                   mul::add_signed_mul runs through> (the allocator panics when a kernel asks for more)
        "kmem" => {
            let (la, lb) = (SCALE * usz(a[0]), SCALE * usz(a[1]));
            let x = vec![Word::MAX; la];
            let y = vec![Word::MAX - 1; lb];
            let reserved = vh::mul_scratch_words(la + lb, la, lb);
            let runs = |k: usize| -> bool {
                let mut c = vec![0 as Word; la + lb];
                std::panic::catch_unwind(std::panic::AssertUnwindSafe(|| {
                    let _ = vh::mul_kernel_scratch(&mut c, true, &x, &y, k);
                }))
                .is_ok()
            };
            let mut hi = reserved;
            while !runs(hi) {
                hi = 2 * hi + 16;
                assert!(hi < (1 << 28), "kernel does not run with any amount of scratch memory");
            }
            let mut lo = 0usize; // least k in lo..=hi that runs
            while lo < hi {
                let mid = (lo + hi) / 2;
                if runs(mid) {
                    hi = mid;
                } else {
                    lo = mid + 1;
                }
            }
            format!("ok {:x} {:x} {} NATIVE", reserved, lo, wtag())
        }
        "params" => {
            let (t1, t2, m1, m2) = vh::MUL_PARAMS;
            format!("ok {:x} {:x} {:x} {:x} {:x} NATIVE", t1, t2, m1, m2, vh::WORD_BITS)
        }
        _ => format!("unknown-op {}", op),
    }
}

fn main() {
    serve(run);
}
