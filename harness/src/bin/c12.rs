//! C12: gcd, integer roots, integer logarithms, log2 bounds, remove.
//! One case per line: `id op args...`, integers as [-]hex, counts as hex, f32 results as hex bit patterns.
use dashu_base::{CubicRoot, CubicRootRem, EstimatedLog2, ExtendedGcd, Gcd, SquareRoot, SquareRootRem};
use dashu_int::{IBig, UBig};
use hlib::*;

/// the no_std build of dashu-base answers 3u8.log2_bounds() from a literal; the std build from libm
fn is_nostd() -> bool {
    3u8.log2_bounds().0 == 1.5849625f32
}

/// f32 bounds: bit patterns marked with `~`; the token `ns` tells the oracle that dashu-base was built without std
fn fb(x: (f32, f32)) -> String {
    format!("ok ~{:x} ~{:x}{}", x.0.to_bits(), x.1.to_bits(), if is_nostd() { " ns" } else { "" })
}

fn u128_of(s: &str) -> u128 {
    u128::from_str_radix(s, 16).expect("u128")
}

fn i128_of(s: &str) -> i128 {
    match s.strip_prefix('-') {
        Some(b) => (u128_of(b) as i128).wrapping_neg(),
        None => u128_of(s) as i128,
    }
}

fn hi128(v: i128) -> String {
    if v < 0 {
        format!("-{:x}", v.unsigned_abs())
    } else {
        format!("{:x}", v)
    }
}

/// the four value/reference call forms of a binary trait method
macro_rules! forms {
    ($form:expr, $x:expr, $y:expr, $m:ident) => {
        match $form {
            "vv" => $x.$m($y),
            "vr" => $x.$m(&$y),
            "rv" => (&$x).$m($y),
            "rr" => (&$x).$m(&$y),
            other => panic!("unknown form {}", other),
        }
    };
}

macro_rules! prim_u {
    ($ty:expr, $v:expr, |$p:ident| $body:expr) => {
        match $ty {
            "u8" => { let $p = u8::try_from($v).expect("range"); $body }
            "u16" => { let $p = u16::try_from($v).expect("range"); $body }
            "u32" => { let $p = u32::try_from($v).expect("range"); $body }
            "u64" => { let $p = u64::try_from($v).expect("range"); $body }
            "usize" => { let $p = usize::try_from($v).expect("range"); $body }
            "u128" => { let $p = $v as u128; $body }
            other => panic!("unknown type {}", other),
        }
    };
}
macro_rules! prim_u2 {
    ($ty:expr, $v:expr, $w:expr, |$p:ident, $q:ident| $body:expr) => {
        match $ty {
            "u8" => { let ($p, $q) = (u8::try_from($v).expect("range"), u8::try_from($w).expect("range")); $body }
            "u16" => { let ($p, $q) = (u16::try_from($v).expect("range"), u16::try_from($w).expect("range")); $body }
            "u32" => { let ($p, $q) = (u32::try_from($v).expect("range"), u32::try_from($w).expect("range")); $body }
            "u64" => { let ($p, $q) = (u64::try_from($v).expect("range"), u64::try_from($w).expect("range")); $body }
            "usize" => { let ($p, $q) = (usize::try_from($v).expect("range"), usize::try_from($w).expect("range")); $body }
            "u128" => { let ($p, $q) = ($v as u128, $w as u128); $body }
            other => panic!("unknown type {}", other),
        }
    };
}
// the root traits are not implemented for usize
macro_rules! prim_u5 {
    ($ty:expr, $v:expr, |$p:ident| $body:expr) => {
        match $ty {
            "u8" => { let $p = u8::try_from($v).expect("range"); $body }
            "u16" => { let $p = u16::try_from($v).expect("range"); $body }
            "u32" => { let $p = u32::try_from($v).expect("range"); $body }
            "u64" => { let $p = u64::try_from($v).expect("range"); $body }
            "u128" => { let $p = $v as u128; $body }
            other => panic!("unknown type {}", other),
        }
    };
}
macro_rules! prim_i {
    ($ty:expr, $v:expr, |$p:ident| $body:expr) => {
        match $ty {
            "i8" => { let $p = i8::try_from($v).expect("range"); $body }
            "i16" => { let $p = i16::try_from($v).expect("range"); $body }
            "i32" => { let $p = i32::try_from($v).expect("range"); $body }
            "i64" => { let $p = i64::try_from($v).expect("range"); $body }
            "isize" => { let $p = isize::try_from($v).expect("range"); $body }
            "i128" => { let $p = $v as i128; $body }
            other => panic!("unknown type {}", other),
        }
    };
}

/// `[-]hex` as exactly `len` little-endian words (zero padded)
fn padded(s: &str, len: usize) -> Vec<Word> {
    let (_, mut w) = hex_words(s);
    assert!(w.len() <= len, "value longer than the slice");
    w.resize(len, 0);
    w
}


/// one machine word in hex
fn wd(s: &str) -> Word {
    Word::from_str_radix(s, 16).expect("word")
}

/// appended to the answers of the word-level ops when the build has 32-bit words, so that the oracle runs its
/// models with w = 32
fn wtag() -> &'static str {
    if WB == 32 {
        " w32"
    } else {
        ""
    }
}

/// lehmer.rs: MIN_DWORD_GUESS_LEN (read from the source by tools/translate_c12_r3.py and proved equal to the model's copy)
const MIN_DWORD_GUESS_LEN: usize = 300;

/// the guess of one iteration of gcd_in_place / gcd_ext_in_place (lines 246-252) through the hooks
fn lehmer_guess_for(x: &[Word], y: &[Word]) -> (Word, Word, Word, Word) {
    use dashu_int::verif_hooks as vh;
    if x.len() < MIN_DWORD_GUESS_LEN {
        let (xh, yh) = vh::lehmer_top_word(x, y);
        vh::lehmer_guess(xh, yh)
    } else {
        let (xh, yh) = vh::lehmer_top_dword(x, y);
        vh::lehmer_guess_dword(xh, yh)
    }
}

fn run(op: &str, a: &[&str]) -> String {
    match op {
        // ------------------------------------------------------------------ hook level: Lehmer kernels (lehmer.rs)
        // `lguess <xbar> <ybar>` / `lguessd <xbar> <ybar>`: the cosequence guess from one / two leading words
        "lguess" => {
            let (p, q, r, t) = dashu_int::verif_hooks::lehmer_guess(wd(a[0]), wd(a[1]));
            format!("ok {:x} {:x} {:x} {:x}{}", p, q, r, t, wtag())
        }
        "lguessd" => {
            let (x, y) = (padded(a[0], 2), padded(a[1], 2));
            let (p, q, r, t) = dashu_int::verif_hooks::lehmer_guess_dword((x[0], x[1]), (y[0], y[1]));
            format!("ok {:x} {:x} {:x} {:x}{}", p, q, r, t, wtag())
        }
        // `ltop <x> <y>` / `ltopd <x> <y>`: the aligned leading word / double word of x >= y
        "ltop" => {
            let ((_, x), (_, y)) = (hex_words(a[0]), hex_words(a[1]));
            let (xh, yh) = dashu_int::verif_hooks::lehmer_top_word(&x, &y);
            format!("ok {:x} {:x}{}", xh, yh, wtag())
        }
        "ltopd" => {
            let ((_, x), (_, y)) = (hex_words(a[0]), hex_words(a[1]));
            let (xh, yh) = dashu_int::verif_hooks::lehmer_top_dword(&x, &y);
            format!("ok {} {}{}", words_hex(false, &[xh.0, xh.1]), words_hex(false, &[yh.0, yh.1]), wtag())
        }
        // `lstep <xlen> <x> <ylen> <y> <a> <b> <c> <d>`: lehmer_step on slices of the given lengths
        "lstep" => {
            let mut x = padded(a[1], usz(a[0]));
            let mut y = padded(a[3], usz(a[2]));
            dashu_int::verif_hooks::lehmer_step(&mut x, &mut y, wd(a[4]), wd(a[5]), wd(a[6]), wd(a[7]));
            format!("ok {} {}{}", words_hex(false, &x), words_hex(false, &y), wtag())
        }
        // `liter <x> <y>`: the Lehmer branch of one iteration of the main loops: guess from the leading bits, then
        // lehmer_step on the trimmed slices; `ok euclid` when the guess failed (b == 0)
        "liter" => {
            let ((_, mut x), (_, mut y)) = (hex_words(a[0]), hex_words(a[1]));
            let (p, q, r, t) = lehmer_guess_for(&x, &y);
            if q == 0 {
                format!("ok euclid{}", wtag())
            } else {
                dashu_int::verif_hooks::lehmer_step(&mut x, &mut y, p, q, r, t);
                format!("ok {:x} {:x} {:x} {:x} {} {}{}", p, q, r, t, words_hex(false, &x), words_hex(false, &y), wtag())
            }
        }
        // `lext <len> <xlen> <x> <ylen> <y> <a> <b> <c> <d>`: lehmer_ext_step on the first len words
        "lext" => {
            let mut x = padded(a[2], usz(a[1]));
            let mut y = padded(a[4], usz(a[3]));
            let (cx, cy) = dashu_int::verif_hooks::lehmer_ext_step(&mut x, &mut y, usz(a[0]), wd(a[5]), wd(a[6]), wd(a[7]), wd(a[8]));
            format!("ok {} {} {:x} {:x}{}", words_hex(false, &x), words_hex(false, &y), cx, cy, wtag())
        }
        // ------------------------------------------------------------------ hook level: Karatsuba square root kernel
        // `ksqrt <n> <a>`: a normalised to 2n words; answer: root, low n words of the remainder, its carry
        "ksqrt" => {
            let n = usz(a[0]);
            let mut buf = padded(a[1], 2 * n);
            let mut out = vec![0 as Word; n];
            let c = dashu_int::verif_hooks::sqrt_rem_kernel(&mut out, &mut buf);
            format!("ok {} {} {}{}", words_hex(false, &out), words_hex(false, &buf[..n]), c as u8, wtag())
        }
        // ------------------------------------------------------------------ gcd
        "gcd" => {
            let (x, y) = (ibig(a[1]), ibig(a[2]));
            format!("ok {}", hu(&forms!(a[0], x, y, gcd)))
        }
        "ugcd" => {
            let (x, y) = (ubig(a[1]), ubig(a[2]));
            format!("ok {}{}", hu(&forms!(a[0], x, y, gcd)), wtag())
        }
        "gcd_ui" => {
            let (x, y) = (ubig(a[1]), ibig(a[2]));
            format!("ok {}", hu(&forms!(a[0], x, y, gcd)))
        }
        "gcd_iu" => {
            let (x, y) = (ibig(a[1]), ubig(a[2]));
            format!("ok {}", hu(&forms!(a[0], x, y, gcd)))
        }
        "gcd_ext" => {
            let (x, y) = (ibig(a[1]), ibig(a[2]));
            let (g, s, t) = forms!(a[0], x, y, gcd_ext);
            format!("ok {} {} {}", hu(&g), hi(&s), hi(&t))
        }
        "ugcd_ext" => {
            let (x, y) = (ubig(a[1]), ubig(a[2]));
            let (g, s, t) = forms!(a[0], x, y, gcd_ext);
            format!("ok {} {} {}{}", hu(&g), hi(&s), hi(&t), wtag())
        }
        "gcd_ext_ui" => {
            let (x, y) = (ubig(a[1]), ibig(a[2]));
            let (g, s, t) = forms!(a[0], x, y, gcd_ext);
            format!("ok {} {} {}", hu(&g), hi(&s), hi(&t))
        }
        "gcd_ext_iu" => {
            let (x, y) = (ibig(a[1]), ubig(a[2]));
            let (g, s, t) = forms!(a[0], x, y, gcd_ext);
            format!("ok {} {} {}", hu(&g), hi(&s), hi(&t))
        }
        "pgcd" => {
            let (x, y) = (u128_of(a[1]), u128_of(a[2]));
            prim_u2!(a[0], x, y, |p, q| format!("ok {:x}", p.gcd(q) as u128))
        }
        "pgcd_ext" => {
            let (x, y) = (u128_of(a[1]), u128_of(a[2]));
            prim_u2!(a[0], x, y, |p, q| {
                let (g, s, t) = p.gcd_ext(q);
                format!("ok {:x} {} {}", g as u128, hi128(s as i128), hi128(t as i128))
            })
        }
        // ------------------------------------------------------------------ roots
        "usqrt" => format!("ok {}", hu(&ubig(a[0]).sqrt())),
        "usqrt_rem" => {
            let (s, r) = ubig(a[0]).sqrt_rem();
            format!("ok {} {}{}", hu(&s), hu(&r), wtag())
        }
        "ucbrt" => format!("ok {}", hu(&ubig(a[0]).cbrt())),
        "ucbrt_rem" => {
            let (s, r) = ubig(a[0]).cbrt_rem();
            format!("ok {} {}", hu(&s), hu(&r))
        }
        "unth" => format!("ok {}", hu(&ubig(a[0]).nth_root(usz(a[1])))),
        "isqrt" => format!("ok {}", hu(&ibig(a[0]).sqrt())),
        "icbrt" => format!("ok {}", hi(&ibig(a[0]).cbrt())),
        "inth" => format!("ok {}", hi(&ibig(a[0]).nth_root(usz(a[1])))),
        "psqrt" => prim_u5!(a[0], u128_of(a[1]), |p| format!("ok {:x}", p.sqrt() as u128)),
        "pcbrt" => prim_u5!(a[0], u128_of(a[1]), |p| format!("ok {:x}", p.cbrt() as u128)),
        "psqrt_rem" => prim_u5!(a[0], u128_of(a[1]), |p| {
            let (s, r) = p.sqrt_rem();
            format!("ok {:x} {:x}", s as u128, r as u128)
        }),
        "pcbrt_rem" => prim_u5!(a[0], u128_of(a[1]), |p| {
            let (s, r) = p.cbrt_rem();
            format!("ok {:x} {:x}", s as u128, r as u128)
        }),
        // every value of `cnt` classes of the high half of u32 (65536 values each) starting at K0
        "psweep32" => {
            let (k0, cnt) = (u128_of(a[1]) as u64, u128_of(a[2]) as u64);
            let cube = a[0] == "cbrt";
            let mut bad = 0u64;
            for n in (k0 << 16)..((k0 + cnt) << 16).min(1 << 32) {
                let n = n as u32;
                if cube {
                    let (c, r) = n.cbrt_rem();
                    let c = c as u64;
                    if !(c * c * c + r as u64 == n as u64 && (c + 1).pow(3) > n as u64) { bad += 1; }
                } else {
                    let (s, r) = n.sqrt_rem();
                    let s = s as u64;
                    if !(s * s + r as u64 == n as u64 && (s + 1) * (s + 1) > n as u64) { bad += 1; }
                }
            }
            format!("ok {:x}", bad)
        }
        // class sweep (round 5): the real u64 routines at the critical points of `cnt` classes of the high half starting
        // at X0 - both class ends and the perfect powers (and their predecessors) inside; answer = number of wrong results
        "psweep64" => {
            let (x0, cnt) = (u128_of(a[1]) as u64, u128_of(a[2]) as u64);
            let cube = a[0] == "cbrt";
            let mut bad = 0u64;
            let root = |n: u64| -> u64 {
                let mut r = if cube { (n as f64).cbrt() as u64 } else { (n as f64).sqrt() as u64 };
                let pw = |r: u64| if cube { (r as u128).pow(3) } else { (r as u128).pow(2) };
                while pw(r) > n as u128 { r -= 1; }
                while pw(r + 1) <= n as u128 { r += 1; }
                r
            };
            let mut check = |n: u64, bad: &mut u64| {
                let want = root(n);
                let (got, rem) = if cube { let (c, r) = n.cbrt_rem(); (c as u64, r) } else { let (s, r) = n.sqrt_rem(); (s as u64, r) };
                let pw = if cube { (want as u128).pow(3) } else { (want as u128).pow(2) };
                if got != want || rem as u128 != n as u128 - pw { *bad += 1; }
            };
            for x in x0..x0.saturating_add(cnt).min(1 << 32) {
                let (lo, hi) = (x << 32, (x << 32) | 0xffff_ffff);
                check(lo, &mut bad);
                check(hi, &mut bad);
                let (rl, rh) = (root(lo), root(hi));
                let mut m = rl + 1;
                while m <= rh && m < rl + 4 {
                    let p = if cube { m * m * m } else { m * m };
                    check(p - 1, &mut bad);
                    check(p, &mut bad);
                    m += 1;
                }
            }
            format!("ok {:x}", bad)
        }
        // ------------------------------------------------------------------ logarithms
        "uilog" => format!("ok {:x}", ubig(a[0]).ilog(&ubig(a[1]))),
        "iilog" => format!("ok {:x}", ibig(a[0]).ilog(&ubig(a[1]))),
        "ulog2b" => fb(ubig(a[0]).log2_bounds()),
        "ilog2b" => fb(ibig(a[0]).log2_bounds()),
        "plog2b" => {
            if a[0].starts_with('u') {
                prim_u!(a[0], u128_of(a[1]), |p| fb(p.log2_bounds()))
            } else {
                prim_i!(a[0], i128_of(a[1]), |p| fb(p.log2_bounds()))
            }
        }
        "f32log2b" => fb(f32::from_bits(u128_of(a[0]) as u32).log2_bounds()),
        "f64log2b" => fb(f64::from_bits(u128_of(a[0]) as u64).log2_bounds()),
        "flog2b" => with_float!(a[0], "Zero", |R, B| {
            let r: Repr<B> = repr_of(a[1], a[2]);
            if a.len() > 3 {
                fb(FBig::<R, B>::from_repr(r, Context::new(0)).log2_bounds())
            } else {
                fb(r.log2_bounds())
            }
        }),
        "rlog2b" => fb(rbig(a[0], a[1]).log2_bounds()),
        "relog2b" => fb(relaxed(a[0], a[1]).log2_bounds()),
        // ------------------------------------------------------------------ remove
        "remove" => {
            let mut x = ubig(a[0]);
            let f = ubig(a[1]);
            match x.remove(&f) {
                Some(e) => format!("ok some {:x} {}", e, hu(&x)),
                None => format!("ok none {}", hu(&x)),
            }
        }
        _ => format!("err unknown-op-{}", op),
    }
}

fn main() {
    serve(run);
}
