//! C14: cross-type comparison (NumOrd), magnitude comparison (AbsOrd) and NumHash.
//! case:   `ord A B` | `abs A B` | `hash A`        (A, B typed operand tokens, see `parse`)
//!         `cmp A B` (two FBig of one type: PartialOrd / Ord, float/src/cmp.rs repr_cmp_same_base)
//! answer: `ord`  -> `ok <partial: lt|eq|gt|none> <num_cmp: lt|eq|gt|-> <eq><ne><lt><le><gt><ge>`
//!         `abs`  -> `ok lt|eq|gt`
//!         `hash` -> `ok <the i128 fed to the hasher, [-]hex> <number of bytes written>`
//! case:   `est A` (A a big integer, float or rational token): EstimatedLog2::log2_bounds, and Repr::digits_ub for floats
//! answer: `ok <lb f32 bits> <ub f32 bits> <digits_ub | -> <k> (<x f32 bits> <f32::log2(x) bits>) * k`
//!         the k pairs are the libm values the std estimator can ask for on this operand (the oracle runs the
//!         transcribed f32 arithmetic around them)
//!         (round 4: the table is preceded by the word size, `w<Word::BITS in hex> <k> pairs`)
//! case:   `ordf A B` | `absf A B` | `cmpf A B`: as `ord` / `abs` / `cmp`, the answer followed by `t w<bits> <k> pairs` for both operands
//! case:   `lgchk LO HI`: the libm assumption lg_contract on every integer n in LO..=HI (a sub-range of 1..=2^24):
//!         f32::log2(n as f32) is finite and its two f32 neighbours enclose log2 n, decided against an enclosure of
//!         log2 n computed in integer arithmetic (bit-by-bit squaring, 62 fraction bits, separate lower / upper tracks)
//! answer: `ok <count> <violations> <undecided> <k> (<n> <f32::log2 bits>) * k` - the pairs are the two ends, the worst
//!         integer of the range (largest error in units of the f32 step) and a few more; the oracle re-decides them
//!         with its own enclosure (arbitrary precision)
use dashu_base::{AbsOrd, BitTest, EstimatedLog2, UnsignedAbs};
use hlib::*;
use num_order::{NumHash, NumOrd};
use std::cmp::Ordering;
use std::hash::Hasher;

type F2 = FBig<mode::Zero, 2>;
type F3 = FBig<mode::HalfEven, 3>;
type F10 = FBig<mode::HalfAway, 10>;
type F16 = FBig<mode::Down, 16>;

#[allow(non_camel_case_types)]
enum Val {
    U(UBig),
    I(IBig),
    F2(F2),
    F3(F3),
    F10(F10),
    F16(F16),
    G2(Repr<2>),
    G3(Repr<3>),
    G10(Repr<10>),
    G16(Repr<16>),
    Q(RBig),
    R(Relaxed),
    u8(u8),
    u16(u16),
    u32(u32),
    u64(u64),
    u128(u128),
    usize(usize),
    i8(i8),
    i16(i16),
    i32(i32),
    i64(i64),
    i128(i128),
    isize(isize),
    f32(f32),
    f64(f64),
}

fn fbig<R: dashu_float::round::Round, const B: Word>(p: &str, sig: &str, exp: &str) -> FBig<R, B> {
    let r = repr_of::<B>(sig, exp);
    let p = usz(p);
    let p = if p == 0 || r.is_infinite() { p } else { p.max(r.digits()) };
    FBig::from_repr(r, Context::new(p))
}

fn parse(tok: &str) -> Val {
    let f: Vec<&str> = tok.split(':').collect();
    let u = |s: &str| u128::from_str_radix(s, 16).expect("u128");
    let i = |s: &str| -> i128 {
        match s.strip_prefix('-') {
            Some(b) => (u128::from_str_radix(b, 16).expect("i128") as i128).wrapping_neg(),
            None => u128::from_str_radix(s, 16).expect("i128") as i128,
        }
    };
    match f[0] {
        "u" => Val::U(ubig(f[1])),
        "i" => Val::I(ibig(f[1])),
        "f2" => Val::F2(fbig(f[1], f[2], f[3])),
        "f3" => Val::F3(fbig(f[1], f[2], f[3])),
        "f10" => Val::F10(fbig(f[1], f[2], f[3])),
        "f16" => Val::F16(fbig(f[1], f[2], f[3])),
        "g2" => Val::G2(repr_of(f[1], f[2])),
        "g3" => Val::G3(repr_of(f[1], f[2])),
        "g10" => Val::G10(repr_of(f[1], f[2])),
        "g16" => Val::G16(repr_of(f[1], f[2])),
        "q" => Val::Q(rbig(f[1], f[2])),
        "r" => Val::R(relaxed(f[1], f[2])),
        "pu8" => Val::u8(u(f[1]).try_into().unwrap()),
        "pu16" => Val::u16(u(f[1]).try_into().unwrap()),
        "pu32" => Val::u32(u(f[1]).try_into().unwrap()),
        "pu64" => Val::u64(u(f[1]).try_into().unwrap()),
        "pu128" => Val::u128(u(f[1])),
        "pusize" => Val::usize(u(f[1]).try_into().unwrap()),
        "pi8" => Val::i8(i(f[1]).try_into().unwrap()),
        "pi16" => Val::i16(i(f[1]).try_into().unwrap()),
        "pi32" => Val::i32(i(f[1]).try_into().unwrap()),
        "pi64" => Val::i64(i(f[1]).try_into().unwrap()),
        "pi128" => Val::i128(i(f[1])),
        "pisize" => Val::isize(i(f[1]).try_into().unwrap()),
        "s" => Val::f32(f32::from_bits(u(f[1]) as u32)),
        "d" => Val::f64(f64::from_bits(u(f[1]) as u64)),
        other => panic!("unknown operand kind {}", other),
    }
}

fn o2s(o: Ordering) -> &'static str {
    match o {
        Ordering::Less => "lt",
        Ordering::Equal => "eq",
        Ordering::Greater => "gt",
    }
}

/// every method of NumOrd
fn ord_all<A: NumOrd<B>, B>(a: &A, b: &B) -> String {
    let pc = a.num_partial_cmp(b);
    let c = match pc {
        Some(_) => o2s(a.num_cmp(b)),
        None => "-",
    };
    let bits: String = [a.num_eq(b), a.num_ne(b), a.num_lt(b), a.num_le(b), a.num_gt(b), a.num_ge(b)]
        .iter()
        .map(|&x| if x { '1' } else { '0' })
        .collect();
    format!("ok {} {} {}", pc.map(o2s).unwrap_or("none"), c, bits)
}

fn abs_one<A: AbsOrd<B>, B>(a: &A, b: &B) -> String {
    format!("ok {}", o2s(a.abs_cmp(b)))
}

/// records what the value feeds to the hasher
#[derive(Default)]
struct Rec(Vec<u8>);
impl Hasher for Rec {
    fn finish(&self) -> u64 {
        0
    }
    fn write(&mut self, bytes: &[u8]) {
        self.0.extend_from_slice(bytes);
    }
}

fn hash_one<T: NumHash>(x: &T) -> String {
    let mut h = Rec::default();
    x.num_hash(&mut h);
    let n = h.0.len();
    if n != 16 {
        return format!("ok bytes {}", n);
    }
    let mut b = [0u8; 16];
    b.copy_from_slice(&h.0);
    let v = i128::from_ne_bytes(b);
    let s = if v < 0 { format!("-{:x}", v.unsigned_abs()) } else { format!("{:x}", v) };
    format!("ok {} {:x}", s, n)
}

/// try every (left kind, right kind) of the two lists
macro_rules! cross {
    ($f:ident, $a:expr, $b:expr; [$($l:ident)*] x $rs:tt) => { $( cross!(@row $f, $a, $b; $l; $rs); )* };
    (@row $f:ident, $a:expr, $b:expr; $l:ident; [$($r:ident)*]) => {
        $( if let (Val::$l(x), Val::$r(y)) = ($a, $b) { return Some($f(x, y)); } )*
    };
}
/// both directions
macro_rules! cross2 {
    ($f:ident, $a:expr, $b:expr; $ls:tt x $rs:tt) => { cross!($f, $a, $b; $ls x $rs); cross!($f, $a, $b; $rs x $ls); };
}

fn ord(a: &Val, b: &Val) -> Option<String> {
    // integer crate
    cross!(ord_all, a, b; [U I] x [U I]);
    cross2!(ord_all, a, b; [U I] x [u8 u16 u32 u64 u128 usize i8 i16 i32 i64 i128 isize f32 f64]);
    // float crate
    cross!(ord_all, a, b; [F2 F3 F10 F16] x [F2 F3 F10 F16]);
    cross!(ord_all, a, b; [G2 G3 G10 G16] x [G2 G3 G10 G16]);
    cross2!(ord_all, a, b; [F2 F3 F10 F16 G2 G3 G10 G16] x [U I u8 u16 u32 u64 u128 usize i8 i16 i32 i64 i128 isize f32 f64]);
    // rational crate
    cross!(ord_all, a, b; [Q] x [R]);
    cross!(ord_all, a, b; [R] x [Q]);
    cross2!(ord_all, a, b; [Q R] x [U I u8 u16 u32 u64 u128 usize i8 i16 i32 i64 i128 isize f32 f64 F2 F3 F10 F16]);
    None
}

fn abs(a: &Val, b: &Val) -> Option<String> {
    cross!(abs_one, a, b; [U I] x [U I]);
    cross!(abs_one, a, b; [F2] x [F2]);
    cross!(abs_one, a, b; [F3] x [F3]);
    cross!(abs_one, a, b; [F10] x [F10]);
    cross!(abs_one, a, b; [F16] x [F16]);
    cross2!(abs_one, a, b; [F2 F3 F10 F16 G2 G3 G10 G16] x [U I]);
    cross!(abs_one, a, b; [Q R] x [Q R]);
    cross2!(abs_one, a, b; [Q R] x [U I F2 F3 F10 F16]);
    None
}

fn cmp_one<A: PartialOrd + Ord>(a: &A, b: &A) -> String {
    let p = a.partial_cmp(b);
    let c = a.cmp(b);
    if p != Some(c) {
        return format!("ok partial_cmp-and-cmp-differ {:?} {:?}", p, c);
    }
    format!("ok {}", o2s(c))
}

fn cmp(a: &Val, b: &Val) -> Option<String> {
    cross!(cmp_one, a, b; [F2] x [F2]);
    cross!(cmp_one, a, b; [F3] x [F3]);
    cross!(cmp_one, a, b; [F10] x [F10]);
    cross!(cmp_one, a, b; [F16] x [F16]);
    None
}

macro_rules! each {
    ($f:ident, $a:expr; $($l:ident)*) => { match $a { $( Val::$l(x) => $f(x), )* } };
}

fn hash(a: &Val) -> String {
    each!(hash_one, a; U I F2 F3 F10 F16 G2 G3 G10 G16 Q R u8 u16 u32 u64 u128 usize i8 i16 i32 i64 i128 isize f32 f64)
}

/// the arguments of f32::log2 that impl_log2_bounds_for_uint (std) can use for this magnitude
fn lg_inputs(u: &UBig, out: &mut Vec<f32>) {
    if u.is_zero() {
        return;
    }
    let bits = u.bit_len();
    let wb = Word::BITS as usize;
    // RefSmall: the double word itself; RefLarge: the two highest words
    let x: u128 = if bits <= 2 * wb {
        u128::try_from(u).unwrap()
    } else {
        let words = (bits + wb - 1) / wb;
        u128::try_from(&(u >> (wb * (words - 2)))).unwrap()
    };
    if x.is_power_of_two() {
        return;
    }
    let nbits = 128 - x.leading_zeros();
    if nbits <= 24 {
        out.push(x as f32);
    } else {
        let shifted = (x >> (nbits - 24)) as f32;
        out.push(shifted);
        out.push(shifted + 1.);
    }
}

fn float_inputs<const B: Word>(r: &Repr<B>, ins: &mut Vec<f32>) {
    lg_inputs(&r.significand().clone().unsigned_abs(), ins);
    lg_inputs(&UBig::from(B), ins);
}

/// every libm value the estimators can ask for on this operand
fn val_inputs(a: &Val, ins: &mut Vec<f32>) {
    match a {
        Val::U(x) => lg_inputs(x, ins),
        Val::I(x) => lg_inputs(&x.clone().unsigned_abs(), ins),
        Val::F2(x) => float_inputs(x.repr(), ins),
        Val::F3(x) => float_inputs(x.repr(), ins),
        Val::F10(x) => float_inputs(x.repr(), ins),
        Val::F16(x) => float_inputs(x.repr(), ins),
        Val::G2(x) => float_inputs(x, ins),
        Val::G3(x) => float_inputs(x, ins),
        Val::G10(x) => float_inputs(x, ins),
        Val::G16(x) => float_inputs(x, ins),
        Val::Q(x) => {
            lg_inputs(&x.numerator().clone().unsigned_abs(), ins);
            lg_inputs(x.denominator(), ins);
        }
        Val::R(x) => {
            lg_inputs(&x.numerator().clone().unsigned_abs(), ins);
            lg_inputs(x.denominator(), ins);
        }
        Val::u8(x) => lg_inputs(&UBig::from(*x), ins),
        Val::u16(x) => lg_inputs(&UBig::from(*x), ins),
        Val::u32(x) => lg_inputs(&UBig::from(*x), ins),
        Val::u64(x) => lg_inputs(&UBig::from(*x), ins),
        Val::u128(x) => lg_inputs(&UBig::from(*x), ins),
        Val::usize(x) => lg_inputs(&UBig::from(*x), ins),
        Val::i8(x) => lg_inputs(&UBig::from(x.unsigned_abs()), ins),
        Val::i16(x) => lg_inputs(&UBig::from(x.unsigned_abs()), ins),
        Val::i32(x) => lg_inputs(&UBig::from(x.unsigned_abs()), ins),
        Val::i64(x) => lg_inputs(&UBig::from(x.unsigned_abs()), ins),
        Val::i128(x) => lg_inputs(&UBig::from(x.unsigned_abs()), ins),
        Val::isize(x) => lg_inputs(&UBig::from(x.unsigned_abs()), ins),
        Val::f32(_) | Val::f64(_) => {}
    }
}

fn table(ins: &[f32]) -> String {
    let mut s = format!("w{:x} {:x}", Word::BITS, ins.len());
    for x in ins {
        s.push_str(&format!(" {:x} {:x}", x.to_bits(), x.log2().to_bits()));
    }
    s
}

fn est_float<const B: Word>(r: &Repr<B>) -> ((f32, f32), Option<usize>) {
    (r.log2_bounds(), if r.is_infinite() { None } else { Some(r.digits_ub()) })
}

fn est(a: &Val) -> String {
    let mut ins = Vec::new();
    val_inputs(a, &mut ins);
    let (b, dub) = match a {
        Val::U(x) => (x.log2_bounds(), None),
        Val::I(x) => (x.log2_bounds(), None),
        Val::F2(x) => est_float(x.repr()),
        Val::F3(x) => est_float(x.repr()),
        Val::F10(x) => est_float(x.repr()),
        Val::F16(x) => est_float(x.repr()),
        Val::G2(x) => est_float(x),
        Val::G3(x) => est_float(x),
        Val::G10(x) => est_float(x),
        Val::G16(x) => est_float(x),
        Val::Q(x) => (x.log2_bounds(), None),
        Val::R(x) => (x.log2_bounds(), None),
        _ => return "err no-impl".into(),
    };
    format!("ok {:x} {:x} {} {}", b.0.to_bits(), b.1.to_bits(), dub.map(|d| format!("{:x}", d)).unwrap_or("-".into()), table(&ins))
}

/// the answer of `ord` / `abs` / `cmp` followed by the libm table of both operands
fn with_tables(ans: Option<String>, a: &Val, b: &Val) -> String {
    match ans {
        None => "err no-impl".into(),
        Some(s) => {
            let mut ins = Vec::new();
            val_inputs(a, &mut ins);
            val_inputs(b, &mut ins);
            format!("{} t {}", s, table(&ins))
        }
    }
}

/// the neighbouring f32 values (not the library's next_up / next_down: an independent statement of the IEEE order)
fn f32_up(x: f32) -> f32 {
    if x == 0.0 {
        f32::from_bits(1)
    } else if x > 0.0 {
        f32::from_bits(x.to_bits() + 1)
    } else {
        f32::from_bits(x.to_bits() - 1)
    }
}
fn f32_down(x: f32) -> f32 {
    -f32_up(-x)
}

const LG_K: u32 = 40;
/// integer enclosure of log2 n: (lo, hi) in units of 2^-LG_K, lo <= log2 n * 2^LG_K <= hi
fn log2_enclosure(n: u32) -> (u64, u64) {
    let ip = 31 - n.leading_zeros();
    if n.is_power_of_two() {
        return ((ip as u64) << LG_K, (ip as u64) << LG_K); // exact
    }
    let x: u128 = (n as u128) << (62 - ip); // n / 2^ip in [1, 2) with 62 fraction bits, exact
    let two: u128 = 1 << 63;
    let (mut yl, mut yu) = (x, x);
    let (mut sl, mut su) = (0u64, 0u64);
    for k in 1..=LG_K {
        // lower track: squares rounded down
        let z = (yl * yl) >> 62;
        if z >= two {
            sl |= 1 << (LG_K - k);
            yl = z >> 1;
        } else {
            yl = z;
        }
        // upper track: squares rounded up (yu stays in [1, 2])
        let p = yu * yu;
        let z = (p >> 62) + ((p & ((1 << 62) - 1) != 0) as u128);
        if z >= two {
            su |= 1 << (LG_K - k);
            yu = (z >> 1) + (z & 1);
        } else {
            yu = z;
        }
    }
    let base = (ip as u64) << LG_K;
    (base + sl, base + su + 1)
}

fn lgchk(lo: u32, hi: u32) -> String {
    assert!(1 <= lo && lo <= hi && hi <= 1 << 24);
    let scale = (1u64 << LG_K) as f64;
    let (mut bad, mut und) = (0u64, 0u64);
    let mut worst = (lo, -1.0f64);
    let mut first_bad: Option<u32> = None;
    for n in lo..=hi {
        let y = (n as f32).log2();
        if !y.is_finite() {
            bad += 1;
            first_bad.get_or_insert(n);
            continue;
        }
        let (el, eu) = log2_enclosure(n);
        let (el, eu) = (el as f64, eu as f64); // below 2^53: exact
        let dn = f32_down(y) as f64 * scale; // exact (scaling by a power of two)
        let up = f32_up(y) as f64 * scale;
        if dn > eu || up < el {
            bad += 1;
            first_bad.get_or_insert(n);
        } else if !(dn <= el && eu <= up) {
            und += 1;
        }
        let err = ((y as f64) * scale - (el + eu) / 2.0).abs() / (up - (y as f64) * scale);
        if err > worst.1 {
            worst = (n, err);
        }
    }
    let mut picks = vec![lo, hi, worst.0];
    if let Some(b) = first_bad {
        picks.push(b);
    }
    let span = hi - lo;
    for j in 1..6u32 {
        picks.push(lo + ((span as u64 * j as u64) / 6) as u32);
    }
    let mut s = format!("ok {:x} {:x} {:x} {:x}", (hi - lo) as u64 + 1, bad, und, picks.len());
    for n in picks {
        s.push_str(&format!(" {:x} {:x}", n, (n as f32).log2().to_bits()));
    }
    s
}

fn run(op: &str, a: &[&str]) -> String {
    match op {
        "lgchk" => lgchk(u32::from_str_radix(a[0], 16).unwrap(), u32::from_str_radix(a[1], 16).unwrap()),
        "est" => est(&parse(a[0])),
        "ordf" => {
            let (x, y) = (parse(a[0]), parse(a[1]));
            with_tables(ord(&x, &y), &x, &y)
        }
        "absf" => {
            let (x, y) = (parse(a[0]), parse(a[1]));
            with_tables(abs(&x, &y), &x, &y)
        }
        "cmpf" => {
            let (x, y) = (parse(a[0]), parse(a[1]));
            with_tables(cmp(&x, &y), &x, &y)
        }
        "ord" => ord(&parse(a[0]), &parse(a[1])).unwrap_or_else(|| "err no-impl".into()),
        "abs" => abs(&parse(a[0]), &parse(a[1])).unwrap_or_else(|| "err no-impl".into()),
        "cmp" => cmp(&parse(a[0]), &parse(a[1])).unwrap_or_else(|| "err no-impl".into()),
        "hash" => hash(&parse(a[0])),
        _ => format!("unknown-op {}", op),
    }
}

fn main() {
    serve(run);
}
