//! C05: equality, ordering and hashing follow the mathematical value in every type.
//!
//! A case builds k (2 or 3) values, each along its own *route* (constructor, arithmetic path, clone,
//! in-place update, conversion ...), and reports for every value what was built (raw words, the layout
//! read through `verif_hooks::repr_layout_*`, the INPUT the value feeds to a recording `Hasher`) and for
//! every ordered pair the answers of all comparison impls.  Nothing is judged here.
//!
//!   uint k (v route param){k}            UBig      v, param: hex
//!   int  k (v route param){k}            IBig
//!   flt  base k (mode sig exp prec route param){k}
//!   rbig k (num den route param){k}      RBig  (+ the pairs RBig x Relaxed for AbsOrd)
//!   rlx  k (num den route param){k}      Relaxed
#![allow(deprecated)]
use core::cmp::Ordering;
use core::hash::{Hash, Hasher};
use dashu_base::{AbsEq, AbsOrd, BitTest, DivRem, Sign as BSign, Signed, UnsignedAbs};
use dashu_float::round::Round;
use dashu_int::verif_hooks::{repr_layout_ibig, repr_layout_ubig};
use hlib::*;

// ------------------------------------------------------------------------------------------------
// recording hasher: keeps the calls, never computes a hash value
// ------------------------------------------------------------------------------------------------
struct Rec(String);
impl Rec {
    fn sep(&mut self) {
        if !self.0.is_empty() {
            self.0.push('.');
        }
    }
}
impl Hasher for Rec {
    fn finish(&self) -> u64 {
        0
    }
    fn write(&mut self, bytes: &[u8]) {
        self.sep();
        self.0.push('b');
        for b in bytes {
            self.0.push_str(&format!("{:02x}", b));
        }
    }
    fn write_usize(&mut self, i: usize) {
        self.sep();
        self.0.push_str(&format!("u{:x}", i));
    }
    fn write_isize(&mut self, i: isize) {
        self.sep();
        self.0.push_str(&format!("i{:x}", i));
    }
}
fn hash_input<T: Hash>(x: &T) -> String {
    let mut r = Rec(String::new());
    x.hash(&mut r);
    if r.0.is_empty() {
        "-".into()
    } else {
        r.0
    }
}

fn oc(o: Ordering) -> char {
    match o {
        Ordering::Less => 'L',
        Ordering::Equal => 'E',
        Ordering::Greater => 'G',
    }
}
fn ooc(o: Option<Ordering>) -> char {
    match o {
        Some(o) => oc(o),
        None => 'N',
    }
}
fn bc(b: bool) -> char {
    if b {
        '1'
    } else {
        '0'
    }
}
fn lay(l: (isize, usize, bool)) -> String {
    format!("{} {:x} {}", hisz(l.0), l.1, bc(l.2))
}

// ------------------------------------------------------------------------------------------------
// integers
// ------------------------------------------------------------------------------------------------
fn route_u(v: &str, route: &str, p: &str) -> UBig {
    let x = ubig(v);
    match route {
        "words" => x,
        "padded" => {
            let mut w = x.as_words().to_vec();
            w.extend(std::iter::repeat(0).take(usz(p)));
            UBig::from_words(&w)
        }
        "addsub" => (x + ubig(p)) - ubig(p),
        "addsub_ref" => &(&x + &ubig(p)) - &ubig(p),
        "addsub_assign" => {
            let mut t = x;
            t += ubig(p);
            t -= &ubig(p);
            t
        }
        "subadd" => {
            // (p + x) built from the other side, then the big part removed
            let q = ubig(p);
            let t = &q + x;
            t - q
        }
        "shlr" => (x << usz(p)) >> usz(p),
        "shlr_assign" => {
            let mut t = x;
            t <<= usz(p);
            t >>= usz(p);
            t
        }
        "muldiv" => (x * ubig(p)) / ubig(p),
        "muldiv_assign" => {
            let mut t = x;
            t *= ubig(p);
            t /= ubig(p);
            t
        }
        "divrem" => {
            let m = ubig(p);
            let (q, r) = (&x * &m + (&m - UBig::ONE)).div_rem(&m);
            assert!(r == &m - UBig::ONE);
            q
        }
        "rem" => {
            // x < m required by the generator
            let m = ubig(p);
            (&m * &m + x) % m
        }
        "clone" => x.clone(),
        "clonefrom_big" => {
            let mut t = UBig::ONE << (64 * usz(p));
            t.clone_from(&x);
            t
        }
        "clonefrom_small" => {
            let mut t = ubig(p);
            t.clone_from(&x);
            t
        }
        "bytes_le" => UBig::from_le_bytes(&x.to_le_bytes()),
        "bytes_be" => {
            let mut b = vec![0u8; usz(p)];
            b.extend_from_slice(&x.to_be_bytes());
            UBig::from_be_bytes(&b)
        }
        "radix" => {
            let r = usz(p) as u32;
            UBig::from_str_radix(&x.in_radix(r).to_string(), r).unwrap()
        }
        "ones" => UBig::ones(usz(p)),
        "prim" => {
            if let Ok(t) = u64::try_from(&x) {
                UBig::from(t)
            } else {
                UBig::from(u128::try_from(&x).unwrap())
            }
        }
        "dword" => UBig::from_dword(u128::try_from(&x).unwrap()),
        "ibig" => UBig::try_from(IBig::from(x)).unwrap(),
        "negneg" => UBig::try_from(-(-IBig::from(x))).unwrap(),
        "setclr" => {
            let mut t = x;
            t.set_bit(usz(p));
            t.clear_bit(usz(p));
            t
        }
        "split_lo" => {
            let n = usz(p);
            let t = x + (ubig("1") << n);
            t.split_bits(n).0
        }
        "split_hi" => {
            let n = usz(p);
            let t = (x << n) + (UBig::ones(n));
            t.split_bits(n).1
        }
        "and" => x & UBig::ones(usz(p)),
        "xorxor" => (x ^ ubig(p)) ^ ubig(p),
        "orandnot" => {
            // set then remove a high bit pattern by masking
            let n = usz(p);
            let hi = UBig::ONE << n;
            (x | &hi) ^ hi
        }
        "chunks" => {
            let c = x.to_chunks(usz(p));
            UBig::from_chunks(c.iter(), usz(p))
        }
        "unsigned_abs" => (-IBig::from(x)).unsigned_abs(),
        _ => panic!("unknown route {}", route),
    }
}

fn route_i(v: &str, route: &str, p: &str) -> IBig {
    let x = ibig(v);
    match route {
        "parts" => x,
        "addsub" => (x + ibig(p)) - ibig(p),
        "addsub_ref" => &(&x + &ibig(p)) - &ibig(p),
        "addsub_assign" => {
            let mut t = x;
            t += ibig(p);
            t -= ibig(p);
            t
        }
        "subadd" => (x - ibig(p)) + ibig(p),
        "shlr" => (x << usz(p)) >> usz(p),
        "muldiv" => (x * ibig(p)) / ibig(p),
        "muldiv_assign" => {
            let mut t = x;
            t *= ibig(p);
            t /= ibig(p);
            t
        }
        "negneg" => -(-x),
        "negneg_ref" => -&(-&x),
        "clone" => x.clone(),
        "clonefrom_big" => {
            let mut t = -(IBig::ONE << (64 * usz(p)));
            t.clone_from(&x);
            t
        }
        "clonefrom_small" => {
            let mut t = ibig(p);
            t.clone_from(&x);
            t
        }
        "prim" => {
            if let Ok(t) = i64::try_from(&x) {
                IBig::from(t)
            } else {
                IBig::from(i128::try_from(&x).unwrap())
            }
        }
        "radix" => {
            let r = usz(p) as u32;
            IBig::from_str_radix(&x.in_radix(r).to_string(), r).unwrap()
        }
        "notnot" => !!x,
        "xorxor" => (x ^ ibig(p)) ^ ibig(p),
        "abs_sign" => {
            let s = x.sign();
            IBig::from_parts(s, x.unsigned_abs())
        }
        "into_parts" => {
            let (s, m) = x.into_parts();
            IBig::from_parts(s, m)
        }
        "mulsign" => (x * BSign::Negative) * BSign::Negative,
        "signum" => {
            let s = x.signum();
            let a = IBig::from(x.unsigned_abs());
            a * s
        }
        "ubig_sub" => {
            // difference of two unsigned values taken in IBig
            let q = ibig(p);
            let a = x + &q;
            a - q
        }
        "cancel" => {
            // x + (p - p) with the zero produced from big operands and then negated
            let z = ibig(p) - ibig(p);
            x + (-z)
        }
        "neg_zero_parts" => x + IBig::from_parts(BSign::Negative, UBig::ZERO),
        "mul_neg_zero" => {
            let z = IBig::ZERO * ibig(p);
            x - z
        }
        "div_to_zero" => {
            // quotient 0 from operands of opposite signs
            let q = ibig(p);
            let z = &q / (&q * &q + IBig::ONE);
            x + z
        }
        _ => panic!("unknown route {}", route),
    }
}

fn pair_u(a: &UBig, b: &UBig) -> String {
    let mut s = String::new();
    s.push(bc(a == b));
    s.push(bc(a != b));
    s.push(oc(a.cmp(b)));
    s.push(ooc(a.partial_cmp(b)));
    s.push(bc(a < b));
    s.push(bc(a <= b));
    s.push(bc(a > b));
    s.push(bc(a >= b));
    s.push(oc(a.abs_cmp(b)));
    s.push(bc(a.abs_eq(b)));
    s
}

fn pair_i(a: &IBig, b: &IBig) -> String {
    let mut s = String::new();
    s.push(bc(a == b));
    s.push(bc(a != b));
    s.push(oc(a.cmp(b)));
    s.push(ooc(a.partial_cmp(b)));
    s.push(bc(a < b));
    s.push(bc(a <= b));
    s.push(bc(a > b));
    s.push(bc(a >= b));
    s.push(oc(a.abs_cmp(b)));
    s.push(bc(a.abs_eq(b)));
    // the mixed impls of integer/src/cmp.rs: |a| against an unsigned copy of |b| and back
    let ub = b.clone().unsigned_abs();
    let ua = a.clone().unsigned_abs();
    s.push(oc(AbsOrd::<UBig>::abs_cmp(a, &ub)));
    s.push(oc(AbsOrd::<IBig>::abs_cmp(&ua, b)));
    s.push(bc(AbsEq::<UBig>::abs_eq(a, &ub)));
    s.push(bc(AbsEq::<IBig>::abs_eq(&ua, b)));
    s
}

fn run_uint(a: &[&str]) -> String {
    let k = usz(a[0]);
    let vals: Vec<UBig> = (0..k).map(|i| route_u(a[1 + 3 * i], a[2 + 3 * i], a[3 + 3 * i])).collect();
    let mut out = String::from("ok");
    for v in &vals {
        // as_words is one of the observation points: it must agree with the IBig view of the same value
        let w = v.as_words();
        let (_, w2) = v.as_ibig().as_sign_words();
        assert!(w == w2, "as_words differs from as_sign_words");
        out.push_str(&format!(" {} {} {}", words_hex(false, w), lay(repr_layout_ubig(v)), hash_input(v)));
        assert!(w.last().map_or(true, |&t| t != 0), "as_words has a leading zero word");
    }
    for i in 0..k {
        for j in 0..k {
            if i != j {
                out.push(' ');
                out.push_str(&pair_u(&vals[i], &vals[j]));
            }
        }
    }
    out
}

fn run_int(a: &[&str]) -> String {
    let k = usz(a[0]);
    let vals: Vec<IBig> = (0..k).map(|i| route_i(a[1 + 3 * i], a[2 + 3 * i], a[3 + 3 * i])).collect();
    let mut out = String::from("ok");
    for v in &vals {
        let (s, w) = v.as_sign_words();
        assert!(w.last().map_or(true, |&t| t != 0), "as_sign_words has a leading zero word");
        out.push_str(&format!(" {} {} {}", words_hex(s == Sign::Negative, w), lay(repr_layout_ibig(v)), hash_input(v)));
        // zero must carry the positive sign
        if w.is_empty() {
            assert!(s == Sign::Positive, "negative zero");
        }
    }
    for i in 0..k {
        for j in 0..k {
            if i != j {
                out.push(' ');
                out.push_str(&pair_i(&vals[i], &vals[j]));
            }
        }
    }
    out
}

// ------------------------------------------------------------------------------------------------
// floats
// ------------------------------------------------------------------------------------------------
macro_rules! with_mode {
    ($mode:expr, |$R:ident| $body:expr) => {
        match $mode {
            "Zero" => { type $R = mode::Zero; $body }
            "Away" => { type $R = mode::Away; $body }
            "Up" => { type $R = mode::Up; $body }
            "Down" => { type $R = mode::Down; $body }
            "HalfEven" => { type $R = mode::HalfEven; $body }
            "HalfAway" => { type $R = mode::HalfAway; $body }
            other => panic!("unknown mode {}", other),
        }
    };
}

fn fin<R: Round, const B: Word>(sig: &str, exp: &str, prec: usize) -> FBig<R, B> {
    FBig::from_repr(repr_of::<B>(sig, exp), Context::new(prec))
}

/// one float along a route; `sig exp prec` describe the source value (in base B unless the route says otherwise)
fn route_f<R: Round, const B: Word>(sig: &str, exp: &str, prec: usize, route: &str, p: &str) -> FBig<R, B> {
    match route {
        "repr" => fin::<R, B>(sig, exp, prec),
        "const_inf" => {
            if sig == "-inf" {
                FBig::<R, B>::NEG_INFINITY
            } else {
                FBig::<R, B>::INFINITY
            }
        }
        "parts" => FBig::<R, B>::from_parts(ibig(sig), isz(exp)),
        // trailing base-B digits in the significand given to the constructor: p digits more
        "parts_scaled" => {
            let k = usz(p);
            let s = ibig(sig) * IBig::from(B).pow(k);
            FBig::<R, B>::from_parts(s, isz(exp) - k as isize)
        }
        "repr_scaled" => {
            let k = usz(p);
            let s = ibig(sig) * IBig::from(B).pow(k);
            FBig::from_repr(Repr::<B>::new(s, isz(exp) - k as isize), Context::new(prec))
        }
        "withprec" => FBig::<R, B>::from_parts(ibig(sig), isz(exp)).with_precision(prec).value(),
        "withprec_up" => fin::<R, B>(sig, exp, prec).with_precision(prec + usz(p)).value(),
        "clone" => fin::<R, B>(sig, exp, prec).clone(),
        "negneg" => -(-fin::<R, B>(sig, exp, prec)),
        "shlr" => (fin::<R, B>(sig, exp, prec) << isz(p)) >> isz(p),
        "addsub0" => {
            // exact arithmetic at unlimited precision, then the context is put back
            let x = fin::<R, B>(sig, exp, 0);
            let y = FBig::<R, B>::from_repr(Repr::new(ibig(p), isz(exp) - 1), Context::new(0));
            let t = (x + &y) - y;
            t.with_precision(prec).value()
        }
        "mul1" => fin::<R, B>(sig, exp, prec) * FBig::<R, B>::ONE,
        "muldiv0" => {
            // exact product with B^p at unlimited precision, undone by a shift of the exponent
            let x = fin::<R, B>(sig, exp, 0);
            let y = FBig::<R, B>::from_repr(Repr::new(IBig::from(B).pow(usz(p)), 0), Context::new(0));
            let t = (x * &y) >> (usz(p) as isize);
            t.with_precision(prec).value()
        }
        "convint" => {
            // exponent >= 0 required by the generator
            let n = ibig(sig) * IBig::from(B).pow(isz(exp) as usize);
            Context::<R>::new(prec).convert_int::<B>(n).value()
        }
        "fromint" => {
            let n = ibig(sig) * IBig::from(B).pow(isz(exp) as usize);
            FBig::<R, B>::from(n)
        }
        "rounding" => fin::<mode::Zero, B>(sig, exp, prec).with_rounding::<R>(),
        // ---- base conversions: the source is in another base
        "from10" => FBig::<R, 10>::from_repr(repr_of::<10>(sig, exp), Context::new(prec)).with_base::<B>().value(),
        "from10_p" => FBig::<R, 10>::from_repr(repr_of::<10>(sig, exp), Context::new(prec))
            .with_base_and_precision::<B>(usz(p))
            .value(),
        "from2" => FBig::<R, 2>::from_repr(repr_of::<2>(sig, exp), Context::new(prec)).with_base::<B>().value(),
        "from2_p" => FBig::<R, 2>::from_repr(repr_of::<2>(sig, exp), Context::new(prec))
            .with_base_and_precision::<B>(usz(p))
            .value(),
        "from16_p" => FBig::<R, 16>::from_repr(repr_of::<16>(sig, exp), Context::new(prec))
            .with_base_and_precision::<B>(usz(p))
            .value(),
        "same_p" => fin::<R, B>(sig, exp, prec).with_base_and_precision::<B>(usz(p)).value(),
        _ => panic!("unknown route {}", route),
    }
}

fn pair_f<R1: Round, R2: Round, const B: Word>(a: &FBig<R1, B>, b: &FBig<R2, B>) -> String {
    let mut s = String::new();
    s.push(bc(a == b));
    s.push(bc(a != b));
    s.push(ooc(a.partial_cmp(b)));
    s.push(bc(a < b));
    s.push(bc(a <= b));
    s.push(bc(a > b));
    s.push(bc(a >= b));
    // same-mode impls (Ord, AbsOrd) after an explicit change of the rounding mode
    let b1: FBig<R1, B> = b.clone().with_rounding::<R1>();
    s.push(oc(a.cmp(&b1)));
    s.push(oc(a.abs_cmp(&b1)));
    // Repr level: Ord for Repr (no precision), derived ==
    s.push(oc(a.repr().cmp(b.repr())));
    s.push(bc(a.repr() == b.repr()));
    s
}

fn fdesc<R: Round, const B: Word>(x: &FBig<R, B>) -> String {
    let l = repr_layout_ibig(x.repr().significand());
    // Repr::digits_ub is the estimate the comparison shortcut relies on (it asserts finiteness)
    let dub = if x.repr().is_infinite() { 0 } else { x.repr().digits_ub() };
    format!("{} {:x} {:x} {}", hrepr(x.repr()), x.precision(), dub, lay(l))
}

struct FArg<'a> {
    mode: &'a str,
    sig: &'a str,
    exp: &'a str,
    prec: usize,
    route: &'a str,
    p: &'a str,
}

fn run_flt_b<const B: Word>(k: usize, v: &[FArg]) -> String {
    let mut out = String::from("ok");
    for x in v {
        let d = with_mode!(x.mode, |R| fdesc(&route_f::<R, B>(x.sig, x.exp, x.prec, x.route, x.p)));
        out.push(' ');
        out.push_str(&d);
    }
    for i in 0..k {
        for j in 0..k {
            if i != j {
                let (x, y) = (&v[i], &v[j]);
                let t = with_mode!(x.mode, |R1| {
                    let a = route_f::<R1, B>(x.sig, x.exp, x.prec, x.route, x.p);
                    with_mode!(y.mode, |R2| {
                        let b = route_f::<R2, B>(y.sig, y.exp, y.prec, y.route, y.p);
                        pair_f(&a, &b)
                    })
                });
                out.push(' ');
                out.push_str(&t);
            }
        }
    }
    out
}

fn run_flt(a: &[&str]) -> String {
    let k = usz(a[1]);
    let v: Vec<FArg> = (0..k)
        .map(|i| {
            let o = 2 + 6 * i;
            FArg { mode: a[o], sig: a[o + 1], exp: a[o + 2], prec: usz(a[o + 3]), route: a[o + 4], p: a[o + 5] }
        })
        .collect();
    match a[0] {
        "2" => run_flt_b::<2>(k, &v),
        "3" => run_flt_b::<3>(k, &v),
        "a" => run_flt_b::<10>(k, &v),
        "10" => run_flt_b::<16>(k, &v),
        other => panic!("unsupported base {}", other),
    }
}

// ------------------------------------------------------------------------------------------------
// rationals
// ------------------------------------------------------------------------------------------------
fn route_q(n: &str, d: &str, route: &str, p: &str) -> RBig {
    match route {
        "parts" => rbig(n, d),
        "signed" => RBig::from_parts_signed(-ibig(n), -IBig::from(ubig(d))),
        "const" => {
            let (s, m) = ibig(n).into_parts();
            RBig::from_parts_const(s, u128::try_from(&m).unwrap(), u128::try_from(&ubig(d)).unwrap())
        }
        "scaled" => RBig::from_parts(ibig(n) * ibig(p), ubig(d) * ubig(p)),
        "addsub" => {
            let y = RBig::from_parts(ibig(p), ubig(d) + UBig::ONE);
            (rbig(n, d) + &y) - y
        }
        "addsub_int" => (rbig(n, d) + ibig(p)) - ibig(p),
        "muldiv" => {
            let y = RBig::from_parts(ibig(p), ubig(d) + UBig::ONE);
            (rbig(n, d) * &y) / y
        }
        "negneg" => -(-rbig(n, d)),
        "clone" => rbig(n, d).clone(),
        "relax_canon" => relaxed(n, d).canonicalize(),
        "relax_scaled_canon" => Relaxed::from_parts(ibig(n) * ibig(p), ubig(d) * ubig(p)).canonicalize(),
        "into_parts" => {
            let (a, b) = rbig(n, d).into_parts();
            RBig::from_parts(a, b)
        }
        "sqr_div" => {
            // x^2 / x
            let x = rbig(n, d);
            x.sqr() / x
        }
        _ => panic!("unknown route {}", route),
    }
}

fn route_x(n: &str, d: &str, route: &str, p: &str) -> Relaxed {
    match route {
        "parts" => relaxed(n, d),
        "signed" => Relaxed::from_parts_signed(-ibig(n), -IBig::from(ubig(d))),
        "const" => {
            let (s, m) = ibig(n).into_parts();
            Relaxed::from_parts_const(s, u128::try_from(&m).unwrap(), u128::try_from(&ubig(d)).unwrap())
        }
        "scaled" => Relaxed::from_parts(ibig(n) * ibig(p), ubig(d) * ubig(p)),
        "addsub" => {
            let y = Relaxed::from_parts(ibig(p), ubig(d) + UBig::ONE);
            (relaxed(n, d) + &y) - y
        }
        "muldiv" => {
            let y = Relaxed::from_parts(ibig(p), ubig(d) + UBig::ONE);
            (relaxed(n, d) * &y) / y
        }
        "negneg" => -(-relaxed(n, d)),
        "clone" => relaxed(n, d).clone(),
        "relax" => rbig(n, d).relax(),
        "as_relaxed" => rbig(n, d).as_relaxed().clone(),
        _ => panic!("unknown route {}", route),
    }
}

fn qdesc(n: &IBig, d: &UBig) -> String {
    format!("{} {} {} {}", hi(n), hu(d), lay(repr_layout_ibig(n)), lay(repr_layout_ubig(d)))
}

fn run_rbig(a: &[&str]) -> String {
    let k = usz(a[0]);
    let vals: Vec<RBig> = (0..k).map(|i| route_q(a[1 + 4 * i], a[2 + 4 * i], a[3 + 4 * i], a[4 + 4 * i])).collect();
    let mut out = String::from("ok");
    for v in &vals {
        out.push_str(&format!(" {} {}", qdesc(v.numerator(), v.denominator()), hash_input(v)));
    }
    for i in 0..k {
        for j in 0..k {
            if i != j {
                let (x, y) = (&vals[i], &vals[j]);
                let mut s = String::new();
                s.push(bc(x == y));
                s.push(bc(x != y));
                s.push(oc(x.cmp(y)));
                s.push(ooc(x.partial_cmp(y)));
                s.push(bc(x < y));
                s.push(bc(x <= y));
                s.push(bc(x > y));
                s.push(bc(x >= y));
                s.push(oc(x.abs_cmp(y)));
                s.push(bc(x.abs_eq(y)));
                // RBig x Relaxed (AbsOrd only) through a relaxed copy
                let yr = y.clone().relax();
                let xr = x.clone().relax();
                s.push(oc(AbsOrd::<Relaxed>::abs_cmp(x, &yr)));
                s.push(oc(AbsOrd::<RBig>::abs_cmp(&xr, y)));
                out.push(' ');
                out.push_str(&s);
            }
        }
    }
    out
}

fn run_rlx(a: &[&str]) -> String {
    let k = usz(a[0]);
    let vals: Vec<Relaxed> = (0..k).map(|i| route_x(a[1 + 4 * i], a[2 + 4 * i], a[3 + 4 * i], a[4 + 4 * i])).collect();
    let mut out = String::from("ok");
    for v in &vals {
        out.push_str(&format!(" {} -", qdesc(v.numerator(), v.denominator())));
    }
    for i in 0..k {
        for j in 0..k {
            if i != j {
                let (x, y) = (&vals[i], &vals[j]);
                let mut s = String::new();
                s.push(bc(x == y));
                s.push(bc(x != y));
                s.push(oc(x.cmp(y)));
                s.push(ooc(x.partial_cmp(y)));
                s.push(bc(x < y));
                s.push(bc(x <= y));
                s.push(bc(x > y));
                s.push(bc(x >= y));
                s.push(oc(x.abs_cmp(y)));
                s.push(bc(x.abs_eq(y)));
                out.push(' ');
                out.push_str(&s);
            }
        }
    }
    out
}

fn run(op: &str, a: &[&str]) -> String {
    match op {
        "uint" => run_uint(a),
        "int" => run_int(a),
        "flt" => run_flt(a),
        "rbig" => run_rbig(a),
        "rlx" => run_rlx(a),
        _ => "err unknown-op".to_string(),
    }
}

fn main() {
    serve(run);
}
