//! C05: equality, ordering and hashing follow the mathematical value in every type.
//!
//! A case builds k (2 or 3) values, each along its own *route* (constructor, arithmetic path, clone,
//! in-place update, conversion ...), and reports for every value what was built (raw words, the layout
//! read through `verif_hooks::repr_layout_*`, the INPUT the value feeds to a recording `Hasher`) and for
//! every ordered pair the answers of all comparison impls.  Nothing is judged here.
//!
//!   uint k (v route param){k}            UBig      v, param: hex
//!   int  k (v route param){k}            IBig
//!   flt  base k (mode sig exp prec route param){k}
//!        conversion routes `wb_S` (with_base), `wbp_S` (with_base_and_precision p), `tb_S` (to_binary), `td_S` (to_decimal):
//!        the source `sig exp prec` is a float of base S (hex); every pair of CONV_PAIRS is instantiated
//!   rbig k (num den route param){k}      RBig  (+ the pairs RBig x Relaxed for AbsOrd)
//!   rlx  k (num den route param){k}      Relaxed
//!   iop  op a b                          one IBig / UBig operation on operands built from raw words; every output with its
//!                                        layout (round 3: the Repr-level models of C05 predict value, length and inline flag)
//!        op: div rem divrem diveu remeu divremeu (IBig, the signed forms)  udivrem udiv urem (UBig on |a|, |b|)
//!            and_F or_F xor_F with F in vv vr rv rr (IBig)  not notref  shr shrref shl shlref (IBig, b = amount)
//!            round 4: gcd ugcd gcdext ugcdext sqrt sqrtrem nthroot unthroot pow upow (b = second operand / n / exponent)
//!   ipar <u|i> radix x<hex text>         from_str_radix: value and layout (round 4)
//!   (uint / int / rbig report the calls Hash::hash makes on a recording Hasher that overrides EVERY method of the trait)
//!   fprod base mode op prec s1 e1 s2 e2  Context::<mode>::new(prec).op(x, y) on Reprs (op: add sub mul div inv sqrt sqr cubic): the
//!                                        result Repr with its flag, the digit estimates of the operands, the layout of the significand
//!   dub  base sig                        Repr::<base>::digits_ub / digits_lb of the significand with the f32 estimates they
//!                                        are computed from: bits of sig.log2_bounds() and of BASE.log2_bounds()
#![allow(deprecated)]
use core::cmp::Ordering;
use core::hash::{Hash, Hasher};
use dashu_base::{AbsEq, AbsOrd, BitTest, DivEuclid, DivRem, DivRemEuclid, EstimatedLog2, ExtendedGcd, Gcd, RemEuclid, Sign as BSign, Signed, SquareRoot, SquareRootRem, UnsignedAbs};
use dashu_float::round::Round;
use dashu_int::verif_hooks::{repr_layout_ibig, repr_layout_ubig};
use hlib::*;

// ------------------------------------------------------------------------------------------------
// recording hasher: keeps the calls, never computes a hash value
// ------------------------------------------------------------------------------------------------
struct Rec(String);
impl Rec {
    fn sep(&mut self) {
        if !self.0.is_empty() {
            self.0.push('.');
        }
    }
}
impl Hasher for Rec {
    fn finish(&self) -> u64 {
        0
    }
    fn write(&mut self, bytes: &[u8]) {
        self.sep();
        self.0.push('b');
        for b in bytes {
            self.0.push_str(&format!("{:02x}", b));
        }
    }
    fn write_usize(&mut self, i: usize) {
        self.sep();
        self.0.push_str(&format!("u{:x}", i));
    }
    fn write_isize(&mut self, i: isize) {
        self.sep();
        self.0.push_str(&format!("i{:x}", i));
    }
    // round 4: every other method of the trait is overridden too, so the token shows WHICH method an impl called
    // (the model predicts write / write_usize / write_isize only)
    fn write_u8(&mut self, i: u8) {
        self.sep();
        self.0.push_str(&format!("w8:{:x}", i));
    }
    fn write_u16(&mut self, i: u16) {
        self.sep();
        self.0.push_str(&format!("w16:{:x}", i));
    }
    fn write_u32(&mut self, i: u32) {
        self.sep();
        self.0.push_str(&format!("w32:{:x}", i));
    }
    fn write_u64(&mut self, i: u64) {
        self.sep();
        self.0.push_str(&format!("w64:{:x}", i));
    }
    fn write_u128(&mut self, i: u128) {
        self.sep();
        self.0.push_str(&format!("w128:{:x}", i));
    }
    fn write_i8(&mut self, i: i8) {
        self.sep();
        self.0.push_str(&format!("s8:{:x}", i));
    }
    fn write_i16(&mut self, i: i16) {
        self.sep();
        self.0.push_str(&format!("s16:{:x}", i));
    }
    fn write_i32(&mut self, i: i32) {
        self.sep();
        self.0.push_str(&format!("s32:{:x}", i));
    }
    fn write_i64(&mut self, i: i64) {
        self.sep();
        self.0.push_str(&format!("s64:{:x}", i));
    }
    fn write_i128(&mut self, i: i128) {
        self.sep();
        self.0.push_str(&format!("s128:{:x}", i));
    }
}
fn hash_input<T: Hash>(x: &T) -> String {
    let mut r = Rec(String::new());
    x.hash(&mut r);
    if r.0.is_empty() {
        "-".into()
    } else {
        r.0
    }
}

fn oc(o: Ordering) -> char {
    match o {
        Ordering::Less => 'L',
        Ordering::Equal => 'E',
        Ordering::Greater => 'G',
    }
}
fn ooc(o: Option<Ordering>) -> char {
    match o {
        Some(o) => oc(o),
        None => 'N',
    }
}
fn bc(b: bool) -> char {
    if b {
        '1'
    } else {
        '0'
    }
}
fn lay(l: (isize, usize, bool)) -> String {
    format!("{} {:x} {}", hisz(l.0), l.1, bc(l.2))
}

// ------------------------------------------------------------------------------------------------
// integers
// ------------------------------------------------------------------------------------------------
fn route_u(v: &str, route: &str, p: &str) -> UBig {
    let x = ubig(v);
    match route {
        "words" => x,
        "padded" => {
            let mut w = x.as_words().to_vec();
            w.extend(std::iter::repeat(0).take(usz(p)));
            UBig::from_words(&w)
        }
        "addsub" => (x + ubig(p)) - ubig(p),
        "addsub_ref" => &(&x + &ubig(p)) - &ubig(p),
        "addsub_assign" => {
            let mut t = x;
            t += ubig(p);
            t -= &ubig(p);
            t
        }
        "subadd" => {
            // (p + x) built from the other side, then the big part removed
            let q = ubig(p);
            let t = &q + x;
            t - q
        }
        "shlr" => (x << usz(p)) >> usz(p),
        "shlr_assign" => {
            let mut t = x;
            t <<= usz(p);
            t >>= usz(p);
            t
        }
        "muldiv" => (x * ubig(p)) / ubig(p),
        "muldiv_assign" => {
            let mut t = x;
            t *= ubig(p);
            t /= ubig(p);
            t
        }
        "divrem" => {
            let m = ubig(p);
            let (q, r) = (&x * &m + (&m - UBig::ONE)).div_rem(&m);
            assert!(r == &m - UBig::ONE);
            q
        }
        "rem" => {
            // x < m required by the generator
            let m = ubig(p);
            (&m * &m + x) % m
        }
        "clone" => x.clone(),
        "clonefrom_big" => {
            let mut t = UBig::ONE << (64 * usz(p));
            t.clone_from(&x);
            t
        }
        "clonefrom_small" => {
            let mut t = ubig(p);
            t.clone_from(&x);
            t
        }
        "bytes_le" => UBig::from_le_bytes(&x.to_le_bytes()),
        "bytes_be" => {
            let mut b = vec![0u8; usz(p)];
            b.extend_from_slice(&x.to_be_bytes());
            UBig::from_be_bytes(&b)
        }
        "radix" => {
            let r = usz(p) as u32;
            UBig::from_str_radix(&x.in_radix(r).to_string(), r).unwrap()
        }
        "ones" => UBig::ones(usz(p)),
        "prim" => {
            if let Ok(t) = u64::try_from(&x) {
                UBig::from(t)
            } else {
                UBig::from(u128::try_from(&x).unwrap())
            }
        }
        "dword" => UBig::from_dword(dashu_int::DoubleWord::try_from(&x).unwrap()),
        "ibig" => UBig::try_from(IBig::from(x)).unwrap(),
        "negneg" => UBig::try_from(-(-IBig::from(x))).unwrap(),
        "setclr" => {
            let mut t = x;
            t.set_bit(usz(p));
            t.clear_bit(usz(p));
            t
        }
        "split_lo" => {
            let n = usz(p);
            let t = x + (ubig("1") << n);
            t.split_bits(n).0
        }
        "split_hi" => {
            let n = usz(p);
            let t = (x << n) + (UBig::ones(n));
            t.split_bits(n).1
        }
        "and" => x & UBig::ones(usz(p)),
        "xorxor" => (x ^ ubig(p)) ^ ubig(p),
        "orandnot" => {
            // set then remove a high bit pattern by masking
            let n = usz(p);
            let hi = UBig::ONE << n;
            (x | &hi) ^ hi
        }
        "chunks" => {
            let c = x.to_chunks(usz(p));
            UBig::from_chunks(c.iter(), usz(p))
        }
        "unsigned_abs" => (-IBig::from(x)).unsigned_abs(),
        _ => panic!("unknown route {}", route),
    }
}

fn route_i(v: &str, route: &str, p: &str) -> IBig {
    let x = ibig(v);
    match route {
        "parts" => x,
        "addsub" => (x + ibig(p)) - ibig(p),
        "addsub_ref" => &(&x + &ibig(p)) - &ibig(p),
        "addsub_assign" => {
            let mut t = x;
            t += ibig(p);
            t -= ibig(p);
            t
        }
        "subadd" => (x - ibig(p)) + ibig(p),
        "shlr" => (x << usz(p)) >> usz(p),
        "muldiv" => (x * ibig(p)) / ibig(p),
        "muldiv_assign" => {
            let mut t = x;
            t *= ibig(p);
            t /= ibig(p);
            t
        }
        "negneg" => -(-x),
        "negneg_ref" => -&(-&x),
        "clone" => x.clone(),
        "clonefrom_big" => {
            let mut t = -(IBig::ONE << (64 * usz(p)));
            t.clone_from(&x);
            t
        }
        "clonefrom_small" => {
            let mut t = ibig(p);
            t.clone_from(&x);
            t
        }
        "prim" => {
            if let Ok(t) = i64::try_from(&x) {
                IBig::from(t)
            } else {
                IBig::from(i128::try_from(&x).unwrap())
            }
        }
        "radix" => {
            let r = usz(p) as u32;
            IBig::from_str_radix(&x.in_radix(r).to_string(), r).unwrap()
        }
        "notnot" => !!x,
        "xorxor" => (x ^ ibig(p)) ^ ibig(p),
        "abs_sign" => {
            let s = x.sign();
            IBig::from_parts(s, x.unsigned_abs())
        }
        "into_parts" => {
            let (s, m) = x.into_parts();
            IBig::from_parts(s, m)
        }
        "mulsign" => (x * BSign::Negative) * BSign::Negative,
        "signum" => {
            let s = x.signum();
            let a = IBig::from(x.unsigned_abs());
            a * s
        }
        "ubig_sub" => {
            // difference of two unsigned values taken in IBig
            let q = ibig(p);
            let a = x + &q;
            a - q
        }
        "cancel" => {
            // x + (p - p) with the zero produced from big operands and then negated
            let z = ibig(p) - ibig(p);
            x + (-z)
        }
        "neg_zero_parts" => x + IBig::from_parts(BSign::Negative, UBig::ZERO),
        "mul_neg_zero" => {
            let z = IBig::ZERO * ibig(p);
            x - z
        }
        "div_to_zero" => {
            // quotient 0 from operands of opposite signs
            let q = ibig(p);
            let z = &q / (&q * &q + IBig::ONE);
            x + z
        }
        _ => panic!("unknown route {}", route),
    }
}

fn pair_u(a: &UBig, b: &UBig) -> String {
    let mut s = String::new();
    s.push(bc(a == b));
    s.push(bc(a != b));
    s.push(oc(a.cmp(b)));
    s.push(ooc(a.partial_cmp(b)));
    s.push(bc(a < b));
    s.push(bc(a <= b));
    s.push(bc(a > b));
    s.push(bc(a >= b));
    s.push(oc(a.abs_cmp(b)));
    s.push(bc(a.abs_eq(b)));
    s
}

fn pair_i(a: &IBig, b: &IBig) -> String {
    let mut s = String::new();
    s.push(bc(a == b));
    s.push(bc(a != b));
    s.push(oc(a.cmp(b)));
    s.push(ooc(a.partial_cmp(b)));
    s.push(bc(a < b));
    s.push(bc(a <= b));
    s.push(bc(a > b));
    s.push(bc(a >= b));
    s.push(oc(a.abs_cmp(b)));
    s.push(bc(a.abs_eq(b)));
    // the mixed impls of integer/src/cmp.rs: |a| against an unsigned copy of |b| and back
    let ub = b.clone().unsigned_abs();
    let ua = a.clone().unsigned_abs();
    s.push(oc(AbsOrd::<UBig>::abs_cmp(a, &ub)));
    s.push(oc(AbsOrd::<IBig>::abs_cmp(&ua, b)));
    s.push(bc(AbsEq::<UBig>::abs_eq(a, &ub)));
    s.push(bc(AbsEq::<IBig>::abs_eq(&ua, b)));
    s
}

fn run_uint(a: &[&str]) -> String {
    let k = usz(a[0]);
    let vals: Vec<UBig> = (0..k).map(|i| route_u(a[1 + 3 * i], a[2 + 3 * i], a[3 + 3 * i])).collect();
    let mut out = String::from("ok");
    for v in &vals {
        // as_words is one of the observation points: it must agree with the IBig view of the same value
        let w = v.as_words();
        let (_, w2) = v.as_ibig().as_sign_words();
        assert!(w == w2, "as_words differs from as_sign_words");
        out.push_str(&format!(" {} {} {}", words_hex(false, w), lay(repr_layout_ubig(v)), hash_input(v)));
        assert!(w.last().map_or(true, |&t| t != 0), "as_words has a leading zero word");
    }
    for i in 0..k {
        for j in 0..k {
            if i != j {
                out.push(' ');
                out.push_str(&pair_u(&vals[i], &vals[j]));
            }
        }
    }
    out
}

fn run_int(a: &[&str]) -> String {
    let k = usz(a[0]);
    let vals: Vec<IBig> = (0..k).map(|i| route_i(a[1 + 3 * i], a[2 + 3 * i], a[3 + 3 * i])).collect();
    let mut out = String::from("ok");
    for v in &vals {
        let (s, w) = v.as_sign_words();
        assert!(w.last().map_or(true, |&t| t != 0), "as_sign_words has a leading zero word");
        out.push_str(&format!(" {} {} {}", words_hex(s == Sign::Negative, w), lay(repr_layout_ibig(v)), hash_input(v)));
        // zero must carry the positive sign
        if w.is_empty() {
            assert!(s == Sign::Positive, "negative zero");
        }
    }
    for i in 0..k {
        for j in 0..k {
            if i != j {
                out.push(' ');
                out.push_str(&pair_i(&vals[i], &vals[j]));
            }
        }
    }
    out
}

// ------------------------------------------------------------------------------------------------
// floats
// ------------------------------------------------------------------------------------------------
macro_rules! with_mode {
    ($mode:expr, |$R:ident| $body:expr) => {
        match $mode {
            "Zero" => { type $R = mode::Zero; $body }
            "Away" => { type $R = mode::Away; $body }
            "Up" => { type $R = mode::Up; $body }
            "Down" => { type $R = mode::Down; $body }
            "HalfEven" => { type $R = mode::HalfEven; $body }
            "HalfAway" => { type $R = mode::HalfAway; $body }
            other => panic!("unknown mode {}", other),
        }
    };
}


/// FBig<R, A> is FBig<R, B> when A == B: the identity, found through `Any` (no unsafe code)
fn cast<R: Round + 'static, const A: Word, const B: Word>(x: FBig<R, A>) -> FBig<R, B> {
    assert!(A == B, "conversion target {} is not the base {} of the case", A, B);
    let b: Box<dyn core::any::Any> = Box::new(x);
    *b.downcast::<FBig<R, B>>().ok().expect("same type")
}

/// base conversions source base S -> base B through the four public routes.  Pairs: B a proper power of S
/// (power-up), S a proper power of B (power-down: the significand is carried over, so one that is divisible by B but
/// not by S must be re-normalised), same base, unrelated bases (multiplication / division / exp-ln routes).
fn conv<R: Round + 'static, const B: Word>(api: &str, sb: Word, sig: &str, exp: &str, prec: usize, p: &str) -> FBig<R, B> {
    macro_rules! arms {
        ($(($s:literal, $t:literal))*) => {
            match (sb, B) {
                $(($s, $t) => {
                    let x = FBig::<R, $s>::from_repr(repr_of::<$s>(sig, exp), Context::new(prec));
                    match api {
                        "wb" => cast::<R, $t, B>(x.with_base::<$t>().value()),
                        "wbp" => cast::<R, $t, B>(x.with_base_and_precision::<$t>(usz(p)).value()),
                        "tb" => cast::<R, 2, B>(x.to_binary().value().with_rounding::<R>()),
                        "td" => cast::<R, 10, B>(x.to_decimal().value().with_rounding::<R>()),
                        _ => panic!("unknown conversion api {}", api),
                    }
                })*
                _ => panic!("base pair {} -> {} not instantiated", sb, B),
            }
        };
    }
    arms! { (2,2) (4,2) (8,2) (16,2) (32,2) (10,2) (3,2)
            (3,3) (9,3) (27,3) (10,3) (2,3)
            (10,10) (100,10) (1000,10) (2,10) (16,10) (3,10)
            (16,16) (2,16) (4,16) (256,16) (8,16) (10,16) }
}

/// smallest prime factor
fn spf(b: Word) -> Word {
    let mut f = 2;
    while b % f != 0 {
        f += 1;
    }
    f
}

/// the digits of |sig| * B^k in radix B, sign in front, exponent after `@` (the one scale marker every base accepts)
fn fstr<const B: Word>(sig: &str, exp: &str, k: usize) -> String {
    let s = ibig(sig);
    let neg = s.sign() == Sign::Negative;
    let mut m = s.unsigned_abs() * UBig::from(B).pow(k);
    let mut digits = Vec::new();
    while !m.is_zero() {
        let (q, r) = m.div_rem(UBig::from(B));
        digits.push(core::char::from_digit(u32::try_from(&r).unwrap(), B as u32).unwrap());
        m = q;
    }
    if digits.is_empty() {
        digits.push('0');
    }
    let d: String = digits.iter().rev().collect();
    format!("{}{}@{}", if neg { "-" } else { "" }, d, isz(exp) - k as isize)
}

fn fin<R: Round, const B: Word>(sig: &str, exp: &str, prec: usize) -> FBig<R, B> {
    FBig::from_repr(repr_of::<B>(sig, exp), Context::new(prec))
}

/// one float along a route; `sig exp prec` describe the source value (in base B unless the route says otherwise)
fn route_f<R: Round + 'static, const B: Word>(sig: &str, exp: &str, prec: usize, route: &str, p: &str) -> FBig<R, B> {
    if let Some((api, sb)) = route.split_once('_') {
        if matches!(api, "wb" | "wbp" | "tb" | "td") {
            return conv::<R, B>(api, usz(sb) as Word, sig, exp, prec, p);
        }
    }
    // working precision of the exact routes: the source value fits (prec = 0 is unlimited)
    let pw = || (if prec == 0 { fin::<R, B>(sig, exp, 0).repr().digits() } else { prec }).max(1);
    let pos = !sig.starts_with('-');
    let unit = |e: isize| FBig::<R, B>::from_repr(Repr::new(if pos { IBig::ONE } else { -IBig::ONE }, e), Context::new(0));
    let punit = |e: isize| FBig::<R, B>::from_repr(Repr::new(IBig::ONE, e), Context::new(0));
    match route {
        "repr" => fin::<R, B>(sig, exp, prec),
        "const_inf" => {
            if sig == "-inf" {
                FBig::<R, B>::NEG_INFINITY
            } else {
                FBig::<R, B>::INFINITY
            }
        }
        "parts" => FBig::<R, B>::from_parts(ibig(sig), isz(exp)),
        // trailing base-B digits in the significand given to the constructor: p digits more
        "parts_scaled" => {
            let k = usz(p);
            let s = ibig(sig) * IBig::from(B).pow(k);
            FBig::<R, B>::from_parts(s, isz(exp) - k as isize)
        }
        "repr_scaled" => {
            let k = usz(p);
            let s = ibig(sig) * IBig::from(B).pow(k);
            FBig::from_repr(Repr::<B>::new(s, isz(exp) - k as isize), Context::new(prec))
        }
        "withprec" => FBig::<R, B>::from_parts(ibig(sig), isz(exp)).with_precision(prec).value(),
        "withprec_up" => fin::<R, B>(sig, exp, prec).with_precision(prec + usz(p)).value(),
        "clone" => fin::<R, B>(sig, exp, prec).clone(),
        "negneg" => -(-fin::<R, B>(sig, exp, prec)),
        "shlr" => (fin::<R, B>(sig, exp, prec) << isz(p)) >> isz(p),
        "addsub0" => {
            // exact arithmetic at unlimited precision, then the context is put back
            let x = fin::<R, B>(sig, exp, 0);
            let y = FBig::<R, B>::from_repr(Repr::new(ibig(p), isz(exp) - 1), Context::new(0));
            let t = (x + &y) - y;
            t.with_precision(prec).value()
        }
        "mul1" => fin::<R, B>(sig, exp, prec) * FBig::<R, B>::ONE,
        "muldiv0" => {
            // exact product with B^p at unlimited precision, undone by a shift of the exponent
            let x = fin::<R, B>(sig, exp, 0);
            let y = FBig::<R, B>::from_repr(Repr::new(IBig::from(B).pow(usz(p)), 0), Context::new(0));
            let t = (x * &y) >> (usz(p) as isize);
            t.with_precision(prec).value()
        }
        "convint" => {
            // exponent >= 0 required by the generator
            let n = ibig(sig) * IBig::from(B).pow(isz(exp) as usize);
            Context::<R>::new(prec).convert_int::<B>(n).value()
        }
        "fromint" => {
            let n = ibig(sig) * IBig::from(B).pow(isz(exp) as usize);
            FBig::<R, B>::from(n)
        }
        "rounding" => fin::<mode::Zero, B>(sig, exp, prec).with_rounding::<R>(),
        // ---- base conversions: the source is in another base (older names, kept for the corpus)
        "from10" => conv::<R, B>("wb", 10, sig, exp, prec, p),
        "from10_p" => conv::<R, B>("wbp", 10, sig, exp, prec, p),
        "from2" => conv::<R, B>("wb", 2, sig, exp, prec, p),
        "from2_p" => conv::<R, B>("wbp", 2, sig, exp, prec, p),
        "from16_p" => conv::<R, B>("wbp", 16, sig, exp, prec, p),
        // ---- producers whose intermediate result carries trailing base-B digits and must be re-normalised
        // product with the two cofactors of the base one after the other (10 = 2*5, 16 = 2*8): sig * B
        "mulfac" => {
            let f = spf(B);
            let c0 = Context::<R>::new(0);
            let t = c0.mul(fin::<R, B>(sig, exp, 0).repr(), &Repr::new(IBig::from(f), 0)).value();
            let t = c0.mul(t.repr(), &Repr::new(IBig::from(B / f), -1)).value();
            t.with_precision(prec).value()
        }
        // exact product, then a division that comes out even: the quotient is computed with precision + guard digits
        "muldivx" => {
            let y = Repr::<B>::new(ibig(p), 0);
            let t = Context::<R>::new(0).mul(fin::<R, B>(sig, exp, 0).repr(), &y).value();
            Context::<R>::new(pw() + 1).div(t.repr(), &y).value().with_precision(prec).value()
        }
        "divself" => {
            // the quotient x / x is one (computed with precision + guard digits, all of them zero), times x
            let x = fin::<R, B>(sig, exp, pw());
            let q = &x / &x; // exactly one
            assert!(*q.repr() == Repr::<B>::one(), "x / x is not one");
            (q * x).with_precision(prec).value()
        }
        // exact square, exact root
        "sqrsqrt" => {
            let t = Context::<R>::new(0).sqr(fin::<R, B>(sig, exp, 0).repr()).value();
            let r = Context::<R>::new(pw() + 1).sqrt(t.repr()).value();
            let r = if pos { r } else { -r };
            r.with_precision(prec).value()
        }
        "powi1" => Context::<R>::new(prec).powi(fin::<R, B>(sig, exp, prec).repr(), IBig::ONE).value(),
        // ---- rounding to an integer of (x + a fraction); generator: exponent >= 0
        "addtrunc" => (fin::<R, B>(sig, exp, 0) + unit(-1)).trunc().with_precision(prec).value(),
        "addfloor" => (fin::<R, B>(sig, exp, 0) + punit(-1)).floor().with_precision(prec).value(),
        "subceil" => (fin::<R, B>(sig, exp, 0) - punit(-1)).ceil().with_precision(prec).value(),
        "addround" => (fin::<R, B>(sig, exp, 0) + unit(-2)).round().with_precision(prec).value(),
        "splitpoint" => (fin::<R, B>(sig, exp, 0) + unit(-3)).split_at_point().0.with_precision(prec).value(),
        // the other half: the fraction of (B^(exp+digits) + x), generator: exponent < 0 and |x| < 1
        "addfract" => {
            let n = unit(isz(p));
            (fin::<R, B>(sig, exp, 0) + n).fract().with_precision(prec).value()
        }
        // ---- other sources of floats
        "fromstr" => {
            let x: FBig<R, B> = fstr::<B>(sig, exp, usz(p)).parse().unwrap();
            x.with_precision(prec).value()
        }
        "fromf64" => {
            // generator: base 2, |sig| < 2^53, exponent within the normal range
            let v = (i64::try_from(&ibig(sig)).unwrap() as f64) * 2f64.powi(isz(exp) as i32);
            cast::<R, 2, B>(FBig::<R, 2>::try_from(v).unwrap())
        }
        // impl TryFrom<f64 / f32> for Repr<2> (a second implementation beside the one for FBig)
        "reprf64" => {
            let v = (i64::try_from(&ibig(sig)).unwrap() as f64) * 2f64.powi(isz(exp) as i32);
            cast::<R, 2, B>(FBig::<R, 2>::from_repr(Repr::<2>::try_from(v).unwrap(), Context::new(53)))
        }
        "reprf32" => {
            let v = (i32::try_from(&ibig(sig)).unwrap() as f32) * 2f32.powi(isz(exp) as i32);
            cast::<R, 2, B>(FBig::<R, 2>::from_repr(Repr::<2>::try_from(v).unwrap(), Context::new(24)))
        }
        "fromf32" => {
            let v = (i32::try_from(&ibig(sig)).unwrap() as f32) * 2f32.powi(isz(exp) as i32);
            cast::<R, 2, B>(FBig::<R, 2>::try_from(v).unwrap())
        }
        "ratfloat" => {
            let e = isz(exp);
            let q = if e >= 0 {
                RBig::from_parts(ibig(sig) * IBig::from(B).pow(e as usize), UBig::ONE)
            } else {
                RBig::from_parts(ibig(sig), UBig::from(B).pow((-e) as usize))
            };
            q.to_float::<R, B>(pw()).value().with_precision(prec).value()
        }
        "fromubig" => {
            // generator: sig > 0, exponent >= 0
            let n = ubig(sig) * UBig::from(B).pow(isz(exp) as usize);
            FBig::<R, B>::from(n)
        }
        "fromu64" => FBig::<R, B>::from(u64::try_from(&(ubig(sig) * UBig::from(B).pow(isz(exp) as usize))).unwrap()),
        "fromi64" => FBig::<R, B>::from(i64::try_from(&(ibig(sig) * IBig::from(B).pow(isz(exp) as usize))).unwrap()),
        // ---- results that are really rounded (value not predicted: invariants and comparisons only);
        // `p` is a second significand one digit position below
        // Context-level entry points given an operand longer than the context precision (rounded through repr_round_ref):
        // p digits are dropped
        "r_ctxadd0" | "r_ctxsub0" | "r_ctxdiv1" | "r_ctxmul1" | "r_ctxpowi1" => {
            let x = fin::<R, B>(sig, exp, 0);
            let cp = x.repr().digits().saturating_sub(usz(p)).max(1);
            let c = Context::<R>::new(cp);
            match route {
                "r_ctxadd0" => c.add(&Repr::<B>::zero(), x.repr()).value(),
                "r_ctxsub0" => c.sub(&Repr::<B>::zero(), x.repr()).value(),
                "r_ctxdiv1" => c.div(x.repr(), &Repr::<B>::one()).value(),
                "r_ctxmul1" => c.mul(x.repr(), &Repr::<B>::one()).value(),
                _ => c.powi(x.repr(), IBig::ONE).value(),
            }
        }
        // Context::add / sub of two values with the same exponent (the sum ends in zero digits)
        "r_ctxaeq" => Context::<R>::new(pw()).add(fin::<R, B>(sig, exp, 0).repr(), fin::<R, B>(p, exp, 0).repr()).value(),
        "r_ctxseq" => Context::<R>::new(pw()).sub(fin::<R, B>(sig, exp, 0).repr(), fin::<R, B>(p, exp, 0).repr()).value(),
        // + - * / in the four ownership forms (separate operator bodies in add.rs / mul.rs / div.rs); `p` is a second
        // significand: one digit position below (add), above (sub), at the same exponent (aeq, seq: the sums and
        // differences that end in zero digits), at exponent 0 (mul, div)
        r if r.len() >= 5 && matches!(&r[..5], "r_add" | "r_sub" | "r_aeq" | "r_seq" | "r_mul" | "r_div") => {
            let op = &r[2..5];
            let form = if r.len() > 6 { &r[6..] } else { "vv" };
            let x = fin::<R, B>(sig, exp, pw());
            let y = match op {
                "add" => fin::<R, B>(p, &hisz(isz(exp) - 1), 0),
                "sub" => fin::<R, B>(p, &hisz(isz(exp) + 1), 0),
                "aeq" | "seq" => fin::<R, B>(p, exp, 0),
                _ => fin::<R, B>(p, "0", 0),
            };
            macro_rules! form {
                ($o:tt) => {
                    match form {
                        "vv" => x $o y,
                        "vr" => x $o &y,
                        "rv" => &x $o y,
                        "rr" => &x $o &y,
                        _ => panic!("unknown ownership form {}", form),
                    }
                };
            }
            match op {
                "add" | "aeq" => form!(+),
                "sub" | "seq" => form!(-),
                "mul" => form!(*),
                _ => form!(/),
            }
        }
        "r_sqr" => fin::<R, B>(sig, exp, pw()).sqr(),
        "r_cubic" => fin::<R, B>(sig, exp, pw()).cubic(),
        "r_sqrt" => {
            let x = fin::<R, B>(sig, exp, pw());
            (if pos { x } else { -x }).sqrt()
        }
        "r_powi" => fin::<R, B>(sig, "0", pw()).powi(ibig(p)),
        "r_inv" => Context::<R>::new(pw()).inv(fin::<R, B>(sig, exp, 0).repr()).value(),
        // argument of magnitude below 1 whatever the exponent of the case
        "r_exp" => FBig::<R, B>::from_repr(Repr::new(ibig(sig), -(usz(p) as isize)), Context::new(pw())).exp(),
        "r_ln1p" => {
            let x = FBig::<R, B>::from_repr(Repr::new(ibig(sig), -(usz(p) as isize)), Context::new(pw()));
            (if pos { x } else { -x }).ln_1p()
        }
        "same_p" => fin::<R, B>(sig, exp, prec).with_base_and_precision::<B>(usz(p)).value(),
        _ => panic!("unknown route {}", route),
    }
}

fn pair_f<R1: Round + 'static, R2: Round + 'static, const B: Word>(a: &FBig<R1, B>, b: &FBig<R2, B>) -> String {
    let mut s = String::new();
    s.push(bc(a == b));
    s.push(bc(a != b));
    s.push(ooc(a.partial_cmp(b)));
    s.push(bc(a < b));
    s.push(bc(a <= b));
    s.push(bc(a > b));
    s.push(bc(a >= b));
    // same-mode impls (Ord, AbsOrd) after an explicit change of the rounding mode
    let b1: FBig<R1, B> = b.clone().with_rounding::<R1>();
    s.push(oc(a.cmp(&b1)));
    s.push(oc(a.abs_cmp(&b1)));
    // Repr level: Ord for Repr (no precision), derived ==
    s.push(oc(a.repr().cmp(b.repr())));
    s.push(bc(a.repr() == b.repr()));
    s
}

fn fdesc<R: Round, const B: Word>(x: &FBig<R, B>) -> String {
    let l = repr_layout_ibig(x.repr().significand());
    // Repr::digits_ub is the estimate the comparison shortcut relies on (it asserts finiteness)
    let dub = if x.repr().is_infinite() { 0 } else { x.repr().digits_ub() };
    format!("{} {:x} {:x} {}", hrepr(x.repr()), x.precision(), dub, lay(l))
}

struct FArg<'a> {
    mode: &'a str,
    sig: &'a str,
    exp: &'a str,
    prec: usize,
    route: &'a str,
    p: &'a str,
}

fn run_flt_b<const B: Word>(k: usize, v: &[FArg]) -> String {
    let mut out = String::from("ok");
    for x in v {
        let d = with_mode!(x.mode, |R| fdesc(&route_f::<R, B>(x.sig, x.exp, x.prec, x.route, x.p)));
        out.push(' ');
        out.push_str(&d);
    }
    for i in 0..k {
        for j in 0..k {
            if i != j {
                let (x, y) = (&v[i], &v[j]);
                let t = with_mode!(x.mode, |R1| {
                    let a = route_f::<R1, B>(x.sig, x.exp, x.prec, x.route, x.p);
                    with_mode!(y.mode, |R2| {
                        let b = route_f::<R2, B>(y.sig, y.exp, y.prec, y.route, y.p);
                        pair_f(&a, &b)
                    })
                });
                out.push(' ');
                out.push_str(&t);
            }
        }
    }
    out
}

fn run_flt(a: &[&str]) -> String {
    let k = usz(a[1]);
    let v: Vec<FArg> = (0..k)
        .map(|i| {
            let o = 2 + 6 * i;
            FArg { mode: a[o], sig: a[o + 1], exp: a[o + 2], prec: usz(a[o + 3]), route: a[o + 4], p: a[o + 5] }
        })
        .collect();
    match a[0] {
        "2" => run_flt_b::<2>(k, &v),
        "3" => run_flt_b::<3>(k, &v),
        "a" => run_flt_b::<10>(k, &v),
        "10" => run_flt_b::<16>(k, &v),
        other => panic!("unsupported base {}", other),
    }
}

// ------------------------------------------------------------------------------------------------
// rationals
// ------------------------------------------------------------------------------------------------
fn route_q(n: &str, d: &str, route: &str, p: &str) -> RBig {
    match route {
        "parts" => rbig(n, d),
        "signed" => RBig::from_parts_signed(-ibig(n), -IBig::from(ubig(d))),
        "const" => {
            let (s, m) = ibig(n).into_parts();
            RBig::from_parts_const(s, dashu_int::DoubleWord::try_from(&m).unwrap(), dashu_int::DoubleWord::try_from(&ubig(d)).unwrap())
        }
        "scaled" => RBig::from_parts(ibig(n) * ibig(p), ubig(d) * ubig(p)),
        "addsub" => {
            let y = RBig::from_parts(ibig(p), ubig(d) + UBig::ONE);
            (rbig(n, d) + &y) - y
        }
        "addsub_int" => (rbig(n, d) + ibig(p)) - ibig(p),
        "muldiv" => {
            let y = RBig::from_parts(ibig(p), ubig(d) + UBig::ONE);
            (rbig(n, d) * &y) / y
        }
        "negneg" => -(-rbig(n, d)),
        "clone" => rbig(n, d).clone(),
        "relax_canon" => relaxed(n, d).canonicalize(),
        "relax_scaled_canon" => Relaxed::from_parts(ibig(n) * ibig(p), ubig(d) * ubig(p)).canonicalize(),
        "into_parts" => {
            let (a, b) = rbig(n, d).into_parts();
            RBig::from_parts(a, b)
        }
        "sqr_div" => {
            // x^2 / x
            let x = rbig(n, d);
            x.sqr() / x
        }
        // round 4: the mixed RBig (+|-) integer operators (built without a gcd: a + b i over b stays reduced)
        "sub_int" => RBig::from_parts(ibig(n) + ibig(p) * IBig::from(ubig(d)), ubig(d)) - ibig(p),
        "sub_int_ref" => &RBig::from_parts(ibig(n) + ibig(p) * IBig::from(ubig(d)), ubig(d)) - &ibig(p),
        "int_sub" => ibig(p) - RBig::from_parts(ibig(p) * IBig::from(ubig(d)) - ibig(n), ubig(d)),
        "add_int" => RBig::from_parts(ibig(n) - ibig(p) * IBig::from(ubig(d)), ubig(d)) + ibig(p),
        "int_add" => ibig(p) + RBig::from_parts(ibig(n) - ibig(p) * IBig::from(ubig(d)), ubig(d)),
        "sub_ubig" => RBig::from_parts(ibig(n) + IBig::from(ubig(p) * ubig(d)), ubig(d)) - ubig(p),
        "ubig_sub" => ubig(p) - RBig::from_parts(IBig::from(ubig(p) * ubig(d)) - ibig(n), ubig(d)),
        "relax_sub_int_canon" => (Relaxed::from_parts(ibig(n) + ibig(p) * IBig::from(ubig(d)), ubig(d)) - ibig(p)).canonicalize(),
        _ => panic!("unknown route {}", route),
    }
}

fn route_x(n: &str, d: &str, route: &str, p: &str) -> Relaxed {
    match route {
        "parts" => relaxed(n, d),
        "signed" => Relaxed::from_parts_signed(-ibig(n), -IBig::from(ubig(d))),
        "const" => {
            let (s, m) = ibig(n).into_parts();
            Relaxed::from_parts_const(s, dashu_int::DoubleWord::try_from(&m).unwrap(), dashu_int::DoubleWord::try_from(&ubig(d)).unwrap())
        }
        "scaled" => Relaxed::from_parts(ibig(n) * ibig(p), ubig(d) * ubig(p)),
        "addsub" => {
            let y = Relaxed::from_parts(ibig(p), ubig(d) + UBig::ONE);
            (relaxed(n, d) + &y) - y
        }
        "muldiv" => {
            let y = Relaxed::from_parts(ibig(p), ubig(d) + UBig::ONE);
            (relaxed(n, d) * &y) / y
        }
        "negneg" => -(-relaxed(n, d)),
        "clone" => relaxed(n, d).clone(),
        "relax" => rbig(n, d).relax(),
        "as_relaxed" => rbig(n, d).as_relaxed().clone(),
        // round 4: mixed Relaxed (+|-) integer operators build the Repr WITHOUT reduce2: the denominator is kept, so a result
        // zero is 0/d with d != 1 (Relaxed 7/7 - 1 = 0/7); every comparison must still see the value
        "sub_int" => Relaxed::from_parts(ibig(n) + ibig(p) * IBig::from(ubig(d)), ubig(d)) - ibig(p),
        "sub_int_ref" => &Relaxed::from_parts(ibig(n) + ibig(p) * IBig::from(ubig(d)), ubig(d)) - &ibig(p),
        "int_sub" => ibig(p) - Relaxed::from_parts(ibig(p) * IBig::from(ubig(d)) - ibig(n), ubig(d)),
        "add_int" => Relaxed::from_parts(ibig(n) - ibig(p) * IBig::from(ubig(d)), ubig(d)) + ibig(p),
        "int_add" => ibig(p) + Relaxed::from_parts(ibig(n) - ibig(p) * IBig::from(ubig(d)), ubig(d)),
        "sub_ubig" => Relaxed::from_parts(ibig(n) + IBig::from(ubig(p) * ubig(d)), ubig(d)) - ubig(p),
        "ubig_sub" => ubig(p) - Relaxed::from_parts(IBig::from(ubig(p) * ubig(d)) - ibig(n), ubig(d)),
        "add_ubig" => Relaxed::from_parts(ibig(n) - IBig::from(ubig(p) * ubig(d)), ubig(d)) + ubig(p),
        "sub_int_neg" => -(Relaxed::from_parts(ibig(p) * IBig::from(ubig(d)) - ibig(n), ubig(d)) - ibig(p)),
        "sub_int_rv" => &Relaxed::from_parts(ibig(n) + ibig(p) * IBig::from(ubig(d)), ubig(d)) - ibig(p),
        "sub_int_sqr" => {
            // (x - p)^2 for a value that is 0 or 1: the square of 0/d is 0/d^2
            let t = Relaxed::from_parts(ibig(n) + ibig(p) * IBig::from(ubig(d)), ubig(d)) - ibig(p);
            t.sqr()
        }
        "sub_int_clone" => (Relaxed::from_parts(ibig(n) + ibig(p) * IBig::from(ubig(d)), ubig(d)) - ibig(p)).clone(),
        _ => panic!("unknown route {}", route),
    }
}

fn qdesc(n: &IBig, d: &UBig) -> String {
    format!("{} {} {} {}", hi(n), hu(d), lay(repr_layout_ibig(n)), lay(repr_layout_ubig(d)))
}

fn run_rbig(a: &[&str]) -> String {
    let k = usz(a[0]);
    let vals: Vec<RBig> = (0..k).map(|i| route_q(a[1 + 4 * i], a[2 + 4 * i], a[3 + 4 * i], a[4 + 4 * i])).collect();
    let mut out = String::from("ok");
    for v in &vals {
        out.push_str(&format!(" {} {}", qdesc(v.numerator(), v.denominator()), hash_input(v)));
    }
    for i in 0..k {
        for j in 0..k {
            if i != j {
                let (x, y) = (&vals[i], &vals[j]);
                let mut s = String::new();
                s.push(bc(x == y));
                s.push(bc(x != y));
                s.push(oc(x.cmp(y)));
                s.push(ooc(x.partial_cmp(y)));
                s.push(bc(x < y));
                s.push(bc(x <= y));
                s.push(bc(x > y));
                s.push(bc(x >= y));
                s.push(oc(x.abs_cmp(y)));
                s.push(bc(x.abs_eq(y)));
                // RBig x Relaxed (AbsOrd only) through a relaxed copy
                let yr = y.clone().relax();
                let xr = x.clone().relax();
                s.push(oc(AbsOrd::<Relaxed>::abs_cmp(x, &yr)));
                s.push(oc(AbsOrd::<RBig>::abs_cmp(&xr, y)));
                out.push(' ');
                out.push_str(&s);
            }
        }
    }
    out
}

fn run_rlx(a: &[&str]) -> String {
    let k = usz(a[0]);
    let vals: Vec<Relaxed> = (0..k).map(|i| route_x(a[1 + 4 * i], a[2 + 4 * i], a[3 + 4 * i], a[4 + 4 * i])).collect();
    let mut out = String::from("ok");
    for v in &vals {
        out.push_str(&format!(" {} -", qdesc(v.numerator(), v.denominator())));
    }
    for i in 0..k {
        for j in 0..k {
            if i != j {
                let (x, y) = (&vals[i], &vals[j]);
                let mut s = String::new();
                s.push(bc(x == y));
                s.push(bc(x != y));
                s.push(oc(x.cmp(y)));
                s.push(ooc(x.partial_cmp(y)));
                s.push(bc(x < y));
                s.push(bc(x <= y));
                s.push(bc(x > y));
                s.push(bc(x >= y));
                s.push(oc(x.abs_cmp(y)));
                s.push(bc(x.abs_eq(y)));
                out.push(' ');
                out.push_str(&s);
            }
        }
    }
    out
}

// ------------------------------------------------------------------------------------------------
// round 3: single operations with their layout; the digit estimate with its inputs
// ------------------------------------------------------------------------------------------------
fn ilay(x: &IBig) -> String {
    format!(" {} {}", hi(x), lay(repr_layout_ibig(x)))
}
fn ulay(x: &UBig) -> String {
    format!(" {} {}", hu(x), lay(repr_layout_ubig(x)))
}

fn run_iop(a: &[&str]) -> String {
    let op = a[0];
    let x = ibig(a[1]);
    let y = ibig(a[2]);
    let mut out = String::from("ok");
    macro_rules! form {
        ($f:expr, $o:tt) => {
            match $f {
                "vv" => x.clone() $o y.clone(),
                "vr" => x.clone() $o &y,
                "rv" => &x $o y.clone(),
                "rr" => &x $o &y,
                other => panic!("unknown ownership form {}", other),
            }
        };
    }
    match op {
        "div" => out.push_str(&ilay(&(&x / &y))),
        "rem" => out.push_str(&ilay(&(&x % &y))),
        "divrem" => {
            let (q, r) = (&x).div_rem(&y);
            out.push_str(&ilay(&q));
            out.push_str(&ilay(&r));
        }
        "diveu" => out.push_str(&ilay(&(&x).div_euclid(&y))),
        "remeu" => out.push_str(&ulay(&(&x).rem_euclid(&y))),
        "divremeu" => {
            let (q, r) = (&x).div_rem_euclid(&y);
            out.push_str(&ilay(&q));
            out.push_str(&ulay(&r));
        }
        "udivrem" => {
            let (q, r) = x.clone().unsigned_abs().div_rem(y.clone().unsigned_abs());
            out.push_str(&ulay(&q));
            out.push_str(&ulay(&r));
        }
        "udiv" => out.push_str(&ulay(&(x.clone().unsigned_abs() / y.clone().unsigned_abs()))),
        "urem" => out.push_str(&ulay(&(x.clone().unsigned_abs() % &y.clone().unsigned_abs()))),
        // round 4: the remaining producers of integers
        "gcd" => out.push_str(&ulay(&(&x).gcd(&y))),
        "ugcd" => out.push_str(&ulay(&x.clone().unsigned_abs().gcd(y.clone().unsigned_abs()))),
        "gcdext" => {
            let (g, s, t) = (&x).gcd_ext(&y);
            out.push_str(&ulay(&g));
            out.push_str(&ilay(&s));
            out.push_str(&ilay(&t));
        }
        "ugcdext" => {
            let (g, s, t) = x.clone().unsigned_abs().gcd_ext(&y.clone().unsigned_abs());
            out.push_str(&ulay(&g));
            out.push_str(&ilay(&s));
            out.push_str(&ilay(&t));
        }
        "sqrt" => out.push_str(&ulay(&x.sqrt())),
        "sqrtrem" => {
            let (s, r) = x.clone().unsigned_abs().sqrt_rem();
            out.push_str(&ulay(&s));
            out.push_str(&ulay(&r));
        }
        "nthroot" => out.push_str(&ilay(&x.nth_root(usize::try_from(&y).unwrap()))),
        "unthroot" => out.push_str(&ulay(&x.clone().unsigned_abs().nth_root(usize::try_from(&y).unwrap()))),
        "pow" => out.push_str(&ilay(&x.pow(usize::try_from(&y).unwrap()))),
        "upow" => out.push_str(&ulay(&x.clone().unsigned_abs().pow(usize::try_from(&y).unwrap()))),
        "not" => out.push_str(&ilay(&!x.clone())),
        "notref" => out.push_str(&ilay(&!&x)),
        "shr" => out.push_str(&ilay(&(x.clone() >> usize::try_from(&y).unwrap()))),
        "shrref" => out.push_str(&ilay(&(&x >> usize::try_from(&y).unwrap()))),
        "shl" => out.push_str(&ilay(&(x.clone() << usize::try_from(&y).unwrap()))),
        "shlref" => out.push_str(&ilay(&(&x << usize::try_from(&y).unwrap()))),
        _ => match op.split_once('_') {
            Some(("and", f)) => out.push_str(&ilay(&form!(f, &))),
            Some(("or", f)) => out.push_str(&ilay(&form!(f, |))),
            Some(("xor", f)) => out.push_str(&ilay(&form!(f, ^))),
            _ => return "err unknown-iop".to_string(),
        },
    }
    out
}

fn fprod_b<R: Round + 'static, const B: Word>(op: &str, prec: usize, a: &[&str]) -> String {
    let x = repr_of::<B>(a[0], a[1]);
    let y = repr_of::<B>(a[2], a[3]);
    let c = Context::<R>::new(prec);
    let est = |r: &Repr<B>| if r.is_infinite() { (0, 0) } else { (r.digits_ub(), r.digits_lb()) };
    let (dx, _) = est(&x);
    let (dy, ly) = est(&y);
    let r = match op {
        "add" => c.add(&x, &y),
        "sub" => c.sub(&x, &y),
        "mul" => c.mul(&x, &y),
        "div" => c.div(&x, &y),
        "inv" => c.inv(&x),
        "sqrt" => c.sqrt(&x),
        "sqr" => c.sqr(&x),
        "cubic" => c.cubic(&x),
        other => panic!("unknown float operation {}", other),
    };
    let v = match &r {
        Exact(v) => v,
        Inexact(v, _) => v,
    };
    format!("ok {} {:x} {:x} {:x} {}", hrounded(&r), dx, dy, ly, lay(repr_layout_ibig(v.repr().significand())))
}

fn run_fprod(a: &[&str]) -> String {
    let prec = usz(a[3]);
    macro_rules! go {
        ($b:literal) => {
            with_mode!(a[1], |R| fprod_b::<R, $b>(a[2], prec, &a[4..]))
        };
    }
    match a[0] {
        "2" => go!(2),
        "3" => go!(3),
        "a" => go!(10),
        "10" => go!(16),
        other => panic!("unsupported base {}", other),
    }
}

fn dub_b<const B: Word>(sig: &str) -> String {
    let r = Repr::<B>::new(ibig(sig), 0);
    let s = r.significand();
    let (lb, ub) = s.log2_bounds();
    let (blb, bub) = Repr::<B>::BASE.log2_bounds();
    // the representation handed back (Repr::new strips trailing digits: the estimate is about the stored significand)
    format!(
        "ok {} {:x} {:x} {:x} {:x} {:x} {:x}",
        hi(s),
        lb.to_bits(),
        ub.to_bits(),
        blb.to_bits(),
        bub.to_bits(),
        r.digits_ub(),
        r.digits_lb()
    )
}

fn run_dub(a: &[&str]) -> String {
    match a[0] {
        "2" => dub_b::<2>(a[1]),
        "3" => dub_b::<3>(a[1]),
        "7" => dub_b::<7>(a[1]),
        "a" => dub_b::<10>(a[1]),
        "10" => dub_b::<16>(a[1]),
        "64" => dub_b::<100>(a[1]),
        "ffff" => dub_b::<65535>(a[1]),
        other => panic!("unsupported base {}", other),
    }
}

/// ipar <u|i> radix x<hex of the text>: from_str_radix, the value with its layout
fn run_ipar(a: &[&str]) -> String {
    let radix = u32::from_str_radix(a[1], 16).unwrap();
    let hexs = a[2].strip_prefix('x').expect("x-prefixed hex").as_bytes();
    let bytes: Vec<u8> = hexs.chunks(2).map(|p| u8::from_str_radix(std::str::from_utf8(p).unwrap(), 16).unwrap()).collect();
    let s = std::str::from_utf8(&bytes).expect("case text must be UTF-8");
    match a[0] {
        "u" => match UBig::from_str_radix(s, radix) {
            Ok(v) => format!("ok{}", ulay(&v)),
            Err(e) => format!("err {:?}", e),
        },
        _ => match IBig::from_str_radix(s, radix) {
            Ok(v) => format!("ok{}", ilay(&v)),
            Err(e) => format!("err {:?}", e),
        },
    }
}

fn run(op: &str, a: &[&str]) -> String {
    // the integer-level ops say which word size answered (W40 = 64 bits, W20 = the force_bits="32" build): the oracle
    // evaluates the word-size generic models at exactly that size
    let mark = |mut r: String| {
        if r.starts_with("ok") {
            r.push_str(&format!(" W{:x}", Word::BITS));
        }
        r
    };
    match op {
        "ipar" => mark(run_ipar(a)),
        "iop" => mark(run_iop(a)),
        "dub" => run_dub(a),
        "fprod" => run_fprod(a),
        "uint" => mark(run_uint(a)),
        "int" => mark(run_int(a)),
        "flt" => run_flt(a),
        "rbig" => mark(run_rbig(a)),
        "rlx" => mark(run_rlx(a)),
        _ => "err unknown-op".to_string(),
    }
}

fn main() {
    serve(run);
}
