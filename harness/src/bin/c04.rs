//! C04: rational arithmetic (RBig / Relaxed). One case per line: `id op args...`.
//! Op names start with `r` (RBig) or `x` (Relaxed); rationals travel as `<num> <den>` hex pairs through
//! raw words (`from_parts` is itself one of the operations under test, the parser only in `*parse`).
use core::str::FromStr;
use dashu_base::{Abs, DivEuclid, DivRemEuclid, Inverse, RemEuclid, Sign};
use dashu_int::{IBig, UBig};
use dashu_ratio::{RBig, Relaxed};
use hlib::*;
use std::panic::{catch_unwind, AssertUnwindSafe};

trait Rat: Sized + Clone {
    fn mk(n: &str, d: &str) -> Self;
    fn show(&self) -> String;
    /// is_zero is_one is_int (`-` where the type has no such method)
    fn preds(&self) -> String;
    /// TryFrom<f32> / TryFrom<f64> from the bit pattern
    fn fromf(bits: &str, single: bool) -> String;
    /// From<IBig> / From<UBig> / From<i64> / From<u64> / From<i128> / From<u128> (the primitive forms when the value fits)
    fn fromint(v: &str, unsigned: bool) -> String;
}
fn f32_of(s: &str) -> f32 {
    f32::from_bits(u32::from_str_radix(s, 16).expect("u32"))
}
fn f64_of(s: &str) -> f64 {
    f64::from_bits(u64::from_str_radix(s, 16).expect("u64"))
}
impl Rat for RBig {
    fn mk(n: &str, d: &str) -> Self {
        RBig::from_parts(ibig(n), ubig(d))
    }
    fn show(&self) -> String {
        hq(self)
    }
    fn preds(&self) -> String {
        format!("{} {} {}", self.is_zero() as u8, self.is_one() as u8, self.is_int() as u8)
    }
    fn fromint(v: &str, unsigned: bool) -> String {
        let big = if unsigned { RBig::from(ubig(v)) } else { RBig::from(ibig(v)) };
        let i = ibig(v);
        // the primitive conversions must store the same pair
        if let Ok(p) = i64::try_from(&i) {
            assert_eq!(hq(&RBig::from(p)), hq(&big), "From<i64> differs from From<IBig>");
        }
        if let Ok(p) = u64::try_from(&i) {
            assert_eq!(hq(&RBig::from(p)), hq(&big), "From<u64> differs from From<IBig>");
        }
        if let Ok(p) = i128::try_from(&i) {
            assert_eq!(hq(&RBig::from(p)), hq(&big), "From<i128> differs from From<IBig>");
        }
        if let Ok(p) = u128::try_from(&i) {
            assert_eq!(hq(&RBig::from(p)), hq(&big), "From<u128> differs from From<IBig>");
        }
        format!("ok {}", hq(&big))
    }
    fn fromf(bits: &str, single: bool) -> String {
        let r = if single { RBig::try_from(f32_of(bits)) } else { RBig::try_from(f64_of(bits)) };
        match r {
            Ok(v) => format!("ok {}", hq(&v)),
            Err(e) => format!("err {:?}", e),
        }
    }
}
impl Rat for Relaxed {
    fn mk(n: &str, d: &str) -> Self {
        Relaxed::from_parts(ibig(n), ubig(d))
    }
    fn show(&self) -> String {
        hqr(self)
    }
    fn preds(&self) -> String {
        format!("{} {} -", self.is_zero() as u8, self.is_one() as u8)
    }
    fn fromint(v: &str, unsigned: bool) -> String {
        let big = if unsigned { Relaxed::from(ubig(v)) } else { Relaxed::from(ibig(v)) };
        let i = ibig(v);
        // the primitive conversions must store the same pair
        if let Ok(p) = i64::try_from(&i) {
            assert_eq!(hqr(&Relaxed::from(p)), hqr(&big), "From<i64> differs from From<IBig>");
        }
        if let Ok(p) = u64::try_from(&i) {
            assert_eq!(hqr(&Relaxed::from(p)), hqr(&big), "From<u64> differs from From<IBig>");
        }
        if let Ok(p) = i128::try_from(&i) {
            assert_eq!(hqr(&Relaxed::from(p)), hqr(&big), "From<i128> differs from From<IBig>");
        }
        if let Ok(p) = u128::try_from(&i) {
            assert_eq!(hqr(&Relaxed::from(p)), hqr(&big), "From<u128> differs from From<IBig>");
        }
        format!("ok {}", hqr(&big))
    }
    fn fromf(bits: &str, single: bool) -> String {
        let r = if single { Relaxed::try_from(f32_of(bits)) } else { Relaxed::try_from(f64_of(bits)) };
        match r {
            Ok(v) => format!("ok {}", hqr(&v)),
            Err(e) => format!("err {:?}", e),
        }
    }
}

fn sign_of(s: &str) -> Sign {
    if s == "-" {
        Sign::Negative
    } else {
        Sign::Positive
    }
}

fn u128_of(s: &str) -> u128 {
    u128::from_str_radix(s, 16).expect("u128")
}

/// operator with all value/reference/assign call forms
macro_rules! binop {
    ($form:expr, $x:expr, $y:expr, $op:tt, $opa:tt) => {
        match $form {
            "vv" => $x $op $y,
            "vr" => $x $op &$y,
            "rv" => &$x $op $y,
            "rr" => &$x $op &$y,
            "av" => { let mut t = $x; t $opa $y; t }
            "ar" => { let mut t = $x; t $opa &$y; t }
            f => panic!("unknown form {}", f),
        }
    };
}
macro_rules! binop4 {
    ($form:expr, $x:expr, $y:expr, $op:tt) => {
        match $form {
            "vv" => $x $op $y,
            "vr" => $x $op &$y,
            "rv" => &$x $op $y,
            "rr" => &$x $op &$y,
            f => panic!("unknown form {}", f),
        }
    };
}
macro_rules! meth4 {
    ($form:expr, $x:expr, $y:expr, $tr:ident :: $m:ident) => {
        match $form {
            "vv" => $tr::$m($x, $y),
            "vr" => $tr::$m($x, &$y),
            "rv" => $tr::$m(&$x, $y),
            "rr" => $tr::$m(&$x, &$y),
            f => panic!("unknown form {}", f),
        }
    };
}

macro_rules! ops_for {
    ($T:ty, $name:expr, $a:expr) => {{
        let name: &str = $name;
        let a: &[&str] = $a;
        match name {
            "add" | "sub" | "mul" | "div" | "rem" => {
                let (x, y) = (<$T>::mk(a[1], a[2]), <$T>::mk(a[3], a[4]));
                let r: $T = match name {
                    "add" => binop!(a[0], x, y, +, +=),
                    "sub" => binop!(a[0], x, y, -, -=),
                    "mul" => binop!(a[0], x, y, *, *=),
                    "div" => binop!(a[0], x, y, /, /=),
                    _ => binop!(a[0], x, y, %, %=),
                };
                format!("ok {}", r.show())
            }
            "dive" => {
                let (x, y) = (<$T>::mk(a[1], a[2]), <$T>::mk(a[3], a[4]));
                let q: IBig = meth4!(a[0], x, y, DivEuclid::div_euclid);
                format!("ok {}", hi(&q))
            }
            "reme" => {
                let (x, y) = (<$T>::mk(a[1], a[2]), <$T>::mk(a[3], a[4]));
                let r: $T = meth4!(a[0], x, y, RemEuclid::rem_euclid);
                format!("ok {}", r.show())
            }
            "divreme" => {
                let (x, y) = (<$T>::mk(a[1], a[2]), <$T>::mk(a[3], a[4]));
                let (q, r): (IBig, $T) = meth4!(a[0], x, y, DivRemEuclid::div_rem_euclid);
                format!("ok {} {}", hi(&q), r.show())
            }
            // rational (op) integer: args form inttype num den int
            "addi" | "subi" | "muli" | "divi" => {
                let x = <$T>::mk(a[2], a[3]);
                let r: $T = if a[1] == "u" {
                    let i = ubig(a[4]);
                    match name {
                        "addi" => binop4!(a[0], x, i, +),
                        "subi" => binop4!(a[0], x, i, -),
                        "muli" => binop4!(a[0], x, i, *),
                        _ => binop4!(a[0], x, i, /),
                    }
                } else {
                    let i = ibig(a[4]);
                    match name {
                        "addi" => binop4!(a[0], x, i, +),
                        "subi" => binop4!(a[0], x, i, -),
                        "muli" => binop4!(a[0], x, i, *),
                        _ => binop4!(a[0], x, i, /),
                    }
                };
                format!("ok {}", r.show())
            }
            // integer (op) rational: args form inttype num den int
            "iadd" | "isub" | "imul" | "idiv" => {
                let x = <$T>::mk(a[2], a[3]);
                let r: $T = if a[1] == "u" {
                    let i = ubig(a[4]);
                    match name {
                        "iadd" => binop4!(a[0], i, x, +),
                        "isub" => binop4!(a[0], i, x, -),
                        "imul" => binop4!(a[0], i, x, *),
                        _ => binop4!(a[0], i, x, /),
                    }
                } else {
                    let i = ibig(a[4]);
                    match name {
                        "iadd" => binop4!(a[0], i, x, +),
                        "isub" => binop4!(a[0], i, x, -),
                        "imul" => binop4!(a[0], i, x, *),
                        _ => binop4!(a[0], i, x, /),
                    }
                };
                format!("ok {}", r.show())
            }
            "neg" => {
                let x = <$T>::mk(a[1], a[2]);
                let r: $T = if a[0] == "v" { -x } else { -&x };
                format!("ok {}", r.show())
            }
            "inv" => {
                let x = <$T>::mk(a[1], a[2]);
                let r: $T = if a[0] == "v" { x.inv() } else { (&x).inv() };
                format!("ok {}", r.show())
            }
            "abs" => format!("ok {}", <$T>::mk(a[0], a[1]).abs().show()),
            "signum" => {
                let x = <$T>::mk(a[0], a[1]);
                let s = if x.sign() == Sign::Negative { "-" } else { "+" };
                format!("ok {} {} {}", x.signum().show(), s, x.is_zero() as u8)
            }
            "mulsign" => format!("ok {}", (<$T>::mk(a[1], a[2]) * sign_of(a[0])).show()),
            "sqr" => format!("ok {}", <$T>::mk(a[0], a[1]).sqr().show()),
            "cubic" => format!("ok {}", <$T>::mk(a[0], a[1]).cubic().show()),
            "pow" => format!("ok {}", <$T>::mk(a[1], a[2]).pow(usz(a[0])).show()),
            "from_parts" => {
                let x = <$T>::from_parts(ibig(a[0]), ubig(a[1]));
                // accessors and into_parts must agree
                let s = x.show();
                let (n, d) = x.into_parts();
                assert_eq!(s, format!("{} {}", hi(&n), hu(&d)), "into_parts differs from accessors");
                format!("ok {}", s)
            }
            "from_parts_signed" => format!("ok {}", <$T>::from_parts_signed(ibig(a[0]), ibig(a[1])).show()),
            "from_parts_const" => {
                format!("ok {}", <$T>::from_parts_const(sign_of(a[0]), u128_of(a[1]), u128_of(a[2])).show())
            }
            "preds" => format!("ok {}", <$T>::mk(a[0], a[1]).preds()),
            "fromi" => <$T>::fromint(a[0], false),
            "fromu" => <$T>::fromint(a[0], true),
            "fromf32" => <$T>::fromf(a[0], true),
            "fromf64" => <$T>::fromf(a[0], false),
            "split" => {
                let (t, f) = <$T>::mk(a[0], a[1]).split_at_point();
                format!("ok {} {}", hi(&t), f.show())
            }
            "fract" => format!("ok {}", <$T>::mk(a[0], a[1]).fract().show()),
            "trunc" => format!("ok {}", hi(&<$T>::mk(a[0], a[1]).trunc())),
            "floor" => format!("ok {}", hi(&<$T>::mk(a[0], a[1]).floor())),
            "ceil" => format!("ok {}", hi(&<$T>::mk(a[0], a[1]).ceil())),
            "round" => format!("ok {}", hi(&<$T>::mk(a[0], a[1]).round())),
            // parser: args <string> (the oracle receives the intended numbers as further arguments)
            "parse" => match <$T>::from_str(&a[0].replace("@", "")) {
                Ok(v) => format!("ok {}", v.show()),
                Err(e) => format!("err {:?}", e),
            },
            "parse_radix" => match <$T>::from_str_radix(&a[1].replace("@", ""), usz(a[0]) as u32) {
                Ok(v) => format!("ok {}", v.show()),
                Err(e) => format!("err {:?}", e),
            },
            "parse_prefix" => match <$T>::from_str_with_radix_prefix(&a[0].replace("@", "")) {
                Ok((v, radix)) => format!("ok {} {:x}", v.show(), radix),
                Err(e) => format!("err {:?}", e),
            },
            // round 4: clone_from on a destination that already holds a value (also through Vec::clone_from and
            // clone_from_slice, which call it element-wise): args dn dd sn sd
            "clonefrom" => {
                let src = <$T>::mk(a[2], a[3]);
                let mut x = <$T>::mk(a[0], a[1]);
                x.clone_from(&src);
                let mut v = vec![<$T>::mk(a[0], a[1]), <$T>::mk(a[0], a[1])];
                v.clone_from(&vec![src.clone(), src.clone()]);
                let mut w = vec![<$T>::mk(a[0], a[1])];
                w.clone_from_slice(&[src.clone()]);
                let c = src.clone();
                format!("ok {} {} {} {} {}", x.show(), v[0].show(), v[1].show(), w[0].show(), c.show())
            }
            // TryFrom<T> for IBig / UBig: args n d
            "tryint" => {
                let x = <$T>::mk(a[0], a[1]);
                let i = match IBig::try_from(x.clone()) {
                    Ok(v) => hi(&v),
                    Err(e) => format!("err:{:?}", e),
                };
                let u = match UBig::try_from(x) {
                    Ok(v) => hu(&v),
                    Err(e) => format!("err:{:?}", e),
                };
                format!("ok {} {}", i, u)
            }
            // serde Deserialize from the struct form (postcard: the two integers as stored, possibly not reduced,
            // possibly a zero denominator) and from the text form (serde_json): args n d text
            "serde" => {
                let (n, d) = (ibig(a[0]), ubig(a[1]));
                let bytes = postcard::to_allocvec(&(n.clone(), d.clone())).expect("postcard");
                let pc = match postcard::from_bytes::<$T>(&bytes) {
                    Ok(v) => v.show(),
                    Err(_) => "err -".to_string(),
                };
                let text = format!("\"{}\"", a[2]); // the decimal text "n/d", written by the generator
                let js = match serde_json::from_str::<$T>(&text) {
                    Ok(v) => v.show(),
                    Err(_) => "err -".to_string(),
                };
                format!("ok {} {}", pc, js)
            }
            _ => format!("unknown-op {}", name),
        }
    }};
}

// ------------------------------------------------------------------------------------------------
// histories: a pool of live values, every result fed back; RBig and Relaxed run in lock step
// ------------------------------------------------------------------------------------------------
macro_rules! hist_step {
    ($T:ty, $pool:expr, $op:expr, $i:expr, $arg:expr, $alt:expr) => {{
        let pool: &Vec<$T> = $pool;
        let x = &pool[$i];
        let alt: bool = $alt; // alternate between reference and value call forms
        let y = || -> &$T { &pool[usz($arg)] };
        let r: $T = match $op {
            "add" => if alt { x.clone() + y() } else { x + y() },
            "sub" => if alt { x - y().clone() } else { x - y() },
            "mul" => if alt { x.clone() * y().clone() } else { x * y() },
            "div" => if alt { x.clone() / y() } else { x / y() },
            "rem" => if alt { x.clone() % y() } else { x % y() },
            "reme" => if alt { x.clone().rem_euclid(y()) } else { x.rem_euclid(y()) },
            "neg" => if alt { -x.clone() } else { -x },
            "abs" => x.clone().abs(),
            "inv" => if alt { x.clone().inv() } else { x.inv() },
            "sqr" => x.sqr(),
            "cubic" => x.cubic(),
            "signum" => x.signum(),
            "fract" => x.fract(),
            "pow" => x.pow(usz($arg)),
            "addi" => if alt { x.clone() + ibig($arg) } else { x + &ibig($arg) },
            "subi" => if alt { x.clone() - ibig($arg) } else { x - &ibig($arg) },
            "muli" => if alt { x.clone() * ibig($arg) } else { x * &ibig($arg) },
            "divi" => if alt { x.clone() / ibig($arg) } else { x / &ibig($arg) },
            "isub" => if alt { ibig($arg) - x.clone() } else { &ibig($arg) - x },
            "idiv" => if alt { ibig($arg) / x.clone() } else { &ibig($arg) / x },
            "addu" => x + ubig($arg),
            "mulu" => ubig($arg) * x,
            "divu" => x / ubig($arg),
            o => panic!("unknown history op {}", o),
        };
        r
    }};
}

fn panic_class(e: Box<dyn std::any::Any + Send>) -> String {
    let msg = if let Some(s) = e.downcast_ref::<String>() {
        s.clone()
    } else if let Some(s) = e.downcast_ref::<&str>() {
        s.to_string()
    } else {
        "?".to_string()
    };
    classify_panic(&msg)
}

/// `hist k n1 d1 .. nk dk (op i arg dst)*` -> `ok (n d | panic:<class> -) (xn xd | panic:<class> -) ...`
fn hist(a: &[&str]) -> String {
    let k = usz(a[0]);
    let mut pr: Vec<RBig> = (0..k).map(|j| RBig::mk(a[1 + 2 * j], a[2 + 2 * j])).collect();
    let mut px: Vec<Relaxed> = (0..k).map(|j| Relaxed::mk(a[1 + 2 * j], a[2 + 2 * j])).collect();
    let steps = &a[1 + 2 * k..];
    let mut out = String::from("ok");
    for (t, s) in steps.chunks(4).enumerate() {
        let (op, i, arg, dst) = (s[0], usz(s[1]), s[2], usz(s[3]));
        let alt = t % 2 == 1;
        match catch_unwind(AssertUnwindSafe(|| hist_step!(RBig, &pr, op, i, arg, alt))) {
            Ok(r) => {
                out.push_str(&format!(" {}", hq(&r)));
                pr[dst] = r;
            }
            Err(e) => out.push_str(&format!(" panic:{} -", panic_class(e))),
        }
        match catch_unwind(AssertUnwindSafe(|| hist_step!(Relaxed, &px, op, i, arg, alt))) {
            Ok(r) => {
                out.push_str(&format!(" {}", hqr(&r)));
                px[dst] = r;
            }
            Err(e) => out.push_str(&format!(" panic:{} -", panic_class(e))),
        }
    }
    // structural equality of the canonical form agrees with the value: Relaxed twin canonicalised == RBig
    let mut agree = true;
    for j in 0..k {
        agree &= px[j].clone().canonicalize() == pr[j] && pr[j].clone().relax() == px[j] && pr[j].as_relaxed() == &px[j];
    }
    out.push_str(if agree { " 1" } else { " 0" });
    out
}

// round 4: histories with the in-place operators (value and reference right operand; a panicking `x /= 0` leaves
// Default in x because the operand was taken out with core::mem::take), clone / clone_from into a slot that already
// holds a value, integers on the LEFT (IBig and UBig, all four operators), UBig on the right, From<IBig>.
macro_rules! hist4_step {
    ($T:ty, $pool:expr, $op:expr, $i:expr, $arg:expr, $dst:expr, $alt:expr) => {{
        let pool: &mut Vec<$T> = $pool;
        let alt: bool = $alt;
        let (i, dst): (usize, usize) = ($i, $dst);
        match $op {
            "adda" | "suba" | "mula" | "diva" | "rema" => {
                let y = pool[usz($arg)].clone();
                let x = &mut pool[i];
                match ($op, alt) {
                    ("adda", false) => *x += &y,
                    ("adda", true) => *x += y,
                    ("suba", false) => *x -= &y,
                    ("suba", true) => *x -= y,
                    ("mula", false) => *x *= &y,
                    ("mula", true) => *x *= y,
                    ("diva", false) => *x /= &y,
                    ("diva", true) => *x /= y,
                    ("rema", false) => *x %= &y,
                    (_, _) => *x %= y,
                }
                i
            }
            "clone" => {
                let c = pool[i].clone();
                pool[dst] = c;
                dst
            }
            "clonefrom" => {
                let s = pool[i].clone();
                pool[dst].clone_from(&s);
                dst
            }
            o => {
                let x = &pool[i];
                let r: $T = match o {
                    "laddi" => if alt { ibig($arg) + x.clone() } else { &ibig($arg) + x },
                    "lsubi" => if alt { ibig($arg) - x } else { &ibig($arg) - x.clone() },
                    "lmuli" => if alt { ibig($arg) * x.clone() } else { &ibig($arg) * x },
                    "ldivi" => if alt { ibig($arg) / x } else { &ibig($arg) / x.clone() },
                    "laddu" => if alt { ubig($arg) + x.clone() } else { &ubig($arg) + x },
                    "lsubu" => if alt { ubig($arg) - x } else { &ubig($arg) - x.clone() },
                    "lmulu" => if alt { ubig($arg) * x.clone() } else { &ubig($arg) * x },
                    "ldivu" => if alt { ubig($arg) / x } else { &ubig($arg) / x.clone() },
                    "addu" => if alt { x.clone() + ubig($arg) } else { x + &ubig($arg) },
                    "subu" => if alt { x.clone() - &ubig($arg) } else { x - ubig($arg) },
                    "mulu" => if alt { x.clone() * ubig($arg) } else { x * &ubig($arg) },
                    "divu" => if alt { x.clone() / &ubig($arg) } else { x / ubig($arg) },
                    "fromi" => <$T>::from(ibig($arg)),
                    o3 => hist_step!($T, &*pool, o3, i, $arg, alt),
                };
                pool[dst] = r;
                dst
            }
        }
    }};
}

/// `hist4 k n1 d1 .. nk dk (op i arg dst)*` -> `ok (n d | panic:<class> -) (xn xd | panic:<class> -) ... | pool | xpool flag`
/// (after each step the slot that was written - or, for a panicking in-place form, emptied - is reported)
fn hist4(a: &[&str]) -> String {
    let k = usz(a[0]);
    let mut pr: Vec<RBig> = (0..k).map(|j| RBig::mk(a[1 + 2 * j], a[2 + 2 * j])).collect();
    let mut px: Vec<Relaxed> = (0..k).map(|j| Relaxed::mk(a[1 + 2 * j], a[2 + 2 * j])).collect();
    let steps = &a[1 + 2 * k..];
    let mut out = String::from("ok");
    for (t, s) in steps.chunks(4).enumerate() {
        let (op, i, arg, dst) = (s[0], usz(s[1]), s[2], usz(s[3]));
        let alt = t % 2 == 1;
        match catch_unwind(AssertUnwindSafe(|| hist4_step!(RBig, &mut pr, op, i, arg, dst, alt))) {
            Ok(w) => out.push_str(&format!(" {}", hq(&pr[w]))),
            Err(e) => out.push_str(&format!(" panic:{} -", panic_class(e))),
        }
        match catch_unwind(AssertUnwindSafe(|| hist4_step!(Relaxed, &mut px, op, i, arg, dst, alt))) {
            Ok(w) => out.push_str(&format!(" {}", hqr(&px[w]))),
            Err(e) => out.push_str(&format!(" panic:{} -", panic_class(e))),
        }
    }
    out.push_str(" |");
    for j in 0..k {
        out.push_str(&format!(" {} {}", hq(&pr[j]), hqr(&px[j])));
    }
    let mut agree = true;
    for j in 0..k {
        agree &= px[j].clone().canonicalize() == pr[j] && pr[j].clone().relax() == px[j] && pr[j].as_relaxed() == &px[j];
        agree &= pr[j].is_int() == pr[j].denominator().is_one();
    }
    out.push_str(if agree { " 1" } else { " 0" });
    out
}

fn run(op: &str, a: &[&str]) -> String {
    match op {
        "hist" => hist(a),
        "hist4" => hist4(a),
        // RBig <-> Relaxed conversions
        "xcanon" => format!("ok {}", hq(&Relaxed::mk(a[0], a[1]).canonicalize())),
        "rrelax" => {
            let x = RBig::mk(a[0], a[1]);
            let y = x.as_relaxed().clone();
            assert_eq!(hqr(&y), hq(&x), "as_relaxed changes the representation");
            format!("ok {}", hqr(&x.relax()))
        }
        _ => {
            let (kind, name) = op.split_at(1);
            match kind {
                "r" => ops_for!(RBig, name, a),
                "x" => ops_for!(Relaxed, name, a),
                _ => format!("unknown-op {}", op),
            }
        }
    }
}

fn main() {
    serve(run);
}
