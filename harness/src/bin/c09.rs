//! C09: bit operations. One case per line: `id op args...`, integers as [-]hex, counts as hex.
use dashu_base::{BitTest, PowerOfTwo};
use dashu_int::{IBig, UBig};
use hlib::*;

fn prim_u(ty: &str, v: &UBig) -> Option<u128> {
    let x: u128 = u128::try_from(v).ok()?;
    let bits = match ty {
        "u8" => 8,
        "u16" => 16,
        "u32" => 32,
        "u64" | "usize" => 64,
        _ => 128,
    };
    if bits == 128 || x < (1u128 << bits) {
        Some(x)
    } else {
        None
    }
}

fn prim_i(ty: &str, v: &IBig) -> Option<i128> {
    let x: i128 = i128::try_from(v).ok()?;
    let bits = match ty {
        "i8" => 8,
        "i16" => 16,
        "i32" => 32,
        "i64" | "isize" => 64,
        _ => 128,
    };
    if bits == 128 || (x >= -(1i128 << (bits - 1)) && x < (1i128 << (bits - 1))) {
        Some(x)
    } else {
        None
    }
}

macro_rules! with_unsigned {
    ($ty:expr, $x:expr, |$p:ident| $body:expr) => {
        match $ty {
            "u8" => { let $p = $x as u8; $body }
            "u16" => { let $p = $x as u16; $body }
            "u32" => { let $p = $x as u32; $body }
            "u64" => { let $p = $x as u64; $body }
            "usize" => { let $p = $x as usize; $body }
            _ => { let $p = $x as u128; $body }
        }
    };
}
macro_rules! with_signed {
    ($ty:expr, $x:expr, |$p:ident| $body:expr) => {
        match $ty {
            "i8" => { let $p = $x as i8; $body }
            "i16" => { let $p = $x as i16; $body }
            "i32" => { let $p = $x as i32; $body }
            "i64" => { let $p = $x as i64; $body }
            "isize" => { let $p = $x as isize; $body }
            _ => { let $p = $x as i128; $body }
        }
    };
}

fn run(op: &str, a: &[&str]) -> String {
    match op {
        // IBig x IBig
        "and" => format!("ok {}", hi(&(ibig(a[0]) & ibig(a[1])))),
        "or" => format!("ok {}", hi(&(ibig(a[0]) | ibig(a[1])))),
        "xor" => format!("ok {}", hi(&(ibig(a[0]) ^ ibig(a[1])))),
        "and_rr" => format!("ok {}", hi(&(&ibig(a[0]) & &ibig(a[1])))),
        "or_rr" => format!("ok {}", hi(&(&ibig(a[0]) | &ibig(a[1])))),
        "xor_rr" => format!("ok {}", hi(&(&ibig(a[0]) ^ &ibig(a[1])))),
        "and_vr" => format!("ok {}", hi(&(ibig(a[0]) & &ibig(a[1])))),
        "or_vr" => format!("ok {}", hi(&(ibig(a[0]) | &ibig(a[1])))),
        "xor_vr" => format!("ok {}", hi(&(ibig(a[0]) ^ &ibig(a[1])))),
        "and_rv" => format!("ok {}", hi(&(&ibig(a[0]) & ibig(a[1])))),
        "or_rv" => format!("ok {}", hi(&(&ibig(a[0]) | ibig(a[1])))),
        "xor_rv" => format!("ok {}", hi(&(&ibig(a[0]) ^ ibig(a[1])))),
        "not" => format!("ok {}", hi(&!ibig(a[0]))),
        "not_r" => format!("ok {}", hi(&!&ibig(a[0]))),
        // UBig x UBig
        "uand" => format!("ok {}", hu(&(ubig(a[0]) & ubig(a[1])))),
        "uor" => format!("ok {}", hu(&(ubig(a[0]) | ubig(a[1])))),
        "uxor" => format!("ok {}", hu(&(ubig(a[0]) ^ ubig(a[1])))),
        "uand_rv" => format!("ok {}", hu(&(&ubig(a[0]) & ubig(a[1])))),
        "uor_vr" => format!("ok {}", hu(&(ubig(a[0]) | &ubig(a[1])))),
        "uxor_rr" => format!("ok {}", hu(&(&ubig(a[0]) ^ &ubig(a[1])))),
        "uand_vr" => format!("ok {}", hu(&(ubig(a[0]) & &ubig(a[1])))),
        "uand_rr" => format!("ok {}", hu(&(&ubig(a[0]) & &ubig(a[1])))),
        "uor_rv" => format!("ok {}", hu(&(&ubig(a[0]) | ubig(a[1])))),
        "uor_rr" => format!("ok {}", hu(&(&ubig(a[0]) | &ubig(a[1])))),
        "uxor_vr" => format!("ok {}", hu(&(ubig(a[0]) ^ &ubig(a[1])))),
        "uxor_rv" => format!("ok {}", hu(&(&ubig(a[0]) ^ ubig(a[1])))),
        // mixed UBig / IBig
        "and_ui" => format!("ok {}", hu(&(ubig(a[0]) & ibig(a[1])))),
        "and_iu" => format!("ok {}", hu(&(ibig(a[0]) & ubig(a[1])))),
        "or_ui" => format!("ok {}", hi(&(ubig(a[0]) | ibig(a[1])))),
        "or_iu" => format!("ok {}", hi(&(ibig(a[0]) | ubig(a[1])))),
        "xor_ui" => format!("ok {}", hi(&(ubig(a[0]) ^ ibig(a[1])))),
        "xor_iu" => format!("ok {}", hi(&(ibig(a[0]) ^ ubig(a[1])))),
        // primitives: `opp_<ty>`: big op prim, args: big prim(as hex of its value)
        "uand_p" | "uor_p" | "uxor_p" => {
            let ty = a[0];
            let x = ubig(a[1]);
            let pv = prim_u(ty, &ubig(a[2])).expect("primitive out of range");
            with_unsigned!(ty, pv, |p| match op {
                "uand_p" => format!("ok {:x}", x & p),
                "uor_p" => format!("ok {}", hu(&(x | p))),
                _ => format!("ok {}", hu(&(x ^ p))),
            })
        }
        "iand_pu" | "ior_pu" | "ixor_pu" => {
            let ty = a[0];
            let x = ibig(a[1]);
            let pv = prim_u(ty, &ubig(a[2])).expect("primitive out of range");
            with_unsigned!(ty, pv, |p| match op {
                "iand_pu" => format!("ok {:x}", x & p),
                "ior_pu" => format!("ok {}", hi(&(x | p))),
                _ => format!("ok {}", hi(&(x ^ p))),
            })
        }
        "iand_pi" | "ior_pi" | "ixor_pi" => {
            let ty = a[0];
            let x = ibig(a[1]);
            let pv = prim_i(ty, &ibig(a[2])).expect("primitive out of range");
            with_signed!(ty, pv, |p| match op {
                "iand_pi" => format!("ok {}", hi(&(x & p))),
                "ior_pi" => format!("ok {}", hi(&(x | p))),
                _ => format!("ok {}", hi(&(x ^ p))),
            })
        }
        // shifts
        "shl" => format!("ok {}", hi(&(ibig(a[0]) << usz(a[1])))),
        "shr" => format!("ok {}", hi(&(ibig(a[0]) >> usz(a[1])))),
        "shl_r" => format!("ok {}", hi(&(&ibig(a[0]) << usz(a[1])))),
        "shr_r" => format!("ok {}", hi(&(&ibig(a[0]) >> usz(a[1])))),
        "ushl" => format!("ok {}", hu(&(ubig(a[0]) << usz(a[1])))),
        "ushr" => format!("ok {}", hu(&(ubig(a[0]) >> usz(a[1])))),
        "ushl_r" => format!("ok {}", hu(&(&ubig(a[0]) << usz(a[1])))),
        "ushr_r" => format!("ok {}", hu(&(&ubig(a[0]) >> usz(a[1])))),
        "shr_assign" => {
            let mut x = ibig(a[0]);
            x >>= usz(a[1]);
            format!("ok {}", hi(&x))
        }
        "ushl_assign" => {
            let mut x = ubig(a[0]);
            x <<= usz(a[1]);
            format!("ok {}", hu(&x))
        }
        // bit tests
        "bit" => format!("ok {}", ibig(a[0]).bit(usz(a[1])) as u8),
        "ubit" => format!("ok {}", ubig(a[0]).bit(usz(a[1])) as u8),
        "bit_len" => format!("ok {:x}", ibig(a[0]).bit_len()),
        "ubit_len" => format!("ok {:x}", ubig(a[0]).bit_len()),
        "set_bit" => {
            let mut x = ubig(a[0]);
            x.set_bit(usz(a[1]));
            format!("ok {}", hu(&x))
        }
        "clear_bit" => {
            let mut x = ubig(a[0]);
            x.clear_bit(usz(a[1]));
            format!("ok {}", hu(&x))
        }
        "utz" => format!("ok {}", hopt(ubig(a[0]).trailing_zeros())),
        "uto" => format!("ok {}", hopt(ubig(a[0]).trailing_ones())),
        "tz" => format!("ok {}", hopt(ibig(a[0]).trailing_zeros())),
        "to" => format!("ok {}", hopt(ibig(a[0]).trailing_ones())),
        "count_ones" => format!("ok {:x}", ubig(a[0]).count_ones()),
        "count_zeros" => format!("ok {}", hopt(ubig(a[0]).count_zeros())),
        "split_bits" => {
            let (lo, hi_) = ubig(a[0]).split_bits(usz(a[1]));
            format!("ok {} {}", hu(&lo), hu(&hi_))
        }
        "clear_high_bits" => {
            let mut x = ubig(a[0]);
            x.clear_high_bits(usz(a[1]));
            format!("ok {}", hu(&x))
        }
        "is_pow2" => format!("ok {}", ubig(a[0]).is_power_of_two() as u8),
        "next_pow2" => format!("ok {}", hu(&ubig(a[0]).next_power_of_two())),
        "ones" => {
            let x = UBig::ones(usz(a[0]));
            // the value must also behave like the same number built by arithmetic
            let y = (UBig::ONE << usz(a[0])) - UBig::ONE;
            let consistent = x == y && x.cmp(&y) == core::cmp::Ordering::Equal && &x + UBig::ONE == &y + UBig::ONE;
            format!("ok {} {}", hu(&x), consistent as u8)
        }
        _ => format!("unknown-op {}", op),
    }
}

fn main() {
    serve(run);
}
