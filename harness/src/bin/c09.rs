//! C09: bit operations. One case per line: `id op args...`, integers as [-]hex, counts as hex.
//!
//! Big-valued operations are answered by `big_op`; the same operation asked as `lay.<op>` also reports the
//! layout of the result (`L<word bits>:<inline>:<len>:<capacity>`, from verif_hooks::repr_layout_*), so that the
//! oracle can run the word-level models at the word size of THIS build and compare the Repr word for word.
use dashu_base::{BitTest, PowerOfTwo};
use dashu_int::verif_hooks as vh;
use dashu_int::{IBig, UBig};
use hlib::*;

enum Out {
    U(UBig),
    I(IBig),
    P(u128),
}
trait ToOut {
    fn out(self) -> Out;
}
impl ToOut for UBig {
    fn out(self) -> Out {
        Out::U(self)
    }
}
impl ToOut for IBig {
    fn out(self) -> Out {
        Out::I(self)
    }
}
macro_rules! prim_out { ($($t:ty)*) => {$( impl ToOut for $t { fn out(self) -> Out { Out::P(self as u128) } } )*}; }
prim_out!(u8 u16 u32 u64 u128 usize);

fn prim_u(ty: &str, v: &UBig) -> Option<u128> {
    let x: u128 = u128::try_from(v).ok()?;
    let bits = match ty {
        "u8" => 8,
        "u16" => 16,
        "u32" => 32,
        "u64" | "usize" => 64,
        _ => 128,
    };
    if bits == 128 || x < (1u128 << bits) {
        Some(x)
    } else {
        None
    }
}

fn prim_i(ty: &str, v: &IBig) -> Option<i128> {
    let x: i128 = i128::try_from(v).ok()?;
    let bits = match ty {
        "i8" => 8,
        "i16" => 16,
        "i32" => 32,
        "i64" | "isize" => 64,
        _ => 128,
    };
    if bits == 128 || (x >= -(1i128 << (bits - 1)) && x < (1i128 << (bits - 1))) {
        Some(x)
    } else {
        None
    }
}

macro_rules! with_unsigned {
    ($ty:expr, $x:expr, |$p:ident| $body:expr) => {
        match $ty {
            "u8" => { let $p = $x as u8; $body }
            "u16" => { let $p = $x as u16; $body }
            "u32" => { let $p = $x as u32; $body }
            "u64" => { let $p = $x as u64; $body }
            "usize" => { let $p = $x as usize; $body }
            _ => { let $p = $x as u128; $body }
        }
    };
}
macro_rules! with_signed {
    ($ty:expr, $x:expr, |$p:ident| $body:expr) => {
        match $ty {
            "i8" => { let $p = $x as i8; $body }
            "i16" => { let $p = $x as i16; $body }
            "i32" => { let $p = $x as i32; $body }
            "i64" => { let $p = $x as i64; $body }
            "isize" => { let $p = $x as isize; $body }
            _ => { let $p = $x as i128; $body }
        }
    };
}

/// the ten forms of `big OP primitive`: impl_binop_with_primitive (4), impl_commutative_binop_with_primitive (4),
/// impl_binop_assign_with_primitive (2)
macro_rules! prim_forms {
    ($x:expr, $p:expr, $form:expr, $op:tt, $opa:tt) => {{
        let x = $x;
        let p = $p;
        match $form {
            "bv" => Some((x $op p).out()),
            "rv" => Some((&x $op p).out()),
            "bvr" => Some((x $op &p).out()),
            "rvr" => Some((&x $op &p).out()),
            "pb" => Some((p $op x).out()),
            "pr" => Some((p $op &x).out()),
            "rpb" => Some((&p $op x).out()),
            "rpr" => Some((&p $op &x).out()),
            "as" => { let mut y = x; y $opa p; Some(y.out()) }
            "asr" => { let mut y = x; y $opa &p; Some(y.out()) }
            _ => None,
        }
    }};
}
macro_rules! prim_ops {
    ($x:expr, $p:expr, $f:expr, $form:expr) => {
        match $f {
            "and" => prim_forms!($x, $p, $form, &, &=),
            "or" => prim_forms!($x, $p, $form, |, |=),
            "xor" => prim_forms!($x, $p, $form, ^, ^=),
            _ => None,
        }
    };
}

/// `p<kind>.<f>.<form> ty x p`
fn prim_op(kind: &str, f: &str, form: &str, a: &[&str]) -> Option<Out> {
    let ty = a[0];
    match kind {
        "pu" => {
            let pv = prim_u(ty, &ubig(a[2])).expect("primitive out of range");
            with_unsigned!(ty, pv, |p| prim_ops!(ubig(a[1]), p, f, form))
        }
        "pi" => {
            let pv = prim_u(ty, &ubig(a[2])).expect("primitive out of range");
            with_unsigned!(ty, pv, |p| prim_ops!(ibig(a[1]), p, f, form))
        }
        "ps" => {
            let pv = prim_i(ty, &ibig(a[2])).expect("primitive out of range");
            with_signed!(ty, pv, |p| prim_ops!(ibig(a[1]), p, f, form))
        }
        _ => None,
    }
}

/// the four ownership arms of a binary operator and its two Assign forms
macro_rules! own_forms {
    ($sfx:expr, $x:expr, $y:expr, $op:tt) => {
        match $sfx {
            "" => Some(($x $op $y).out()),
            "_vr" => Some(($x $op &$y).out()),
            "_rv" => Some((&$x $op $y).out()),
            "_rr" => Some((&$x $op &$y).out()),
            _ => None,
        }
    };
}
macro_rules! assign_forms {
    ($sfx:expr, $x:expr, $y:expr, $opa:tt) => {
        match $sfx {
            "_as" => { let mut x = $x; x $opa $y; Some(x.out()) }
            "_asr" => { let mut x = $x; x $opa &$y; Some(x.out()) }
            _ => None,
        }
    };
}
macro_rules! bin_forms {
    ($sfx:expr, $x:expr, $y:expr, $op:tt, $opa:tt) => {
        if $sfx.starts_with("_as") { assign_forms!($sfx, $x, $y, $opa) } else { own_forms!($sfx, $x, $y, $op) }
    };
}

fn split_suffix<'a>(op: &'a str) -> (&'a str, &'a str) {
    for s in ["_vr", "_rv", "_rr", "_asr", "_as"] {
        if let Some(b) = op.strip_suffix(s) {
            return (b, &op[b.len()..]);
        }
    }
    (op, "")
}

/// every operation whose result is a UBig / IBig / primitive value
fn big_op(op: &str, a: &[&str]) -> Option<Out> {
    if op.starts_with("pu.") || op.starts_with("pi.") || op.starts_with("ps.") {
        let parts: Vec<&str> = op.split('.').collect();
        if parts.len() != 3 {
            return None;
        }
        return prim_op(parts[0], parts[1], parts[2], a);
    }
    let (base, sfx) = split_suffix(op);
    match base {
        // IBig x IBig
        "and" => bin_forms!(sfx, ibig(a[0]), ibig(a[1]), &, &=),
        "or" => bin_forms!(sfx, ibig(a[0]), ibig(a[1]), |, |=),
        "xor" => bin_forms!(sfx, ibig(a[0]), ibig(a[1]), ^, ^=),
        // UBig x UBig
        "uand" => bin_forms!(sfx, ubig(a[0]), ubig(a[1]), &, &=),
        "uor" => bin_forms!(sfx, ubig(a[0]), ubig(a[1]), |, |=),
        "uxor" => bin_forms!(sfx, ubig(a[0]), ubig(a[1]), ^, ^=),
        // mixed UBig / IBig (UBig |= IBig and UBig ^= IBig do not exist: the result is signed)
        "and_ui" => bin_forms!(sfx, ubig(a[0]), ibig(a[1]), &, &=),
        "and_iu" => bin_forms!(sfx, ibig(a[0]), ubig(a[1]), &, &=),
        "or_ui" => own_forms!(sfx, ubig(a[0]), ibig(a[1]), |),
        "or_iu" => bin_forms!(sfx, ibig(a[0]), ubig(a[1]), |, |=),
        "xor_ui" => own_forms!(sfx, ubig(a[0]), ibig(a[1]), ^),
        "xor_iu" => bin_forms!(sfx, ibig(a[0]), ubig(a[1]), ^, ^=),
        _ => big_op2(op, a),
    }
}

fn big_op2(op: &str, a: &[&str]) -> Option<Out> {
    Some(match op {
        "not" => (!ibig(a[0])).out(),
        "not_r" => (!&ibig(a[0])).out(),
        // old names of three primitive forms
        "uand_p" | "uor_p" | "uxor_p" => return prim_op("pu", &op[1..op.len() - 2], "bv", a),
        "iand_pu" | "ior_pu" | "ixor_pu" => return prim_op("pi", &op[1..op.len() - 3], "bv", a),
        "iand_pi" | "ior_pi" | "ixor_pi" => return prim_op("ps", &op[1..op.len() - 3], "bv", a),
        // shifts: by value, by reference, `&usize` counts (impl_shifts), Assign forms
        "shl" => (ibig(a[0]) << usz(a[1])).out(),
        "shr" => (ibig(a[0]) >> usz(a[1])).out(),
        "shl_r" => (&ibig(a[0]) << usz(a[1])).out(),
        "shr_r" => (&ibig(a[0]) >> usz(a[1])).out(),
        "shl_pr" => (ibig(a[0]) << &usz(a[1])).out(),
        "shr_pr" => (ibig(a[0]) >> &usz(a[1])).out(),
        "shl_rpr" => (&ibig(a[0]) << &usz(a[1])).out(),
        "shr_rpr" => (&ibig(a[0]) >> &usz(a[1])).out(),
        "ushl" => (ubig(a[0]) << usz(a[1])).out(),
        "ushr" => (ubig(a[0]) >> usz(a[1])).out(),
        "ushl_r" => (&ubig(a[0]) << usz(a[1])).out(),
        "ushr_r" => (&ubig(a[0]) >> usz(a[1])).out(),
        "ushl_pr" => (ubig(a[0]) << &usz(a[1])).out(),
        "ushr_pr" => (ubig(a[0]) >> &usz(a[1])).out(),
        "ushl_rpr" => (&ubig(a[0]) << &usz(a[1])).out(),
        "ushr_rpr" => (&ubig(a[0]) >> &usz(a[1])).out(),
        "shl_assign" => { let mut x = ibig(a[0]); x <<= usz(a[1]); x.out() }
        "shr_assign" => { let mut x = ibig(a[0]); x >>= usz(a[1]); x.out() }
        "shl_assign_pr" => { let mut x = ibig(a[0]); x <<= &usz(a[1]); x.out() }
        "shr_assign_pr" => { let mut x = ibig(a[0]); x >>= &usz(a[1]); x.out() }
        "ushl_assign" => { let mut x = ubig(a[0]); x <<= usz(a[1]); x.out() }
        "ushr_assign" => { let mut x = ubig(a[0]); x >>= usz(a[1]); x.out() }
        "ushl_assign_pr" => { let mut x = ubig(a[0]); x <<= &usz(a[1]); x.out() }
        "ushr_assign_pr" => { let mut x = ubig(a[0]); x >>= &usz(a[1]); x.out() }
        "set_bit" => { let mut x = ubig(a[0]); x.set_bit(usz(a[1])); x.out() }
        "clear_bit" => { let mut x = ubig(a[0]); x.clear_bit(usz(a[1])); x.out() }
        "clear_high_bits" => { let mut x = ubig(a[0]); x.clear_high_bits(usz(a[1])); x.out() }
        "next_pow2" => ubig(a[0]).next_power_of_two().out(),
        _ => return None,
    })
}

fn layout_u(x: &UBig) -> String {
    let (cap, len, inline) = vh::repr_layout_ubig(x);
    format!("L{}:{}:{:x}:{:x}", vh::WORD_BITS, inline as u8, len, cap.unsigned_abs())
}
fn layout_i(x: &IBig) -> String {
    let (cap, len, inline) = vh::repr_layout_ibig(x);
    format!("L{}:{}:{:x}:{:x}", vh::WORD_BITS, inline as u8, len, cap.unsigned_abs())
}

fn run(op: &str, a: &[&str]) -> String {
    let (lay, op) = match op.strip_prefix("lay.") {
        Some(rest) => (true, rest),
        None => (false, op),
    };
    if let Some(out) = big_op(op, a) {
        return match out {
            Out::U(x) => if lay { format!("ok {} {}", hu(&x), layout_u(&x)) } else { format!("ok {}", hu(&x)) },
            Out::I(x) => if lay { format!("ok {} {}", hi(&x), layout_i(&x)) } else { format!("ok {}", hi(&x)) },
            Out::P(p) => if lay { format!("ok {:x} L{}:p", p, vh::WORD_BITS) } else { format!("ok {:x}", p) },
        };
    }
    match op {
        // bit tests
        "bit" => format!("ok {}", ibig(a[0]).bit(usz(a[1])) as u8),
        "ubit" => format!("ok {}", ubig(a[0]).bit(usz(a[1])) as u8),
        "bit_len" => format!("ok {:x}", ibig(a[0]).bit_len()),
        "ubit_len" => format!("ok {:x}", ubig(a[0]).bit_len()),
        "utz" => format!("ok {}", hopt(ubig(a[0]).trailing_zeros())),
        "uto" => format!("ok {}", hopt(ubig(a[0]).trailing_ones())),
        "tz" => format!("ok {}", hopt(ibig(a[0]).trailing_zeros())),
        "to" => format!("ok {}", hopt(ibig(a[0]).trailing_ones())),
        "count_ones" => format!("ok {:x}", ubig(a[0]).count_ones()),
        "count_zeros" => format!("ok {}", hopt(ubig(a[0]).count_zeros())),
        "split_bits" => {
            let (lo, hi_) = ubig(a[0]).split_bits(usz(a[1]));
            if lay {
                format!("ok {} {} {} {}", hu(&lo), hu(&hi_), layout_u(&lo), layout_u(&hi_))
            } else {
                format!("ok {} {}", hu(&lo), hu(&hi_))
            }
        }
        "is_pow2" => format!("ok {}", ubig(a[0]).is_power_of_two() as u8),
        "ones" => {
            let x = UBig::ones(usz(a[0]));
            // the value must also behave like the same number built by arithmetic
            let y = (UBig::ONE << usz(a[0])) - UBig::ONE;
            let consistent = x == y && x.cmp(&y) == core::cmp::Ordering::Equal && &x + UBig::ONE == &y + UBig::ONE;
            if lay {
                format!("ok {} {} {}", hu(&x), consistent as u8, layout_u(&x))
            } else {
                format!("ok {} {}", hu(&x), consistent as u8)
            }
        }
        _ => format!("unknown-op {}", op),
    }
}

fn main() {
    serve(run);
}
