//! C11: exp, exp_m1, ln, ln_1p, powi, powf - every call form named by the property.
//! case:   `<op> <base hex> <mode> <precision hex> <sig> <exp> [<n> | <sig2> <exp2>]`
//!   Context forms (flag reported): exp exp_m1 ln ln_1p powi powf
//!   FBig forms (bare value):       fexp fexp_m1 fln fln_1p fpowi fpowf
//! answer: `ok <sig> <exp> <Exact|NoOp|AddOne|SubOne|NoFlag> <precision hex>`
//! Domain errors of the logarithm are classified here (the message is not in hlib's table).
use hlib::*;
use std::panic::{catch_unwind, AssertUnwindSafe};

fn run_inner(op: &str, a: &[&str]) -> String {
    with_float!(a[0], a[1], |R, B| {
        let p = usz(a[2]);
        let ctx = Context::<R>::new(p);
        let x = repr_of::<B>(a[3], a[4]);
        let fx = || FBig::<R, B>::from_repr(x.clone(), ctx);
        let val = |v: FBig<R, B>| format!("ok {} NoFlag {:x}", hrepr(v.repr()), v.precision());
        match op {
            "exp" => format!("ok {}", hrounded(&ctx.exp(&x))),
            "exp_m1" => format!("ok {}", hrounded(&ctx.exp_m1(&x))),
            "ln" => format!("ok {}", hrounded(&ctx.ln(&x))),
            "ln_1p" => format!("ok {}", hrounded(&ctx.ln_1p(&x))),
            "powi" => format!("ok {}", hrounded(&ctx.powi(&x, ibig(a[5])))),
            "powf" => {
                let y = repr_of::<B>(a[5], a[6]);
                format!("ok {}", hrounded(&ctx.powf(&x, &y)))
            }
            "fexp" => val(fx().exp()),
            "fexp_m1" => val(fx().exp_m1()),
            "fln" => val(fx().ln()),
            "fln_1p" => val(fx().ln_1p()),
            "fpowi" => val(fx().powi(ibig(a[5]))),
            "fpowf" => {
                let y = FBig::<R, B>::from_repr(repr_of::<B>(a[5], a[6]), ctx);
                val(fx().powf(&y))
            }
            _ => format!("unknown-op {}", op),
        }
    })
}

fn run(op: &str, a: &[&str]) -> String {
    match catch_unwind(AssertUnwindSafe(|| run_inner(op, a))) {
        Ok(s) => s,
        Err(e) => {
            let msg = if let Some(s) = e.downcast_ref::<String>() {
                s.clone()
            } else if let Some(s) = e.downcast_ref::<&str>() {
                s.to_string()
            } else {
                "?".to_string()
            };
            if msg.contains("logarithm is not defined for non-positive") || msg.contains("logarithm of a non-positive") {
                "panic LogNonPositive".to_string()
            } else {
                format!("panic {}", classify_panic(&msg))
            }
        }
    }
}

fn main() {
    serve(run);
}
