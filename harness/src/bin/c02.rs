//! C02: integer division. One case per line: `id op args...`, integers as [-]hex.
//!
//! Every value-level op evaluates ALL call forms of the operation (owned / borrowed operands and
//! the `*Assign` twin) and answers with the first result only if every form gave the same answer
//! (otherwise `err form-mismatch ...`), so each case exercises the whole family.
use dashu_base::{DivEuclid, DivRem, DivRemAssign, DivRemEuclid, RemEuclid};
use dashu_int::fast_div::ConstDivisor;
use dashu_int::{DoubleWord, IBig, UBig, Word};
use hlib::*;
use std::panic::{catch_unwind, AssertUnwindSafe};

trait H {
    fn h(&self) -> String;
}
impl H for UBig {
    fn h(&self) -> String {
        hu(self)
    }
}
impl H for IBig {
    fn h(&self) -> String {
        hi(self)
    }
}
macro_rules! h_prim_u { ($($t:ty)*) => {$( impl H for $t { fn h(&self) -> String { format!("{:x}", *self) } } )*} }
macro_rules! h_prim_i { ($($t:ty)*) => {$( impl H for $t { fn h(&self) -> String {
    if *self < 0 { format!("-{:x}", (*self as i128).unsigned_abs()) } else { format!("{:x}", *self) } } } )*} }
h_prim_u!(u8 u16 u32 u64 u128 usize);
h_prim_i!(i8 i16 i32 i64 i128 isize);
impl<A: H, B: H> H for (A, B) {
    fn h(&self) -> String {
        format!("{} {}", self.0.h(), self.1.h())
    }
}
impl H for bool {
    fn h(&self) -> String {
        (*self as u8).to_string()
    }
}

/// run one call form, turning a panic into its class
fn cu<F: FnOnce() -> String>(f: F) -> String {
    match catch_unwind(AssertUnwindSafe(f)) {
        Ok(s) => format!("ok {}", s),
        Err(e) => {
            let msg = if let Some(s) = e.downcast_ref::<String>() {
                s.clone()
            } else if let Some(s) = e.downcast_ref::<&str>() {
                s.to_string()
            } else {
                "?".to_string()
            };
            format!("panic {}", classify_panic(&msg))
        }
    }
}

fn agree(v: Vec<String>) -> String {
    for (i, s) in v.iter().enumerate() {
        if *s != v[0] {
            return format!("err form-mismatch form{}={} form0={}", i, s.replace(' ', "_"), v[0].replace(' ', "_"));
        }
    }
    v[0].clone()
}

/// the four ownership variants of a binary operation
macro_rules! four {
    ($a:ident, $b:ident, |$x:ident, $y:ident| $body:expr) => {
        vec![
            cu(|| { let $x = $a.clone(); let $y = $b.clone(); ($body).h() }),
            cu(|| { let $x = &$a; let $y = $b.clone(); ($body).h() }),
            cu(|| { let $x = $a.clone(); let $y = &$b; ($body).h() }),
            cu(|| { let $x = &$a; let $y = &$b; ($body).h() }),
        ]
    };
}
/// the two variants of an assigning operation (rhs owned / borrowed); body mutates `t`
macro_rules! two_assign {
    ($a:ident, $b:ident, |$t:ident, $y:ident| $body:expr) => {
        vec![
            cu(|| { let mut $t = $a.clone(); let $y = $b.clone(); let r = $body; (r, $t).h() }),
            cu(|| { let mut $t = $a.clone(); let $y = &$b; let r = $body; (r, $t).h() }),
        ]
    };
}
struct Unit;
impl H for Unit {
    fn h(&self) -> String {
        String::new()
    }
}
fn tidy(v: Vec<String>) -> Vec<String> {
    v.into_iter().map(|s| s.split_whitespace().collect::<Vec<_>>().join(" ")).collect()
}
/// assign forms print "<rem> <self>" (or " <self>"); reorder to the plain form's "<q> <r>" / "<q>"
fn swap2(v: Vec<String>) -> Vec<String> {
    v.into_iter()
        .map(|s| {
            let t: Vec<&str> = s.split_whitespace().collect();
            if t.len() == 3 && t[0] == "ok" {
                format!("ok {} {}", t[2], t[1])
            } else {
                t.join(" ")
            }
        })
        .collect()
}

/// the same-type families (UBig x UBig, IBig x IBig)
macro_rules! same_type_ops {
    ($form:expr, $a:ident, $b:ident) => {
        match $form {
            "div" => {
                let mut v = four!($a, $b, |x, y| x / y);
                v.extend(tidy(two_assign!($a, $b, |t, y| { t /= y; Unit })));
                Some(agree(v))
            }
            "rem" => {
                let mut v = four!($a, $b, |x, y| x % y);
                v.extend(tidy(two_assign!($a, $b, |t, y| { t %= y; Unit })));
                Some(agree(v))
            }
            "div_rem" => {
                let mut v = four!($a, $b, |x, y| x.div_rem(y));
                v.extend(swap2(two_assign!($a, $b, |t, y| t.div_rem_assign(y))));
                Some(agree(v))
            }
            "div_euclid" => Some(agree(four!($a, $b, |x, y| x.div_euclid(y)))),
            "rem_euclid" => Some(agree(four!($a, $b, |x, y| x.rem_euclid(y)))),
            "div_rem_euclid" => Some(agree(four!($a, $b, |x, y| x.div_rem_euclid(y)))),
            "is_multiple_of" => Some(agree(vec![cu(|| $a.is_multiple_of(&$b).h())])),
            _ => None,
        }
    };
}

/// division through a prepared ConstDivisor
macro_rules! const_ops {
    ($form:expr, $a:ident, $c:ident) => {
        match $form {
            "div" => Some(agree(tidy(vec![
                cu(|| ($a.clone() / &$c).h()),
                cu(|| (&$a / &$c).h()),
                cu(|| { let mut t = $a.clone(); t /= &$c; t.h() }),
            ]))),
            "rem" => Some(agree(tidy(vec![
                cu(|| ($a.clone() % &$c).h()),
                cu(|| (&$a % &$c).h()),
                cu(|| { let mut t = $a.clone(); t %= &$c; t.h() }),
            ]))),
            "div_rem" => Some(agree(tidy(vec![
                cu(|| $a.clone().div_rem(&$c).h()),
                cu(|| (&$a).div_rem(&$c).h()),
                cu(|| { let mut t = $a.clone(); let r = t.div_rem_assign(&$c); (t, r).h() }),
            ]))),
            _ => None,
        }
    };
}

macro_rules! prim_ops {
    // big (op) primitive
    ($form:expr, $a:ident, $p:ident) => {
        match $form {
            "div" => {
                let mut v = vec![
                    cu(|| ($a.clone() / $p).h()),
                    cu(|| (&$a / $p).h()),
                    cu(|| ($a.clone() / &$p).h()),
                    cu(|| (&$a / &$p).h()),
                ];
                v.push(cu(|| { let mut t = $a.clone(); t /= $p; t.h() }));
                v.push(cu(|| { let mut t = $a.clone(); t /= &$p; t.h() }));
                agree(v)
            }
            "rem" => agree(vec![
                cu(|| ($a.clone() % $p).h()),
                cu(|| (&$a % $p).h()),
                cu(|| ($a.clone() % &$p).h()),
                cu(|| (&$a % &$p).h()),
            ]),
            "div_rem" => agree(vec![
                cu(|| $a.clone().div_rem($p).h()),
                cu(|| (&$a).div_rem($p).h()),
                cu(|| $a.clone().div_rem(&$p).h()),
                cu(|| (&$a).div_rem(&$p).h()),
                cu(|| { let mut t = $a.clone(); let r = t.div_rem_assign($p); (t, r).h() }),
                cu(|| { let mut t = $a.clone(); let r = t.div_rem_assign(&$p); (t, r).h() }),
            ]),
            // primitive / big -> primitive
            "pdiv" => agree(vec![
                cu(|| ($p / $a.clone()).h()),
                cu(|| (&$p / $a.clone()).h()),
                cu(|| ($p / &$a).h()),
                cu(|| (&$p / &$a).h()),
            ]),
            _ => format!("unknown-form {}", $form),
        }
    };
}

macro_rules! with_prim_u {
    ($ty:expr, $v:expr, |$p:ident| $body:expr) => {{
        let x: u128 = u128::try_from($v).expect("unsigned primitive out of range");
        match $ty {
            "u8" => { let $p = u8::try_from(x).expect("range"); $body }
            "u16" => { let $p = u16::try_from(x).expect("range"); $body }
            "u32" => { let $p = u32::try_from(x).expect("range"); $body }
            "u64" => { let $p = u64::try_from(x).expect("range"); $body }
            "usize" => { let $p = usize::try_from(x).expect("range"); $body }
            "u128" => { let $p = x; $body }
            other => panic!("unknown primitive {}", other),
        }
    }};
}
macro_rules! with_prim_i {
    ($ty:expr, $v:expr, |$p:ident| $body:expr) => {{
        let x: i128 = i128::try_from($v).expect("signed primitive out of range");
        match $ty {
            "i8" => { let $p = i8::try_from(x).expect("range"); $body }
            "i16" => { let $p = i16::try_from(x).expect("range"); $body }
            "i32" => { let $p = i32::try_from(x).expect("range"); $body }
            "i64" => { let $p = i64::try_from(x).expect("range"); $body }
            "isize" => { let $p = isize::try_from(x).expect("range"); $body }
            "i128" => { let $p = x; $body }
            other => panic!("unknown primitive {}", other),
        }
    }};
}

fn mk_const(s: &str) -> ConstDivisor {
    ConstDivisor::new(ubig(s))
}

/// the decimal number that follows `key` (first occurrence at or after `from`) in a Debug string
fn dbg_num(s: &str, key: &str, from: usize) -> (u128, usize) {
    let i = from + s[from..].find(key).unwrap_or_else(|| panic!("Debug output has no {}", key)) + key.len();
    let digits: String = s[i..].chars().take_while(|c| c.is_ascii_digit()).collect();
    (digits.parse().expect("number in Debug output"), i)
}

/// `<kind> <shift> <normalised divisor> <m> [<top divisor> <len>]` in hex, parsed from `{:?}`
fn const_fields(c: &ConstDivisor) -> String {
    let s = format!("{:?}", c);
    if s.contains("Single(") || s.contains("Double(") {
        let kind = if s.contains("Single(") { 1 } else { 2 };
        let (d, i) = dbg_num(&s, "divisor: ", 0);
        let (m, _) = dbg_num(&s, "m: ", i);
        let (sh, _) = dbg_num(&s, "shift: ", 0);
        format!("{:x} {:x} {:x} {:x}", kind, sh, d, m)
    } else {
        let i0 = s.find("normalized_divisor: [").expect("Large") + "normalized_divisor: [".len();
        let i1 = i0 + s[i0..].find(']').expect("]");
        let words: Vec<Word> = s[i0..i1].split(',').map(|t| t.trim().parse().expect("word")).collect();
        let (sh, _) = dbg_num(&s, "shift: ", i1);
        let (d, j) = dbg_num(&s, "divisor: ", i1);
        let (m, _) = dbg_num(&s, "m: ", j);
        format!("3 {:x} {} {:x} {:x} {:x}", sh, words_hex(false, &words), m, d, words.len())
    }
}

/// `lhs` padded with zero words to exactly `m` words
fn padded(s: &str, m: usize) -> Vec<Word> {
    let (_, mut w) = hex_words(s);
    assert!(w.len() <= m, "lhs longer than the requested length");
    w.resize(m, 0);
    w
}

fn run(op: &str, a: &[&str]) -> String {
    let (ty, form) = match op.split_once('.') {
        Some(x) => x,
        None => return format!("unknown-op {}", op),
    };
    match ty {
        "u" => {
            let (x, y) = (ubig(a[0]), ubig(a[1]));
            same_type_ops!(form, x, y).unwrap_or_else(|| format!("unknown-op {}", op))
        }
        "i" => {
            let (x, y) = (ibig(a[0]), ibig(a[1]));
            same_type_ops!(form, x, y).unwrap_or_else(|| format!("unknown-op {}", op))
        }
        "ui" => {
            let (x, y) = (ubig(a[0]), ibig(a[1]));
            match form {
                "div" => agree(four!(x, y, |p, q| p / q)),
                "rem" => {
                    let mut v = four!(x, y, |p, q| p % q);
                    v.extend(tidy(two_assign!(x, y, |t, q| { t %= q; Unit })));
                    agree(v)
                }
                "div_rem" => agree(four!(x, y, |p, q| p.div_rem(q))),
                _ => format!("unknown-op {}", op),
            }
        }
        "iu" => {
            let (x, y) = (ibig(a[0]), ubig(a[1]));
            match form {
                "div" => {
                    let mut v = four!(x, y, |p, q| p / q);
                    v.extend(tidy(two_assign!(x, y, |t, q| { t /= q; Unit })));
                    agree(v)
                }
                "rem" => {
                    let mut v = four!(x, y, |p, q| p % q);
                    v.extend(tidy(two_assign!(x, y, |t, q| { t %= q; Unit })));
                    agree(v)
                }
                "div_rem" => agree(four!(x, y, |p, q| p.div_rem(q))),
                _ => format!("unknown-op {}", op),
            }
        }
        // ConstDivisor: construction is inside the catch so that a zero divisor is seen as the panic
        "uc" => {
            let x = ubig(a[0]);
            let c = match catch_unwind(|| mk_const(a[1])) {
                Ok(c) => c,
                Err(_) => return cu(|| { let _ = mk_const(a[1]); String::new() }),
            };
            const_ops!(form, x, c).unwrap_or_else(|| format!("unknown-op {}", op))
        }
        "ic" => {
            let x = ibig(a[0]);
            let c = match catch_unwind(|| mk_const(a[1])) {
                Ok(c) => c,
                Err(_) => return cu(|| { let _ = mk_const(a[1]); String::new() }),
            };
            const_ops!(form, x, c).unwrap_or_else(|| format!("unknown-op {}", op))
        }
        "c" => match form {
            // value() gives back the divisor; from_word / from_dword agree with new
            "value" => {
                let d = ubig(a[0]);
                let mut v = vec![cu(|| ConstDivisor::new(d.clone()).value().h())];
                if let Ok(w) = Word::try_from(&d) {
                    v.push(cu(|| {
                        let c = ConstDivisor::from_word(w);
                        assert!(c == ConstDivisor::new(d.clone()), "from_word differs from new");
                        c.value().h()
                    }));
                }
                if let Ok(dw) = DoubleWord::try_from(&d) {
                    v.push(cu(|| {
                        let c = ConstDivisor::from_dword(dw);
                        assert!(c == ConstDivisor::new(d.clone()), "from_dword differs from new");
                        c.value().h()
                    }));
                }
                agree(v)
            }
            // the stored fields of a ConstDivisor, read off its derived Debug output (they are private): value, kind 1/2/3,
            // shift, normalised divisor, reciprocal m (Large: + the top double word the reciprocal belongs to, length in
            // words); from_word / from_dword must show the same fields as new
            "fields" => {
                let d = ubig(a[0]);
                let mut v = vec![cu(|| { let c = ConstDivisor::new(d.clone()); format!("{} {}", c.value().h(), const_fields(&c)) })];
                if let Ok(w) = Word::try_from(&d) {
                    v.push(cu(|| { let c = ConstDivisor::from_word(w); format!("{} {}", c.value().h(), const_fields(&c)) }));
                }
                if let Ok(dw) = DoubleWord::try_from(&d) {
                    v.push(cu(|| { let c = ConstDivisor::from_dword(dw); format!("{} {}", c.value().h(), const_fields(&c)) }));
                }
                agree(v)
            }
            _ => format!("unknown-op {}", op),
        },
        // primitives: `up.<form> <ty> <big> <prim>`
        "up" => {
            let x = ubig(a[1]);
            with_prim_u!(a[0], &ubig(a[2]), |p| prim_ops!(form, x, p))
        }
        "ipu" => {
            let x = ibig(a[1]);
            with_prim_u!(a[0], &ubig(a[2]), |p| prim_ops!(form, x, p))
        }
        "ipi" => {
            let x = ibig(a[1]);
            with_prim_i!(a[0], &ibig(a[2]), |p| prim_ops!(form, x, p))
        }
        // is_multiple_of_const (double-word divisor)
        "mc" => {
            let dw = DoubleWord::try_from(&ubig(a[1])).expect("dword");
            match form {
                "u" => { let x = ubig(a[0]); agree(vec![cu(|| x.is_multiple_of_const(dw).h())]) }
                "i" => { let x = ibig(a[0]); agree(vec![cu(|| x.is_multiple_of_const(dw).h())]) }
                _ => format!("unknown-op {}", op),
            }
        }
        // hook level: `k.<which> <lhs> <rhs> <lhs length in words>`: lhs = [lhs % rhs, lhs / rhs]
        "k" => {
            let which: u8 = form.parse().expect("which");
            let m = usz(a[2]);
            let mut lhs = padded(a[0], m);
            let (_, rhs) = hex_words(a[1]);
            let n = rhs.len();
            let carry = dashu_int::verif_hooks::div_kernel(which, &mut lhs, &rhs);
            format!("ok {} {} {}", carry as u8, words_hex(false, &lhs[n..]), words_hex(false, &lhs[..n]))
        }
        // scratch memory, hook level: `km.<which> <lhs> <rhs> <lhs length in words>` -> the smallest number of
        // scratch words with which the kernel completes (found by bisection; the result must equal the one
        // obtained with the reserved amount) and the amount div::memory_requirement_exact reserves
        "km" => {
            let which: u8 = form.parse().expect("which");
            let m = usz(a[2]);
            let lhs0 = padded(a[0], m);
            let (_, rhs) = hex_words(a[1]);
            let req = dashu_int::verif_hooks::div_scratch_words(which, m, rhs.len());
            let with = |s: usize| {
                let mut l = lhs0.clone();
                catch_unwind(AssertUnwindSafe(|| dashu_int::verif_hooks::div_kernel_scratch(which, &mut l, &rhs, s))).map(|c| (c, l))
            };
            match with(req) {
                Err(_) => cu(|| { let mut l = lhs0.clone(); dashu_int::verif_hooks::div_kernel_scratch(which, &mut l, &rhs, req).h() }),
                Ok(reference) => {
                    let (mut lo, mut hi) = (0usize, req);
                    while lo < hi {
                        let mid = (lo + hi) / 2;
                        match with(mid) {
                            Ok(r) if r == reference => hi = mid,
                            Ok(_) => return "err result-depends-on-scratch".to_string(),
                            Err(_) => lo = mid + 1,
                        }
                    }
                    format!("ok {:x} {:x}", hi, req)
                }
            }
        }
        // scratch memory of mul::add_signed_mul (size dispatch): `mm.0 <a> <b> <len a> <len b>`
        "mm" => {
            let (la, lb) = (usz(a[2]), usz(a[3]));
            let (x, y) = (padded(a[0], la), padded(a[1], lb));
            let req = dashu_int::verif_hooks::mul_scratch_words(la + lb, la, lb);
            let with = |s: usize| {
                let mut c = vec![0 as Word; la + lb];
                catch_unwind(AssertUnwindSafe(|| dashu_int::verif_hooks::mul_kernel_scratch(&mut c, true, &x, &y, s))).map(|k| (k, c))
            };
            match with(req) {
                Err(_) => cu(|| { let mut c = vec![0 as Word; la + lb]; format!("{}", dashu_int::verif_hooks::mul_kernel_scratch(&mut c, true, &x, &y, req)) }),
                Ok(reference) => {
                    let (mut lo, mut hi) = (0usize, req);
                    while lo < hi {
                        let mid = (lo + hi) / 2;
                        match with(mid) {
                            Ok(r) if r == reference => hi = mid,
                            Ok(_) => return "err result-depends-on-scratch".to_string(),
                            Err(_) => lo = mid + 1,
                        }
                    }
                    format!("ok {:x} {:x}", hi, req)
                }
            }
        }
        _ => format!("unknown-op {}", op),
    }
}

fn main() {
    serve(run);
}
