//! C18: rational approximation (simplest_in, Farey neighbours, nearest, simplest_from_*,
//! is_simpler_than).  One case per line: `id op args...`, integers as [-]hex.
//! Answers: fractions as `<num> <den>` exactly as stored in the returned RBig.
use hlib::*;

fn sgn(s: Sign) -> &'static str {
    match s {
        Sign::Positive => "pos",
        Sign::Negative => "neg",
    }
}

fn hopt_q(x: Option<RBig>) -> String {
    match x {
        Some(v) => format!("ok some {}", hq(&v)),
        None => "ok none".to_string(),
    }
}

fn run(op: &str, a: &[&str]) -> String {
    match op {
        "simplest_in" => format!("ok {}", hq(&RBig::simplest_in(rbig(a[0], a[1]), rbig(a[2], a[3])))),
        "is_simpler" => format!("ok {}", rbig(a[0], a[1]).is_simpler_than(&rbig(a[2], a[3])) as u8),
        "nearest" => match rbig(a[0], a[1]).nearest(&ubig(a[2])) {
            Exact(v) => format!("ok exact {}", hq(&v)),
            Inexact(v, s) => format!("ok inexact {} {}", hq(&v), sgn(s)),
        },
        "next_up" => format!("ok {}", hq(&rbig(a[0], a[1]).next_up(&ubig(a[2])))),
        "next_down" => format!("ok {}", hq(&rbig(a[0], a[1]).next_down(&ubig(a[2])))),
        "from_f32" => hopt_q(RBig::simplest_from_f32(f32::from_bits(u32::from_str_radix(a[0], 16).expect("u32")))),
        "from_f64" => hopt_q(RBig::simplest_from_f64(f64::from_bits(u64::from_str_radix(a[0], 16).expect("u64")))),
        // from_float <base> <mode> <precision> <sig|inf|-inf> <exp>
        "from_float" => with_float!(a[0], a[1], |R, B| {
            let ctx = Context::<R>::new(usz(a[2]));
            let f = FBig::<R, B>::from_repr(repr_of::<B>(a[3], a[4]), ctx);
            hopt_q(RBig::simplest_from_float(&f))
        }),
        // float_bounds <base> <mode> <precision> <sig> <exp>: the bounds simplest_from_float forms, as stored:
        // l r incl_l incl_r (R::error_bounds), lb = f - l.with_precision(p+1), rb = f + r.with_precision(p+1),
        // every FBig as `<significand> <exponent> <context precision>`
        "float_bounds" => with_float!(a[0], a[1], |R, B| {
            use dashu_float::round::ErrorBounds;
            fn fb<R2: dashu_float::round::Round, const B2: Word>(x: &FBig<R2, B2>) -> String {
                format!("{} {:x}", hrepr(x.repr()), x.precision())
            }
            let ctx = Context::<R>::new(usz(a[2]));
            let f = FBig::<R, B>::from_repr(repr_of::<B>(a[3], a[4]), ctx);
            let (l, r, incl_l, incl_r) = <R as ErrorBounds>::error_bounds(&f);
            let precision = match f.precision() {
                0 => 0,
                p => p + 1,
            };
            let lb = &f - l.clone().with_precision(precision).unwrap();
            let rb = &f + r.clone().with_precision(precision).unwrap();
            format!("ok {} {} {} {} {} {}", fb(&l), fb(&r), incl_l as u8, incl_r as u8, fb(&lb), fb(&rb))
        }),
        _ => "unknown-op".into(),
    }
}

fn main() {
    serve(run);
}
