(** C11 - exp, ln and powers are accurate to less than one unit in the last place. Statements only. *)
From Coq Require Import ZArith Reals List.
From Dashu Require Import Base.Prelude Float.RoundSpec Float.Contract Float.Model Float.ElemEncl Float.ElemEntry
  Float.ElemEntryProof Float.ElemEnclProof Float.ElemDirected Float.ElemEntryDomain
  Float.AddModel Float.ElemF32 Float.ElemAsis Float.ElemAsisEntry Float.ElemParamsProof Float.ElemPowiProof
  Float.ElemSubUlp Float.ElemSeriesFuel Float.ElemExpGuard Float.ElemPowiSharp Float.ElemSeriesErr Float.ElemExpFinal Float.ElemSeriesInst Float.ElemPowiBin1.
From Coq Require Import QArith Qabs.
From DashuGen Require Import ElemParams.
Import ListNotations.
Open Scope Z_scope.

(** ---- the meaning of the verdicts of the certified checkers (fval B s e = s * B^e, bpw B e = B^e) *)
Theorem C11_accept_means : forall B p t r fexact,
  Accepted B p t r fexact <->
  (r = t \/ exists E, (bpw B E <= Rabs t)%R /\ (Rabs (r - t) < bpw B (E - p + 1))%R) /\ (fexact = true -> r = t).
Proof. intros. apply iff_refl. Qed.
Print Assumptions C11_accept_means.

Theorem C11_reject_means : forall B p t r fexact,
  Rejected B p t r fexact <->
  ((t = 0%R /\ r <> t) \/ exists E, (Rabs t < bpw B (E + 1))%R /\ (bpw B (E - p + 1) <= Rabs (r - t))%R) \/
  (fexact = true /\ r <> t).
Proof. intros. apply iff_refl. Qed.
Print Assumptions C11_reject_means.

Theorem C11_verdicts_exclusive : forall B, 2 <= B -> forall p t r f, Accepted B p t r f -> Rejected B p t r f -> False.
Proof. exact accepted_rejected_exclusive. Qed.
Print Assumptions C11_verdicts_exclusive.

Theorem C11_sound_means : forall B p t r f v,
  Sound B p t r f v = match v with VAccept => Accepted B p t r f | VReject => Rejected B p t r f | VUndecided => True end.
Proof. reflexivity. Qed.
Print Assumptions C11_sound_means.

(** ---- soundness of the checkers, for every working precision / schedule / hint the driver may pass *)
Theorem C11_check_exp_sound : forall B, 2 <= B -> forall prt pra p s e rs re fexact,
  Sound B p (exp (fval B s e)) (fval B rs re) fexact (check_exp prt pra B p s e rs re fexact).
Proof. exact check_exp_sound. Qed.
Print Assumptions C11_check_exp_sound.

Theorem C11_check_expm1_sound : forall B, 2 <= B -> forall prt pra p s e rs re fexact,
  Sound B p (exp (fval B s e) - 1) (fval B rs re) fexact (check_expm1 prt pra B p s e rs re fexact).
Proof. exact check_expm1_sound. Qed.
Print Assumptions C11_check_expm1_sound.

Theorem C11_check_ln_sound : forall B, 2 <= B -> forall prt pra slack from_result steps p s e rs re fexact,
  Sound B p (ln (fval B s e)) (fval B rs re) fexact (check_ln prt pra slack from_result steps B p s e rs re fexact).
Proof. exact check_ln_sound. Qed.
Print Assumptions C11_check_ln_sound.

Theorem C11_check_ln1p_sound : forall B, 2 <= B -> forall prt pra slack from_result steps p s e rs re fexact,
  (-1 < fval B s e)%R ->
  Sound B p (ln (1 + fval B s e)) (fval B rs re) fexact (check_ln1p prt pra slack from_result steps B p s e rs re fexact).
Proof. exact check_ln1p_sound. Qed.
Print Assumptions C11_check_ln1p_sound.

Theorem C11_check_powi_sound : forall B, 2 <= B -> forall pra exact_ok p s e n rs re fexact,
  s <> 0 \/ 0 <= n ->
  Sound B p (powerRZ (fval B s e) n) (fval B rs re) fexact (check_powi pra exact_ok B p s e n rs re fexact).
Proof. exact check_powi_sound. Qed.
Print Assumptions C11_check_powi_sound.

Theorem C11_check_powf_sound : forall B, 2 <= B -> forall prt pra slack steps exact_ok p s e ys ye rs re fexact,
  0 < s ->
  Sound B p (Rpower (fval B s e) (fval B ys ye)) (fval B rs re) fexact
        (check_powf prt pra slack steps exact_ok B p s e ys ye rs re fexact).
Proof. exact check_powf_sound. Qed.
Print Assumptions C11_check_powf_sound.

(** ---- the entry logic: unlimited precision is refused, Exact shortcuts are exact, domain panics *)
Theorem C11_exp_unlimited_panics : forall s mo, exp_entry 0 s mo = EPanic EPUnlimited.
Proof. exact exp_entry_unlimited. Qed.
Print Assumptions C11_exp_unlimited_panics.

Theorem C11_exp_exact_shortcut : forall B p s e mo s' e', exp_entry p s mo = EExact s' e' ->
  fval B s' e' = (if mo then exp (fval B s e) - 1 else exp (fval B s e))%R.
Proof. exact exp_entry_exact. Qed.
Print Assumptions C11_exp_exact_shortcut.

Theorem C11_ln_unlimited_panics : forall B s e op, ln_entry B 0 s e op = EPanic EPUnlimited.
Proof. exact ln_entry_unlimited. Qed.
Print Assumptions C11_ln_unlimited_panics.

Theorem C11_ln_exact_shortcut : forall B p s e op s' e', ln_entry B p s e op = EExact s' e' ->
  fval B s' e' = (if op then ln (1 + fval B s e) else ln (fval B s e))%R.
Proof. exact ln_entry_exact. Qed.
Print Assumptions C11_ln_exact_shortcut.

Theorem C11_ln_domain_panic : forall B, 2 <= B -> forall p s e op, p <> 0 ->
  (ln_entry B p s e op = EPanic EPLogDomain <-> (if op then 1 + fval B s e <= 0 else fval B s e <= 0)%R).
Proof. exact ln_entry_domain. Qed.
Print Assumptions C11_ln_domain_panic.

Theorem C11_ln_before_fix_refuted :
  ln_entry_before_fix 5 (-2) 0 false = ECompute /\ ln_entry_before_fix 5 0 0 false = ECompute /\
  ln_entry_before_fix 5 (-1) 0 true = ECompute /\
  ln_entry 10 5 (-2) 0 false = EPanic EPLogDomain /\ ln_entry 10 5 0 0 false = EPanic EPLogDomain /\
  ln_entry 10 5 (-1) 0 true = EPanic EPLogDomain.
Proof. exact ln_entry_before_fix_refuted. Qed.
Print Assumptions C11_ln_before_fix_refuted.

Theorem C11_powi_unlimited_panics_iff_negative : forall B m s e n, powi_entry B 0 m s e n = EPanic EPUnlimited <-> n < 0.
Proof. exact powi_entry_unlimited. Qed.
Print Assumptions C11_powi_unlimited_panics_iff_negative.

Theorem C11_powi_exact_shortcut : forall B, 2 <= B -> forall p m s e n s' e',
  powi_entry B p m s e n = EExact s' e' -> fval B s' e' = powerRZ (fval B s e) n.
Proof. exact powi_entry_exact. Qed.
Print Assumptions C11_powi_exact_shortcut.

Theorem C11_powi_first_power_is_rounded_operand : forall B p m s e n a,
  powi_entry B p m s e n = ERound a -> n = 1 /\ a = repr_round B p m s e.
Proof. exact powi_entry_round. Qed.
Print Assumptions C11_powi_first_power_is_rounded_operand.

Theorem C11_powf_unlimited_panics : forall B m s e ys ye, powf_entry B 0 m s e ys ye = EPanic EPUnlimited.
Proof. exact powf_entry_unlimited. Qed.
Print Assumptions C11_powf_unlimited_panics.

Theorem C11_powf_exact_shortcut : forall B, 2 <= B -> forall p m s e ys ye s' e', 0 < s ->
  powf_entry B p m s e ys ye = EExact s' e' -> fval B s' e' = Rpower (fval B s e) (fval B ys ye).
Proof. exact powf_entry_exact_value. Qed.
Print Assumptions C11_powf_exact_shortcut.

Theorem C11_powf_negative_base_panics : forall B p m s e ys ye,
  p <> 0 -> ys <> 0 -> is_one ys ye = false -> s < 0 -> powf_entry B p m s e ys ye = EPanic EPNegBase.
Proof. exact powf_entry_negative_base. Qed.
Print Assumptions C11_powf_negative_base_panics.

(** ---- open finding directed_faithful: as-is accuracy and refutation of the one-ulp claim *)
Theorem C11_loose_means : forall B p t r,
  Loose B p t r <-> exists E, (bpw B E <= Rabs r)%R /\ (Rabs (r - t) < 2 * bpw B (E - p + 1))%R.
Proof. intros. apply iff_refl. Qed.
Print Assumptions C11_loose_means.

Theorem C11_loose_exp_sound : forall B, 2 <= B -> forall prt pra p s e rs re,
  loose_exp prt pra B p s e rs re = VAccept -> Loose B p (exp (fval B s e)) (fval B rs re).
Proof. exact loose_exp_sound. Qed.
Print Assumptions C11_loose_exp_sound.

Theorem C11_loose_expm1_sound : forall B, 2 <= B -> forall prt pra p s e rs re,
  loose_expm1 prt pra B p s e rs re = VAccept -> Loose B p (exp (fval B s e) - 1) (fval B rs re).
Proof. exact loose_expm1_sound. Qed.
Print Assumptions C11_loose_expm1_sound.

Theorem C11_loose_ln_sound : forall B, 2 <= B -> forall prt pra slack steps p s e rs re,
  loose_ln prt pra slack steps B p s e rs re = VAccept -> Loose B p (ln (fval B s e)) (fval B rs re).
Proof. exact loose_ln_sound. Qed.
Print Assumptions C11_loose_ln_sound.

Theorem C11_loose_ln1p_sound : forall B, 2 <= B -> forall prt pra slack steps p s e rs re, (-1 < fval B s e)%R ->
  loose_ln1p prt pra slack steps B p s e rs re = VAccept -> Loose B p (ln (1 + fval B s e)) (fval B rs re).
Proof. exact loose_ln1p_sound. Qed.
Print Assumptions C11_loose_ln1p_sound.

Theorem C11_loose_powi_sound : forall B, 2 <= B -> forall pra p s e n rs re,
  loose_powi pra B p s e n rs re = VAccept -> Loose B p (powerRZ (fval B s e) n) (fval B rs re).
Proof. exact loose_powi_sound. Qed.
Print Assumptions C11_loose_powi_sound.

Theorem C11_loose_powf_sound : forall B, 2 <= B -> forall prt pra slack steps p s e ys ye rs re,
  loose_powf prt pra slack steps B p s e ys ye rs re = VAccept ->
  Loose B p (Rpower (fval B s e) (fval B ys ye)) (fval B rs re).
Proof. exact loose_powf_sound. Qed.
Print Assumptions C11_loose_powf_sound.

Theorem C11_directed_refuted :
  Rejected 10 1 (exp (fval 10 (-87) (-19))) (fval 10 2 0) false /\
  Loose 10 1 (exp (fval 10 (-87) (-19))) (fval 10 2 0).
Proof. exact directed_refuted_exp. Qed.
Print Assumptions C11_directed_refuted.

Theorem C11_directed_refuted_exp_300_bits :
  Rejected 2 300 (exp (fval 2 (-256) (-1299))) (fval 2 (2 ^ 299 + 1) (-299)) false.
Proof. exact directed_refuted_exp_300. Qed.
Print Assumptions C11_directed_refuted_exp_300_bits.

Theorem C11_directed_refuted_ln1p_fitting_operand :
  Rejected 3 20 (ln (1 + fval 3 1057080249 (-19))) (fval 3 2255402011 (-20)) false /\
  Loose 3 20 (ln (1 + fval 3 1057080249 (-19))) (fval 3 2255402011 (-20)).
Proof. exact directed_refuted_ln1p. Qed.
Print Assumptions C11_directed_refuted_ln1p_fitting_operand.

Theorem C11_directed_refuted_powf_exact_value :
  Rejected 3 2 (Rpower (fval 3 6 (-2)) (fval 3 2 0)) (fval 3 1 (-1)) false.
Proof. exact directed_refuted_powf. Qed.
Print Assumptions C11_directed_refuted_powf_exact_value.

(** non-vacuity: documented examples of exp.rs / log.rs are accepted, a wrong Exact claim is rejected *)
Example C11_nonvacuous :
  check_exp 60 200 10 2 (-1234) (-3) 29 (-2) false = VAccept /\
  check_expm1 60 200 10 2 (-1234) (-4) (-12) (-2) false = VAccept /\
  check_ln 120 250 70 false [110; 120]%positive 10 2 1234 (-3) 21 (-2) false = VAccept /\
  check_ln1p 120 250 70 false [110; 120]%positive 10 2 1234 (-4) 12 (-2) false = VAccept /\
  check_powi 200 true 10 2 (-1234) (-3) 10 82 (-1) false = VAccept /\
  check_powf 120 250 70 [110; 120]%positive false 10 2 123 (-2) (-456) (-2) 39 (-2) false = VAccept /\
  check_exp 60 200 10 5 0 0 1 0 true = VAccept /\
  check_exp 60 200 10 5 3 0 2 1 true = VReject.
Proof. exact accepted_examples. Qed.

(** ==== deepening round 3: value-level as-is models of the powering / series code (Float/ElemAsis.v,
    compared with the implementation bit for bit by the run) ==== *)

(** ---- Context::powi, nearest modes: within one ulp of x^n, Exact only if exact *)
Theorem C11_powi_invariant_means : forall B wp m s e j res,
  Inv B wp m s e j res <->
  (dlen B (approx_sig res) <= 2 * wp /\
   (is_exact res = true -> aval B res = (fval B s e ^ Z.to_nat j)%R) /\
   (is_half_mode m = true ->
      RA (/ IZR (2 * B ^ (wp - 1))) (Z.to_nat (2 * j - 3)) (fval B s e ^ Z.to_nat j) (aval B res))).
Proof. intros. apply iff_refl. Qed.
Print Assumptions C11_powi_invariant_means.

Theorem C11_powi_rel_error_means : forall u c t v,
  RA u c t v <-> exists th : R, v = (t * th)%R /\ ((1 - u) ^ c <= th <= (1 + u) ^ c)%R.
Proof. intros. apply iff_refl. Qed.
Print Assumptions C11_powi_rel_error_means.

Theorem C11_powi_loop_rel_error : forall B, 2 <= B -> forall wp, 1 <= wp -> forall m s e,
  dlen B s <= 2 * wp -> forall n, 2 <= n ->
  Inv B wp m s e n (powi_loop B wp m s e n (Z.to_nat (bit_len n - 2)) (c_sqr B wp m s e)).
Proof. exact powi_loop_result. Qed.
Print Assumptions C11_powi_loop_rel_error.

Theorem C11_powi_nearest_under_guard_condition : forall B, 2 <= B -> forall p m s e n,
  1 <= p -> 2 <= n -> s <> 0 -> is_half_mode m = true ->
  let wp := powi_work_precision p n in
  p < wp -> dlen B s <= 2 * wp -> (2 * n - 3) * (2 * B ^ p + 1) <= 2 * B ^ (wp - 1) ->
  Accepted B p (powerRZ (fval B s e) n) (aval B (powi_pos B p m s e n)) (is_exact (powi_pos B p m s e n)).
Proof. exact powi_pos_nearest. Qed.
Print Assumptions C11_powi_nearest_under_guard_condition.

Theorem C11_powi_guard_digits_suffice : forall B, 2 <= B -> forall p n, 1 <= p -> 2 <= n -> 3 <= B \/ 4 <= p ->
  (2 * n - 3) * (2 * B ^ p + 1) <= 2 * B ^ (powi_work_precision p n - 1).
Proof. exact powi_guard_condition. Qed.
Print Assumptions C11_powi_guard_digits_suffice.

Theorem C11_powi_asis_nearest_1ulp : forall B, 2 <= B -> forall p m s e n,
  1 <= p -> 2 <= n -> s <> 0 -> is_half_mode m = true -> 3 <= B \/ 4 <= p ->
  dlen B s <= 2 * powi_work_precision p n ->
  exists a, powi_asis B p m s e n = Ok a /\
    Accepted B p (powerRZ (fval B s e) n) (aval B a) (is_exact a).
Proof. exact powi_asis_nearest. Qed.
Print Assumptions C11_powi_asis_nearest_1ulp.

Theorem C11_powi_exact_flag_every_mode : forall B, 2 <= B -> forall p m s e n, 1 <= p -> 0 <= n ->
  dlen B s <= 2 * powi_work_precision p n ->
  is_exact (powi_pos B p m s e n) = true -> aval B (powi_pos B p m s e n) = powerRZ (fval B s e) n.
Proof. exact powi_pos_exact_flag. Qed.
Print Assumptions C11_powi_exact_flag_every_mode.

Theorem C11_powi_asis_negative_exponent_1ulp : forall B, 2 <= B -> forall p m s e n,
  1 <= p -> n < 0 -> s <> 0 -> is_half_mode m = true -> 2 <= p \/ 5 <= B ->
  dlen B s <= 2 * powi_work_precision (powi_neg_precision_gen no_f32 p (powi_neg_guard_bits_gen no_f32 p)) (- n) ->
  exists a, powi_asis B p m s e n = Ok a /\
    Accepted B p (powerRZ (fval B s e) n) (aval B a) (is_exact a).
Proof. exact powi_asis_neg_nearest. Qed.
Print Assumptions C11_powi_asis_negative_exponent_1ulp.

Theorem C11_powi_asis_nearest_every_exponent : forall B, 2 <= B -> forall p m s e n,
  1 <= p -> s <> 0 -> is_half_mode m = true -> 4 <= p \/ 5 <= B -> dlen B s <= 2 * p ->
  exists a, powi_asis B p m s e n = Ok a /\
    Accepted B p (powerRZ (fval B s e) n) (aval B a) (is_exact a).
Proof. exact powi_asis_nearest_every_exponent. Qed.
Print Assumptions C11_powi_asis_nearest_every_exponent.

Example C11_powi_asis_negative_nonvacuous :
  exists a, powi_asis 10 2 MHalfAway 2001 (-3) (-7) = Ok a /\
    Accepted 10 2 (powerRZ (fval 10 2001 (-3)) (-7)) (aval 10 a) (is_exact a).
Proof. exact powi_asis_neg_example. Qed.
Print Assumptions C11_powi_asis_negative_nonvacuous.

Example C11_powi_asis_nearest_nonvacuous :
  exists a, powi_asis 10 3 MHalfEven (-1234) (-3) 10 = Ok a /\
    Accepted 10 3 (powerRZ (fval 10 (-1234) (-3)) 10) (aval 10 a) (is_exact a).
Proof. exact powi_asis_nearest_example. Qed.
Print Assumptions C11_powi_asis_nearest_nonvacuous.

(** ---- the as-is models refine the entry logic; outside the shortcuts nothing is flagged Exact *)
Theorem C11_exp_asis_refines_entry : forall B (F : Type) (O : f32ops F) W fuel p m s e mo,
  match exp_entry p s mo with
  | EPanic _ => exp_internal B O W fuel p m s e mo = Panic UnlimitedPrecision
  | EExact s' e' => exp_internal B O W fuel p m s e mo = Ok (AExact s' e')
  | ECompute => forall a, exp_internal B O W fuel p m s e mo = Ok a -> is_exact_a a = false
  | ERound _ => False
  end.
Proof. exact @exp_internal_refines_entry. Qed.
Print Assumptions C11_exp_asis_refines_entry.

Theorem C11_ln_asis_refines_entry : forall B, 2 <= B -> forall (F : Type) (O : f32ops F) W fuel p m s e op,
  match ln_entry B p s e op with
  | EPanic EPUnlimited => ln_internal B O W fuel p m s e op = Panic UnlimitedPrecision
  | EPanic _ => ln_internal B O W fuel p m s e op = Panic LogOperand
  | EExact s' e' => ln_internal B O W fuel p m s e op = Ok (AExact s' e')
  | ECompute => forall a, ln_internal B O W fuel p m s e op = Ok a -> is_exact_a a = false
  | ERound _ => False
  end.
Proof. exact @ln_internal_refines_entry. Qed.
Print Assumptions C11_ln_asis_refines_entry.

Theorem C11_powi_asis_refines_entry : forall B p m s e n,
  match powi_entry B p m s e n with
  | EPanic _ => powi_asis B p m s e n = Panic UnlimitedPrecision
  | EExact s' e' => n = 0 -> powi_asis B p m s e n = Ok (AExact s' e')
  | ERound a => powi_asis B p m s e n = Ok (nrm B a)
  | ECompute => True
  end.
Proof. exact powi_asis_refines_entry. Qed.
Print Assumptions C11_powi_asis_refines_entry.

Theorem C11_powf_asis_refines_entry : forall B, 2 <= B -> forall (F : Type) (O : f32ops F) W,
  (forall x, 0 <= f_to_usize O x) -> forall fuel p m s e ys ye, 0 <= p ->
  match powf_entry B p m s e ys ye with
  | EPanic EPUnlimited => powf_asis B O W fuel p m s e ys ye = Panic UnlimitedPrecision
  | EPanic _ => powf_asis B O W fuel p m s e ys ye = Panic PowerNegativeBase
  | EExact s' e' => powf_asis B O W fuel p m s e ys ye = Ok (AExact s' e')
  | ERound a => powf_asis B O W fuel p m s e ys ye = Ok (nrm B a)
  | ECompute =>
      forall a, powf_asis B O W fuel p m s e ys ye = Ok a -> is_exact_a a = true ->
        s = 1 /\ e = 0 /\ a = AExact 1 0
  end.
Proof. exact @powf_asis_refines_entry. Qed.
Print Assumptions C11_powf_asis_refines_entry.

(** ---- the formulas regenerated from exp.rs / log.rs / round.rs (coq/gen/ElemParams.v) *)
Theorem C11_params_reverse_mode : forall m,
  reverse_mode_gen (reverse_mode_gen m) = m /\ is_half_mode (reverse_mode_gen m) = is_half_mode m /\
  (is_half_mode m = true -> reverse_mode_gen m = m).
Proof. intros m. exact (conj (reverse_mode_involutive m) (conj (reverse_mode_half_iff m) (reverse_mode_half m))). Qed.
Print Assumptions C11_params_reverse_mode.

Theorem C11_params_guard_digits : forall (F : Type) (O : f32ops F), (forall x, 0 <= f_to_usize O x) ->
  forall p B n, 0 <= p ->
  bit_len n + bit_len p <= powi_guard_digits_gen O n p /\
  2 * bit_len p <= powi_neg_guard_bits_gen O p /\
  2 <= exp_series_guard_digits_gen O p B /\ 0 <= exp_pow_guard_digits_gen O p B /\
  1 <= exp_n_gen O p /\ p < exp_m1_pow_precision_gen O p /\ 10 <= powf_guard_digits_gen O p /\
  p + 2 <= iacoth_work_precision_gen O p (iacoth_guard_digits_gen O p B) /\
  2 <= ln_guard_digits_gen O p B /\
  (forall g, p + g <= powi_work_precision_gen O p g /\ p + g <= powi_neg_precision_gen O p g /\
             p + g <= powf_work_precision_gen O p g).
Proof. exact @params_guard_digits. Qed.
Print Assumptions C11_params_guard_digits.

Theorem C11_params_work_precisions : forall (F : Type) (O : f32ops F) p sgd pgd md g xd op,
  2 <= sgd -> 0 <= pgd -> 0 <= md -> 2 <= g ->
  p < exp_work_precision_neg_gen O p sgd /\ p < exp_work_precision_pos_gen O p sgd /\
  p < exp_work_precision_scaled_gen O p sgd pgd md /\
  p + 2 <= ln_work_precision_max_gen O (ln_work_precision_gen O p g op) xd g op /\
  xd + g + 1 <= ln_work_precision_max_gen O (ln_work_precision_gen O p g op) xd g op.
Proof. exact @params_work_precisions. Qed.
Print Assumptions C11_params_work_precisions.

(** ---- termination of the series loops: the stop criterion (FBig::sub_ulp, every f32 estimate layer)
    and a fuel that depends on base and precision only, for loops whose operations round *)
Theorem C11_sub_ulp_threshold : forall B, 2 <= B -> forall (F : Type) (O : f32ops F) W,
  (forall x, 0 <= f_to_usize O x) -> forall x, 0 <= fprec x -> Z.abs (fsig x) <= B ^ (fprec x + 1) ->
  (Rabs (fval B (fsig x) (fexp x)) * bpw B (- (2 * fprec x + 2)) <= bpw B (sub_ulp_exp B O W x))%R /\
  (0 < bpw B (sub_ulp_exp B O W x))%R.
Proof. exact @sub_ulp_threshold. Qed.
Print Assumptions C11_sub_ulp_threshold.

Theorem C11_series_fuel_partial : forall (B P : Z) eps rmul rdivz radd thr,
  (2 <= B)%Z -> (0 <= P)%Z -> (0 <= eps /\ eps <= 1 # 16)%Q ->
  (forall a b, Qabs (rmul a b) <= Qabs a * Qabs b * (1 + eps))%Q ->
  (forall a d, (1 <= d)%Z -> Qabs (rdivz a d) * inject_Z d <= Qabs a * (1 + eps))%Q ->
  (forall a b, Qabs (radd a b - (a + b)) <= eps * Qabs (a + b))%Q ->
  (forall s, 1 / inject_Z (B ^ (2 * P + 2)) * Qabs s <= thr s)%Q ->
  (inject_Z (Z.of_nat (series_steps B P)) * eps <= 1 # 4)%Q ->
  forall fuel, (series_fuel B P <= fuel)%nat ->
  (forall r, (Qabs r <= 1 # 2)%Q -> exp_loop_r rmul rdivz radd thr fuel false r <> None) /\
  (forall r, (Qabs r <= 1 # 2)%Q -> ~ (r == 0)%Q -> exp_loop_r rmul rdivz radd thr fuel true r <> None) /\
  (forall z z2, (Qabs z2 <= 1 # 4)%Q -> ~ (z == 0)%Q ->
     atanh_loop_r rmul rdivz radd (ln_test thr) fuel z z2 <> None /\
     atanh_loop_r rmul rdivz radd (iacoth_test thr) fuel z z2 <> None).
Proof. exact series_fuel_partial. Qed.
Print Assumptions C11_series_fuel_partial.

Example C11_series_fuel_nonvacuous :
  (series_fuel 10 100 = 674 /\ series_fuel 2 53 = 111 /\ series_fuel 36 20 = 220)%nat /\
  exp_loop_r Qmult (fun a d => a / inject_Z d)%Q Qplus (fun s => (1 # 10 ^ 6) * Qabs s + (1 # 10 ^ 6))%Q
    (series_fuel 10 2) false (1 # 3) <> None.
Proof. exact (conj series_fuel_values series_fuel_partial_nonvacuous). Qed.
Print Assumptions C11_series_fuel_nonvacuous.

(** ==== deepening round 4 ==== *)

(** ---- finding F06 (repaired): the guard digits of the scaled branch of exp_internal contain the
    n = 2^(bit_len p / 2) digits consumed by the final powering exp(r)^(B^n), for EVERY precision and
    base (over the regenerated formulas); the formula of the source before the repair did not, from
    2048 digits on *)
Theorem C11_exp_pow_guard_covers_powering : forall (F : Type) (O : f32ops F),
  (forall x, 0 <= f_to_usize O x) -> forall p B, exp_n_gen O p <= exp_pow_guard_digits_gen O p B.
Proof. exact @exp_pow_guard_covers_powering. Qed.
Print Assumptions C11_exp_pow_guard_covers_powering.

Theorem C11_exp_scaled_work_precision_condition : forall (F : Type) (O : f32ops F),
  (forall x, 0 <= f_to_usize O x) -> forall p B md, 0 <= md ->
  let sgd := exp_series_guard_digits_gen O p B in
  let wp := exp_work_precision_scaled_gen O p sgd (exp_pow_guard_digits_gen O p B) md in
  p + exp_n_gen O p + sgd + md <= wp /\ p + exp_n_gen O p + 2 + md <= wp.
Proof. exact @exp_scaled_work_precision_condition. Qed.
Print Assumptions C11_exp_scaled_work_precision_condition.

Theorem C11_exp_pow_guard_before_fix_refuted :
  pow_guard_before_fix_ub 2048 1 + (11 + 2) < 1 * 2 ^ (bit_len 2048 / 2) /\
  pow_guard_before_fix_ub 2048 2 + (7 + 2) < 1 * 2 ^ (bit_len 2048 / 2) /\
  pow_guard_before_fix_ub 8192 4 + (3 + 2) < 1 * 2 ^ (bit_len 8192 / 2) /\
  1 * 2 ^ (bit_len 2047 / 2) <= pow_guard_before_fix_ub 2047 1 + (10 + 2).
Proof. exact pow_guard_before_fix_refuted. Qed.
Print Assumptions C11_exp_pow_guard_before_fix_refuted.

(** ---- Context::powi: the sharper count of roundings (n-1 instead of 2n-3) closes base 2 at p = 2, 3 *)
Theorem C11_powi_sharp_invariant_means : forall B wp m s e j res,
  Inv1 B wp m s e j res <->
  (dlen B (approx_sig res) <= 2 * wp /\
   (is_exact res = true -> aval B res = (fval B s e ^ Z.to_nat j)%R) /\
   (is_half_mode m = true ->
      RA (/ IZR (2 * B ^ (wp - 1))) (Z.to_nat (j - 1)) (fval B s e ^ Z.to_nat j) (aval B res))).
Proof. intros. apply iff_refl. Qed.
Print Assumptions C11_powi_sharp_invariant_means.

Theorem C11_powi_loop_rel_error_sharp : forall B, 2 <= B -> forall wp, 1 <= wp -> forall m s e,
  dlen B s <= 2 * wp -> forall n, 2 <= n ->
  Inv1 B wp m s e n (powi_loop B wp m s e n (Z.to_nat (bit_len n - 2)) (c_sqr B wp m s e)).
Proof. exact powi_loop_result1. Qed.
Print Assumptions C11_powi_loop_rel_error_sharp.

Theorem C11_powi_guard_digits_suffice_sharp : forall B, 2 <= B -> forall p n, 1 <= p -> 2 <= n -> 3 <= B \/ 2 <= p ->
  (n - 1) * (2 * B ^ p + 1) <= 2 * B ^ (powi_work_precision p n - 1).
Proof. exact powi_guard_condition1. Qed.
Print Assumptions C11_powi_guard_digits_suffice_sharp.

Theorem C11_powi_asis_nearest_1ulp_sharp : forall B, 2 <= B -> forall p m s e n,
  1 <= p -> 2 <= n -> s <> 0 -> is_half_mode m = true -> 3 <= B \/ 2 <= p ->
  dlen B s <= 2 * powi_work_precision p n ->
  exists a, powi_asis B p m s e n = Ok a /\
    Accepted B p (powerRZ (fval B s e) n) (aval B a) (is_exact a).
Proof. exact powi_asis_nearest1. Qed.
Print Assumptions C11_powi_asis_nearest_1ulp_sharp.

Theorem C11_powi_asis_nearest_every_exponent_sharp : forall B, 2 <= B -> forall p m s e n,
  1 <= p -> s <> 0 -> is_half_mode m = true -> 2 <= p \/ 5 <= B -> dlen B s <= 2 * p ->
  exists a, powi_asis B p m s e n = Ok a /\
    Accepted B p (powerRZ (fval B s e) n) (aval B a) (is_exact a).
Proof. exact powi_asis_nearest_every_exponent1. Qed.
Print Assumptions C11_powi_asis_nearest_every_exponent_sharp.

Example C11_powi_sharp_nonvacuous :
  (exists a, powi_asis 2 2 MHalfEven 3 (-1) 1000001 = Ok a /\
     Accepted 2 2 (powerRZ (fval 2 3 (-1)) 1000001) (aval 2 a) (is_exact a)) /\
  (exists a, powi_asis 2 3 MHalfAway (-5) 0 (-77) = Ok a /\
     Accepted 2 3 (powerRZ (fval 2 (-5) 0) (-77)) (aval 2 a) (is_exact a)).
Proof. exact powi_asis_nearest1_example. Qed.
Print Assumptions C11_powi_sharp_nonvacuous.

(** ---- open finding F07: operands longer than twice the working precision *)
Theorem C11_powi_overlong_refuted :
  powi_asis 10 1 MHalfEven 100000001 0 2 = Ok (AExact 1 16) /\
  2 * powi_work_precision 1 2 < dlen 10 100000001 /\
  100000001 ^ 2 <> 1 * 10 ^ 16.
Proof. exact powi_overlong_refuted. Qed.
Print Assumptions C11_powi_overlong_refuted.

Theorem C11_powi_exact_flag_outside_overlong : forall B, 2 <= B -> forall p m s e n, 1 <= p -> 0 <= n ->
  powi_overlong B p s n = false ->
  is_exact (powi_pos B p m s e n) = true -> aval B (powi_pos B p m s e n) = powerRZ (fval B s e) n.
Proof. exact powi_exact_flag_outside_overlong. Qed.
Print Assumptions C11_powi_exact_flag_outside_overlong.

(** ---- the Maclaurin loop of exp_internal (scaled branch, reduced argument rho >= 0), real analysis:
    states reachable by a loop whose operations round with relative error <= u *)
Theorem C11_exp_trace_means : forall u rho k pw sm,
  ExpTrace u rho k pw sm <->
  ((exists th, (Rabs (th - 1) <= u)%R /\ k = 1%nat /\ pw = rho /\ sm = ((1 + rho) * th)%R) \/
   (exists k0 pw0 sm0 th1 th2 th3, ExpTrace u rho k0 pw0 sm0 /\
      (Rabs (th1 - 1) <= u)%R /\ (Rabs (th2 - 1) <= u)%R /\ (Rabs (th3 - 1) <= u)%R /\
      k = S k0 /\ pw = (pw0 * rho * th1)%R /\
      sm = ((sm0 + pw0 * rho * th1 / INR (fact (S k0)) * th2) * th3)%R)).
Proof. exact ExpTrace_means. Qed.
Print Assumptions C11_exp_trace_means.

Theorem C11_exp_series_partial_sum_error : forall u, (0 <= u)%R -> (u <= 1)%R -> forall rho k pw sm,
  (0 <= rho)%R -> ExpTrace u rho k pw sm ->
  (1 <= k)%nat /\ RA u (k - 1) (rho ^ k) pw /\ RA u (S k) (Tn rho k) sm.
Proof. exact exp_trace_RA. Qed.
Print Assumptions C11_exp_series_partial_sum_error.

Theorem C11_exp_series_tail : forall x K, (0 <= x <= / 2)%R ->
  (Tn x K <= exp x <= Tn x K + 2 * eterm x (S K))%R.
Proof. exact exp_tail. Qed.
Print Assumptions C11_exp_series_tail.

Theorem C11_exp_series_error : forall u, (0 <= u)%R -> (u <= 1)%R -> forall rho K pw sm th1 th2 thr,
  (0 <= rho <= / 2)%R -> ExpTrace u rho K pw sm ->
  (Rabs (th1 - 1) <= u)%R -> (Rabs (th2 - 1) <= u)%R ->
  (Rabs (next_increase rho pw K th1 th2) <= thr)%R -> (INR (S K) * u < 1)%R ->
  (Rabs (sm - exp rho) * (1 - INR (S K) * u) <= exp rho * (INR (S K) * u) + 2 * thr)%R.
Proof. exact exp_series_error. Qed.
Print Assumptions C11_exp_series_error.

Example C11_exp_series_error_nonvacuous :
  ExpTrace (/ 8) (/ 4) 1 (/ 4) ((1 + / 4) * 1) /\
  (Rabs (next_increase (/ 4) (/ 4) 1 1 1) <= 1)%R /\ (INR 2 * / 8 < 1)%R.
Proof. exact exp_series_error_example. Qed.
Print Assumptions C11_exp_series_error_nonvacuous.

(** ---- argument reduction, recombination, last rounding of exp (real values of the quantities of the model) *)
Theorem C11_exp_reduction_identity : forall B, 2 <= B -> forall q x' L r0, x' = (IZR q * L + r0)%R ->
  exp x' = (bpw B q * exp r0 * exp (IZR q * (L - ln (IZR B))))%R.
Proof. exact exp_reduction_identity. Qed.
Print Assumptions C11_exp_reduction_identity.

Theorem C11_exp_reduced_argument_error : forall B q L eL, (Rabs (L - ln (IZR B)) <= eL)%R ->
  (exp (- (Rabs (IZR q) * eL)) <= exp (IZR q * (L - ln (IZR B))) <= exp (Rabs (IZR q) * eL))%R.
Proof. exact exp_reduced_argument_error. Qed.
Print Assumptions C11_exp_reduced_argument_error.

Theorem C11_exp_recombination_identity : forall B, 2 <= B -> forall q (N : nat) x x' L r0 r rho ths thp sum v,
  x' = (IZR q * L + r0)%R -> (rho * INR N)%R = r -> sum = (exp rho * ths)%R -> v = (sum ^ N * thp)%R ->
  v = (exp x * bpw B (- q) * (exp ((x' - x) - IZR q * (L - ln (IZR B)) + (r - r0)) * ths ^ N * thp))%R.
Proof. exact exp_compose_identity. Qed.
Print Assumptions C11_exp_recombination_identity.

Theorem C11_exp_nearest_1ulp_partial : forall B, 2 <= B ->
  forall p m sv ev q (N : nat) x x' L r0 r rho ths thp sum a es dp d,
  1 <= p -> is_half_mode m = true ->
  x' = (IZR q * L + r0)%R -> (rho * INR N)%R = r ->
  sum = (exp rho * ths)%R -> fval B sv ev = (sum ^ N * thp)%R ->
  (Rabs ((x' - x) - IZR q * (L - ln (IZR B)) + (r - r0)) <= a)%R -> (Rabs (ths - 1) <= es)%R -> (es <= 1)%R ->
  (Rabs (thp - 1) <= dp)%R -> (dp <= 1)%R ->
  (0 <= d)%R -> (1 - d <= exp (- a) * (1 - es) ^ N * (1 - dp))%R -> (exp a * (1 + es) ^ N * (1 + dp) <= 1 + d)%R ->
  (2 * d * IZR (B ^ p) <= 1)%R ->
  let res := c_repr_round B p m sv ev in
  let '(s', e') := shl_val (approx_sig res) (approx_exp res) q in
  exists E, (bpw B E <= Rabs (exp x))%R /\ (Rabs (fval B s' e' - exp x) < bpw B (E - p + 1))%R.
Proof. exact exp_nearest_1ulp_partial. Qed.
Print Assumptions C11_exp_nearest_1ulp_partial.

Example C11_exp_nearest_1ulp_partial_nonvacuous :
  let res := c_repr_round 10 3 MHalfEven 1 0 in
  let '(s', e') := shl_val (approx_sig res) (approx_exp res) 0 in
  exists E, (bpw 10 E <= Rabs (exp 0))%R /\ (Rabs (fval 10 s' e' - exp 0) < bpw 10 (E - 3 + 1))%R.
Proof. exact exp_nearest_1ulp_partial_example. Qed.
Print Assumptions C11_exp_nearest_1ulp_partial_nonvacuous.

(** ---- the Z-level operations of the as-is model are instances (nearest modes) *)
Theorem C11_fbv_uP_mean : forall B x P, fbv B x = fval B (fsig x) (fexp x) /\ uP B P = (/ IZR (2 * B ^ (P - 1)))%R.
Proof. intros. split; reflexivity. Qed.
Print Assumptions C11_fbv_uP_mean.

Theorem C11_fb_mul_rel : forall B, 2 <= B -> forall m x y, is_half_mode m = true -> 1 <= ctx_max (fprec x) (fprec y) ->
  exists th : R, fbv B (fb_mul B m x y) = (fbv B x * fbv B y * th)%R /\
                 (Rabs (th - 1) <= uP B (ctx_max (fprec x) (fprec y)))%R.
Proof. exact fb_mul_rel. Qed.
Print Assumptions C11_fb_mul_rel.

Theorem C11_fb_div_rel : forall B, 2 <= B -> forall m x y, is_half_mode m = true ->
  1 <= ctx_max (fprec x) (fprec y) -> fsig y <> 0 ->
  exists z, fb_div B m x y = Ok z /\
    exists th : R, fbv B z = (fbv B x / fbv B y * th)%R /\ (Rabs (th - 1) <= uP B (ctx_max (fprec x) (fprec y)))%R.
Proof. exact fb_div_rel. Qed.
Print Assumptions C11_fb_div_rel.

Theorem C11_fb_div_rem_euclid_exact : forall B, 2 <= B -> forall m x y, is_half_mode m = true ->
  1 <= ctx_max (fprec x) (fprec y) -> 0 < fsig y ->
  exists q rf, fb_div_rem_euclid B m x y = Ok (q, rf) /\
    exists r0 th : R, fbv B x = (IZR q * fbv B y + r0)%R /\ (0 <= r0 < fbv B y)%R /\
      fbv B rf = (r0 * th)%R /\ (Rabs (th - 1) <= uP B (ctx_max (fprec x) (fprec y)))%R.
Proof. exact fb_div_rem_euclid_spec. Qed.
Print Assumptions C11_fb_div_rem_euclid_exact.

Theorem C11_exact_operations : forall B, 2 <= B -> forall n x k,
  fbv B (fb_from_int B n) = IZR n /\ fbv B (fb_shr x k) = (fbv B x * bpw B (- k))%R.
Proof. exact exact_operations. Qed.
Print Assumptions C11_exact_operations.

Theorem C11_exp_series_step_is_trace_step : forall B, 2 <= B -> forall m P r sum pow k,
  is_half_mode m = true -> 1 <= P -> P <= fprec r -> P <= fprec pow ->
  ExpTrace (uP B P) (fbv B r) k (fbv B pow) (fbv B sum) ->
  let pow' := fb_mul B m pow r in
  exists inc, fb_div B m pow' (fb_from_int B (Z.of_nat (fact (S k)))) = Ok inc /\
    exists th1 th2 : R, (Rabs (th1 - 1) <= uP B P)%R /\ (Rabs (th2 - 1) <= uP B P)%R /\
      fbv B pow' = (fbv B pow * fbv B r * th1)%R /\
      fbv B inc = next_increase (fbv B r) (fbv B pow) k th1 th2 /\
      (forall sum' th3, (Rabs (th3 - 1) <= uP B P)%R -> fbv B sum' = ((fbv B sum + fbv B inc) * th3)%R ->
         ExpTrace (uP B P) (fbv B r) (S k) (fbv B pow') (fbv B sum')).
Proof. exact exp_series_step_trace. Qed.
Print Assumptions C11_exp_series_step_is_trace_step.

Example C11_instances_nonvacuous :
  (exists th : R, fbv 10 (fb_mul 10 MHalfEven (FB 12345 (-4) 3) (FB 678 0 3)) = (fbv 10 (FB 12345 (-4) 3) * fbv 10 (FB 678 0 3) * th)%R /\
                  (Rabs (th - 1) <= uP 10 3)%R) /\
  (exists q rf, fb_div_rem_euclid 10 MHalfAway (FB 12345 (-2) 5) (FB 2303 (-3) 4) = Ok (q, rf) /\
    exists r0 th : R, fbv 10 (FB 12345 (-2) 5) = (IZR q * fbv 10 (FB 2303 (-3) 4) + r0)%R /\ (0 <= r0 < fbv 10 (FB 2303 (-3) 4))%R /\
      fbv 10 rf = (r0 * th)%R /\ (Rabs (th - 1) <= uP 10 5)%R).
Proof. exact instances_example. Qed.
Print Assumptions C11_instances_nonvacuous.

(** ---- Context::powi at one digit: base 2 (one-bit results are powers of two: separate argument), negative
    exponents in every base >= 3; and the whole region of the theorem *)
Theorem C11_powi_asis_nearest_base2_one_bit : forall m s e n, 2 <= n -> s <> 0 -> is_half_mode m = true ->
  dlen 2 s <= 2 * powi_work_precision 1 n ->
  exists a, powi_asis 2 1 m s e n = Ok a /\
    Accepted 2 1 (powerRZ (fval 2 s e) n) (aval 2 a) (is_exact a).
Proof. exact powi_asis_nearest_bin1. Qed.
Print Assumptions C11_powi_asis_nearest_base2_one_bit.

Theorem C11_powi_asis_negative_one_digit : forall B, 3 <= B -> forall m s e n, n < 0 -> s <> 0 -> is_half_mode m = true ->
  dlen B s <= 2 * powi_work_precision (powi_neg_precision_gen no_f32 1 (powi_neg_guard_bits_gen no_f32 1)) (- n) ->
  exists a, powi_asis B 1 m s e n = Ok a /\
    Accepted B 1 (powerRZ (fval B s e) n) (aval B a) (is_exact a).
Proof. exact powi_asis_neg_nearest_one_digit. Qed.
Print Assumptions C11_powi_asis_negative_one_digit.

Theorem C11_powi_asis_nearest_all : forall B, 2 <= B -> forall p m s e n,
  1 <= p -> s <> 0 -> is_half_mode m = true -> dlen B s <= 2 * p ->
  ~ (B = 2 /\ p = 1 /\ n < 0) ->
  exists a, powi_asis B p m s e n = Ok a /\
    Accepted B p (powerRZ (fval B s e) n) (aval B a) (is_exact a).
Proof. exact powi_asis_nearest_all. Qed.
Print Assumptions C11_powi_asis_nearest_all.

Example C11_powi_asis_nearest_all_nonvacuous :
  (exists a, powi_asis 2 1 MHalfEven 3 0 1000003 = Ok a /\
     Accepted 2 1 (powerRZ (fval 2 3 0) 1000003) (aval 2 a) (is_exact a)) /\
  (exists a, powi_asis 3 1 MHalfAway 7 (-1) (-5) = Ok a /\
     Accepted 3 1 (powerRZ (fval 3 7 (-1)) (-5)) (aval 3 a) (is_exact a)).
Proof. exact powi_asis_nearest_all_example. Qed.
Print Assumptions C11_powi_asis_nearest_all_nonvacuous.

(* ================================================================== round 5 ================== *)
(** the three pieces named by C11_exp_nearest_1ulp_partial.  (i) every addition of the series loops meets C03's
    contract (operands of any length, same sign): the Maclaurin loop and the iacoth loop of the as-is model are
    traces of the rounded loops of the analysis, without any hypothesis about the additions.  (ii) the error of
    ln_base (iacoth series, ln2 / ln10 recombination) for the bases 2, 10 and the powers of two.  (iii) what
    remains is numeric and explicit: C11_exp_asis_nearest_1ulp_partial is a theorem about ElemAsis.exp_internal
    itself (scaled branch of Context::exp, nearest modes) whose side conditions are inequalities between the
    inputs, the fuel (bound of the number of series terms) and the regenerated precisions, plus the exclusion of
    the over-long operand class of finding F07 *)
From Dashu Require Import Float.AddModelProof Float.ElemAddInst Float.ElemAtanhErr Float.ElemLnBaseInst Float.ElemExpCompose.

Theorem C11_add_contract_is_one_rounding :
  forall B : Z,
    2 <= B ->
    forall (p : Z) (m : mode) (S e0 : Z) (a : approx),
    1 <= p ->
    is_half_mode m = true ->
    S <> 0 ->
    rounded_sum B p m S e0 a -> exists th : R, aval B a = (fval B S e0 * th)%R /\ (Rabs (th - 1) <= uP B p)%R.
Proof. exact @rounded_sum_rel. Qed.
Print Assumptions C11_add_contract_is_one_rounding.

Theorem C11_fb_add_same_sign_any_length :
  forall B : Z,
    2 <= B ->
    forall (m : mode) (x y : fbig),
    is_half_mode m = true ->
    1 <= ctx_max (fprec x) (fprec y) ->
    0 < fsig x * fsig y ->
    exists th : R,
      fbv B (fb_add_vv B m x y Positive) = ((fbv B x + fbv B y) * th)%R /\
      (Rabs (th - 1) <= uP B (ctx_max (fprec x) (fprec y)))%R.
Proof. exact @fb_add_vv_rel. Qed.
Print Assumptions C11_fb_add_same_sign_any_length.

Theorem C11_fb_add_ref_same_sign_any_length :
  forall B : Z,
    2 <= B ->
    forall (m : mode) (x y : fbig),
    is_half_mode m = true ->
    1 <= ctx_max (fprec x) (fprec y) ->
    0 < fsig x ->
    0 <= fsig y ->
    exists th : R,
      fbv B (fb_add_vr B m x y Positive) = ((fbv B x + fbv B y) * th)%R /\
      (Rabs (th - 1) <= uP B (ctx_max (fprec x) (fprec y)))%R.
Proof. exact @fb_add_vr_rel. Qed.
Print Assumptions C11_fb_add_ref_same_sign_any_length.

Theorem C11_exp_series_loop_is_trace :
  forall B : Z,
    2 <= B ->
    forall (F : Type) (O : f32ops F) (W : Z) (m : mode),
    is_half_mode m = true ->
    forall P : Z,
    1 <= P ->
    forall r : fbig,
    P <= fprec r ->
    0 <= fsig r ->
    forall (fuel : nat) (sum pow : fbig) (k : nat) (res : fbig),
    P <= fprec pow ->
    P <= fprec sum ->
    ExpTrace (uP B P) (fbv B r) k (fbv B pow) (fbv B sum) ->
    exp_series_loop B O W fuel m r sum pow (Z.of_nat (fact k)) (Z.of_nat (S k)) = Ok res ->
    exists (K : nat) (pw th1 th2 : R),
      (k <= K)%nat /\
      (K < k + fuel)%nat /\
      ExpTrace (uP B P) (fbv B r) K pw (fbv B res) /\
      (Rabs (th1 - 1) <= uP B P)%R /\
      (Rabs (th2 - 1) <= uP B P)%R /\
      (Rabs (next_increase (fbv B r) pw K th1 th2) <= bpw B (sub_ulp_exp B O W res))%R /\
      P <= fprec res /\ (0 < fbv B res)%R.
Proof. exact @exp_series_loop_trace. Qed.
Print Assumptions C11_exp_series_loop_is_trace.

Theorem C11_exp_series_asis_error :
  forall B : Z,
    2 <= B ->
    forall (F : Type) (O0 : f32ops F) (W : Z) (m : mode),
    is_half_mode m = true ->
    forall P : Z,
    1 <= P ->
    forall r : fbig,
    P <= fprec r ->
    0 <= fsig r ->
    forall (fuel : nat) (res : fbig),
    (fbv B r <= / 2)%R ->
    exp_series_loop B O0 W fuel m r (fb_add_vr B m ONE r Positive) r 1 2 = Ok res ->
    P <= fprec res /\
    (0 < fbv B res)%R /\
    (exists K : nat,
       (1 <= K)%nat /\
       (K <= fuel)%nat /\
       ((INR (S K) * uP B P < 1)%R ->
        (Rabs (fbv B res - exp (fbv B r)) * (1 - INR (S K) * uP B P) <=
         exp (fbv B r) * (INR (S K) * uP B P) + 2 * bpw B (sub_ulp_exp B O0 W res))%R)).
Proof. exact @exp_series_asis_error. Qed.
Print Assumptions C11_exp_series_asis_error.

Theorem C11_atanh_series_tail :
  forall (z : R) (K : nat), (0 <= z < 1)%R -> (An z K <= atanhR z <= An z K + aterm z (S K) / (1 - z * z))%R.
Proof. exact @atanh_tail. Qed.
Print Assumptions C11_atanh_series_tail.

Theorem C11_ln2_ln10_formulas :
  ln 2 = (4 * atanhR (/ 6) + 2 * atanhR (/ 99))%R /\ ln 10 = (3 * ln 2 + 2 * atanhR (/ 9))%R.
Proof. exact @log_formulas. Qed.
Print Assumptions C11_ln2_ln10_formulas.

Theorem C11_atanh_series_error :
  forall u : R,
    (0 <= u)%R ->
    (u <= / 2)%R ->
    forall zc z2c z : R,
    (0 <= z)%R ->
    forall c0 c2 : nat,
    RA u c0 z zc ->
    RA u c2 (z * z) z2c ->
    forall (K : nat) (pw sm th1 thk th2 thr : R),
    (z <= / 3)%R ->
    AtTrace u zc z2c K pw sm ->
    (Rabs (th1 - 1) <= u)%R ->
    (Rabs (thk - 1) <= u)%R ->
    (Rabs (th2 - 1) <= u)%R ->
    (Rabs (at_increase z2c pw K th1 thk th2) <= thr)%R ->
    let c := (c0 + S K * S c2 + 3)%nat in
    (INR c * u < 1)%R -> (Rabs (sm - atanhR z) * (1 - INR c * u) <= atanhR z * (INR c * u) + 2 * thr)%R.
Proof. exact @at_series_error. Qed.
Print Assumptions C11_atanh_series_error.

Theorem C11_iacoth_loop_is_trace :
  forall B : Z,
    2 <= B ->
    forall (F : Type) (O0 : f32ops F) (W : Z) (m : mode),
    is_half_mode m = true ->
    forall P : Z,
    1 <= P ->
    forall inv2 : fbig,
    (0 < fbv B inv2)%R ->
    forall (zc : R) (fuel : nat) (sum pow : fbig) (j : nat) (res : fbig),
    P <= fprec pow ->
    P <= fprec sum ->
    (0 < fbv B pow)%R ->
    (0 < fbv B sum)%R ->
    AtTrace (uP B P) zc (fbv B inv2) j (fbv B pow) (fbv B sum) ->
    iacoth_loop B O0 W fuel P m inv2 sum pow (Z.of_nat (S (2 * S j))) = Ok res ->
    exists (K : nat) (pw th1 thk th2 : R),
      (j <= K)%nat /\
      (K < j + fuel)%nat /\
      AtTrace (uP B P) zc (fbv B inv2) K pw (fbv B res) /\
      (Rabs (th1 - 1) <= uP B P)%R /\
      (Rabs (thk - 1) <= uP B P)%R /\
      (Rabs (th2 - 1) <= uP B P)%R /\
      (Rabs (at_increase (fbv B inv2) pw K th1 thk th2) <= bpw B (sub_ulp_exp B O0 W res))%R /\ (0 < fbv B res)%R.
Proof. exact @iacoth_loop_trace. Qed.
Print Assumptions C11_iacoth_loop_is_trace.

Theorem C11_iacoth_asis_error :
  forall B : Z,
    2 <= B ->
    forall (F : Type) (O0 : f32ops F) (W : Z),
    (forall x : F, 0 <= f_to_usize O0 x) ->
    forall m : mode,
    is_half_mode m = true ->
    forall (fuel : nat) (p n : Z) (res : fbig),
    1 <= p ->
    3 <= n ->
    iacoth B O0 W fuel p m n = Ok res ->
    fprec res = iacoth_wp B O0 p /\
    (0 < fbv B res)%R /\
    (exists K : nat,
       (K < fuel)%nat /\
       (let u := uP B (iacoth_wp B O0 p) in
        let c := (10 * K + 16)%nat in
        (INR c * u < 1)%R ->
        (Rabs (fbv B res - atanhR (/ IZR n)) * (1 - INR c * u) <=
         atanhR (/ IZR n) * (INR c * u) + 2 * bpw B (sub_ulp_exp B O0 W res))%R)).
Proof. exact @iacoth_asis_error. Qed.
Print Assumptions C11_iacoth_asis_error.

Theorem C11_iacoth_asis_relative_error :
  forall B : Z,
    2 <= B ->
    forall (F : Type) (O0 : f32ops F) (W : Z),
    (forall x : F, 0 <= f_to_usize O0 x) ->
    forall m : mode,
    is_half_mode m = true ->
    (forall s : Z, digits_lb O0 W B s <= dlen B s) ->
    forall (fuel : nat) (p n : Z) (res : fbig),
    1 <= p ->
    3 <= n ->
    iacoth B O0 W fuel p m n = Ok res ->
    fprec res = iacoth_wp B O0 p /\
    (0 < fbv B res)%R /\
    (exists K : nat,
       (K < fuel)%nat /\
       (let u := uP B (iacoth_wp B O0 p) in
        (INR (10 * K + 16) * u + 2 * u < 1)%R -> RD (iacoth_rel u K) (atanhR (/ IZR n)) (fbv B res))).
Proof. exact @iacoth_asis_rel. Qed.
Print Assumptions C11_iacoth_asis_relative_error.

Theorem C11_ln2_asis_relative_error :
  forall B : Z,
    2 <= B ->
    forall (F : Type) (O0 : f32ops F) (W : Z),
    (forall x : F, 0 <= f_to_usize O0 x) ->
    forall m : mode,
    is_half_mode m = true ->
    (forall s : Z, digits_lb O0 W B s <= dlen B s) ->
    forall (fuel : nat) (p : Z) (res : fbig),
    1 <= p ->
    ln2 B O0 W fuel p m = Ok res ->
    iacoth_wp B O0 p <= fprec res /\
    (exists Ka Kb : nat,
       (Ka < fuel)%nat /\
       (Kb < fuel)%nat /\
       (let u := uP B (iacoth_wp B O0 p) in
        (INR (10 * Ka + 16) * u + 2 * u < 1)%R ->
        (INR (10 * Kb + 16) * u + 2 * u < 1)%R ->
        (rstep u (Rmax (iacoth_rel u Ka) (iacoth_rel u Kb)) < 1)%R -> RD (ln2_rel u Ka Kb) (ln 2) (fbv B res))).
Proof. exact @ln2_asis_rel. Qed.
Print Assumptions C11_ln2_asis_relative_error.

Theorem C11_ln_base_error_base2 :
  forall B : Z,
    2 <= B ->
    forall (F : Type) (O0 : f32ops F) (W : Z),
    (forall x : F, 0 <= f_to_usize O0 x) ->
    forall m : mode,
    is_half_mode m = true ->
    (forall s : Z, digits_lb O0 W B s <= dlen B s) ->
    forall (fuel : nat) (p : Z) (res : fbig),
    B = 2 ->
    1 <= p ->
    ln_base B O0 W fuel p m = Ok res ->
    let u := uP B (iacoth_wp B O0 p) in
    (INR (10 * fuel + 16) * u + 2 * u < 1)%R ->
    (rstep u (iacoth_rel u fuel) < 1)%R ->
    RD (rstep u (rstep u (iacoth_rel u fuel))) (ln (IZR B)) (fbv B res) /\ iacoth_wp B O0 p <= fprec res.
Proof. exact @ln_base2_asis_rel_fuel. Qed.
Print Assumptions C11_ln_base_error_base2.

Theorem C11_ln_base_error_base10 :
  forall B : Z,
    2 <= B ->
    forall (F : Type) (O0 : f32ops F) (W : Z),
    (forall x : F, 0 <= f_to_usize O0 x) ->
    forall m : mode,
    is_half_mode m = true ->
    (forall s : Z, digits_lb O0 W B s <= dlen B s) ->
    forall (fuel : nat) (p : Z) (res : fbig),
    B = 10 ->
    1 <= p ->
    ln_base B O0 W fuel p m = Ok res ->
    iacoth_wp B O0 p <= fprec res /\
    (exists Ka Kb Kc : nat,
       (Ka < fuel)%nat /\
       (Kb < fuel)%nat /\
       (Kc < fuel)%nat /\
       (let u := uP B (iacoth_wp B O0 p) in
        (INR (10 * Ka + 16) * u + 2 * u < 1)%R ->
        (INR (10 * Kb + 16) * u + 2 * u < 1)%R ->
        (INR (10 * Kc + 16) * u + 2 * u < 1)%R ->
        (rstep u (Rmax (iacoth_rel u Ka) (iacoth_rel u Kb)) < 1)%R ->
        (rstep u (Rmax (ln2_rel u Ka Kb) (iacoth_rel u Kc)) < 1)%R ->
        RD (ln10_rel u Ka Kb Kc) (ln (IZR B)) (fbv B res))).
Proof. exact @ln_base10_asis_rel. Qed.
Print Assumptions C11_ln_base_error_base10.

Theorem C11_ln_base_error_powers_of_two :
  forall B : Z,
    2 <= B ->
    forall (F : Type) (O0 : f32ops F) (W : Z),
    (forall x : F, 0 <= f_to_usize O0 x) ->
    forall m : mode,
    is_half_mode m = true ->
    (forall s : Z, digits_lb O0 W B s <= dlen B s) ->
    forall (fuel : nat) (p : Z) (res : fbig),
    B <> 2 ->
    is_pow2 B = true ->
    1 <= p ->
    ln_base B O0 W fuel p m = Ok res ->
    iacoth_wp B O0 p <= fprec res /\
    (exists Ka Kb : nat,
       (Ka < fuel)%nat /\
       (Kb < fuel)%nat /\
       (let u := uP B (iacoth_wp B O0 p) in
        (INR (10 * Ka + 16) * u + 2 * u < 1)%R ->
        (INR (10 * Kb + 16) * u + 2 * u < 1)%R ->
        (rstep u (Rmax (iacoth_rel u Ka) (iacoth_rel u Kb)) < 1)%R ->
        RD (rstep u (ln2_rel u Ka Kb)) (ln (IZR B)) (fbv B res))).
Proof. exact @ln_base_pow2_asis_rel. Qed.
Print Assumptions C11_ln_base_error_powers_of_two.

Theorem C11_exp_internal_scaled_structure :
  forall (B : Z) (F : Type) (O : f32ops F) (W : Z) (m : mode) (fuel : nat) (p s e : Z),
    p <> 0 ->
    s <> 0 ->
    exp_internal B O W fuel p m s e false =
    rbind (exp_scaled_series B O W m fuel p s e)
      (fun qs : Z * fbig =>
       rbind (powi_asis B p m (fsig (snd qs)) (fexp (snd qs)) (B ^ exp_n_gen O p))
         (fun pw : approx => Ok (never_exact (approx_map pw (fun s' e' : Z => shl_val s' e' (fst qs)))))).
Proof. exact @exp_internal_scaled. Qed.
Print Assumptions C11_exp_internal_scaled_structure.

Theorem C11_exp_asis_nearest_1ulp_partial :
  forall B : Z,
    2 <= B ->
    forall (F : Type) (O : f32ops F) (W : Z) (m : mode),
    (forall x : F, 0 <= f_to_usize O x) ->
    (forall s : Z, digits_lb O W B s <= dlen B s) ->
    is_half_mode m = true ->
    forall (fuel : nat) (p s e : Z) (a : approx) (eL d : R),
    1 <= p ->
    s <> 0 ->
    exp_internal B O W fuel p m s e false = Ok a ->
    let x := fval B s e in
    let wp := exp_scaled_wp B O W p s e in
    let n := exp_n_gen O p in
    let N := B ^ n in
    let wp' := powi_work_precision p N in
    let u := uP B wp in
    let u' := uP B wp' in
    let lnB := ln (IZR B) in
    (forall logb : fbig, ln_base B O W fuel wp m = Ok logb -> RD eL lnB (fbv B logb) /\ wp <= fprec logb) ->
    (0 <= eL < 1)%R ->
    (forall (q : Z) (sum : fbig),
     exp_scaled_series B O W m fuel p s e = Ok (q, sum) -> dlen B (fsig sum) <= 2 * wp') ->
    let y := (INR (S fuel) * u)%R in
    let es := ((y + 2 * u) / (1 - y - 2 * u))%R in
    let dp := (IZR (N - 1) * u' / (1 - IZR (N - 1) * u'))%R in
    let qmax := (Rabs x * (1 + u) / (lnB * (1 - eL)) + 1)%R in
    let a_ := (u * Rabs x + qmax * (eL * lnB) + u * (lnB * (1 + eL)))%R in
    (y + 2 * u < 1)%R ->
    (IZR (N - 1) * u' < 1)%R ->
    (2 * (a_ + IZR N * es) + dp <= d)%R ->
    (d <= 1)%R ->
    (2 * d * IZR (B ^ p) <= 1)%R ->
    (lnB * (1 + eL) * (1 + u) * 2 <= IZR N)%R ->
    is_exact a = false /\
    (exists E : Z, (bpw B E <= Rabs (exp x))%R /\ (Rabs (aval B a - exp x) < bpw B (E - p + 1))%R).
Proof. exact @exp_scaled_asis_nearest_partial. Qed.
Print Assumptions C11_exp_asis_nearest_1ulp_partial.

Theorem C11_exp_asis_nearest_1ulp_base2_partial :
  forall B : Z,
    2 <= B ->
    forall (F : Type) (O0 : f32ops F) (W : Z) (m : mode),
    (forall x : F, 0 <= f_to_usize O0 x) ->
    (forall s : Z, digits_lb O0 W B s <= dlen B s) ->
    is_half_mode m = true ->
    forall (fuel : nat) (p s e : Z) (a : approx) (d : R),
    B = 2 ->
    1 <= p ->
    s <> 0 ->
    exp_internal B O0 W fuel p m s e false = Ok a ->
    let x := fval B s e in
    let wp := exp_scaled_wp B O0 W p s e in
    let n := exp_n_gen O0 p in
    let N := B ^ n in
    let wp' := powi_work_precision p N in
    let u := uP B wp in
    let u' := uP B wp' in
    let lnB := ln (IZR B) in
    let uL := uP B (iacoth_wp B O0 wp) in
    let eL := rstep uL (rstep uL (iacoth_rel uL fuel)) in
    (INR (10 * fuel + 16) * uL + 2 * uL < 1)%R ->
    (rstep uL (iacoth_rel uL fuel) < 1)%R ->
    (eL < 1)%R ->
    (forall (q : Z) (sum : fbig),
     exp_scaled_series B O0 W m fuel p s e = Ok (q, sum) -> dlen B (fsig sum) <= 2 * wp') ->
    let y := (INR (S fuel) * u)%R in
    let es := ((y + 2 * u) / (1 - y - 2 * u))%R in
    let dp := (IZR (N - 1) * u' / (1 - IZR (N - 1) * u'))%R in
    let qmax := (Rabs x * (1 + u) / (lnB * (1 - eL)) + 1)%R in
    let a_ := (u * Rabs x + qmax * (eL * lnB) + u * (lnB * (1 + eL)))%R in
    (y + 2 * u < 1)%R ->
    (IZR (N - 1) * u' < 1)%R ->
    (2 * (a_ + IZR N * es) + dp <= d)%R ->
    (d <= 1)%R ->
    (2 * d * IZR (B ^ p) <= 1)%R ->
    (lnB * (1 + eL) * (1 + u) * 2 <= IZR N)%R ->
    is_exact a = false /\
    (exists E : Z, (bpw B E <= Rabs (exp x))%R /\ (Rabs (aval B a - exp x) < bpw B (E - p + 1))%R).
Proof. exact @exp_scaled_asis_nearest_base2_partial. Qed.
Print Assumptions C11_exp_asis_nearest_1ulp_base2_partial.

Example C11_add_inst_nonvacuous :
  (exists th : R,
       fbv 10
         (fb_add_vv 10 MHalfEven {| fsig := 12345; fexp := -4; fprec := 3 |}
            {| fsig := 678; fexp := 0; fprec := 3 |} Positive) =
       ((fbv 10 {| fsig := 12345; fexp := -4; fprec := 3 |} + fbv 10 {| fsig := 678; fexp := 0; fprec := 3 |}) *
        th)%R /\ (Rabs (th - 1) <= uP 10 3)%R) /\
    exp_series_loop 10 no_f32 64 20 MHalfEven {| fsig := 5; fexp := -2; fprec := 6 |}
      (fb_add_vr 10 MHalfEven ONE {| fsig := 5; fexp := -2; fprec := 6 |} Positive)
      {| fsig := 5; fexp := -2; fprec := 6 |} 1 2 = Ok {| fsig := 105127; fexp := -5; fprec := 6 |}.
Proof. exact @add_inst_example. Qed.
Print Assumptions C11_add_inst_nonvacuous.

Example C11_atanh_series_error_nonvacuous :
  AtTrace (/ 4) (/ 6) (/ 36) 0 (/ 6) (/ 6) /\ (0 <= / 3 <= / 3)%R /\ RA (/ 4) 0 (/ 6) (/ 6).
Proof. exact @at_series_error_example. Qed.
Print Assumptions C11_atanh_series_error_nonvacuous.

Example C11_ln_base_nonvacuous :
  exists res : fbig,
      ln_base 2 no_f32 64 40 4 MHalfEven = Ok res /\
      0 < fsig res /\ ln_base 10 no_f32 64 40 4 MHalfEven <> OutOfFuel.
Proof. exact @ln_base_example. Qed.
Print Assumptions C11_ln_base_nonvacuous.

Example C11_exp_asis_nearest_1ulp_nonvacuous :
  exp_internal 2 toy_f32 64 80 64 MHalfEven 1 0 false =
    Ok (AInexact 12535862302449814171 (-62) RoundTables.AddOne) /\
    (exists E : Z,
       (bpw 2 E <= Rabs (exp (fval 2 1 0)))%R /\
       (Rabs (aval 2 (AInexact 12535862302449814171 (-62) RoundTables.AddOne) - exp (fval 2 1 0)) <
        bpw 2 (E - 64 + 1))%R).
Proof. exact @exp_scaled_asis_nearest_example. Qed.
Print Assumptions C11_exp_asis_nearest_1ulp_nonvacuous.
