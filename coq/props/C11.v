(** C11 - exp, ln and powers are accurate to less than one unit in the last place. Statements only. *)
From Coq Require Import Reals.
From Dashu Require Import Base.Prelude Float.RoundSpec Float.Contract Float.Model Float.ElemEntry Float.ElemEntryProof.
Open Scope Z_scope.

Theorem C11_exp_unlimited_panics : forall s mo, exp_entry 0 s mo = EPanic EPUnlimited.
Proof. exact exp_entry_unlimited. Qed.
Print Assumptions C11_exp_unlimited_panics.
