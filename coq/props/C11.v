(** C11 - exp, ln and powers are accurate to less than one unit in the last place. Statements only. *)
From Coq Require Import ZArith Reals List.
From Dashu Require Import Base.Prelude Float.RoundSpec Float.Contract Float.Model Float.ElemEncl Float.ElemEntry
  Float.ElemEntryProof Float.ElemEnclProof Float.ElemDirected Float.ElemEntryDomain.
Import ListNotations.
Open Scope Z_scope.

(** ---- the meaning of the verdicts of the certified checkers (fval B s e = s * B^e, bpw B e = B^e) *)
Theorem C11_accept_means : forall B p t r fexact,
  Accepted B p t r fexact <->
  (r = t \/ exists E, (bpw B E <= Rabs t)%R /\ (Rabs (r - t) < bpw B (E - p + 1))%R) /\ (fexact = true -> r = t).
Proof. intros. apply iff_refl. Qed.
Print Assumptions C11_accept_means.

Theorem C11_reject_means : forall B p t r fexact,
  Rejected B p t r fexact <->
  ((t = 0%R /\ r <> t) \/ exists E, (Rabs t < bpw B (E + 1))%R /\ (bpw B (E - p + 1) <= Rabs (r - t))%R) \/
  (fexact = true /\ r <> t).
Proof. intros. apply iff_refl. Qed.
Print Assumptions C11_reject_means.

Theorem C11_verdicts_exclusive : forall B, 2 <= B -> forall p t r f, Accepted B p t r f -> Rejected B p t r f -> False.
Proof. exact accepted_rejected_exclusive. Qed.
Print Assumptions C11_verdicts_exclusive.

Theorem C11_sound_means : forall B p t r f v,
  Sound B p t r f v = match v with VAccept => Accepted B p t r f | VReject => Rejected B p t r f | VUndecided => True end.
Proof. reflexivity. Qed.
Print Assumptions C11_sound_means.

(** ---- soundness of the checkers, for every working precision / schedule / hint the driver may pass *)
Theorem C11_check_exp_sound : forall B, 2 <= B -> forall prt pra p s e rs re fexact,
  Sound B p (exp (fval B s e)) (fval B rs re) fexact (check_exp prt pra B p s e rs re fexact).
Proof. exact check_exp_sound. Qed.
Print Assumptions C11_check_exp_sound.

Theorem C11_check_expm1_sound : forall B, 2 <= B -> forall prt pra p s e rs re fexact,
  Sound B p (exp (fval B s e) - 1) (fval B rs re) fexact (check_expm1 prt pra B p s e rs re fexact).
Proof. exact check_expm1_sound. Qed.
Print Assumptions C11_check_expm1_sound.

Theorem C11_check_ln_sound : forall B, 2 <= B -> forall prt pra slack from_result steps p s e rs re fexact,
  Sound B p (ln (fval B s e)) (fval B rs re) fexact (check_ln prt pra slack from_result steps B p s e rs re fexact).
Proof. exact check_ln_sound. Qed.
Print Assumptions C11_check_ln_sound.

Theorem C11_check_ln1p_sound : forall B, 2 <= B -> forall prt pra slack from_result steps p s e rs re fexact,
  (-1 < fval B s e)%R ->
  Sound B p (ln (1 + fval B s e)) (fval B rs re) fexact (check_ln1p prt pra slack from_result steps B p s e rs re fexact).
Proof. exact check_ln1p_sound. Qed.
Print Assumptions C11_check_ln1p_sound.

Theorem C11_check_powi_sound : forall B, 2 <= B -> forall pra exact_ok p s e n rs re fexact,
  s <> 0 \/ 0 <= n ->
  Sound B p (powerRZ (fval B s e) n) (fval B rs re) fexact (check_powi pra exact_ok B p s e n rs re fexact).
Proof. exact check_powi_sound. Qed.
Print Assumptions C11_check_powi_sound.

Theorem C11_check_powf_sound : forall B, 2 <= B -> forall prt pra slack steps exact_ok p s e ys ye rs re fexact,
  0 < s ->
  Sound B p (Rpower (fval B s e) (fval B ys ye)) (fval B rs re) fexact
        (check_powf prt pra slack steps exact_ok B p s e ys ye rs re fexact).
Proof. exact check_powf_sound. Qed.
Print Assumptions C11_check_powf_sound.

(** ---- the entry logic: unlimited precision is refused, Exact shortcuts are exact, domain panics *)
Theorem C11_exp_unlimited_panics : forall s mo, exp_entry 0 s mo = EPanic EPUnlimited.
Proof. exact exp_entry_unlimited. Qed.
Print Assumptions C11_exp_unlimited_panics.

Theorem C11_exp_exact_shortcut : forall B p s e mo s' e', exp_entry p s mo = EExact s' e' ->
  fval B s' e' = (if mo then exp (fval B s e) - 1 else exp (fval B s e))%R.
Proof. exact exp_entry_exact. Qed.
Print Assumptions C11_exp_exact_shortcut.

Theorem C11_ln_unlimited_panics : forall B s e op, ln_entry B 0 s e op = EPanic EPUnlimited.
Proof. exact ln_entry_unlimited. Qed.
Print Assumptions C11_ln_unlimited_panics.

Theorem C11_ln_exact_shortcut : forall B p s e op s' e', ln_entry B p s e op = EExact s' e' ->
  fval B s' e' = (if op then ln (1 + fval B s e) else ln (fval B s e))%R.
Proof. exact ln_entry_exact. Qed.
Print Assumptions C11_ln_exact_shortcut.

Theorem C11_ln_domain_panic : forall B, 2 <= B -> forall p s e op, p <> 0 ->
  (ln_entry B p s e op = EPanic EPLogDomain <-> (if op then 1 + fval B s e <= 0 else fval B s e <= 0)%R).
Proof. exact ln_entry_domain. Qed.
Print Assumptions C11_ln_domain_panic.

Theorem C11_ln_before_fix_refuted :
  ln_entry_before_fix 5 (-2) 0 false = ECompute /\ ln_entry_before_fix 5 0 0 false = ECompute /\
  ln_entry_before_fix 5 (-1) 0 true = ECompute /\
  ln_entry 10 5 (-2) 0 false = EPanic EPLogDomain /\ ln_entry 10 5 0 0 false = EPanic EPLogDomain /\
  ln_entry 10 5 (-1) 0 true = EPanic EPLogDomain.
Proof. exact ln_entry_before_fix_refuted. Qed.
Print Assumptions C11_ln_before_fix_refuted.

Theorem C11_powi_unlimited_panics_iff_negative : forall B m s e n, powi_entry B 0 m s e n = EPanic EPUnlimited <-> n < 0.
Proof. exact powi_entry_unlimited. Qed.
Print Assumptions C11_powi_unlimited_panics_iff_negative.

Theorem C11_powi_exact_shortcut : forall B, 2 <= B -> forall p m s e n s' e',
  powi_entry B p m s e n = EExact s' e' -> fval B s' e' = powerRZ (fval B s e) n.
Proof. exact powi_entry_exact. Qed.
Print Assumptions C11_powi_exact_shortcut.

Theorem C11_powi_first_power_is_rounded_operand : forall B p m s e n a,
  powi_entry B p m s e n = ERound a -> n = 1 /\ a = repr_round B p m s e.
Proof. exact powi_entry_round. Qed.
Print Assumptions C11_powi_first_power_is_rounded_operand.

Theorem C11_powf_unlimited_panics : forall B m s e ys ye, powf_entry B 0 m s e ys ye = EPanic EPUnlimited.
Proof. exact powf_entry_unlimited. Qed.
Print Assumptions C11_powf_unlimited_panics.

Theorem C11_powf_exact_shortcut : forall B, 2 <= B -> forall p m s e ys ye s' e', 0 < s ->
  powf_entry B p m s e ys ye = EExact s' e' -> fval B s' e' = Rpower (fval B s e) (fval B ys ye).
Proof. exact powf_entry_exact_value. Qed.
Print Assumptions C11_powf_exact_shortcut.

Theorem C11_powf_negative_base_panics : forall B p m s e ys ye,
  p <> 0 -> ys <> 0 -> is_one ys ye = false -> s < 0 -> powf_entry B p m s e ys ye = EPanic EPNegBase.
Proof. exact powf_entry_negative_base. Qed.
Print Assumptions C11_powf_negative_base_panics.

(** ---- open finding directed_faithful: as-is accuracy and refutation of the one-ulp claim *)
Theorem C11_loose_means : forall B p t r,
  Loose B p t r <-> exists E, (bpw B E <= Rabs r)%R /\ (Rabs (r - t) < 2 * bpw B (E - p + 1))%R.
Proof. intros. apply iff_refl. Qed.
Print Assumptions C11_loose_means.

Theorem C11_loose_exp_sound : forall B, 2 <= B -> forall prt pra p s e rs re,
  loose_exp prt pra B p s e rs re = VAccept -> Loose B p (exp (fval B s e)) (fval B rs re).
Proof. exact loose_exp_sound. Qed.
Print Assumptions C11_loose_exp_sound.

Theorem C11_loose_expm1_sound : forall B, 2 <= B -> forall prt pra p s e rs re,
  loose_expm1 prt pra B p s e rs re = VAccept -> Loose B p (exp (fval B s e) - 1) (fval B rs re).
Proof. exact loose_expm1_sound. Qed.
Print Assumptions C11_loose_expm1_sound.

Theorem C11_loose_ln_sound : forall B, 2 <= B -> forall prt pra slack steps p s e rs re,
  loose_ln prt pra slack steps B p s e rs re = VAccept -> Loose B p (ln (fval B s e)) (fval B rs re).
Proof. exact loose_ln_sound. Qed.
Print Assumptions C11_loose_ln_sound.

Theorem C11_loose_ln1p_sound : forall B, 2 <= B -> forall prt pra slack steps p s e rs re, (-1 < fval B s e)%R ->
  loose_ln1p prt pra slack steps B p s e rs re = VAccept -> Loose B p (ln (1 + fval B s e)) (fval B rs re).
Proof. exact loose_ln1p_sound. Qed.
Print Assumptions C11_loose_ln1p_sound.

Theorem C11_loose_powi_sound : forall B, 2 <= B -> forall pra p s e n rs re,
  loose_powi pra B p s e n rs re = VAccept -> Loose B p (powerRZ (fval B s e) n) (fval B rs re).
Proof. exact loose_powi_sound. Qed.
Print Assumptions C11_loose_powi_sound.

Theorem C11_loose_powf_sound : forall B, 2 <= B -> forall prt pra slack steps p s e ys ye rs re,
  loose_powf prt pra slack steps B p s e ys ye rs re = VAccept ->
  Loose B p (Rpower (fval B s e) (fval B ys ye)) (fval B rs re).
Proof. exact loose_powf_sound. Qed.
Print Assumptions C11_loose_powf_sound.

Theorem C11_directed_refuted :
  Rejected 10 1 (exp (fval 10 (-87) (-19))) (fval 10 2 0) false /\
  Loose 10 1 (exp (fval 10 (-87) (-19))) (fval 10 2 0).
Proof. exact directed_refuted_exp. Qed.
Print Assumptions C11_directed_refuted.

Theorem C11_directed_refuted_exp_300_bits :
  Rejected 2 300 (exp (fval 2 (-256) (-1299))) (fval 2 (2 ^ 299 + 1) (-299)) false.
Proof. exact directed_refuted_exp_300. Qed.
Print Assumptions C11_directed_refuted_exp_300_bits.

Theorem C11_directed_refuted_ln1p_fitting_operand :
  Rejected 3 20 (ln (1 + fval 3 1057080249 (-19))) (fval 3 2255402011 (-20)) false /\
  Loose 3 20 (ln (1 + fval 3 1057080249 (-19))) (fval 3 2255402011 (-20)).
Proof. exact directed_refuted_ln1p. Qed.
Print Assumptions C11_directed_refuted_ln1p_fitting_operand.

Theorem C11_directed_refuted_powf_exact_value :
  Rejected 3 2 (Rpower (fval 3 6 (-2)) (fval 3 2 0)) (fval 3 1 (-1)) false.
Proof. exact directed_refuted_powf. Qed.
Print Assumptions C11_directed_refuted_powf_exact_value.

(** non-vacuity: documented examples of exp.rs / log.rs are accepted, a wrong Exact claim is rejected *)
Example C11_nonvacuous :
  check_exp 60 200 10 2 (-1234) (-3) 29 (-2) false = VAccept /\
  check_expm1 60 200 10 2 (-1234) (-4) (-12) (-2) false = VAccept /\
  check_ln 120 250 70 false [110; 120]%positive 10 2 1234 (-3) 21 (-2) false = VAccept /\
  check_ln1p 120 250 70 false [110; 120]%positive 10 2 1234 (-4) 12 (-2) false = VAccept /\
  check_powi 200 true 10 2 (-1234) (-3) 10 82 (-1) false = VAccept /\
  check_powf 120 250 70 [110; 120]%positive false 10 2 123 (-2) (-456) (-2) 39 (-2) false = VAccept /\
  check_exp 60 200 10 5 0 0 1 0 true = VAccept /\
  check_exp 60 200 10 5 3 0 2 1 true = VReject.
Proof. exact accepted_examples. Qed.
