(** C02 - integer division obeys the division identity with the documented conventions.
    ONLY statements pinned here; proofs live in Dashu.Int.Div*. *)
From Dashu Require Import Base.Prelude Int.DivSpec Int.DivSign.
From DashuGen Require Import SignTables.
Open Scope Z_scope.

(** every IBig form (/, %, div_rem, div_euclid, rem_euclid, div_rem_euclid, is_multiple_of), as the
    regenerated sign tables compute it, equals the specification - all signs, all magnitudes, and
    the DivideBy0 panic *)
Theorem C02_ibig_forms : forall f a b, ibig_form_asis f a b = form_spec f a b.
Proof. exact ibig_form_correct. Qed.
Print Assumptions C02_ibig_forms.

Theorem C02_zero_divisor_panics : forall f a, ibig_form_asis f a 0 = Panic DivideBy0.
Proof. exact ibig_form_zero. Qed.
Print Assumptions C02_zero_divisor_panics.

Theorem C02_ubig_forms : forall f m0 m1, 0 <= m0 -> 0 <= m1 -> ubig_form_asis f m0 m1 = form_spec f m0 m1.
Proof. exact ubig_form_correct. Qed.
Print Assumptions C02_ubig_forms.

Theorem C02_ubig_ibig_forms : forall f m0 b, plain_form f -> 0 <= m0 -> ubig_ibig_form_asis f m0 b = form_spec f m0 b.
Proof. exact ubig_ibig_form_correct. Qed.
Print Assumptions C02_ubig_ibig_forms.

Theorem C02_ibig_ubig_forms : forall f a m1, plain_form f -> 0 <= m1 -> ibig_ubig_form_asis f a m1 = form_spec f a m1.
Proof. exact ibig_ubig_form_correct. Qed.
Print Assumptions C02_ibig_ubig_forms.

(** division through a ConstDivisor = plain division (sign layer) *)
Theorem C02_const_ubig_forms : forall f m0 d, plain_form f -> 0 <= m0 -> 0 <= d -> const_ubig_form_asis f m0 d = form_spec f m0 d.
Proof. exact const_ubig_form_correct. Qed.
Print Assumptions C02_const_ubig_forms.

Theorem C02_const_ibig_forms : forall f a d, plain_form f -> 0 <= d -> const_ibig_form_asis f a d = form_spec f a d.
Proof. exact const_ibig_form_correct. Qed.
Print Assumptions C02_const_ibig_forms.

(** the specification is what the statement demands: a = q*b + r, truncation with the sign of a *)
Theorem C02_trunc_identity : forall a b, b <> 0 ->
  exists q r, trunc_div_rem_spec a b = Ok (q, r) /\ a = q * b + r /\ Z.abs r < Z.abs b /\ (r = 0 \/ Z.sgn r = Z.sgn a).
Proof. exact trunc_spec_props. Qed.
Print Assumptions C02_trunc_identity.

Theorem C02_trunc_unique : forall a b q r, b <> 0 -> a = q * b + r -> Z.abs r < Z.abs b -> (r = 0 \/ Z.sgn r = Z.sgn a) ->
  q = Z.quot a b /\ r = Z.rem a b.
Proof. exact trunc_unique. Qed.
Print Assumptions C02_trunc_unique.

Theorem C02_euclid_identity : forall a b, b <> 0 ->
  exists q r, euclid_div_rem_spec a b = Ok (q, r) /\ a = q * b + r /\ 0 <= r < Z.abs b.
Proof. exact euclid_spec_props. Qed.
Print Assumptions C02_euclid_identity.

Theorem C02_euclid_unique : forall b q r q' r', q * b + r = q' * b + r' -> 0 <= r < Z.abs b -> 0 <= r' < Z.abs b -> q = q' /\ r = r'.
Proof. exact euclid_unique. Qed.
Print Assumptions C02_euclid_unique.

Theorem C02_is_multiple_of : forall a b, b <> 0 ->
  exists v, is_multiple_of_spec a b = Ok v /\ (v = true <-> Z.rem a b = 0) /\ (v = true <-> exists k, a = k * b).
Proof. exact is_multiple_of_spec_iff. Qed.
Print Assumptions C02_is_multiple_of.

(** ** word-level as-is models of the division kernels (any word size w > 0, any length);
       num-modular's reciprocal division and the multiplication kernel enter through their contracts *)
From Dashu Require Import Base.Words Int.DivWordModel Int.DivWordProofs Int.DivSimpleProofs Int.DivLargeProofs
  Int.DivDCProofs Int.DivReprProofs Int.DivDCTotal Int.DivConstProofs Int.DivContracts Int.DivWordInst Int.DivWordInstProofs.

(** div_by_word_in_place: the rhs = 1 and power-of-two shortcuts and the normalised 2-by-1 loop *)
Theorem C02_div_by_word : forall w, 0 < w -> forall div2by1, contract_2by1 w div2by1 ->
  forall ws rhs, wf w ws -> 0 < rhs < B w -> forall q r, div_by_word w div2by1 ws rhs = (q, r) ->
  value w q = value w ws / rhs /\ r = value w ws mod rhs /\ wf w q /\ length q = length ws.
Proof. exact div_by_word_correct. Qed.
Print Assumptions C02_div_by_word.

Theorem C02_rem_by_word : forall w, 0 < w -> forall div1by1 div2by1, contract_1by1 w div1by1 -> contract_2by1 w div2by1 ->
  forall ws rhs, wf w ws -> ws <> [] -> 0 < rhs < B w -> rem_by_word w div1by1 div2by1 ws rhs = value w ws mod rhs.
Proof. exact rem_by_word_correct. Qed.
Print Assumptions C02_rem_by_word.

(** div_by_dword_in_place: the power-of-two path (2^64 .. 2^127 for w = 64) and the 3-by-2 / 4-by-2 chunks *)
Theorem C02_div_by_dword : forall w, 0 < w -> forall div3by2 div4by2, contract_3by2 w div3by2 -> contract_4by2 w div4by2 ->
  forall ws rhs, wf w ws -> (2 <= length ws)%nat -> B w <= rhs < B w * B w ->
  forall q r, div_by_dword w div3by2 div4by2 ws rhs = (q, r) ->
  value w q = value w ws / rhs /\ r = value w ws mod rhs /\ wf w q /\ length q = length ws.
Proof. exact div_by_dword_correct. Qed.
Print Assumptions C02_div_by_dword.

(** Knuth D, one quotient word (div_rem_highest_word): 3-by-2 estimate, multiply-subtract, one add-back *)
Theorem C02_knuth_step : forall w, 0 < w -> forall div3by2, contract_3by2 w div3by2 ->
  forall top lo rhs, wf w lo -> wf w rhs -> (2 <= length rhs)%nat -> (length rhs <= length lo)%nat -> 0 <= top < B w ->
  normalized_top w rhs ->
  let n := length rhs in let k := (length lo - n)%nat in
  top * B w ^ Z.of_nat n + value w (skipn k lo) < value w rhs * B w ->
  forall q lo', div_rem_highest_word w div3by2 top lo rhs = (q, lo') ->
  0 <= q < B w /\ wf w lo' /\ length lo' = length lo /\ firstn k lo' = firstn k lo /\
  q = (top * B w ^ Z.of_nat n + value w (skipn k lo)) / value w rhs /\
  value w (skipn k lo') = (top * B w ^ Z.of_nat n + value w (skipn k lo)) mod value w rhs.
Proof. exact div_rem_highest_word_correct. Qed.
Print Assumptions C02_knuth_step.

(** the whole schoolbook division simple::div_rem_in_place: lhs = [lhs % rhs, lhs / rhs] + carry *)
Theorem C02_schoolbook : forall w, 0 < w -> forall div3by2, contract_3by2 w div3by2 ->
  forall lhs rhs, wf w lhs -> wf w rhs -> (2 <= length rhs)%nat -> (length rhs <= length lhs)%nat -> normalized_top w rhs ->
  forall res carry, simple_div_rem w div3by2 lhs rhs = (res, carry) -> kernel_post w lhs rhs res carry.
Proof. exact simple_div_rem_correct. Qed.
Print Assumptions C02_schoolbook.

(** the algorithm switch (THRESHOLD_SIMPLE) with Burnikel-Ziegler behind it: every result satisfies the same contract *)
Theorem C02_div_rem_in_place_sound : forall w, 0 < w -> forall div3by2, contract_3by2 w div3by2 ->
  forall mul_sub, contract_mul_sub w mul_sub -> forall T, (2 <= T)%nat ->
  forall fuel lhs rhs res c, kernel_pre w lhs rhs ->
  div_rem_in_place w div3by2 mul_sub T fuel lhs rhs = Ok (res, c) -> kernel_post w lhs rhs res c.
Proof. exact div_rem_in_place_sound. Qed.
Print Assumptions C02_div_rem_in_place_sound.

(** normalisation shift, top-word quotient carry, shift back of the remainder (div_rem_large) *)
Theorem C02_div_rem_large_sound : forall w, 0 < w -> forall div3by2, contract_3by2 w div3by2 ->
  forall mul_sub, contract_mul_sub w mul_sub -> forall T, (2 <= T)%nat ->
  forall fuel lhs rhs q r, wf w lhs -> wf w rhs -> (2 <= length rhs)%nat -> (length rhs <= length lhs)%nat ->
  0 < highest_word w rhs ->
  div_rem_large w div3by2 mul_sub T fuel lhs rhs = Ok (q, r) ->
  value w q = value w lhs / value w rhs /\ value w r = value w lhs mod value w rhs /\
  wf w q /\ wf w r /\ length r = length rhs /\ length q = (length lhs - length rhs + 1)%nat.
Proof. exact DivReprProofs.div_rem_large_sound. Qed.
Print Assumptions C02_div_rem_large_sound.

(** DivRem of two magnitudes through the whole size dispatch of div_ops.rs::repr *)
Theorem C02_repr_div_rem_sound : forall w, 0 < w -> forall div2by1 div3by2 div4by2,
  contract_2by1 w div2by1 -> contract_3by2 w div3by2 -> contract_4by2 w div4by2 ->
  forall mul_sub, contract_mul_sub w mul_sub -> forall T, (2 <= T)%nat ->
  forall a b q r, 0 <= a -> 0 < b ->
  repr_div_rem w div2by1 div3by2 div4by2 mul_sub T a b = Ok (q, r) -> q = a / b /\ r = a mod b.
Proof. exact repr_div_rem_sound. Qed.
Print Assumptions C02_repr_div_rem_sound.

(** total correctness of the kernel behind the switch: with fuel > divisor length the Burnikel-Ziegler model
    returns (at most 4 add-backs per step, recursion depth < quotient length) and the result is right *)
Theorem C02_div_rem_in_place_correct : forall w, 0 < w -> forall div3by2, contract_3by2 w div3by2 ->
  forall mul_sub, contract_mul_sub w mul_sub -> forall T, (2 <= T)%nat ->
  forall fuel lhs rhs, kernel_pre w lhs rhs -> (length rhs < fuel)%nat ->
  exists res c, div_rem_in_place w div3by2 mul_sub T fuel lhs rhs = Ok (res, c) /\ kernel_post w lhs rhs res c.
Proof. exact div_rem_in_place_correct. Qed.
Print Assumptions C02_div_rem_in_place_correct.

(** DivRem / Rem of two magnitudes through the whole size dispatch: total correctness *)
Theorem C02_repr_div_rem_correct : forall w, 0 < w -> forall div3by2, contract_3by2 w div3by2 ->
  forall mul_sub, contract_mul_sub w mul_sub -> forall T, (2 <= T)%nat ->
  forall div2by1 div4by2, contract_2by1 w div2by1 -> contract_4by2 w div4by2 ->
  forall a b, 0 <= a -> 0 < b -> repr_div_rem w div2by1 div3by2 div4by2 mul_sub T a b = Ok (a / b, a mod b).
Proof. exact repr_div_rem_correct. Qed.
Print Assumptions C02_repr_div_rem_correct.

Theorem C02_repr_rem_correct : forall w, 0 < w -> forall div1by1 div2by1 div2by2 div3by2 div4by2,
  contract_1by1 w div1by1 -> contract_2by1 w div2by1 -> contract_2by2 w div2by2 -> contract_3by2 w div3by2 -> contract_4by2 w div4by2 ->
  forall mul_sub, contract_mul_sub w mul_sub -> forall T, (2 <= T)%nat ->
  forall a b, 0 <= a -> 0 < b -> repr_rem w div1by1 div2by1 div2by2 div3by2 div4by2 mul_sub T a b = Ok (a mod b).
Proof. exact repr_rem_correct. Qed.
Print Assumptions C02_repr_rem_correct.

(** division through a prepared ConstDivisor (stored normalised divisor + shift, Small x Single/Double arms,
    rem_dword / rem_large) gives the same quotient and remainder as plain division, word level *)
Theorem C02_const_div_rem_correct : forall w, 0 < w -> forall div2by1 div3by2 div4by2,
  contract_2by1 w div2by1 -> contract_3by2 w div3by2 -> contract_4by2 w div4by2 ->
  forall mul_sub, contract_mul_sub w mul_sub -> forall T, (2 <= T)%nat ->
  forall a d, 0 <= a -> 0 < d -> const_div_rem w div2by1 div3by2 div4by2 mul_sub T a d = Ok (a / d, a mod d).
Proof. exact const_div_rem_correct. Qed.
Print Assumptions C02_const_div_rem_correct.

Theorem C02_const_rem_correct : forall w, 0 < w -> forall div1by1 div2by1 div2by2 div3by2 div4by2,
  contract_1by1 w div1by1 -> contract_2by1 w div2by1 -> contract_2by2 w div2by2 -> contract_3by2 w div3by2 -> contract_4by2 w div4by2 ->
  forall mul_sub, contract_mul_sub w mul_sub -> forall T, (2 <= T)%nat ->
  forall a d, 0 <= a -> 0 < d -> const_rem w div1by1 div2by1 div2by2 div3by2 div4by2 mul_sub T a d = Ok (a mod d).
Proof. exact const_rem_correct. Qed.
Print Assumptions C02_const_rem_correct.

Theorem C02_const_equals_plain : forall w, 0 < w -> forall div1by1 div2by1 div2by2 div3by2 div4by2,
  contract_1by1 w div1by1 -> contract_2by1 w div2by1 -> contract_2by2 w div2by2 -> contract_3by2 w div3by2 -> contract_4by2 w div4by2 ->
  forall mul_sub, contract_mul_sub w mul_sub -> forall T, (2 <= T)%nat ->
  forall a d, 0 <= a -> 0 < d ->
  const_div_rem w div2by1 div3by2 div4by2 mul_sub T a d = repr_div_rem w div2by1 div3by2 div4by2 mul_sub T a d /\
  const_rem w div1by1 div2by1 div2by2 div3by2 div4by2 mul_sub T a d = repr_rem w div1by1 div2by1 div2by2 div3by2 div4by2 mul_sub T a d.
Proof. exact const_equals_plain. Qed.
Print Assumptions C02_const_equals_plain.

(** the contracts are satisfiable: for the instance the oracle extracts and runs the statements are unconditional *)
Theorem C02_instance : forall w, 0 < w -> forall a b, 0 <= a -> 0 < b ->
  i_repr_div_rem w a b = Ok (a / b, a mod b) /\ i_repr_rem w a b = Ok (a mod b) /\
  i_const_div_rem w a b = Ok (a / b, a mod b) /\ i_const_rem w a b = Ok (a mod b).
Proof. exact i_instance_correct. Qed.
Print Assumptions C02_instance.

(** the repaired defect F01 (commit 423c909: rem_dword of a full-width one-word ConstDivisor) stays refuted *)
Theorem C02_const_rem_defective_refuted :
  let a := (2 ^ 64 - 1) * 2 ^ 64 + 5 in let d := 2 ^ 64 - 1 in
  norm1 64 d /\ lzw 64 1 d = 0 /\ 0 <= a < Words.B 64 * Words.B 64 /\
  const_rem_single_unshifted_defective 64 (fun d a => (a / d, a mod d)) a d = Panic Undocumented /\
  const_rem_single_unshifted_defective 64 (fun d a => (a / d, a mod d)) a d <> Ok (a mod d) /\
  a mod d = 5.
Proof. exact const_rem_single_unshifted_defective_refuted. Qed.
Print Assumptions C02_const_rem_defective_refuted.
