(** C02 - integer division obeys the division identity with the documented conventions.
    ONLY statements pinned here; proofs live in Dashu.Int.Div*. *)
From Dashu Require Import Base.Prelude Int.DivSpec Int.DivSign.
From DashuGen Require Import SignTables.
Open Scope Z_scope.

(** every IBig form (/, %, div_rem, div_euclid, rem_euclid, div_rem_euclid, is_multiple_of), as the
    regenerated sign tables compute it, equals the specification - all signs, all magnitudes, and
    the DivideBy0 panic *)
Theorem C02_ibig_forms : forall f a b, ibig_form_asis f a b = form_spec f a b.
Proof. exact ibig_form_correct. Qed.
Print Assumptions C02_ibig_forms.

Theorem C02_zero_divisor_panics : forall f a, ibig_form_asis f a 0 = Panic DivideBy0.
Proof. exact ibig_form_zero. Qed.
Print Assumptions C02_zero_divisor_panics.

Theorem C02_ubig_forms : forall f m0 m1, 0 <= m0 -> 0 <= m1 -> ubig_form_asis f m0 m1 = form_spec f m0 m1.
Proof. exact ubig_form_correct. Qed.
Print Assumptions C02_ubig_forms.

Theorem C02_ubig_ibig_forms : forall f m0 b, plain_form f -> 0 <= m0 -> ubig_ibig_form_asis f m0 b = form_spec f m0 b.
Proof. exact ubig_ibig_form_correct. Qed.
Print Assumptions C02_ubig_ibig_forms.

Theorem C02_ibig_ubig_forms : forall f a m1, plain_form f -> 0 <= m1 -> ibig_ubig_form_asis f a m1 = form_spec f a m1.
Proof. exact ibig_ubig_form_correct. Qed.
Print Assumptions C02_ibig_ubig_forms.

(** division through a ConstDivisor = plain division (sign layer) *)
Theorem C02_const_ubig_forms : forall f m0 d, plain_form f -> 0 <= m0 -> 0 <= d -> const_ubig_form_asis f m0 d = form_spec f m0 d.
Proof. exact const_ubig_form_correct. Qed.
Print Assumptions C02_const_ubig_forms.

Theorem C02_const_ibig_forms : forall f a d, plain_form f -> 0 <= d -> const_ibig_form_asis f a d = form_spec f a d.
Proof. exact const_ibig_form_correct. Qed.
Print Assumptions C02_const_ibig_forms.

(** the specification is what the statement demands: a = q*b + r, truncation with the sign of a *)
Theorem C02_trunc_identity : forall a b, b <> 0 ->
  exists q r, trunc_div_rem_spec a b = Ok (q, r) /\ a = q * b + r /\ Z.abs r < Z.abs b /\ (r = 0 \/ Z.sgn r = Z.sgn a).
Proof. exact trunc_spec_props. Qed.
Print Assumptions C02_trunc_identity.

Theorem C02_trunc_unique : forall a b q r, b <> 0 -> a = q * b + r -> Z.abs r < Z.abs b -> (r = 0 \/ Z.sgn r = Z.sgn a) ->
  q = Z.quot a b /\ r = Z.rem a b.
Proof. exact trunc_unique. Qed.
Print Assumptions C02_trunc_unique.

Theorem C02_euclid_identity : forall a b, b <> 0 ->
  exists q r, euclid_div_rem_spec a b = Ok (q, r) /\ a = q * b + r /\ 0 <= r < Z.abs b.
Proof. exact euclid_spec_props. Qed.
Print Assumptions C02_euclid_identity.

Theorem C02_euclid_unique : forall b q r q' r', q * b + r = q' * b + r' -> 0 <= r < Z.abs b -> 0 <= r' < Z.abs b -> q = q' /\ r = r'.
Proof. exact euclid_unique. Qed.
Print Assumptions C02_euclid_unique.

Theorem C02_is_multiple_of : forall a b, b <> 0 ->
  exists v, is_multiple_of_spec a b = Ok v /\ (v = true <-> Z.rem a b = 0) /\ (v = true <-> exists k, a = k * b).
Proof. exact is_multiple_of_spec_iff. Qed.
Print Assumptions C02_is_multiple_of.
