(** C02 - integer division obeys the division identity with the documented conventions.
    ONLY statements pinned here; proofs live in Dashu.Int.Div*. *)
From Dashu Require Import Base.Prelude Int.DivSpec Int.DivSign.
From DashuGen Require Import SignTables.
Open Scope Z_scope.

(** every IBig form (/, %, div_rem, div_euclid, rem_euclid, div_rem_euclid, is_multiple_of), as the
    regenerated sign tables compute it, equals the specification - all signs, all magnitudes, and
    the DivideBy0 panic *)
Theorem C02_ibig_forms : forall f a b, ibig_form_asis f a b = form_spec f a b.
Proof. exact ibig_form_correct. Qed.
Print Assumptions C02_ibig_forms.

Theorem C02_zero_divisor_panics : forall f a, ibig_form_asis f a 0 = Panic DivideBy0.
Proof. exact ibig_form_zero. Qed.
Print Assumptions C02_zero_divisor_panics.

Theorem C02_ubig_forms : forall f m0 m1, 0 <= m0 -> 0 <= m1 -> ubig_form_asis f m0 m1 = form_spec f m0 m1.
Proof. exact ubig_form_correct. Qed.
Print Assumptions C02_ubig_forms.

Theorem C02_ubig_ibig_forms : forall f m0 b, plain_form f -> 0 <= m0 -> ubig_ibig_form_asis f m0 b = form_spec f m0 b.
Proof. exact ubig_ibig_form_correct. Qed.
Print Assumptions C02_ubig_ibig_forms.

Theorem C02_ibig_ubig_forms : forall f a m1, plain_form f -> 0 <= m1 -> ibig_ubig_form_asis f a m1 = form_spec f a m1.
Proof. exact ibig_ubig_form_correct. Qed.
Print Assumptions C02_ibig_ubig_forms.

(** division through a ConstDivisor = plain division (sign layer) *)
Theorem C02_const_ubig_forms : forall f m0 d, plain_form f -> 0 <= m0 -> 0 <= d -> const_ubig_form_asis f m0 d = form_spec f m0 d.
Proof. exact const_ubig_form_correct. Qed.
Print Assumptions C02_const_ubig_forms.

Theorem C02_const_ibig_forms : forall f a d, plain_form f -> 0 <= d -> const_ibig_form_asis f a d = form_spec f a d.
Proof. exact const_ibig_form_correct. Qed.
Print Assumptions C02_const_ibig_forms.

(** the specification is what the statement demands: a = q*b + r, truncation with the sign of a *)
Theorem C02_trunc_identity : forall a b, b <> 0 ->
  exists q r, trunc_div_rem_spec a b = Ok (q, r) /\ a = q * b + r /\ Z.abs r < Z.abs b /\ (r = 0 \/ Z.sgn r = Z.sgn a).
Proof. exact trunc_spec_props. Qed.
Print Assumptions C02_trunc_identity.

Theorem C02_trunc_unique : forall a b q r, b <> 0 -> a = q * b + r -> Z.abs r < Z.abs b -> (r = 0 \/ Z.sgn r = Z.sgn a) ->
  q = Z.quot a b /\ r = Z.rem a b.
Proof. exact trunc_unique. Qed.
Print Assumptions C02_trunc_unique.

Theorem C02_euclid_identity : forall a b, b <> 0 ->
  exists q r, euclid_div_rem_spec a b = Ok (q, r) /\ a = q * b + r /\ 0 <= r < Z.abs b.
Proof. exact euclid_spec_props. Qed.
Print Assumptions C02_euclid_identity.

Theorem C02_euclid_unique : forall b q r q' r', q * b + r = q' * b + r' -> 0 <= r < Z.abs b -> 0 <= r' < Z.abs b -> q = q' /\ r = r'.
Proof. exact euclid_unique. Qed.
Print Assumptions C02_euclid_unique.

Theorem C02_is_multiple_of : forall a b, b <> 0 ->
  exists v, is_multiple_of_spec a b = Ok v /\ (v = true <-> Z.rem a b = 0) /\ (v = true <-> exists k, a = k * b).
Proof. exact is_multiple_of_spec_iff. Qed.
Print Assumptions C02_is_multiple_of.

(** ** word-level as-is models of the division kernels (any word size w > 0, any length);
       num-modular's reciprocal division and the multiplication kernel enter through their contracts *)
From Dashu Require Import Base.Words Int.DivWordModel Int.DivWordProofs Int.DivSimpleProofs Int.DivLargeProofs
  Int.DivDCProofs Int.DivReprProofs Int.DivDCTotal Int.DivConstProofs Int.DivContracts Int.DivWordInst Int.DivWordInstProofs.

(** div_by_word_in_place: the rhs = 1 and power-of-two shortcuts and the normalised 2-by-1 loop *)
Theorem C02_div_by_word : forall w, 0 < w -> forall div2by1, contract_2by1 w div2by1 ->
  forall ws rhs, wf w ws -> 0 < rhs < B w -> forall q r, div_by_word w div2by1 ws rhs = (q, r) ->
  value w q = value w ws / rhs /\ r = value w ws mod rhs /\ wf w q /\ length q = length ws.
Proof. exact div_by_word_correct. Qed.
Print Assumptions C02_div_by_word.

Theorem C02_rem_by_word : forall w, 0 < w -> forall div1by1 div2by1, contract_1by1 w div1by1 -> contract_2by1 w div2by1 ->
  forall ws rhs, wf w ws -> ws <> [] -> 0 < rhs < B w -> rem_by_word w div1by1 div2by1 ws rhs = value w ws mod rhs.
Proof. exact rem_by_word_correct. Qed.
Print Assumptions C02_rem_by_word.

(** div_by_dword_in_place: the power-of-two path (2^64 .. 2^127 for w = 64) and the 3-by-2 / 4-by-2 chunks *)
Theorem C02_div_by_dword : forall w, 0 < w -> forall div3by2 div4by2, contract_3by2 w div3by2 -> contract_4by2 w div4by2 ->
  forall ws rhs, wf w ws -> (2 <= length ws)%nat -> B w <= rhs < B w * B w ->
  forall q r, div_by_dword w div3by2 div4by2 ws rhs = (q, r) ->
  value w q = value w ws / rhs /\ r = value w ws mod rhs /\ wf w q /\ length q = length ws.
Proof. exact div_by_dword_correct. Qed.
Print Assumptions C02_div_by_dword.

(** Knuth D, one quotient word (div_rem_highest_word): 3-by-2 estimate, multiply-subtract, one add-back *)
Theorem C02_knuth_step : forall w, 0 < w -> forall div3by2, contract_3by2 w div3by2 ->
  forall top lo rhs, wf w lo -> wf w rhs -> (2 <= length rhs)%nat -> (length rhs <= length lo)%nat -> 0 <= top < B w ->
  normalized_top w rhs ->
  let n := length rhs in let k := (length lo - n)%nat in
  top * B w ^ Z.of_nat n + value w (skipn k lo) < value w rhs * B w ->
  forall q lo', div_rem_highest_word w div3by2 top lo rhs = (q, lo') ->
  0 <= q < B w /\ wf w lo' /\ length lo' = length lo /\ firstn k lo' = firstn k lo /\
  q = (top * B w ^ Z.of_nat n + value w (skipn k lo)) / value w rhs /\
  value w (skipn k lo') = (top * B w ^ Z.of_nat n + value w (skipn k lo)) mod value w rhs.
Proof. exact div_rem_highest_word_correct. Qed.
Print Assumptions C02_knuth_step.

(** the whole schoolbook division simple::div_rem_in_place: lhs = [lhs % rhs, lhs / rhs] + carry *)
Theorem C02_schoolbook : forall w, 0 < w -> forall div3by2, contract_3by2 w div3by2 ->
  forall lhs rhs, wf w lhs -> wf w rhs -> (2 <= length rhs)%nat -> (length rhs <= length lhs)%nat -> normalized_top w rhs ->
  forall res carry, simple_div_rem w div3by2 lhs rhs = (res, carry) -> kernel_post w lhs rhs res carry.
Proof. exact simple_div_rem_correct. Qed.
Print Assumptions C02_schoolbook.

(** the algorithm switch (THRESHOLD_SIMPLE) with Burnikel-Ziegler behind it: every result satisfies the same contract *)
Theorem C02_div_rem_in_place_sound : forall w, 0 < w -> forall div3by2, contract_3by2 w div3by2 ->
  forall mul_sub, contract_mul_sub w mul_sub -> forall T, (2 <= T)%nat ->
  forall fuel lhs rhs res c, kernel_pre w lhs rhs ->
  div_rem_in_place w div3by2 mul_sub T fuel lhs rhs = Ok (res, c) -> kernel_post w lhs rhs res c.
Proof. exact div_rem_in_place_sound. Qed.
Print Assumptions C02_div_rem_in_place_sound.

(** normalisation shift, top-word quotient carry, shift back of the remainder (div_rem_large) *)
Theorem C02_div_rem_large_sound : forall w, 0 < w -> forall div3by2, contract_3by2 w div3by2 ->
  forall mul_sub, contract_mul_sub w mul_sub -> forall T, (2 <= T)%nat ->
  forall fuel lhs rhs q r, wf w lhs -> wf w rhs -> (2 <= length rhs)%nat -> (length rhs <= length lhs)%nat ->
  0 < highest_word w rhs ->
  div_rem_large w div3by2 mul_sub T fuel lhs rhs = Ok (q, r) ->
  value w q = value w lhs / value w rhs /\ value w r = value w lhs mod value w rhs /\
  wf w q /\ wf w r /\ length r = length rhs /\ length q = (length lhs - length rhs + 1)%nat.
Proof. exact DivReprProofs.div_rem_large_sound. Qed.
Print Assumptions C02_div_rem_large_sound.

(** DivRem of two magnitudes through the whole size dispatch of div_ops.rs::repr *)
Theorem C02_repr_div_rem_sound : forall w, 0 < w -> forall div2by1 div3by2 div4by2,
  contract_2by1 w div2by1 -> contract_3by2 w div3by2 -> contract_4by2 w div4by2 ->
  forall mul_sub, contract_mul_sub w mul_sub -> forall T, (2 <= T)%nat ->
  forall a b q r, 0 <= a -> 0 < b ->
  repr_div_rem w div2by1 div3by2 div4by2 mul_sub T a b = Ok (q, r) -> q = a / b /\ r = a mod b.
Proof. exact repr_div_rem_sound. Qed.
Print Assumptions C02_repr_div_rem_sound.

(** total correctness of the kernel behind the switch: with fuel > divisor length the Burnikel-Ziegler model
    returns (at most 4 add-backs per step, recursion depth < quotient length) and the result is right *)
Theorem C02_div_rem_in_place_correct : forall w, 0 < w -> forall div3by2, contract_3by2 w div3by2 ->
  forall mul_sub, contract_mul_sub w mul_sub -> forall T, (2 <= T)%nat ->
  forall fuel lhs rhs, kernel_pre w lhs rhs -> (length rhs < fuel)%nat ->
  exists res c, div_rem_in_place w div3by2 mul_sub T fuel lhs rhs = Ok (res, c) /\ kernel_post w lhs rhs res c.
Proof. exact div_rem_in_place_correct. Qed.
Print Assumptions C02_div_rem_in_place_correct.

(** DivRem / Rem of two magnitudes through the whole size dispatch: total correctness *)
Theorem C02_repr_div_rem_correct : forall w, 0 < w -> forall div3by2, contract_3by2 w div3by2 ->
  forall mul_sub, contract_mul_sub w mul_sub -> forall T, (2 <= T)%nat ->
  forall div2by1 div4by2, contract_2by1 w div2by1 -> contract_4by2 w div4by2 ->
  forall a b, 0 <= a -> 0 < b -> repr_div_rem w div2by1 div3by2 div4by2 mul_sub T a b = Ok (a / b, a mod b).
Proof. exact repr_div_rem_correct. Qed.
Print Assumptions C02_repr_div_rem_correct.

Theorem C02_repr_rem_correct : forall w, 0 < w -> forall div1by1 div2by1 div2by2 div3by2 div4by2,
  contract_1by1 w div1by1 -> contract_2by1 w div2by1 -> contract_2by2 w div2by2 -> contract_3by2 w div3by2 -> contract_4by2 w div4by2 ->
  forall mul_sub, contract_mul_sub w mul_sub -> forall T, (2 <= T)%nat ->
  forall a b, 0 <= a -> 0 < b -> repr_rem w div1by1 div2by1 div2by2 div3by2 div4by2 mul_sub T a b = Ok (a mod b).
Proof. exact repr_rem_correct. Qed.
Print Assumptions C02_repr_rem_correct.

(** division through a prepared ConstDivisor (stored normalised divisor + shift, Small x Single/Double arms,
    rem_dword / rem_large) gives the same quotient and remainder as plain division, word level *)
Theorem C02_const_div_rem_correct : forall w, 0 < w -> forall div2by1 div3by2 div4by2,
  contract_2by1 w div2by1 -> contract_3by2 w div3by2 -> contract_4by2 w div4by2 ->
  forall mul_sub, contract_mul_sub w mul_sub -> forall T, (2 <= T)%nat ->
  forall a d, 0 <= a -> 0 < d -> const_div_rem w div2by1 div3by2 div4by2 mul_sub T a d = Ok (a / d, a mod d).
Proof. exact const_div_rem_correct. Qed.
Print Assumptions C02_const_div_rem_correct.

Theorem C02_const_rem_correct : forall w, 0 < w -> forall div1by1 div2by1 div2by2 div3by2 div4by2,
  contract_1by1 w div1by1 -> contract_2by1 w div2by1 -> contract_2by2 w div2by2 -> contract_3by2 w div3by2 -> contract_4by2 w div4by2 ->
  forall mul_sub, contract_mul_sub w mul_sub -> forall T, (2 <= T)%nat ->
  forall a d, 0 <= a -> 0 < d -> const_rem w div1by1 div2by1 div2by2 div3by2 div4by2 mul_sub T a d = Ok (a mod d).
Proof. exact const_rem_correct. Qed.
Print Assumptions C02_const_rem_correct.

Theorem C02_const_equals_plain : forall w, 0 < w -> forall div1by1 div2by1 div2by2 div3by2 div4by2,
  contract_1by1 w div1by1 -> contract_2by1 w div2by1 -> contract_2by2 w div2by2 -> contract_3by2 w div3by2 -> contract_4by2 w div4by2 ->
  forall mul_sub, contract_mul_sub w mul_sub -> forall T, (2 <= T)%nat ->
  forall a d, 0 <= a -> 0 < d ->
  const_div_rem w div2by1 div3by2 div4by2 mul_sub T a d = repr_div_rem w div2by1 div3by2 div4by2 mul_sub T a d /\
  const_rem w div1by1 div2by1 div2by2 div3by2 div4by2 mul_sub T a d = repr_rem w div1by1 div2by1 div2by2 div3by2 div4by2 mul_sub T a d.
Proof. exact const_equals_plain. Qed.
Print Assumptions C02_const_equals_plain.

(** the contracts are satisfiable: for the instance the oracle extracts and runs the statements are unconditional *)
Theorem C02_instance : forall w, 0 < w -> forall a b, 0 <= a -> 0 < b ->
  i_repr_div_rem w a b = Ok (a / b, a mod b) /\ i_repr_rem w a b = Ok (a mod b) /\
  i_const_div_rem w a b = Ok (a / b, a mod b) /\ i_const_rem w a b = Ok (a mod b).
Proof. exact i_instance_correct. Qed.
Print Assumptions C02_instance.

(** the repaired defect F01 (commit 423c909: rem_dword of a full-width one-word ConstDivisor) stays refuted *)
Theorem C02_const_rem_defective_refuted :
  let a := (2 ^ 64 - 1) * 2 ^ 64 + 5 in let d := 2 ^ 64 - 1 in
  norm1 64 d /\ lzw 64 1 d = 0 /\ 0 <= a < Words.B 64 * Words.B 64 /\
  const_rem_single_unshifted_defective 64 (fun d a => (a / d, a mod d)) a d = Panic Undocumented /\
  const_rem_single_unshifted_defective 64 (fun d a => (a / d, a mod d)) a d <> Ok (a mod d) /\
  a mod d = 5.
Proof. exact const_rem_single_unshifted_defective_refuted. Qed.
Print Assumptions C02_const_rem_defective_refuted.

(** ** num-modular's reciprocal division itself (as-is models of barrett.rs in Int/DivNumModular.v, Moller-Granlund
       Algorithms 4, 5, 6 with the wrapping arithmetic of the source) - every word size w > 0.  With these the
       contracts above are no longer assumptions about the external crate. *)
From Dashu Require Import Int.DivNumModular Int.DivNumModularProofs Int.DivSrcInst Int.DivSrcInstProofs.

(** invert_word: the stored reciprocal is floor((B^2-1)/d) - B, and the debug assertion holds *)
Theorem C02_nm_invert_word : forall w, 0 < w -> forall d, norm1 w d ->
  let m := nm_invert_word w d in
  m = (B w * B w - 1) / d - B w /\ 0 <= m < B w /\ nm_invert_word_checks w d = true /\
  (exists k, (m + B w) * d = B w * B w - k /\ 1 <= k <= d).
Proof. exact invert_word_spec. Qed.
Print Assumptions C02_nm_invert_word.

(** invert_double_word (Algorithm 6): floor((B^3-1)/d) - B, no `v -= 1` underflows *)
Theorem C02_nm_invert_double_word : forall w, 0 < w -> forall d, norm2 w d ->
  let v := nm_invert_double_word w d in
  0 <= v < B w /\ (exists k, (v + B w) * d = B w * B w * B w - k /\ 1 <= k <= d) /\
  v = (B w * B w * B w - 1) / d - B w /\ nm_invert_double_word_checks w d = true.
Proof. exact invert_double_word_spec. Qed.
Print Assumptions C02_nm_invert_double_word.

(** div_rem_2by1 (Algorithm 4) is exact division; its debug_assert!(a_hi < divisor) and its checked
    `+`, `q += 1` cannot fire *)
Theorem C02_nm_div_rem_2by1 : forall w, 0 < w -> forall d a, norm1 w d -> 0 <= a < d * B w ->
  nm_div_rem_2by1 w (nm_2by1_new w d) a = (a / d, a mod d) /\ nm_div_rem_2by1_checks w (nm_2by1_new w d) a = true.
Proof. exact nm_div_rem_2by1_correct. Qed.
Print Assumptions C02_nm_div_rem_2by1.

(** div_rem_3by2 (Algorithm 5) *)
Theorem C02_nm_div_rem_3by2 : forall w, 0 < w -> forall d lo hi, norm2 w d -> 0 <= lo < B w -> 0 <= hi < d ->
  nm_div_rem_3by2 w (nm_3by2_new w d) lo hi = ((lo + B w * hi) / d, (lo + B w * hi) mod d) /\
  nm_div_rem_3by2_checks w (nm_3by2_new w d) lo hi = true.
Proof. exact nm_div_rem_3by2_correct. Qed.
Print Assumptions C02_nm_div_rem_3by2.

Theorem C02_nm_div_rem_4by2 : forall w, 0 < w -> forall d lo hi, norm2 w d -> 0 <= lo < B w * B w -> 0 <= hi < d ->
  nm_div_rem_4by2 w (nm_3by2_new w d) lo hi = ((lo + B w * B w * hi) / d, (lo + B w * B w * hi) mod d).
Proof. exact nm_div_rem_4by2_correct. Qed.
Print Assumptions C02_nm_div_rem_4by2.

(** the five contracts hold for the as-is models *)
Theorem C02_nm_contracts : forall w, 0 < w ->
  contract_1by1 w (nm1by1 w) /\ contract_2by1 w (nm2by1 w) /\ contract_2by2 w (nm2by2 w) /\
  contract_3by2 w (nm3by2 w) /\ contract_4by2 w (nm4by2 w).
Proof.
  intros w Hw.
  exact (conj (nm1by1_contract w) (conj (nm2by1_contract w Hw) (conj (nm2by2_contract w)
        (conj (nm3by2_contract w Hw) (nm4by2_contract w Hw))))).
Qed.
Print Assumptions C02_nm_contracts.

(** division of two magnitudes with num-modular transcribed, any word size; only the multiplier is a contract *)
Theorem C02_nm_repr_div_rem : forall w, 0 < w -> forall mul_sub, contract_mul_sub w mul_sub -> forall T, (2 <= T)%nat ->
  forall a b, 0 <= a -> 0 < b ->
  repr_div_rem w (nm2by1 w) (nm3by2 w) (nm4by2 w) mul_sub T a b = Ok (a / b, a mod b) /\
  repr_rem w (nm1by1 w) (nm2by1 w) (nm2by2 w) (nm3by2 w) (nm4by2 w) mul_sub T a b = Ok (a mod b) /\
  const_div_rem w (nm2by1 w) (nm3by2 w) (nm4by2 w) mul_sub T a b = Ok (a / b, a mod b) /\
  const_rem w (nm1by1 w) (nm2by1 w) (nm2by2 w) (nm3by2 w) (nm4by2 w) mul_sub T a b = Ok (a mod b).
Proof.
  intros w Hw ms Hms T HT a b Ha Hb.
  exact (conj (nm_repr_div_rem_correct w Hw ms Hms T HT a b Ha Hb) (conj (nm_repr_rem_correct w Hw ms Hms T HT a b Ha Hb)
        (conj (nm_const_div_rem_correct w Hw ms Hms T HT a b Ha Hb) (nm_const_rem_correct w Hw ms Hms T HT a b Ha Hb)))).
Qed.
Print Assumptions C02_nm_repr_div_rem.

(** ** nothing assumed: mul::add_signed_mul is C01's as-is model (schoolbook / Karatsuba / Toom-3 behind the
       regenerated thresholds), word sizes w >= 8 *)
Theorem C02_c01_mul_sub_contract : forall w, 8 <= w -> contract_mul_sub w (c01_mul_sub w).
Proof. exact c01_mul_sub_contract. Qed.
Print Assumptions C02_c01_mul_sub_contract.

(** the kernel behind the THRESHOLD_SIMPLE switch (schoolbook / Burnikel-Ziegler), fuel = len lhs + 1 *)
Theorem C02_kernel_unconditional : forall w, 8 <= w -> forall lhs rhs, kernel_pre w lhs rhs ->
  exists res c, s_div_rem_in_place w (S (length lhs)) lhs rhs = Ok (res, c) /\ kernel_post w lhs rhs res c.
Proof. exact s_div_rem_in_place_correct. Qed.
Print Assumptions C02_kernel_unconditional.

(** DivRem / Div / Rem of two magnitudes and division through a prepared ConstDivisor, every kernel transcribed *)
Theorem C02_division_unconditional : forall w, 8 <= w -> forall a b, 0 <= a -> 0 < b ->
  s_repr_div_rem w a b = Ok (a / b, a mod b) /\ s_repr_div w a b = Ok (a / b) /\ s_repr_rem w a b = Ok (a mod b) /\
  s_const_div_rem w a b = s_repr_div_rem w a b /\ s_const_rem w a b = s_repr_rem w a b.
Proof. exact s_division_unconditional. Qed.
Print Assumptions C02_division_unconditional.

(** ** primitive-typed operands (u8 .. i128 on either side: impl_div_primitive_with_ubig! / _with_ibig!) and
       is_multiple_of_const; as-is models of the macro bodies in Int/DivPrim.v over the regenerated sign tables *)
From Dashu Require Import Int.DivPrim Int.DivPrimProofs.

(** every primitive form = truncating division followed by the representability test of the fixed output type *)
Theorem C02_prim_forms : forall k t pt x p, prim_pairing t pt = true -> in_big t x = true -> in_prim pt p = true ->
  prim_form_asis k t pt x p = prim_form_spec k pt x p.
Proof. exact prim_form_correct. Qed.
Print Assumptions C02_prim_forms.

(** signed primitives: `big / p`, `big % p`, div_rem always return Z.quot / Z.rem *)
Theorem C02_prim_signed : forall t n x p, prim_pairing t (iprim n) = true -> in_big t x = true ->
  in_prim (iprim n) p = true -> p <> 0 ->
  prim_form_asis PRem t (iprim n) x p = Ok [Z.rem x p] /\
  prim_form_asis PDivRem t (iprim n) x p = Ok [Z.quot x p; Z.rem x p] /\
  prim_form_asis PDiv t (iprim n) x p = Ok [Z.quot x p].
Proof. exact prim_rem_signed_exact. Qed.
Print Assumptions C02_prim_signed.

(** unsigned primitives: the remainder forms return Z.rem exactly when it is not negative, otherwise they are the
    undocumented unwrap panic (the exact class; C15 F02 prim_result_unrepresentable) *)
Theorem C02_prim_unsigned : forall t n x p, prim_pairing t (uprim n) = true -> in_big t x = true ->
  in_prim (uprim n) p = true -> p <> 0 ->
  prim_form_asis PDiv t (uprim n) x p = Ok [Z.quot x p] /\
  ((0 <= x \/ Z.rem x p = 0) ->
     prim_form_asis PRem t (uprim n) x p = Ok [Z.rem x p] /\
     prim_form_asis PDivRem t (uprim n) x p = Ok [Z.quot x p; Z.rem x p]) /\
  (x < 0 /\ Z.rem x p <> 0 ->
     prim_form_asis PRem t (uprim n) x p = Panic Undocumented /\
     prim_form_asis PDivRem t (uprim n) x p = Panic Undocumented).
Proof. exact prim_rem_unsigned_exact. Qed.
Print Assumptions C02_prim_unsigned.

(** primitive / big -> primitive: the quotient or the unwrap panic; for signed primitives the panic is exactly
    iN::MIN / -1, for unsigned ones exactly a negative quotient *)
Theorem C02_prim_rdiv : forall t pt p x, prim_pairing t pt = true -> in_big t x = true -> in_prim pt p = true -> x <> 0 ->
  prim_form_asis PRDiv t pt x p = if in_prim pt (Z.quot p x) then Ok [Z.quot p x] else Panic Undocumented.
Proof. exact prim_rdiv_exact. Qed.
Print Assumptions C02_prim_rdiv.

Theorem C02_prim_rdiv_class : forall n p x, 0 < n -> x <> 0 ->
  (in_prim (iprim n) p = true -> (in_prim (iprim n) (Z.quot p x) = true <-> ~ (p = - 2 ^ (n - 1) /\ x = -1))) /\
  (in_prim (uprim n) p = true -> (in_prim (uprim n) (Z.quot p x) = true <-> 0 <= Z.quot p x)).
Proof.
  intros n p x Hn Hx. split; intros Hp.
  - exact (rdiv_fits_signed_iff n p x Hn Hp Hx).
  - exact (rdiv_fits_unsigned_iff n p x Hp Hx).
Qed.
Print Assumptions C02_prim_rdiv_class.

(** is_multiple_of_const (word / double-word divisor, rem_by_word / rem_by_dword with num-modular transcribed):
    true exactly when the remainder is zero, every word size *)
Theorem C02_is_multiple_of_const : forall w, 0 < w -> forall a d, 0 < d < B w * B w ->
  is_multiple_of_const_asis w (nm1by1 w) (nm2by1 w) (nm2by2 w) (nm3by2 w) (nm4by2 w) (Z.abs a) d = Ok (Z.rem a d =? 0) /\
  is_multiple_of_spec a d = Ok (Z.rem a d =? 0).
Proof. exact is_multiple_of_const_unconditional. Qed.
Print Assumptions C02_is_multiple_of_const.

(** ** scratch memory (round 3): the amount div::memory_requirement_exact reserves is enough for the whole
       recursion, for every pair of lengths.  Int/DivMemModel.v computes the exact peak (allocations and recursive
       calls of karatsuba.rs / toom_3.rs, the requirement formulas and the kernel selection are REGENERATED into
       coq/gen/DivDispatch.v by tools/translate_c02_r3.py; chunk splitting and the Burnikel-Ziegler recursion are
       transcribed); the run compares both numbers with the library (smallest sufficient scratch by bisection). *)
From Dashu Require Import Int.DivMemBase Int.DivMemModel Int.DivMemProofs.
From DashuGen Require Import DivDispatch.

(** mul::add_signed_mul_same_len on n-word factors never takes more than mul::memory_requirement_exact(_, n) *)
Theorem C02_mem_mul_same_len : forall t n, 0 <= n ->
  exists p, mul_same_peak_auto n = Ok p /\ 0 <= p <= g_mul_mem_exact t n.
Proof. intros t n Hn. exact (mul_same_sufficient n Hn). Qed.
Print Assumptions C02_mem_mul_same_len.

(** mul::add_signed_mul on any two lengths: the requirement for the shorter factor is enough (chunks + rest) *)
Theorem C02_mem_mul : forall t la lb, 0 <= la -> 0 <= lb ->
  exists p, mul_peak_auto la lb = Ok p /\ 0 <= p <= g_mul_mem_exact t (Z.min la lb).
Proof. intros t la lb Ha Hb. exact (mul_peak_auto_sufficient la lb Ha Hb). Qed.
Print Assumptions C02_mem_mul.

(** div::div_rem_in_place / div_rem_unshifted_in_place on lhs_len >= rhs_len >= 2 (the assertion of
    memory_requirement_exact itself): never out of scratch, never out of fuel *)
Theorem C02_mem_div : forall l n, g_div_mem_req_pre l n = true ->
  exists p, div_peak l n = Ok p /\ 0 <= p <= g_div_mem_req l n.
Proof. exact div_peak_sufficient. Qed.
Print Assumptions C02_mem_div.

(** the same for each kernel selection of the verification hook (0 dispatch, 1 schoolbook, 2 divide and conquer) *)
Theorem C02_mem_hook : forall which l n, 2 <= n <= l ->
  exists p, hook_peak which l n = Ok p /\ 0 <= p <= hook_reserved which l n.
Proof. exact hook_peak_sufficient. Qed.
Print Assumptions C02_mem_hook.

(** the integer form of the source's "20 log_3 n < 13 log_2 n": a Toom-3 recursion of depth d on n words *)
Theorem C02_mem_toom_depth : forall n d, 1 <= d -> 32 * 3 ^ d <= 2 * n - 5 -> 20 * d <= 13 * ceil_log2 n.
Proof. exact toom_depth. Qed.
Print Assumptions C02_mem_toom_depth.

(** ** div_ops.rs::repr with its ownership arms (round 3): the 12 `impl DivRem / Div / Rem <TypedRepr | TypedReprRef>
       for TypedRepr | TypedReprRef` (Int/DivOwn.v).  Which helper an arm calls with which operand is REGENERATED
       (coq/gen/DivDispatch.v: g_repr_divrem_arm, g_repr_div_arm, g_repr_rem_arm); the helpers (div_rem_in_lhs with
       push_resizing, div_large = erase_front only, rem_large = copy + shift back only, *_large_dword, *_dword, the
       shorter-dividend arms incl. clone_from_slice into the divisor's buffer) are transcribed. *)
From Dashu Require Import Int.DivOwn Int.DivOwnProofs.

(** Repr::from_buffer (Buffer::pop_zeros, inline storage of up to two words) builds the canonical representation *)
Theorem C02_from_buffer_canonical : forall w, 0 < w -> forall ws, wf w ws -> from_buffer w ws = repr_of w (value w ws).
Proof. exact from_buffer_repr. Qed.
Print Assumptions C02_from_buffer_canonical.

(** every canonical operand (Small below B^2; Large = at least 3 well-formed words, top word non-zero) is repr_of its value *)
Theorem C02_canon_repr_of : forall w, 0 < w -> forall t, canon w t -> t = repr_of w (tvalue w t) /\ 0 <= tvalue w t.
Proof. exact canon_repr_of. Qed.
Print Assumptions C02_canon_repr_of.

(** DivRem, every ownership combination: the canonical quotient and remainder, or the DivideBy0 panic *)
Theorem C02_typed_div_rem : forall w, 0 < w -> forall div2by1 div3by2 div4by2,
  contract_2by1 w div2by1 -> contract_3by2 w div3by2 -> contract_4by2 w div4by2 ->
  forall mul_sub, contract_mul_sub w mul_sub -> forall T, (2 <= T)%nat ->
  forall o0 o1 a b, 0 <= a -> 0 <= b ->
  typed_div_rem w div2by1 div3by2 div4by2 mul_sub T o0 o1 (repr_of w a) (repr_of w b) =
  if b =? 0 then Panic DivideBy0 else Ok (repr_of w (a / b), repr_of w (a mod b)).
Proof. exact typed_div_rem_correct. Qed.
Print Assumptions C02_typed_div_rem.

(** Div only (div_large: no copy of the remainder, no shift back) *)
Theorem C02_typed_div : forall w, 0 < w -> forall div2by1 div3by2 div4by2,
  contract_2by1 w div2by1 -> contract_3by2 w div3by2 -> contract_4by2 w div4by2 ->
  forall mul_sub, contract_mul_sub w mul_sub -> forall T, (2 <= T)%nat ->
  forall o0 o1 a b, 0 <= a -> 0 <= b ->
  typed_div w div2by1 div3by2 div4by2 mul_sub T o0 o1 (repr_of w a) (repr_of w b) =
  if b =? 0 then Panic DivideBy0 else Ok (repr_of w (a / b)).
Proof. exact typed_div_correct. Qed.
Print Assumptions C02_typed_div.

(** Rem only (rem_by_word / rem_by_dword for Small divisors, rem_large without erase_front) *)
Theorem C02_typed_rem : forall w, 0 < w -> forall div1by1 div2by1 div2by2 div3by2 div4by2,
  contract_1by1 w div1by1 -> contract_2by1 w div2by1 -> contract_2by2 w div2by2 -> contract_3by2 w div3by2 -> contract_4by2 w div4by2 ->
  forall mul_sub, contract_mul_sub w mul_sub -> forall T, (2 <= T)%nat ->
  forall o0 o1 a b, 0 <= a -> 0 <= b ->
  typed_rem w div1by1 div2by1 div2by2 div3by2 div4by2 mul_sub T o0 o1 (repr_of w a) (repr_of w b) =
  if b =? 0 then Panic DivideBy0 else Ok (repr_of w (a mod b)).
Proof. exact typed_rem_correct. Qed.
Print Assumptions C02_typed_rem.

(** nothing assumed: num-modular and add_signed_mul transcribed, word sizes w >= 8 *)
Theorem C02_typed_unconditional : forall w, 8 <= w -> forall o0 o1 a b, 0 <= a -> 0 <= b ->
  s_typed_div_rem w o0 o1 (repr_of w a) (repr_of w b) =
    (if b =? 0 then Panic DivideBy0 else Ok (repr_of w (a / b), repr_of w (a mod b))) /\
  s_typed_div w o0 o1 (repr_of w a) (repr_of w b) = (if b =? 0 then Panic DivideBy0 else Ok (repr_of w (a / b))) /\
  s_typed_rem w o0 o1 (repr_of w a) (repr_of w b) = (if b =? 0 then Panic DivideBy0 else Ok (repr_of w (a mod b))).
Proof. exact s_typed_unconditional. Qed.
Print Assumptions C02_typed_unconditional.

(** ** the index arithmetic of fast_rem_by_normalized_word / _dword (round 3; Int/DivRemIdx.v: `while i > 2 { i -= 2; ..
       words[i - 1], words[i] .. } if i == 2 { .. words[0] .. }` with out-of-range indexing and usize wrap as panics):
       never out of range, the slice length is enough fuel, and the loops are the list recursions that rem_by_word,
       rem_by_dword, is_multiple_of_const and ConstDivisor::rem are proved correct with - any primitives, any word size *)
From Dashu Require Import Int.DivRemIdx Int.DivRemIdxProofs.

Theorem C02_fast_rem_dword_idx : forall w div2by2 div3by2 div4by2 d ws, (2 <= length ws)%nat ->
  fast_rem_dword_idx w div2by2 div3by2 div4by2 d ws = Ok (rem_dword_loop w div2by2 div3by2 div4by2 d ws).
Proof. exact fast_rem_dword_idx_correct. Qed.
Print Assumptions C02_fast_rem_dword_idx.

Theorem C02_fast_rem_word_idx : forall w div1by1 div2by1 d ws, (1 <= length ws)%nat ->
  fast_rem_word_idx w div1by1 div2by1 d ws = Ok (rem_word_loop w div1by1 div2by1 d ws).
Proof. exact fast_rem_word_idx_correct. Qed.
Print Assumptions C02_fast_rem_word_idx.

Theorem C02_rem_by_idx : forall w div1by1 div2by1 div2by2 div3by2 div4by2 ws rhs,
  ((1 <= length ws)%nat -> rem_by_word_idx w div1by1 div2by1 ws rhs = Ok (rem_by_word w div1by1 div2by1 ws rhs)) /\
  ((2 <= length ws)%nat -> rem_by_dword_idx w div2by2 div3by2 div4by2 ws rhs = Ok (rem_by_dword w div2by2 div3by2 div4by2 ws rhs)).
Proof.
  intros w d11 d21 d22 d32 d42 ws rhs. split; intros H.
  - exact (rem_by_word_idx_correct w d11 d21 ws rhs H).
  - exact (rem_by_dword_idx_correct w d22 d32 d42 ws rhs H).
Qed.
Print Assumptions C02_rem_by_idx.

(** ** the rows of impl_div_primitive_with_ubig! / _ibig! REGENERATED from div_ops.rs + helper_macros.rs agree with the
       model of Int/DivPrim.v (same traits, same components converted back with try_into().unwrap(), same type
       pairing - a finite table, checked by computation), and the specification of a form is "the big-integer
       operation, then every converted component must fit the primitive" *)
From Dashu Require Import Int.DivPrimRows.
Theorem C02_prim_rows : prim_rows_ok = true /\
  forall k pt x p, prim_form_spec k pt x p =
    rbind (form_spec (pform_big k) (fst (prim_operands k x p)) (snd (prim_operands k x p)))
          (fun l => if flagged_fit pt (pform_flags k) l then Ok l else Panic Undocumented).
Proof. exact (conj prim_rows_consistent prim_spec_by_flags). Qed.
Print Assumptions C02_prim_rows.


(** ** Round 4: the loop kernels of division REGENERATED from the source (coq/gen/DivKernelsGen.v, tools/translate_c02_r4.py on top
    of the loop translator of C01) are the hand models, for every word size and every instance P of the primitives; the helpers of
    div_ops.rs::repr regenerated (coq/gen/DivReprGen.v); ConstDivisor construction; debug assertions without side effects. *)
From Dashu Require Import Int.DivContracts Int.DivKernelsBase Int.DivKernelsGenProofs Int.DivReprGenProofs Int.DivConstNew Int.DivConstNewProofs
  Int.DivKernelsInst Int.DivKernelsGenSpec Int.DivAsserts.
From DashuGen Require Import DivKernelsGen DivReprGen DivAssertsGen.

Theorem C02_gen_fast_div_by_word : forall (w : Z) (P : div_prims) (ws : list Z) (s d : Z), 0 <= s ->
  fast_div_by_word_in_place_gen P w ws s d = fast_div_by_word w (p2by1 P) ws s d.
Proof. exact fast_div_by_word_gen_eq. Qed.
Print Assumptions C02_gen_fast_div_by_word.

Theorem C02_gen_div_by_word : forall (w : Z) (P : div_prims) (ws : list Z) (rhs : Z), 0 < rhs < B w ->
  div_by_word_in_place_gen P w ws rhs = div_by_word w (p2by1 P) ws rhs.
Proof. exact div_by_word_gen_eq. Qed.
Print Assumptions C02_gen_div_by_word.

Theorem C02_gen_fast_rem_word : forall (w : Z) (P : div_prims) (ws : list Z) (d : Z), (1 <= length ws)%nat ->
  fast_rem_by_normalized_word_gen P w ws d = rem_word_loop w (p1by1 P) (p2by1 P) d ws.
Proof. exact fast_rem_by_normalized_word_gen_eq. Qed.
Print Assumptions C02_gen_fast_rem_word.

Theorem C02_gen_rem_by_word : forall (w : Z) (P : div_prims) (ws : list Z) (rhs : Z), (1 <= length ws)%nat -> 0 < rhs < B w ->
  rem_by_word_gen P w ws rhs = rem_by_word w (p1by1 P) (p2by1 P) ws rhs.
Proof. exact rem_by_word_gen_eq. Qed.
Print Assumptions C02_gen_rem_by_word.

Theorem C02_gen_fast_div_by_dword : forall (w : Z) (P : div_prims) (ws : list Z) (s d : Z), 0 <= s ->
  fast_div_by_dword_in_place_gen P w ws s d = fast_div_by_dword w (p3by2 P) (p4by2 P) ws s d.
Proof. exact fast_div_by_dword_gen_eq. Qed.
Print Assumptions C02_gen_fast_div_by_dword.

Theorem C02_gen_div_by_dword : forall w : Z, 0 < w -> forall (P : div_prims) (ws : list Z) (rhs : Z),
  wf w ws -> (1 <= length ws)%nat -> B w <= rhs < B w * B w ->
  div_by_dword_in_place_gen P w ws rhs = div_by_dword w (p3by2 P) (p4by2 P) ws rhs.
Proof. exact div_by_dword_gen_eq. Qed.
Print Assumptions C02_gen_div_by_dword.

Theorem C02_gen_fast_rem_dword : forall (w : Z) (P : div_prims) (ws : list Z) (d : Z), (2 <= length ws)%nat ->
  fast_rem_by_normalized_dword_gen P w ws d = rem_dword_loop w (p2by2 P) (p3by2 P) (p4by2 P) d ws.
Proof. exact fast_rem_by_normalized_dword_gen_eq. Qed.
Print Assumptions C02_gen_fast_rem_dword.

Theorem C02_gen_rem_by_dword : forall w : Z, 0 < w -> forall (P : div_prims) (ws : list Z) (rhs : Z),
  (2 <= length ws)%nat -> 0 < rhs < B w * B w ->
  rem_by_dword_gen P w ws rhs = rem_by_dword w (p2by2 P) (p3by2 P) (p4by2 P) ws rhs.
Proof. exact rem_by_dword_gen_eq. Qed.
Print Assumptions C02_gen_rem_by_dword.

Theorem C02_gen_normalize : forall (w : Z) (P : div_prims) (ws : list Z),
  normalize_gen P w ws =
  (let s := lzw w 1 (highest_word w ws) in let ws1 := fst (shl_in_place w ws s) in (ws1, (s, highest_dword w ws1))).
Proof. exact normalize_gen_eq. Qed.
Print Assumptions C02_gen_normalize.

Theorem C02_gen_div_rem_highest_word : forall (w : Z) (P : div_prims) (top : Z) (lo rhs : list Z) (d : Z),
  rhs <> [] -> d = highest_dword w rhs ->
  div_rem_highest_word_gen P w top lo rhs d = (let '(q, lo') := div_rem_highest_word w (p3by2 P) top lo rhs in (lo', q)).
Proof. exact div_rem_highest_word_gen_eq. Qed.
Print Assumptions C02_gen_div_rem_highest_word.

Theorem C02_gen_simple_div_rem : forall (w : Z) (P : div_prims) (lhs rhs : list Z) (d : Z),
  rhs <> [] -> (length rhs <= length lhs)%nat -> d = highest_dword w rhs ->
  simple_div_rem_in_place_gen P w lhs rhs d = simple_div_rem w (p3by2 P) lhs rhs.
Proof. exact simple_div_rem_in_place_gen_eq. Qed.
Print Assumptions C02_gen_simple_div_rem.

Theorem C02_gen_div_rem_in_place : forall (w : Z) (P : div_prims) (lhs rhs : list Z) (d : Z),
  rhs <> [] -> (length rhs <= length lhs)%nat -> d = highest_dword w rhs ->
  div_rem_in_place_gen P w lhs rhs d =
  unwrap_dr lhs (div_rem_in_place w (p3by2 P) (pmul_sub P) div_threshold_simple_nat (fuel_for lhs) lhs rhs).
Proof. exact div_rem_in_place_gen_eq. Qed.
Print Assumptions C02_gen_div_rem_in_place.

Theorem C02_gen_div_rem_unshifted : forall (w : Z) (P : div_prims) (lhs rhs : list Z) (s d : Z) (r : list Z * Z),
  rhs <> [] -> (length rhs <= length lhs)%nat -> d = highest_dword w rhs ->
  div_rem_unshifted w (p3by2 P) (pmul_sub P) div_threshold_simple_nat (fuel_for lhs) lhs rhs s = Ok r ->
  div_rem_unshifted_in_place_gen P w lhs rhs s d = r.
Proof. exact div_rem_unshifted_gen_eq. Qed.
Print Assumptions C02_gen_div_rem_unshifted.

Theorem C02_gen_dc_tail_is_the_models : forall (w : Z) (P : div_prims) (T f : nat) (lhs rhs : list Z),
  dc_small_quotient w (p3by2 P) (pmul_sub P) T (S f) lhs rhs =
  (let n := length rhs in let m := (length lhs - n)%nat in
   if (m <=? T)%nat then Ok (simple_div_rem w (p3by2 P) lhs rhs)
   else
     let l := skipn (n - m) lhs in let r := skipn (n - m) rhs in let nlo := (m / 2)%nat in
     rbind (dc_small_quotient w (p3by2 P) (pmul_sub P) T f (skipn nlo l) r) (fun '(hi, o) =>
     let l1 := firstn nlo l ++ hi in
     rbind (dc_small_quotient w (p3by2 P) (pmul_sub P) T f (firstn (m + nlo) l1) r) (fun '(lo, _) =>
     dc_tail w P (firstn (n - m) lhs ++ (lo ++ skipn (m + nlo) l1)) rhs n m o))).
Proof. exact dc_small_quotient_tail_unfold. Qed.
Print Assumptions C02_gen_dc_tail_is_the_models.

Theorem C02_gen_dc_tail : forall w : Z, 0 < w -> forall (P : div_prims) (lhs1 rhs : list Z) (m : nat) (o : bool) (r : list Z * bool),
  contract_mul_sub w (pmul_sub P) -> wf w lhs1 -> wf w rhs -> (m <= length rhs)%nat -> length lhs1 = (length rhs + m)%nat ->
  dc_tail w P lhs1 rhs (length rhs) m o = Ok r ->
  dc_small_quotient_tail_gen P w lhs1 rhs (length rhs) m (Z.b2z o) = r.
Proof. exact dc_small_quotient_tail_gen_eq. Qed.
Print Assumptions C02_gen_dc_tail.

Theorem C02_gen_div_rem_in_lhs : forall (w : Z) (P : div_prims) (lhs rhs : list Z) (r : list Z * list Z * Z),
  rhs <> [] -> (length rhs <= length lhs)%nat ->
  div_rem_in_lhs w (p3by2 P) (pmul_sub P) div_threshold_simple_nat (fuel_for lhs) lhs rhs = Ok r ->
  div_rem_in_lhs_gen P w lhs rhs = r.
Proof. exact div_rem_in_lhs_gen_eq. Qed.
Print Assumptions C02_gen_div_rem_in_lhs.

Theorem C02_gen_div_rem_large : forall (w : Z) (P : div_prims) (lhs rhs : list Z) (r : trepr * trepr),
  rhs <> [] -> (length rhs <= length lhs)%nat ->
  t_div_rem_large w (p3by2 P) (pmul_sub P) div_threshold_simple_nat lhs rhs = Ok r -> div_rem_large_gen P w lhs rhs = r.
Proof. exact div_rem_large_gen_eq. Qed.
Print Assumptions C02_gen_div_rem_large.

Theorem C02_gen_div_large : forall (w : Z) (P : div_prims) (lhs rhs : list Z) (r : trepr),
  rhs <> [] -> (length rhs <= length lhs)%nat ->
  t_div_large w (p3by2 P) (pmul_sub P) div_threshold_simple_nat lhs rhs = Ok r -> div_large_gen P w lhs rhs = r.
Proof. exact div_large_gen_eq. Qed.
Print Assumptions C02_gen_div_large.

Theorem C02_gen_rem_large : forall (w : Z) (P : div_prims) (lhs rhs : list Z) (r : trepr),
  rhs <> [] -> (length rhs <= length lhs)%nat ->
  t_rem_large w (p3by2 P) (pmul_sub P) div_threshold_simple_nat lhs rhs = Ok r -> rem_large_gen P w lhs rhs = r.
Proof. exact rem_large_gen_eq. Qed.
Print Assumptions C02_gen_rem_large.

(** the entry points built only from regenerated code (transcribed num-modular, C01's multiplication) = floor division, w >= 8 *)
Theorem C02_gen_small_divisor_correct : forall w : Z, 8 <= w -> forall a b : Z, B w * B w <= a -> 0 < b < B w * B w ->
  g_div_rem_small w a b = (a / b, a mod b) /\ g_rem_small w a b = a mod b.
Proof. exact (fun w Hw a b Ha Hb => conj (g_div_rem_small_correct w Hw a b Ha Hb) (g_rem_small_correct w Hw a b Ha Hb)). Qed.
Print Assumptions C02_gen_small_divisor_correct.

Theorem C02_gen_large_divisor_correct : forall w : Z, 8 <= w -> forall a b : Z, B w * B w <= b -> (nwords w b <= nwords w a)%nat ->
  g_div_rem_large w a b = (a / b, a mod b) /\ g_div_large w a b = a / b /\ g_rem_large w a b = a mod b.
Proof. exact g_large_correct. Qed.
Print Assumptions C02_gen_large_divisor_correct.

(** ConstDivisor construction: zero panics; shift, normalised divisor, reciprocal, value() for all three sizes *)
Theorem C02_const_new_zero : forall (w : Z) (P : div_prims),
  const_new w P 0 = Panic DivideBy0 /\ const_from_word w 0 = Panic DivideBy0 /\ const_from_dword w 0 = Panic DivideBy0.
Proof. exact const_new_zero. Qed.
Print Assumptions C02_const_new_zero.

Theorem C02_const_new : forall w : Z, 0 < w -> forall (P : div_prims) (n : Z), 0 < n ->
  exists c : cdiv, const_new w P n = Ok c /\ cdiv_ok w n c /\ const_value w c = n.
Proof. exact const_new_ok. Qed.
Print Assumptions C02_const_new.

Theorem C02_const_from_agree : forall w : Z, 0 < w -> forall (P : div_prims) (n : Z),
  (0 < n < B w -> const_from_word w n = const_new w P n) /\ (0 < n < B w * B w -> const_from_dword w n = const_new w P n).
Proof. exact const_from_agree. Qed.
Print Assumptions C02_const_from_agree.

(** every debug assertion of div / div_const / div_ops / mul whose argument has side effects is the always-evaluating macro *)
Theorem C02_debug_asserts_keep_side_effects : forallb assert_row_ok debug_asserts_gen = true.
Proof. exact div_asserts_no_lost_side_effect. Qed.
Print Assumptions C02_debug_asserts_keep_side_effects.

(** *** round 5: the RECURSION of div/divide_conquer.rs regenerated (coq/gen/DivBodiesGen.v, tools/translate_c02_r5.py) *)
From Dashu Require Import Int.DivBodiesGenProofs.
From DashuGen Require Import DivBodiesGen.

(** div_rem_in_place_small_quotient (threshold test, schoolbook kernel, recursive 2m/m division through div_rem_in_place_same_len
    on the top slices, multiply-subtract, correction loop) with the recursion tied through fuel = the hand model, every w *)
Theorem C02_gen_dc_small_quotient : forall w : Z, 0 < w -> forall P : div_prims,
  contract_3by2 w (p3by2 P) -> contract_mul_sub w (pmul_sub P) ->
  forall (fuel : nat) (lhs rhs : list Z) (d : Z) (r : list Z * bool),
  DivLargeProofs.kernel_pre w lhs rhs -> (length lhs - length rhs <= length rhs)%nat -> d = highest_dword w rhs ->
  dc_small_quotient w (p3by2 P) (pmul_sub P) div_threshold_simple_nat fuel lhs rhs = Ok r ->
  dc_small_quotient_gen P w fuel lhs rhs d = r.
Proof. exact dc_small_quotient_gen_eq. Qed.
Print Assumptions C02_gen_dc_small_quotient.

Theorem C02_gen_dc_same_len : forall w : Z, 0 < w -> forall P : div_prims,
  contract_3by2 w (p3by2 P) -> contract_mul_sub w (pmul_sub P) ->
  forall (fuel : nat) (lhs rhs : list Z) (d : Z) (r : list Z * bool),
  DivLargeProofs.kernel_pre w lhs rhs -> length lhs = (2 * length rhs)%nat -> d = highest_dword w rhs ->
  dc_same_len w (p3by2 P) (pmul_sub P) div_threshold_simple_nat fuel lhs rhs = Ok r -> dc_same_len_gen P w fuel lhs rhs d = r.
Proof. exact dc_same_len_gen_eq. Qed.
Print Assumptions C02_gen_dc_same_len.

(** divide_conquer::div_rem_in_place: the blocked loop `while m >= 2 * n` (fuelled Fixpoint of the loop translator over
    sub-slices written back) and the final small-quotient step = dc_blocks / dc_div_rem of the hand model *)
Theorem C02_gen_dc_div_rem : forall w : Z, 0 < w -> forall P : div_prims,
  contract_3by2 w (p3by2 P) -> contract_mul_sub w (pmul_sub P) ->
  forall (rfuel : nat) (lhs rhs : list Z) (d : Z) (r : list Z * bool),
  DivLargeProofs.kernel_pre w lhs rhs -> d = highest_dword w rhs ->
  dc_div_rem w (p3by2 P) (pmul_sub P) div_threshold_simple_nat rfuel lhs rhs = Ok r -> dc_div_rem_in_place_gen P w rfuel lhs rhs d = r.
Proof. exact dc_div_rem_in_place_gen_eq. Qed.
Print Assumptions C02_gen_dc_div_rem.

(** the algorithm switch of div/mod.rs over the GENERATED divide-and-conquer kernel *)
Theorem C02_gen_div_rem_in_place_full : forall w : Z, 0 < w -> forall P : div_prims,
  contract_3by2 w (p3by2 P) -> contract_mul_sub w (pmul_sub P) ->
  forall (lhs rhs : list Z) (d : Z) (r : list Z * bool),
  DivLargeProofs.kernel_pre w lhs rhs -> d = highest_dword w rhs ->
  div_rem_in_place w (p3by2 P) (pmul_sub P) div_threshold_simple_nat (fuel_for lhs) lhs rhs = Ok r ->
  div_rem_in_place_full_gen P w lhs rhs d = r.
Proof. exact div_rem_in_place_full_gen_eq. Qed.
Print Assumptions C02_gen_div_rem_in_place_full.

(** no fuel premise left: the kernel made of generated code only (switch, schoolbook, Burnikel-Ziegler recursion, correction
    loop) leaves remainder and quotient with the carry for every well-formed dividend and normalised divisor, and it is the
    function the round-4 entry points call (there the recursion was the transcription) *)
Theorem C02_gen_full_kernel_correct : forall w : Z, 0 < w -> forall P : div_prims,
  contract_3by2 w (p3by2 P) -> contract_mul_sub w (pmul_sub P) ->
  forall lhs rhs : list Z, DivLargeProofs.kernel_pre w lhs rhs ->
  exists (res : list Z) (c : bool),
    div_rem_in_place_full_gen P w lhs rhs (highest_dword w rhs) = (res, c) /\ DivLargeProofs.kernel_post w lhs rhs res c /\
    div_rem_in_place_gen P w lhs rhs (highest_dword w rhs) = (res, c).
Proof. exact div_rem_in_place_full_gen_correct. Qed.
Print Assumptions C02_gen_full_kernel_correct.

(** div_ops.rs::repr, the helpers behind the Large x Small arms regenerated: the zero test as the guard (DivideBy0), shrink_dword as
    `rhs <= Word::MAX`, then the generated word / double-word kernels = the transcriptions of Int/DivOwn.v that the typed-dispatch
    theorems C02_typed_div_rem, C02_typed_div, C02_typed_rem are about *)
Theorem C02_gen_div_rem_large_dword : forall w : Z, 0 < w -> forall (P : div_prims) (buf : list Z) (rhs : Z),
  wf w buf -> (1 <= length buf)%nat -> 0 <= rhs < B w * B w ->
  div_rem_large_dword_chk_gen P w buf rhs = div_rem_large_dword w (p2by1 P) (p3by2 P) (p4by2 P) buf rhs.
Proof. exact div_rem_large_dword_gen_eq. Qed.
Print Assumptions C02_gen_div_rem_large_dword.

Theorem C02_gen_div_large_dword : forall w : Z, 0 < w -> forall (P : div_prims) (buf : list Z) (rhs : Z),
  wf w buf -> (1 <= length buf)%nat -> 0 <= rhs < B w * B w ->
  div_large_dword_chk_gen P w buf rhs = div_large_dword w (p2by1 P) (p3by2 P) (p4by2 P) buf rhs.
Proof. exact div_large_dword_gen_eq. Qed.
Print Assumptions C02_gen_div_large_dword.

Theorem C02_gen_rem_large_dword : forall w : Z, 0 < w -> forall (P : div_prims) (ws : list Z) (rhs : Z),
  (2 <= length ws)%nat -> 0 <= rhs < B w * B w ->
  rem_large_dword_chk_gen P w ws rhs = rem_large_dword w (p1by1 P) (p2by1 P) (p2by2 P) (p3by2 P) (p4by2 P) ws rhs.
Proof. exact rem_large_dword_gen_eq. Qed.
Print Assumptions C02_gen_rem_large_dword.

(** *** round 5: the word / double-word ConstDivisor paths of div_const.rs regenerated (methods rem_word / rem_dword / rem_large of
    ConstSingleDivisor and ConstDoubleDivisor, div_rem_small_single / _double, the Single / Double arms of the four impl blocks) *)
From Dashu Require Import Int.DivConstGenInst Int.DivConstGenProofs.

Theorem C02_gen_const_rem : forall w : Z, 0 < w -> forall (P : div_prims) (T : nat) (which a d : Z), 0 <= a -> 0 <= d < B w * B w ->
  gc_rem P w which a d = const_rem w (p1by1 P) (p2by1 P) (p2by2 P) (p3by2 P) (p4by2 P) (pmul_sub P) T a d.
Proof. exact gc_rem_eq. Qed.
Print Assumptions C02_gen_const_rem.

Theorem C02_gen_const_div_rem : forall w : Z, 0 < w -> forall (P : div_prims) (T : nat) (a d : Z), 0 <= a -> 0 <= d < B w * B w ->
  gc_div_rem P w a d = const_div_rem w (p2by1 P) (p3by2 P) (p4by2 P) (pmul_sub P) T a d /\
  gc_div P w a d = rbind (gc_div_rem P w a d) (fun qr => Ok (fst qr)).
Proof. exact gc_div_rem_eq. Qed.
Print Assumptions C02_gen_const_div_rem.

Theorem C02_gen_const_unconditional : forall w : Z, 8 <= w -> forall which a d : Z, 0 <= a -> 0 <= d < B w * B w ->
  gc_rem (Pnm w) w which a d = (if d =? 0 then Panic DivideBy0 else Ok (a mod d)) /\
  gc_div_rem (Pnm w) w a d = (if d =? 0 then Panic DivideBy0 else Ok (a / d, a mod d)) /\
  gc_div (Pnm w) w a d = (if d =? 0 then Panic DivideBy0 else Ok (a / d)).
Proof. exact gc_unconditional. Qed.
Print Assumptions C02_gen_const_unconditional.

(** *** round 5: the operator layer of div_ops.rs regenerated (coq/gen/DivOpsGen.v): which body macro (sign table) or TypedRepr
    operation each public operator expands to.  The dispatch of the sign-layer models above (C02_ibig_forms, C02_ubig_forms, ...)
    is this table. *)
From Dashu Require Import Int.DivOpsGenProofs.
From DashuGen Require Import DivOpsGen.

Theorem C02_ops_ibig : forall (f : form) (a b : Z), is_op f = true ->
  exists l, ops_form_gen KII f (sign_of a) (Z.abs a) (sign_of b) (Z.abs b) = Some l /\ ibig_form_asis f a b = mag_guard (Z.abs b) l.
Proof. exact ops_ibig. Qed.
Print Assumptions C02_ops_ibig.

Theorem C02_ops_ubig : forall (f : form) (m0 m1 : Z), is_op f = true ->
  exists l, ops_form_gen KUU f Positive m0 Positive m1 = Some l /\ ubig_form_asis f m0 m1 = mag_guard m1 l.
Proof. exact ops_ubig. Qed.
Print Assumptions C02_ops_ubig.

Theorem C02_ops_ubig_ibig : forall (f : form) (m0 b : Z), plain f = true ->
  exists l, ops_form_gen KUI f Positive m0 (sign_of b) (Z.abs b) = Some l /\ ubig_ibig_form_asis f m0 b = mag_guard (Z.abs b) l.
Proof. exact ops_ubig_ibig. Qed.
Print Assumptions C02_ops_ubig_ibig.

Theorem C02_ops_ibig_ubig : forall (f : form) (a m1 : Z), plain f = true ->
  exists l, ops_form_gen KIU f (sign_of a) (Z.abs a) Positive m1 = Some l /\ ibig_ubig_form_asis f a m1 = mag_guard m1 l.
Proof. exact ops_ibig_ubig. Qed.
Print Assumptions C02_ops_ibig_ubig.

Theorem C02_ops_mixed_only_plain : forall (f : form) (s0 : sign) (m0 : Z) (s1 : sign) (m1 : Z), plain f = false ->
  ops_form_gen KUI f s0 m0 s1 m1 = None /\ ops_form_gen KIU f s0 m0 s1 m1 = None.
Proof. exact ops_mixed_only_plain. Qed.
Print Assumptions C02_ops_mixed_only_plain.

Theorem C02_ops_assign_forward :
  forallb (fun '(t, _, _, m) => String.eqb (assign_target t) m) ops_assign_gen = true /\ (6 <= length ops_assign_gen)%nat.
Proof. exact ops_assign_forward. Qed.
Print Assumptions C02_ops_assign_forward.
