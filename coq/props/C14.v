(** C14 - cross-type numeric comparison and hashing agree with exact values.
    ONLY statements pinned here; proofs live in Dashu.Cross.*.
    The estimator (EstimatedLog2::log2_bounds) is a parameter: E, egt, ib/fb/qb with ANY interpretation lo_ok/hi_ok
    such that "a lower estimate of x exceeds an upper estimate of y" implies y < x. *)
From Dashu Require Import Base.Prelude Cross.XVal Cross.XOrdModel Cross.XDispatch Cross.XOrdProofs Cross.XPrimProofs
  Cross.XRatioProofs Cross.XDispatchProofs Cross.XHashProofs Cross.XEstInstance
  Cross.XLog2Model Cross.XLog2Flocq Cross.XEstF32Model Cross.XEstF32 Cross.XPrimHashModel Cross.XPrimHashProofs Cross.XHashM127 Cross.XLog2Refuted Cross.XLog2ParamsTie Cross.XLog2Large Cross.XEstF32Any
  Cross.XDubAny Cross.XPrimHashSpecial Cross.XImplModel Cross.XImplPairs Cross.XImplTie.
From DashuGen Require Import XLog2Params XImplTable.
From Coq Require Import List.
From Coq Require Import Reals.
From Flocq Require Import Core IEEE754.BinarySingleNaN.
Open Scope Z_scope.

Theorem C14_nan_incomparable : forall a, spec_cmp XNaN a = None /\ spec_cmp a XNaN = None.
Proof. intros a; split; [apply spec_cmp_nan_l | apply spec_cmp_nan_r]. Qed.
Print Assumptions C14_nan_incomparable.

Section PinnedEstimator.
Variable E : Type.
Variable egt : E -> E -> bool.
Variable ib : Z -> E * E.
Variable fb : Z -> Z -> Z -> E * E.
Variable qb : Z -> Z -> E * E.
Variable lo_ok hi_ok : E -> Z * Z -> Prop.
Hypothesis egt_sound : forall a b x y, lo_ok a x -> hi_ok b y -> egt a b = true -> mlt y x.
Hypothesis ib_ok : forall z, lo_ok (fst (ib z)) (Z.abs z, 1) /\ hi_ok (snd (ib z)) (Z.abs z, 1).
Hypothesis fb_ok : forall B s e, 2 <= B -> f_is_inf s e = false ->
  lo_ok (fst (fb B s e)) (fmag B s e) /\ hi_ok (snd (fb B s e)) (fmag B s e).
Hypothesis qb_ok : forall n d, 0 < d -> lo_ok (fst (qb n d)) (Z.abs n, d) /\ hi_ok (snd (qb n d)) (Z.abs n, d).
(** Repr::digits_ub: an over-estimate of the number of digits of a significand *)
Variable dub : Z -> Z -> Z.
Hypothesis dub_ok : forall B s, 2 <= B -> s <> 0 -> Z.abs s < B ^ dub B s.

(** THE PROPERTY, first sentence.  NumOrd between any two supported types (the impl table of the three
    num_order.rs files, primitives included) is the order of the exact values; None exactly for NaN. *)
Theorem C14_num_ord_all_pairs : forall a b r, wf a -> wf b ->
  ord_asis E egt ib fb qb a b = Some r -> r = spec_cmp (val a) (val b).
Proof. exact (ord_asis_correct E egt ib fb qb lo_ok hi_ok egt_sound ib_ok fb_ok qb_ok). Qed.

Theorem C14_num_ord_nan : forall a b r, wf a -> wf b -> ord_asis E egt ib fb qb a b = Some r ->
  val a = XNaN \/ val b = XNaN -> r = None.
Proof. exact (ord_asis_nan E egt ib fb qb lo_ok hi_ok egt_sound ib_ok fb_ok qb_ok). Qed.

(** AbsOrd between any two types with an impl is the order of the magnitudes *)
Theorem C14_abs_ord_all_pairs : forall a b c, wf a -> wf b ->
  abs_asis E egt ib fb qb dub a b = Some c -> Some c = spec_abs_cmp (val a) (val b).
Proof. exact (abs_asis_correct E egt ib fb qb dub lo_ok hi_ok egt_sound ib_ok fb_ok qb_ok dub_ok). Qed.

(** PartialOrd / Ord of floats of one base (repr_cmp_same_base) *)
Theorem C14_float_same_base_ord : forall B s1 e1 s2 e2, 2 <= B -> fwf s1 e1 -> fwf s2 e2 ->
  Some (fsame_ord dub B s1 e1 s2 e2) = spec_cmp (fval B s1 e1) (fval B s2 e2).
Proof. exact (fsame_ord_correct dub dub_ok). Qed.

Theorem C14_float_ubig_ord : forall B s e u, 2 <= B -> 0 <= u ->
  Some (frepr_cmp_ubig E egt ib fb false B s e u) = spec_cmp (fval B s e) (XFin u 1).
Proof. exact (frepr_cmp_ubig_ord E egt ib fb lo_ok hi_ok egt_sound ib_ok fb_ok). Qed.

Theorem C14_float_ubig_abs : forall B s e u, 2 <= B -> 0 <= u ->
  Some (frepr_cmp_ubig E egt ib fb true B s e u) = spec_abs_cmp (fval B s e) (XFin u 1).
Proof. exact (frepr_cmp_ubig_abs E egt ib fb lo_ok hi_ok egt_sound ib_ok fb_ok). Qed.

Theorem C14_float_ibig_ord : forall B s e i, 2 <= B ->
  Some (frepr_cmp_ibig E egt ib fb false B s e i) = spec_cmp (fval B s e) (XFin i 1).
Proof. exact (frepr_cmp_ibig_ord E egt ib fb lo_ok hi_ok egt_sound ib_ok fb_ok). Qed.

Theorem C14_float_ibig_abs : forall B s e i, 2 <= B ->
  Some (frepr_cmp_ibig E egt ib fb true B s e i) = spec_abs_cmp (fval B s e) (XFin i 1).
Proof. exact (frepr_cmp_ibig_abs E egt ib fb lo_ok hi_ok egt_sound ib_ok fb_ok). Qed.

Theorem C14_float_float_ord : forall B1 s1 e1 B2 s2 e2, 2 <= B1 -> 2 <= B2 -> fwf s1 e1 -> fwf s2 e2 ->
  Some (repr_num_cmp E egt fb B1 s1 e1 B2 s2 e2) = spec_cmp (fval B1 s1 e1) (fval B2 s2 e2).
Proof. exact (repr_num_cmp_ord E egt fb lo_ok hi_ok egt_sound fb_ok). Qed.

Theorem C14_ratio_ubig_ord : forall n d u, 0 < d -> 0 <= u ->
  Some (qrepr_cmp_ubig E egt ib qb false n d u) = spec_cmp (XFin n d) (XFin u 1).
Proof. exact (qrepr_cmp_ubig_ord E egt ib qb lo_ok hi_ok egt_sound ib_ok qb_ok). Qed.

Theorem C14_ratio_ubig_abs : forall n d u, 0 < d -> 0 <= u ->
  Some (qrepr_cmp_ubig E egt ib qb true n d u) = spec_abs_cmp (XFin n d) (XFin u 1).
Proof. exact (qrepr_cmp_ubig_abs E egt ib qb lo_ok hi_ok egt_sound ib_ok qb_ok). Qed.

Theorem C14_ratio_ibig_ord : forall n d i, 0 < d ->
  Some (qrepr_cmp_ibig E egt ib qb false n d i) = spec_cmp (XFin n d) (XFin i 1).
Proof. exact (qrepr_cmp_ibig_ord E egt ib qb lo_ok hi_ok egt_sound ib_ok qb_ok). Qed.

Theorem C14_ratio_ibig_abs : forall n d i, 0 < d ->
  Some (qrepr_cmp_ibig E egt ib qb true n d i) = spec_abs_cmp (XFin n d) (XFin i 1).
Proof. exact (qrepr_cmp_ibig_abs E egt ib qb lo_ok hi_ok egt_sound ib_ok qb_ok). Qed.

Theorem C14_ratio_float_ord : forall n d B s e, 0 < d -> 2 <= B ->
  Some (qrepr_cmp_fbig E egt fb qb false n d B s e) = spec_cmp (XFin n d) (fval B s e).
Proof. exact (qrepr_cmp_fbig_ord E egt fb qb lo_ok hi_ok egt_sound fb_ok qb_ok). Qed.

Theorem C14_ratio_float_abs : forall n d B s e, 0 < d -> 2 <= B ->
  Some (qrepr_cmp_fbig E egt fb qb true n d B s e) = spec_abs_cmp (XFin n d) (fval B s e).
Proof. exact (qrepr_cmp_fbig_abs E egt fb qb lo_ok hi_ok egt_sound fb_ok qb_ok). Qed.
End PinnedEstimator.
Print Assumptions C14_num_ord_all_pairs.
Print Assumptions C14_num_ord_nan.
Print Assumptions C14_abs_ord_all_pairs.
Print Assumptions C14_float_same_base_ord.
Print Assumptions C14_float_ubig_ord.
Print Assumptions C14_float_ubig_abs.
Print Assumptions C14_float_ibig_ord.
Print Assumptions C14_float_ibig_abs.
Print Assumptions C14_float_float_ord.
Print Assumptions C14_ratio_ubig_ord.
Print Assumptions C14_ratio_ubig_abs.
Print Assumptions C14_ratio_ibig_ord.
Print Assumptions C14_ratio_ibig_abs.
Print Assumptions C14_ratio_float_ord.
Print Assumptions C14_ratio_float_abs.

Theorem C14_ubig_primfloat_ord : forall x mb eb bits, 0 <= x -> 0 <= mb -> 1 <= eb ->
  ubig_cmp_prim x mb eb bits = spec_cmp (XFin x 1) (value_of (OPrim mb eb bits)).
Proof. exact ubig_cmp_prim_ord. Qed.
Print Assumptions C14_ubig_primfloat_ord.

Theorem C14_ibig_primfloat_ord : forall x mb eb bits, 0 <= mb -> 1 <= eb ->
  ibig_cmp_prim x mb eb bits = spec_cmp (XFin x 1) (value_of (OPrim mb eb bits)).
Proof. exact ibig_cmp_prim_ord. Qed.
Print Assumptions C14_ibig_primfloat_ord.

Theorem C14_float_primfloat_ord : forall B s e mb eb bits, 2 <= B -> 0 <= mb -> 1 <= eb ->
  frepr_cmp_prim B s e mb eb bits = spec_cmp (fval B s e) (value_of (OPrim mb eb bits)).
Proof. exact frepr_cmp_prim_ord. Qed.
Print Assumptions C14_float_primfloat_ord.

Theorem C14_ratio_primfloat_ord : forall n d mb eb bits, 0 < d -> 0 <= mb -> 1 <= eb ->
  qrepr_cmp_prim n d mb eb bits = spec_cmp (XFin n d) (value_of (OPrim mb eb bits)).
Proof. exact qrepr_cmp_prim_ord. Qed.
Print Assumptions C14_ratio_primfloat_ord.

Theorem C14_ratio_ratio_ord : forall n1 d1 n2 d2, 0 < d1 -> 0 < d2 ->
  Some (qrepr_cmp false n1 d1 n2 d2) = spec_cmp (XFin n1 d1) (XFin n2 d2).
Proof. exact qrepr_cmp_ord. Qed.
Print Assumptions C14_ratio_ratio_ord.

Theorem C14_ratio_ratio_abs : forall n1 d1 n2 d2, 0 < d1 -> 0 < d2 ->
  Some (qrepr_cmp true n1 d1 n2 d2) = spec_abs_cmp (XFin n1 d1) (XFin n2 d2).
Proof. exact qrepr_cmp_abs. Qed.
Print Assumptions C14_ratio_ratio_abs.

Theorem C14_ratio_num_eq : forall n1 d1 n2 d2, 0 < d1 -> 0 < d2 ->
  qrepr_eq n1 d1 n2 d2 = true <-> spec_cmp (XFin n1 d1) (XFin n2 d2) = Some Eq.
Proof. exact qrepr_eq_spec. Qed.
Print Assumptions C14_ratio_num_eq.

(** THE PROPERTY, second sentence.  Numerically equal numbers of different types (integers, floats of any base,
    rationals with a denominator that is invertible in the hash field) feed the hasher the same i128. *)
Theorem C14_equal_values_equal_hash : forall a b n1 d1 n2 d2 ha hb,
  match a with TF B _ _ => 2 <= B | TQ _ d => 0 < d | _ => True end ->
  match b with TF B _ _ => 2 <= B | TQ _ d => 0 < d | _ => True end ->
  frac_of a = Some (n1, d1) -> frac_of b = Some (n2, d2) -> n1 * d2 = n2 * d1 ->
  hash_asis a = Some ha -> hash_asis b = Some hb -> ha = hb.
Proof. exact hash_equal_values. Qed.
Print Assumptions C14_equal_values_equal_hash.

Theorem C14_frac_of_is_value : forall t n d, frac_of t = Some (n, d) -> value_of (untag t) = XFin n d.
Proof. exact frac_of_value. Qed.
Print Assumptions C14_frac_of_is_value.

(** the executable hash specification the oracle judges with is that same function of the value *)
Theorem C14_hash_is_spec : forall a n d h i,
  match a with TF B _ _ => 2 <= B | TQ _ d => 0 < d | _ => True end ->
  frac_of a = Some (n, d) -> hash_asis a = Some h -> minv_euclid (d / Z.gcd n d) = Some i ->
  h = spec_hash_fin n d.
Proof. exact hash_asis_is_spec. Qed.
Print Assumptions C14_hash_is_spec.

(** The contract is satisfiable by an estimator that really filters (integer floor / ceiling logarithms, exact digit
    counts): run with it, the transcribed bodies are an executable form of the specification.  The oracle uses
    these where an exponent is too large to write the exact value down. *)
Theorem C14_ord_run_is_spec : forall a b r, wf a -> wf b -> ord_run a b = Some r -> r = spec_cmp (val a) (val b).
Proof. exact ord_run_is_spec. Qed.
Print Assumptions C14_ord_run_is_spec.

Theorem C14_abs_run_is_spec : forall a b c, wf a -> wf b -> abs_run a b = Some c -> Some c = spec_abs_cmp (val a) (val b).
Proof. exact abs_run_is_spec. Qed.
Print Assumptions C14_abs_run_is_spec.

Theorem C14_fsame_run_is_spec : forall B s1 e1 s2 e2, 2 <= B -> fwf s1 e1 -> fwf s2 e2 ->
  Some (fsame_run B s1 e1 s2 e2) = spec_cmp (fval B s1 e1) (fval B s2 e2).
Proof. exact fsame_run_is_spec. Qed.
Print Assumptions C14_fsame_run_is_spec.

(** ------------------------------------------------------------------------------------------------
    Deepening round 3.  The f32 arithmetic of EstimatedLog2::log2_bounds / Repr::digits_ub (std build), transcribed
    on Flocq's binary32 (Cross/XLog2Model.v), satisfies the estimator contract above: it is no longer an assumption
    but a theorem modulo ONE assumption about libm, [lg_contract lg]: f32::log2 of an integer in [1, 2^24] is finite
    and its two f32 neighbours enclose the exact logarithm. *)

(** the assumption is satisfiable: the correctly rounded logarithm meets it *)
Theorem C14_libm_contract_inhabited : lg_contract lg_nearest.
Proof. exact lg_nearest_ok. Qed.
Print Assumptions C14_libm_contract_inhabited.

(** the shift addition: est + shift rounded to nearest, then one step outwards, keeps a one-step enclosure *)
Theorem C14_f32_shift_lower : forall p k, generic_format radix2 (FLT_exp (3 - 128 - 24) 24) p -> (0 < p)%R ->
  cexp radix2 (FLT_exp (3 - 128 - 24) 24) p <= 0 -> 0 <= k ->
  (pred radix2 (FLT_exp (3 - 128 - 24) 24)
     (round radix2 (FLT_exp (3 - 128 - 24) 24) ZnearestE (succ radix2 (FLT_exp (3 - 128 - 24) 24) p + IZR k)) <= p + IZR k)%R.
Proof. exact shift_lower. Qed.
Print Assumptions C14_f32_shift_lower.

Theorem C14_f32_shift_upper : forall b k, generic_format radix2 (FLT_exp (3 - 128 - 24) 24) b -> (0 < b)%R ->
  cexp radix2 (FLT_exp (3 - 128 - 24) 24) b <= 0 -> 0 <= k ->
  (succ radix2 (FLT_exp (3 - 128 - 24) 24) b + IZR k <=
   succ radix2 (FLT_exp (3 - 128 - 24) 24) (round radix2 (FLT_exp (3 - 128 - 24) 24) ZnearestE (b + IZR k)))%R.
Proof. exact shift_upper. Qed.
Print Assumptions C14_f32_shift_upper.

(** impl_log2_bounds_for_uint (std), every unsigned type up to u128: finite bounds that enclose log2 x *)
Theorem C14_f32_uint_log2_bounds : forall lg, lg_contract lg -> forall x, 1 <= x < 2 ^ 128 ->
  encl 130 (fst (u_log2_bounds lg x)) (snd (u_log2_bounds lg x)) (log2R (IZR x)) /\
  (2 <= x -> (0 <= B2R (fst (u_log2_bounds lg x)))%R).
Proof. exact u_log2_sound. Qed.
Print Assumptions C14_f32_uint_log2_bounds.

(** rational Repr::log2_bounds (numerator and denominator fit a double word) *)
Theorem C14_f32_ratio_log2_bounds : forall lg, lg_contract lg -> forall w, 8 <= w <= 64 -> forall n d,
  n <> 0 -> 0 < d -> Z.abs n < 2 ^ (2 * w) -> d < 2 ^ (2 * w) ->
  let b := q_log2_bounds lg w n d in
  is_finite (fst b) = true /\ is_finite (snd b) = true /\
  (B2R (fst b) <= log2R (IZR (Z.abs n) / IZR d) <= B2R (snd b))%R.
Proof. exact q_log2_sound. Qed.
Print Assumptions C14_f32_ratio_log2_bounds.

(** float Repr<B>::log2_bounds, as repaired in this round (an outward step after each of the three roundings):
    every base, significands that fit a double word, EVERY exponent of the isize range *)
Theorem C14_f32_float_log2_bounds : forall lg, lg_contract lg -> forall w, 8 <= w <= 64 -> forall B s e,
  2 <= B < 2 ^ 128 -> s <> 0 -> Z.abs s < 2 ^ (2 * w) -> Z.abs e <= 2 ^ 63 ->
  let b := f_log2_bounds lg w B s e in
  is_finite (fst b) = true /\ is_finite (snd b) = true /\
  (B2R (fst b) <= log2R (IZR (Z.abs s)) + IZR e * log2R (IZR B) <= B2R (snd b))%R.
Proof. exact f_log2_sound. Qed.
Print Assumptions C14_f32_float_log2_bounds.

(** Repr::digits_ub over-estimates the number of digits (truncation `as usize`, LOG10_2, the division by log2 B) *)
Theorem C14_f32_digits_ub : forall lg, lg_contract lg -> forall w, 8 <= w <= 64 -> forall B s,
  2 <= B < 2 ^ (2 * w) -> s <> 0 -> Z.abs s < 2 ^ (2 * w) -> Z.abs s < B ^ digits_ub32 lg 64 w B s.
Proof. exact digits_ub_sound. Qed.
Print Assumptions C14_f32_digits_ub.

(** the f32 comparison `a > b` on estimates decides the order of the estimated magnitudes *)
Theorem C14_f32_filter_sound : forall a b x y, lo32 a x -> hi32 b y -> f_gt a b = true -> mlt y x.
Proof. exact f_gt_sound. Qed.
Print Assumptions C14_f32_filter_sound.

(** THE PROPERTY, first sentence, with the library's own f32 estimates: every NumOrd / AbsOrd pair and the
    same-base PartialOrd return the order of the exact values (integer parts within a double word, any exponent) *)
Theorem C14_num_ord_f32 : forall lg, lg_contract lg -> forall w, 8 <= w <= 64 -> forall a b r,
  wf a -> wf b -> dom w a -> dom w b -> ord_raw lg w a b = Some r -> r = spec_cmp (val a) (val b).
Proof. exact ord_raw_correct. Qed.
Print Assumptions C14_num_ord_f32.

Theorem C14_abs_ord_f32 : forall lg, lg_contract lg -> forall w, 8 <= w <= 64 -> forall a b c,
  wf a -> wf b -> dom w a -> dom w b -> abs_raw lg w a b = Some c -> Some c = spec_abs_cmp (val a) (val b).
Proof. exact abs_raw_correct. Qed.
Print Assumptions C14_abs_ord_f32.

Theorem C14_float_same_base_f32 : forall lg, lg_contract lg -> forall w, 8 <= w <= 64 -> forall B s1 e1 s2 e2,
  2 <= B < 2 ^ w -> fwf s1 e1 -> fwf s2 e2 -> Z.abs s1 < 2 ^ (2 * w) -> Z.abs s2 < 2 ^ (2 * w) ->
  Some (fsame_raw lg w B s1 e1 s2 e2) = spec_cmp (fval B s1 e1) (fval B s2 e2).
Proof. exact fsame_raw_correct. Qed.
Print Assumptions C14_float_same_base_f32.

(** ------------------------------------------------------------------------------------------------
    num-order's own NumHash of the primitives (transcribed from num-order 1.2.0 src/hash.rs, Cross/XPrimHashModel.v)
    against the hashing of the big numbers: equal values, equal i128 *)
Theorem C14_prim_int_hash : forall bits (signed : bool) x, (bits = 8 \/ bits = 16 \/ bits = 32 \/ bits = 64 \/ bits = 128) ->
  (if signed then - 2 ^ (bits - 1) <= x < 2 ^ (bits - 1) else 0 <= x < 2 ^ bits) ->
  prim_int_hash bits signed x = int_hash x.
Proof. exact prim_int_hash_eq. Qed.
Print Assumptions C14_prim_int_hash.

Theorem C14_prim_float_hash : forall mb eb bits, 0 <= mb -> mb + 1 < 127 -> 1 <= eb -> 0 <= bits < 2 ^ (mb + eb + 1) ->
  forall man ex t n d hb, decode mb eb bits = DFin man ex ->
  match t with TF B _ _ => 2 <= B | TQ _ d => 0 < d | _ => True end ->
  frac_of t = Some (n, d) -> hash_asis t = Some hb ->
  n * fden 2 ex = fnum 2 man ex * d ->
  prim_float_hash mb eb bits = hb.
Proof. exact prim_float_hash_equal. Qed.
Print Assumptions C14_prim_float_hash.

(** ------------------------------------------------------------------------------------------------
    rationals whose denominator is a multiple of 2^127 - 1 (excluded from C14_equal_values_equal_hash above) *)
Theorem C14_ratio_hash_m127_reduced : forall n d, 0 < d -> Z.gcd n d = 1 -> d mod M127 = 0 ->
  qrepr_hash n d = Some 0 /\ spec_hash_fin n d = 0.
Proof. exact qrepr_hash_m127_reduced. Qed.
Print Assumptions C14_ratio_hash_m127_reduced.

Theorem C14_ratio_hash_any_form : forall n d h, 0 < d -> qrepr_hash n d = Some h ->
  exists n' d', 0 < d' /\ n * d' = n' * d /\
    ((d' mod M127 <> 0 /\ hash_of n' d' h) \/ (d' mod M127 = 0 /\ (n' = 0 \/ Z.rem n' M127 <> 0) /\ h = 0)).
Proof. exact qrepr_hash_any. Qed.
Print Assumptions C14_ratio_hash_any_form.

(** finding F07 (repaired): the float estimator as it was (one outward step for three roundings) returned an upper
    bound below the true logarithm - as-is model of the old code, the libm values of the run, the exact inequality *)
Theorem C14_float_log2_pinned_refuted :
  (B2R (f_of_bits (f_to_bits (snd (f_log2_bounds_pinned lg_tab 64 10 wit_s wit_e)))) <
   log2R (IZR wit_s) + IZR wit_e * log2R 10)%R.
Proof. exact f_log2_pinned_refuted. Qed.
Print Assumptions C14_float_log2_pinned_refuted.

(** ------------------------------------------------------------------------------------------------
    the constants / table-like fragments of the estimators are REGENERATED from the Rust sources on every run
    (coq/gen/XLog2Params.v); the estimators rebuilt over the generated values equal the model the theorems are about *)
Theorem C14_log2_params_tie : forall lg,
  (forall x, u_log2_bounds_p lg x = u_log2_bounds lg x) /\
  (f_to_bits (f_dyadic (2 ^ 23 - large_adjust_eps) (-23)) = f_to_bits c_adj_lo /\
   f_to_bits (f_dyadic (2 ^ 23 + large_adjust_eps) (-23)) = f_to_bits c_adj_hi) /\
  (forall w B s e, f_log2_bounds_p lg w B s e = f_log2_bounds lg w B s e) /\
  (forall ub w B s, digits_ub_p lg ub w B s = digits_ub32 lg ub w B s) /\
  2 ^ fst hash_mersenne - snd hash_mersenne = M127.
Proof.
  intros lg. split; [exact (tie_uint lg) | ]. split; [exact tie_large | ]. split; [exact (tie_float lg) | ].
  split; [exact (tie_digits lg) | exact tie_hash].
Qed.
Print Assumptions C14_log2_params_tie.

(** ------------------------------------------------------------------------------------------------
    integers of ANY size: the multi-word estimator log2_bounds_large (two products with 1 -+ 2^-22) on binary32.
    The error analysis of the products is C12's (Int/GrlLog2StdProof.v, real numbers); finiteness and absence of
    overflow of the IEEE operations are proved here.  Word size 32..64, bit length below 2^62. *)
Theorem C14_f32_large_log2_bounds : forall lg, lg_contract lg -> forall w, 32 <= w <= 64 -> forall x,
  2 ^ (2 * w) <= x -> Z.log2 x < 2 ^ 62 ->
  let b := large_log2_bounds lg w x in
  bd 64 (fst b) /\ bd 64 (snd b) /\ (B2R (fst b) <= log2R (IZR x) <= B2R (snd b))%R /\ (0 <= B2R (fst b))%R.
Proof. exact large_log2_sound. Qed.
Print Assumptions C14_f32_large_log2_bounds.

Theorem C14_f32_ibig_log2_bounds : forall lg, lg_contract lg -> forall w, 32 <= w <= 64 -> forall z,
  z <> 0 -> Z.log2 (Z.abs z) < 2 ^ 62 ->
  let b := ibig_log2_bounds lg w z in
  bd 64 (fst b) /\ bd 64 (snd b) /\ (B2R (fst b) <= log2R (IZR (Z.abs z)) <= B2R (snd b))%R.
Proof. exact ibig_log2_sound. Qed.
Print Assumptions C14_f32_ibig_log2_bounds.

Theorem C14_f32_ratio_log2_bounds_any : forall lg, lg_contract lg -> forall w, 32 <= w <= 64 -> forall n d,
  n <> 0 -> 0 < d -> Z.log2 (Z.abs n) < 2 ^ 62 -> Z.log2 d < 2 ^ 62 ->
  let b := q_log2_bounds lg w n d in
  is_finite (fst b) = true /\ is_finite (snd b) = true /\
  (B2R (fst b) <= log2R (IZR (Z.abs n) / IZR d) <= B2R (snd b))%R.
Proof. exact q_log2_sound_any. Qed.
Print Assumptions C14_f32_ratio_log2_bounds_any.

Theorem C14_f32_float_log2_bounds_any : forall lg, lg_contract lg -> forall w, 32 <= w <= 64 -> forall B s e,
  2 <= B < 2 ^ 128 -> s <> 0 -> Z.log2 (Z.abs s) < 2 ^ 62 -> Z.abs e <= 2 ^ 63 ->
  let b := f_log2_bounds lg w B s e in
  is_finite (fst b) = true /\ is_finite (snd b) = true /\
  (B2R (fst b) <= log2R (IZR (Z.abs s)) + IZR e * log2R (IZR B) <= B2R (snd b))%R.
Proof. exact f_log2_sound_any. Qed.
Print Assumptions C14_f32_float_log2_bounds_any.

(** THE PROPERTY, first sentence, with the library's own f32 estimates and operands of any size a machine can hold *)
Theorem C14_num_ord_f32_any : forall lg, lg_contract lg -> forall w, 32 <= w <= 64 -> forall a b r,
  wf a -> wf b -> dom_any w a -> dom_any w b -> ord_raw lg w a b = Some r -> r = spec_cmp (val a) (val b).
Proof. exact ord_raw_any_correct. Qed.
Print Assumptions C14_num_ord_f32_any.

(** ------------------------------------------------------------------------------------------------
    Deepening round 4.
    (1) Repr::digits_ub and, with it, AbsOrd / the same-base PartialOrd / Ord with the library's RAW estimates for
        significands of any size (multi-word significands go through log2_bounds_large): word size 32..64, bit lengths
        below 2^62, at most 2^24 digits unless the base is 2 *)
Theorem C14_f32_digits_ub_any : forall lg, lg_contract lg -> forall w, 32 <= w <= 64 -> forall B s,
  2 <= B < 2 ^ w -> s <> 0 -> Z.log2 (Z.abs s) < 2 ^ 62 -> (B = 2 \/ Z.abs s < B ^ dub_max) ->
  Z.abs s < B ^ digits_ub32 lg 64 w B s.
Proof. exact digits_ub_sound_any. Qed.
Print Assumptions C14_f32_digits_ub_any.

Theorem C14_abs_ord_f32_any : forall lg, lg_contract lg -> forall w, 32 <= w <= 64 -> forall a b c,
  wf a -> wf b -> dom_any w a -> dom_any w b -> dom_dub a -> dom_dub b ->
  abs_raw lg w a b = Some c -> Some c = spec_abs_cmp (val a) (val b).
Proof. exact abs_raw_any_correct. Qed.
Print Assumptions C14_abs_ord_f32_any.

Theorem C14_float_same_base_f32_any : forall lg, lg_contract lg -> forall w, 32 <= w <= 64 -> forall B s1 e1 s2 e2,
  2 <= B < 2 ^ w -> fwf s1 e1 -> fwf s2 e2 -> Z.log2 (Z.abs s1) < 2 ^ 62 -> Z.log2 (Z.abs s2) < 2 ^ 62 ->
  dub_dom B s1 -> dub_dom B s2 ->
  Some (fsame_raw lg w B s1 e1 s2 e2) = spec_cmp (fval B s1 e1) (fval B s2 e2).
Proof. exact fsame_raw_any_correct. Qed.
Print Assumptions C14_float_same_base_f32_any.

(** (4) the conventions of num-order for the special primitive floats (transcribed, any IEEE format) against dashu's:
    an infinite f32 / f64 feeds the hasher 0, as dashu's infinite floats of any base do; NaN feeds -1; -0.0 hashes
    like +0.0, to the hash 0 of every zero *)
Theorem C14_prim_float_hash_inf : forall mb eb bits s, decode mb eb bits = DInf s -> prim_float_hash mb eb bits = 0.
Proof. exact prim_float_hash_inf. Qed.
Print Assumptions C14_prim_float_hash_inf.

Theorem C14_prim_float_hash_nan : forall mb eb bits, decode mb eb bits = DNaN -> prim_float_hash mb eb bits = -1.
Proof. exact prim_float_hash_nan. Qed.
Print Assumptions C14_prim_float_hash_nan.

Theorem C14_float_inf_hash : forall B e h, frepr_hash B 0 e = Some h -> h = 0.
Proof. exact frepr_hash_zero_sig. Qed.
Print Assumptions C14_float_inf_hash.

Theorem C14_inf_hash_agree : forall mb eb bits s B e h, decode mb eb bits = DInf s ->
  hash_asis (TF B 0 e) = Some h -> prim_float_hash mb eb bits = h.
Proof. exact inf_hash_agree. Qed.
Print Assumptions C14_inf_hash_agree.

Theorem C14_prim_float_hash_zero : forall mb eb bits ex, 0 <= mb -> mb + 1 < 127 -> 1 <= eb -> 0 <= bits < 2 ^ (mb + eb + 1) ->
  decode mb eb bits = DFin 0 ex -> prim_float_hash mb eb bits = 0.
Proof. exact prim_float_hash_zero. Qed.
Print Assumptions C14_prim_float_hash_zero.

(** (3) the impl tables, REGENERATED from {integer,float,rational}/src/third_party/num_order.rs and src/cmp.rs on every
    run (coq/gen/XImplTable.v): exactly the expected pairs exist (finite universe of 21 types, XImplModel.all_xty) ... *)
Theorem C14_impl_table_numord_exact : pairs_exact numord_pairs expected_numord = true.
Proof. exact numord_table_exact. Qed.
Print Assumptions C14_impl_table_numord_exact.

Theorem C14_impl_table_absord_exact : pairs_exact absord_pairs expected_absord = true.
Proof. exact absord_table_exact. Qed.
Print Assumptions C14_impl_table_absord_exact.

Theorem C14_impl_table_numhash_exact : types_exact numhash_types expected_numhash = true.
Proof. exact numhash_table_exact. Qed.
Print Assumptions C14_impl_table_numhash_exact.

Theorem C14_impl_table_numord_bodies : bodies_exact numord_rows expected_body_numord = true.
Proof. exact numord_bodies_exact. Qed.
Print Assumptions C14_impl_table_numord_bodies.

Theorem C14_impl_table_numord_eq : map (fun r => (snd (fst r), snd r)) numord_eq_rows = (XRBig, XRelaxed) :: (XRelaxed, XRBig) :: nil.
Proof. exact numord_eq_overrides. Qed.
Print Assumptions C14_impl_table_numord_eq.

Theorem C14_impl_table_numhash_routes :
  forallb (fun r => match snd (fst r), snd r with
                    | (XFBig | XRBig | XRelaxed), HFwd => true
                    | (XUBig | XIBig | XFRepr | XQRepr), HBody => true
                    | _, _ => false end) numhash_rows = true.
Proof. exact numhash_routes. Qed.
Print Assumptions C14_impl_table_numhash_routes.

(** ... the expected pairs are the support of the model at the level of operand classes ... *)
Theorem C14_impl_numord_model_covers : forall s r, In s all_xty -> In r all_xty -> expected_numord s r = true ->
  ord_class_ok (cls_of s) (cls_of r) = true.
Proof. exact numord_model_covers. Qed.
Print Assumptions C14_impl_numord_model_covers.

Theorem C14_impl_numord_model_served : forall c1 c2, ord_class_ok c1 c2 = true ->
  existsb (fun s => existsb (fun r => expected_numord s r && cls_eqb (cls_of s) c1 && cls_eqb (cls_of r) c2) all_xty) all_xty = true.
Proof. exact numord_model_served. Qed.
Print Assumptions C14_impl_numord_model_served.

Theorem C14_impl_numord_support : forall E egt ib fb qb a b,
  ord_asis E egt ib fb qb a b <> None <-> ord_class_ok (cls_tag a) (cls_tag b) = true.
Proof. exact ord_support. Qed.
Print Assumptions C14_impl_numord_support.

Theorem C14_impl_absord_model_covers : forall s r, In s all_xty -> In r all_xty -> expected_absord s r = true ->
  abs_class_ok (cls_of s) (cls_of r) = true.
Proof. exact absord_model_covers. Qed.
Print Assumptions C14_impl_absord_model_covers.

Theorem C14_impl_absord_support : forall E egt ib fb qb dub a b,
  abs_asis E egt ib fb qb dub a b <> None -> abs_class_ok (cls_tag a) (cls_tag b) = true.
Proof. exact abs_support. Qed.
Print Assumptions C14_impl_absord_support.

(** ... and every impl whose body is ONE call (a forwarding to another impl, a conversion of the primitive operand followed
    by a comparison, a call of repr_cmp_* with or without `.reverse()`), interpreted over the transcribed bodies, is the
    entry of the model for the classes of its two types: for every estimator, all operands *)
Theorem C14_impl_numord_routes : forall E egt ib fb qb c s r rt, In (c, s, r, rt) numord_rows ->
  forall a b, wf a -> wf b -> cls_tag a = cls_of s -> cls_tag b = cls_of r ->
  ord_route_sem E egt ib fb qb rt a b = ord_asis E egt ib fb qb a b.
Proof. exact numord_rows_sound. Qed.
Print Assumptions C14_impl_numord_routes.

Theorem C14_impl_absord_routes : forall E egt ib fb qb dub c s r rt, In (c, s, r, rt) absord_rows ->
  forall a b, wf a -> wf b -> cls_tag a = cls_of s -> cls_tag b = cls_of r ->
  abs_route_sem E egt ib fb qb dub rt a b = abs_asis E egt ib fb qb dub a b.
Proof. exact absord_rows_sound. Qed.
Print Assumptions C14_impl_absord_routes.
