(** C04 - rational arithmetic is exact and RBig stays in lowest terms.
    ONLY statements pinned here; proofs live in Dashu.Ratio.RatArith*.
    rat = (numerator, denominator) : Z * Z;  Inv x = 0 < snd x /\ gcd (fst x) (snd x) = 1;
    *_asis = transcription of the Rust code (RBig), x*_asis = Relaxed, *_spec = canonical exact rational. *)
From Coq Require Import QArith Qabs.
From Dashu Require Import Base.Prelude Ratio.RatArithModel Ratio.RatArithCanon Ratio.RatArithProofs
  Ratio.RatArithConst Ratio.RatArithRelaxed Ratio.RatArithQ Ratio.RatArithHistory Ratio.RatArithSummary
  Ratio.RatArithRelaxedInv Ratio.RatioAtoms Ratio.RatioBodiesModel Ratio.RatioBodiesProof
  Int.BitsKernels Ratio.Reduce2WordsModel Ratio.Reduce2WordsProof
  Ratio.RatioAtoms4 Ratio.RatioBodies4Model Ratio.RatioBodies4Proof.
From DashuGen Require Import RatioBodies RatioBodies4.
Open Scope Z_scope.

(* ------------------------------------------------------------ the canonical form *)
Theorem C04_canon_invariant : forall n d, 0 < d -> Inv (canon n d).
Proof. exact canon_Inv. Qed.
Print Assumptions C04_canon_invariant.

Theorem C04_canon_value : forall n d, 0 < d -> (toQ (canon n d) == n # Z.to_pos d)%Q.
Proof. exact toQ_canon. Qed.
Print Assumptions C04_canon_value.

Theorem C04_canon_zero : forall d, 0 < d -> canon 0 d = (0, 1).
Proof. exact canon_zero. Qed.
Print Assumptions C04_canon_zero.

Theorem C04_lowest_terms_unique : forall x y, Inv x -> Inv y -> veq x y -> x = y.
Proof. exact Inv_unique. Qed.
Print Assumptions C04_lowest_terms_unique.

(* ------------------------------------------------------------ reduction and constructors *)
Theorem C04_reduce : forall n d, 0 < d -> reduce_asis (n, d) = canon n d.
Proof. exact reduce_asis_canon. Qed.
Print Assumptions C04_reduce.

Theorem C04_reduce_with_hint : forall n d hint, 0 < d -> (Z.gcd n d | hint) ->
  reduce_with_hint_asis (n, d) hint = canon n d.
Proof. exact reduce_with_hint_canon. Qed.
Print Assumptions C04_reduce_with_hint.

Theorem C04_add_hint_divides : forall a b' c d' g,
  Z.gcd b' d' = 1 -> Z.gcd a b' = 1 -> Z.gcd c d' = 1 -> (Z.gcd (d' * a + b' * c) (g * b' * d') | g).
Proof. exact add_hint_divides. Qed.
Print Assumptions C04_add_hint_divides.

Theorem C04_from_parts : forall n d, 0 <= d -> from_parts_asis n d = from_parts_spec n d.
Proof. exact from_parts_asis_spec. Qed.
Print Assumptions C04_from_parts.

Theorem C04_from_parts_signed : forall n d, from_parts_signed_asis n d = from_parts_signed_spec n d.
Proof. exact from_parts_signed_asis_spec. Qed.
Print Assumptions C04_from_parts_signed.

Theorem C04_from_parts_const : forall s n d, 0 <= n -> 0 <= d ->
  from_parts_const_asis s n d = from_parts_const_spec s n d.
Proof. exact from_parts_const_asis_spec. Qed.
Print Assumptions C04_from_parts_const.

Theorem C04_const_gcd_loop_terminates : forall n d, 0 < d -> cgcd_loop (cgcd_fuel d) d (n mod d) <> None.
Proof. exact cgcd_fuel_enough. Qed.
Print Assumptions C04_const_gcd_loop_terminates.

Theorem C04_constructors_invariant : forall n d r,
  (0 <= d -> from_parts_spec n d = Ok r -> Inv r /\ (toQ r == n # Z.to_pos d)%Q) /\
  (from_parts_signed_spec n d = Ok r -> Inv r) /\
  (forall s, 0 <= d -> from_parts_const_spec s n d = Ok r -> Inv r) /\
  (parse_spec n d = Ok r -> Inv r).
Proof. exact constructors_invariant_ok. Qed.
Print Assumptions C04_constructors_invariant.

Theorem C04_parse : forall n d, parse_asis n d = parse_spec n d.
Proof. exact parse_asis_spec. Qed.
Print Assumptions C04_parse.

(* ------------------------------------------------------------ + - * / % rem_euclid on RBig *)
Theorem C04_binop_model_is_spec : forall o x y, Inv x -> Inv y -> bin_asis o x y = bin_spec o x y.
Proof. exact bin_asis_spec. Qed.
Print Assumptions C04_binop_model_is_spec.

Theorem C04_binop_invariant : forall o x y r, RInv x -> RInv y -> bin_spec o x y = Ok r -> Inv r.
Proof. exact bin_spec_Inv. Qed.
Print Assumptions C04_binop_invariant.

Theorem C04_binop_exact_in_Q : forall o x y r, RInv x -> RInv y -> bin_spec o x y = Ok r ->
  match o with
  | OAdd => toQ r == toQ x + toQ y
  | OSub => toQ r == toQ x - toQ y
  | OMul => toQ r == toQ x * toQ y
  | ODiv => toQ r == toQ x / toQ y
  | ORem => exists n : Z, toQ x == toQ y * inject_Z n + toQ r /\ Qabs (toQ r) * (2 # 1) <= Qabs (toQ y)
  | ORemE => exists n : Z, toQ x == toQ y * inject_Z n + toQ r /\ 0 <= toQ r /\ toQ r < Qabs (toQ y)
  end%Q.
Proof. exact bin_spec_Q. Qed.
Print Assumptions C04_binop_exact_in_Q.

Theorem C04_binop_panics_iff_zero_divisor : forall o x y,
  (exists r, bin_spec o x y = Ok r /\ ((o = ODiv \/ o = ORem \/ o = ORemE) -> fst y <> 0)) \/
  (bin_spec o x y = Panic DivideBy0 /\ (o = ODiv \/ o = ORem \/ o = ORemE) /\ fst y = 0).
Proof. exact bin_spec_panic. Qed.
Print Assumptions C04_binop_panics_iff_zero_divisor.

Theorem C04_centred_remainder : forall left right, 0 < right ->
  centred_rem left right = left - right * rha left right /\ 2 * Z.abs (left - right * rha left right) <= right.
Proof. exact centred_remainder_ok. Qed.
Print Assumptions C04_centred_remainder.

Theorem C04_div_rem_euclid : forall x y, Inv x -> Inv y ->
  dive_asis x y = dive_spec x y /\ divreme_asis x y = divreme_spec x y.
Proof. exact div_rem_euclid_ok. Qed.
Print Assumptions C04_div_rem_euclid.

Theorem C04_div_rem_euclid_exact_in_Q : forall x y q r, RInv x -> RInv y -> divreme_spec x y = Ok (q, r) ->
  (toQ x == toQ y * inject_Z q + toQ r /\ 0 <= toQ r /\ toQ r < Qabs (toQ y))%Q.
Proof. exact divreme_spec_Q. Qed.
Print Assumptions C04_div_rem_euclid_exact_in_Q.

(* ------------------------------------------------------------ neg abs inv sqr cubic signum fract, pow, Sign *)
Theorem C04_unop_model_is_spec : forall o x, Inv x -> un_asis o x = un_spec o x.
Proof. exact un_asis_spec. Qed.
Print Assumptions C04_unop_model_is_spec.

Theorem C04_unop_invariant : forall o x r, RInv x -> un_spec o x = Ok r -> Inv r.
Proof. exact un_spec_Inv. Qed.
Print Assumptions C04_unop_invariant.

Theorem C04_unop_exact_in_Q : forall o x r, RInv x -> un_spec o x = Ok r ->
  match o with
  | UNeg => toQ r == - toQ x
  | UAbs => toQ r == Qabs (toQ x)
  | UInv => toQ r == / toQ x
  | USqr => toQ r == toQ x * toQ x
  | UCubic => toQ r == toQ x * toQ x * toQ x
  | USignum => toQ r == inject_Z (Z.sgn (fst x))
  | UFract => toQ x == inject_Z (trunc_spec x) + toQ r
  end%Q.
Proof. exact un_spec_Q. Qed.
Print Assumptions C04_unop_exact_in_Q.

Theorem C04_pow : forall x e, Inv x -> 0 <= e ->
  pow_asis x e = pow_spec x e /\ Inv (pow_spec x e) /\
  pow_spec x 0 = (1, 1) /\ Ok (pow_spec x (Z.succ e)) = bin_spec OMul (pow_spec x e) x.
Proof. exact pow_ok. Qed.
Print Assumptions C04_pow.

Theorem C04_mul_sign : forall s x, Inv x -> mulsign_asis s x = mulsign_spec s x /\ Inv (mulsign_spec s x).
Proof. exact mul_sign_ok. Qed.
Print Assumptions C04_mul_sign.

(* ------------------------------------------------------------ mixed operations with integers *)
Theorem C04_intop_model_is_spec : forall u o x i, Inv x -> (u = true -> 0 <= i) -> int_asis u o x i = int_spec o x i.
Proof. exact int_asis_spec. Qed.
Print Assumptions C04_intop_model_is_spec.

Theorem C04_intop_invariant : forall o x i r, RInv x -> int_spec o x i = Ok r -> Inv r.
Proof. exact int_spec_Inv. Qed.
Print Assumptions C04_intop_invariant.

Theorem C04_intop_is_binop_with_integer : forall o x i, int_spec o x i =
  match o with
  | IAdd => bin_spec OAdd x (i, 1) | ISub => bin_spec OSub x (i, 1) | IMul => bin_spec OMul x (i, 1)
  | IDiv => bin_spec ODiv x (i, 1) | IRsub => bin_spec OSub (i, 1) x | IRdiv => bin_spec ODiv (i, 1) x
  end.
Proof. exact int_spec_as_bin. Qed.
Print Assumptions C04_intop_is_binop_with_integer.

(* ------------------------------------------------------------ round.rs helpers producing RBig / integers *)
Theorem C04_split_round : forall x, Inv x ->
  split_asis x = split_spec x /\ Inv (snd (split_spec x)) /\ trunc_asis x = trunc_spec x /\
  floor_asis x = floor_spec x /\ ceil_asis x = ceil_spec x /\ round_asis x = round_spec x.
Proof. exact split_round_ok. Qed.
Print Assumptions C04_split_round.

(* ------------------------------------------------------------ Relaxed *)
Theorem C04_relaxed_reduce2 : forall n d, 0 < d -> exists r, reduce2_asis (n, d) = Ok r /\ RInv r /\ veq r (n, d).
Proof. exact reduce2_asis_ok. Qed.
Print Assumptions C04_relaxed_reduce2.

Theorem C04_relaxed_constructors : forall n d,
  (0 <= d -> res_veq (xfrom_parts_asis n d) (from_parts_spec n d)) /\
  res_veq (xfrom_parts_signed_asis n d) (from_parts_signed_spec n d) /\
  (forall s, 0 <= n -> 0 <= d -> res_veq (xfrom_parts_const_asis s n d) (from_parts_const_spec s n d)).
Proof. exact relaxed_constructors_ok. Qed.
Print Assumptions C04_relaxed_constructors.

Theorem C04_relaxed_binop_exact : forall o x y, RInv x -> RInv y -> res_veq (xbin_asis o x y) (bin_spec o x y).
Proof. exact xbin_asis_spec. Qed.
Print Assumptions C04_relaxed_binop_exact.

Theorem C04_relaxed_intop_exact : forall u o x i, RInv x -> (u = true -> 0 <= i) ->
  res_veq (xint_asis u o x i) (int_spec o x i).
Proof. exact xint_asis_spec. Qed.
Print Assumptions C04_relaxed_intop_exact.

Theorem C04_relaxed_unop_exact : forall o x, RInv x -> res_veq (xun_asis o x) (un_spec o x).
Proof. exact xun_asis_spec. Qed.
Print Assumptions C04_relaxed_unop_exact.

Theorem C04_relaxed_pow_exact : forall x e, RInv x -> 0 <= e -> res_veq (Ok (xpow_asis x e)) (Ok (pow_spec x e)).
Proof. exact xpow_asis_spec. Qed.
Print Assumptions C04_relaxed_pow_exact.

Theorem C04_relaxed_parse : forall n d,
  res_veq (xparse_asis n d) (parse_spec n d) \/ (d = 0 /\ xparse_asis n d = Err 0 /\ parse_spec n d = Err 0).
Proof. exact xparse_asis_spec. Qed.
Print Assumptions C04_relaxed_parse.

Theorem C04_spec_depends_on_value_only : forall o x y x0 y0,
  RInv x -> RInv y -> RInv x0 -> RInv y0 -> veq x x0 -> veq y y0 -> bin_spec o x y = bin_spec o x0 y0.
Proof. exact bin_spec_congr. Qed.
Print Assumptions C04_spec_depends_on_value_only.

Theorem C04_relaxed_equals_rbig_binop : forall o x' y' x y,
  RInv x' -> RInv y' -> Inv x -> Inv y -> veq x' x -> veq y' y -> res_veq (xbin_asis o x' y') (bin_asis o x y).
Proof. exact relaxed_bin_eq_rbig. Qed.
Print Assumptions C04_relaxed_equals_rbig_binop.

Theorem C04_relaxed_equals_rbig_intop : forall u o x' x i,
  RInv x' -> Inv x -> veq x' x -> (u = true -> 0 <= i) -> res_veq (xint_asis u o x' i) (int_asis u o x i).
Proof. exact relaxed_int_eq_rbig. Qed.
Print Assumptions C04_relaxed_equals_rbig_intop.

Theorem C04_relaxed_equals_rbig_unop : forall o x' x,
  RInv x' -> Inv x -> veq x' x -> res_veq (xun_asis o x') (un_asis o x).
Proof. exact relaxed_un_eq_rbig. Qed.
Print Assumptions C04_relaxed_equals_rbig_unop.

Theorem C04_relaxed_equals_rbig_pow : forall x' x e,
  RInv x' -> Inv x -> veq x' x -> 0 <= e -> res_veq (Ok (xpow_asis x' e)) (Ok (pow_asis x e)).
Proof. exact relaxed_pow_eq_rbig. Qed.
Print Assumptions C04_relaxed_equals_rbig_pow.

Theorem C04_relaxed_div_rem_euclid : forall x y, RInv x -> RInv y -> res_veq_q (xdivreme_asis x y) (divreme_spec x y).
Proof. exact xdivreme_asis_spec. Qed.
Print Assumptions C04_relaxed_div_rem_euclid.

(* ------------------------------------------------------------ Relaxed: reduction by powers of two only *)
Theorem C04_relaxed_reduce2_removes_all_common_twos : forall n d r, 0 < d -> reduce2_asis (n, d) = Ok r -> RInv2 r.
Proof. exact reduce2_asis_RInv2. Qed.
Print Assumptions C04_relaxed_reduce2_removes_all_common_twos.

Theorem C04_relaxed_binop_no_common_two : forall o x y r, RInv x -> RInv y -> xbin_asis o x y = Ok r -> RInv2 r.
Proof. exact xbin_asis_RInv2. Qed.
Print Assumptions C04_relaxed_binop_no_common_two.

Theorem C04_relaxed_intop_no_common_two : forall u o x i r,
  RInvE x -> (u = true -> 0 <= i) -> xint_asis u o x i = Ok r -> RInvE r.
Proof. exact xint_asis_RInvE. Qed.
Print Assumptions C04_relaxed_intop_no_common_two.

Theorem C04_relaxed_unop_no_common_two : forall o x r, RInvE x -> xun_asis o x = Ok r -> RInvE r.
Proof. exact xun_asis_RInvE. Qed.
Print Assumptions C04_relaxed_unop_no_common_two.

Theorem C04_relaxed_pow_no_common_two : forall x e, RInvE x -> 0 <= e -> RInvE (xpow_asis x e).
Proof. exact xpow_asis_RInvE. Qed.
Print Assumptions C04_relaxed_pow_no_common_two.

Theorem C04_relaxed_from_parts_const_no_common_two : forall s n d r,
  0 <= n -> 0 <= d -> xfrom_parts_const_asis s n d = Ok r -> RInvE r.
Proof. exact xfrom_parts_const_asis_RInvE. Qed.
Print Assumptions C04_relaxed_from_parts_const_no_common_two.

Theorem C04_history_relaxed_no_common_two : forall ops p, Forall RInvE p -> Forall RInvE (hrun heval_xasis ops p).
Proof. exact hrun_xasis_RInvE. Qed.
Print Assumptions C04_history_relaxed_no_common_two.

Theorem C04_relaxed_zero_not_normalised_by_integer_sums :
  RInvE (3, 3) /\ xint_asis false ISub (3, 3) 1 = Ok (0, 3) /\ ~ RInv2 (0, 3) /\ RInvE (0, 3).
Proof. exact xint_zero_not_normalised. Qed.
Print Assumptions C04_relaxed_zero_not_normalised_by_integer_sums.

(* ------------------------------------------------------------ all finite histories *)
Theorem C04_history_invariant_and_exact : forall ops p, Forall Inv p ->
  hrun heval_asis ops p = hrun heval_spec ops p /\ Forall Inv (hrun heval_asis ops p).
Proof. exact hrun_asis_spec. Qed.
Print Assumptions C04_history_invariant_and_exact.

Theorem C04_history_relaxed_lock_step : forall ops px p, PoolRel px p -> Forall Inv p ->
  PoolRel (hrun heval_xasis ops px) (hrun heval_asis ops p).
Proof. exact hrun_relaxed. Qed.
Print Assumptions C04_history_relaxed_lock_step.

Theorem C04_history_step_fails_only_by_division_by_zero : forall p o,
  (exists r, heval_spec p o = Ok r) \/ heval_spec p o = Panic DivideBy0.
Proof. exact heval_spec_total. Qed.
Print Assumptions C04_history_step_fails_only_by_division_by_zero.

Theorem C04_history_panics_agree : forall px p o, PoolRel px p -> Forall Inv p ->
  forall q, heval_xasis px o = Panic q <-> heval_asis p o = Panic q.
Proof. exact hstep_panic_agree. Qed.
Print Assumptions C04_history_panics_agree.

(* ------------------------------------------------------------ the repaired defects, as they were *)
Theorem C04_inv_zero_before_fix_refuted :
  exists r, inv_before_fix (0, 1) = Ok r /\ ~ Inv r /\ un_spec UInv (0, 1) = Panic DivideBy0.
Proof. exact inv_before_fix_refuted. Qed.
Print Assumptions C04_inv_zero_before_fix_refuted.

Theorem C04_parse_zero_denominator_before_fix_refuted :
  exists r, parse_before_fix 1 0 = Ok r /\ ~ Inv r /\ parse_spec 1 0 = Err 0.
Proof. exact parse_before_fix_refuted. Qed.
Print Assumptions C04_parse_zero_denominator_before_fix_refuted.

(* ------------------------------------------------------------ round 3: the bodies REGENERATED from the Rust source
   (coq/gen/RatioBodies.v, tools/translate_c04_r3.py: one definition per impl_binop_with_macro! / impl_binop_with_int!
   invocation of rational/src/{add,mul,div}.rs, plus Repr::reduce/reduce_with_hint/reduce2/sqr/cubic/pow/inv/neg/abs,
   signum, `* Sign`, split_at_point/ceil/floor/trunc/fract/round and from_parts/from_parts_signed/is_zero/is_one/is_int); gbin/gxbin/gint/gxint/... only dispatch on the operator *)
Theorem C04_gen_constructors : forall n d,
  (0 < d -> gen_reduce (n, d) = canon n d) /\
  (forall hint, 0 < d -> (Z.gcd n d | hint) -> gen_reduce_with_hint (n, d) hint = canon n d) /\
  (0 < d -> exists r, gen_reduce2 (n, d) = Ok r /\ RInv2 r /\ veq r (n, d)) /\
  (0 <= d -> gen_RBig_from_parts n d = from_parts_spec n d) /\
  gen_RBig_from_parts_signed n d = from_parts_signed_spec n d /\
  (0 <= d -> res_veq (gen_Relaxed_from_parts n d) (from_parts_spec n d)) /\
  res_veq (gen_Relaxed_from_parts_signed n d) (from_parts_signed_spec n d).
Proof. exact gen_constructors_ok. Qed.
Print Assumptions C04_gen_constructors.

Theorem C04_gen_binop_is_spec : forall o x y, Inv x -> Inv y ->
  gbin o x y = bin_spec o x y /\ (forall r, gbin o x y = Ok r -> Inv r).
Proof. exact gbin_spec. Qed.
Print Assumptions C04_gen_binop_is_spec.

Theorem C04_gen_relaxed_binop_exact : forall o x y, RInv x -> RInv y ->
  res_veq (gxbin o x y) (bin_spec o x y) /\ (forall r, gxbin o x y = Ok r -> RInv2 r).
Proof. exact gxbin_spec. Qed.
Print Assumptions C04_gen_relaxed_binop_exact.

Theorem C04_gen_div_rem_euclid : forall x y, Inv x -> Inv y ->
  gdive x y = dive_spec x y /\ gdivreme x y = divreme_spec x y.
Proof. exact geuclid_spec. Qed.
Print Assumptions C04_gen_div_rem_euclid.

Theorem C04_gen_relaxed_div_rem_euclid : forall x y, RInv x -> RInv y ->
  gxdive x y = dive_spec x y /\ res_veq_q (gxdivreme x y) (divreme_spec x y).
Proof. exact gxeuclid_spec. Qed.
Print Assumptions C04_gen_relaxed_div_rem_euclid.

Theorem C04_gen_intop_is_spec : forall l u o x i, Inv x -> (u = true -> 0 <= i) ->
  gint l u o x i = int_spec o x i /\ (forall r, gint l u o x i = Ok r -> Inv r).
Proof. exact gint_spec. Qed.
Print Assumptions C04_gen_intop_is_spec.

Theorem C04_gen_relaxed_intop_exact : forall l u o x i, RInvE x -> (u = true -> 0 <= i) ->
  res_veq (gxint l u o x i) (int_spec o x i) /\ (forall r, gxint l u o x i = Ok r -> RInvE r).
Proof. exact gxint_spec. Qed.
Print Assumptions C04_gen_relaxed_intop_exact.

Theorem C04_gen_unop_is_spec : forall x_ o x, Inv x ->
  gun x_ o x = un_spec o x /\ (forall v, gun x_ o x = Ok v -> Inv v).
Proof. exact gun_spec. Qed.
Print Assumptions C04_gen_unop_is_spec.

Theorem C04_gen_relaxed_unop_exact : forall o x, RInvE x ->
  res_veq (gun true o x) (un_spec o x) /\ (forall v, gun true o x = Ok v -> RInvE v).
Proof. exact gxun_spec. Qed.
Print Assumptions C04_gen_relaxed_unop_exact.

Theorem C04_gen_sign_split_round : forall x_ s x, Inv x ->
  gmulsign x_ s x = mulsign_spec s x /\ gsplit x = split_spec x /\ Inv (snd (split_spec x)) /\ gtrunc x = trunc_spec x /\
  gfloor x = floor_spec x /\ gceil x = ceil_spec x /\ ground x = round_spec x.
Proof. exact ground_family_spec. Qed.
Print Assumptions C04_gen_sign_split_round.

Theorem C04_gen_pow : forall x e, Inv x -> 0 <= e -> gpow x e = pow_spec x e /\ Inv (pow_spec x e).
Proof. exact gpow_spec. Qed.
Print Assumptions C04_gen_pow.

Theorem C04_gen_bodies_are_the_transcriptions : forall o x y l u p i,
  gbin o x y = bin_asis o x y /\ gxbin o x y = xbin_asis o x y /\
  gdivreme x y = divreme_asis x y /\ gxdivreme x y = xdivreme_asis x y /\
  gint l u p x i = int_asis u p x i /\ gxint l u p x i = xint_asis u p x i.
Proof. exact gen_bodies_asis. Qed.
Print Assumptions C04_gen_bodies_are_the_transcriptions.

Theorem C04_gen_history_invariant_and_exact : forall ops p, Forall Inv p ->
  hrun heval_gen ops p = hrun heval_spec ops p /\ Forall Inv (hrun heval_gen ops p).
Proof. exact hrun_gen_spec. Qed.
Print Assumptions C04_gen_history_invariant_and_exact.

Theorem C04_gen_history_relaxed_lock_step : forall ops px p, PoolRel px p -> Forall Inv p -> Forall RInvE px ->
  PoolRel (hrun heval_xgen ops px) (hrun heval_gen ops p) /\ Forall RInvE (hrun heval_xgen ops px).
Proof. exact hrun_xgen_lock_step. Qed.
Print Assumptions C04_gen_history_relaxed_lock_step.

Theorem C04_gen_predicates : forall n d, 0 < d ->
  (gen_RBig_is_zero n d = true <-> veq (n, d) (0, 1)) /\
  (gen_Relaxed_is_zero n d = true <-> veq (n, d) (0, 1)) /\
  (gen_Relaxed_is_one n d = true <-> veq (n, d) (1, 1)) /\
  (Inv (n, d) -> (gen_RBig_is_one n d = true <-> veq (n, d) (1, 1)) /\ (gen_RBig_is_int n d = true <-> (d | n))).
Proof. exact gen_predicates_ok. Qed.
Print Assumptions C04_gen_predicates.

(* Repr::reduce2 on the typed magnitudes (inline double word / heap word list, any word size): word scan for
   trailing_zeros, shr_dword / shr_large with carries, floor correction for a negative numerator *)
Theorem C04_reduce2_word_level : forall w, 0 < w -> forall s nr dr, brepr_ok w nr -> brepr_ok w dr ->
  match reduce2_words w s nr dr with
  | Ok (n', d') => reduce2_asis (signed s (bvalue w nr), bvalue w dr) = Ok (n', bvalue w d') /\ brepr_ok w d'
  | Panic p => reduce2_asis (signed s (bvalue w nr), bvalue w dr) = Panic p
  | _ => False
  end.
Proof. exact reduce2_words_correct. Qed.
Print Assumptions C04_reduce2_word_level.

Theorem C04_relaxed_from_parts_word_level : forall w, 0 < w -> forall n d, 0 <= d ->
  xfrom_parts_words w n d = xfrom_parts_asis n d.
Proof. exact xfrom_parts_words_correct. Qed.
Print Assumptions C04_relaxed_from_parts_word_level.

(* exact conversion from f32 / f64 (from the decoded mantissa and exponent on): the dyadic in lowest terms *)
Theorem C04_reduce2_of_dyadic_is_canonical : forall n k, 0 <= k -> reduce2_asis (n, 2 ^ k) = Ok (canon n (2 ^ k)).
Proof. exact reduce2_dyadic_canon. Qed.
Print Assumptions C04_reduce2_of_dyadic_is_canonical.

Theorem C04_from_float_exact_lowest_terms : forall man e,
  from_float_asis man e = Ok (from_float_spec man e) /\ Inv (from_float_spec man e).
Proof. exact from_float_asis_spec. Qed.
Print Assumptions C04_from_float_exact_lowest_terms.

Theorem C04_from_integer : forall v, from_int_asis v = canon v 1 /\ Inv (from_int_asis v).
Proof. exact from_int_asis_spec. Qed.
Print Assumptions C04_from_integer.

(* rational/src/iter.rs is not declared in lib.rs: there is no Sum / Product for RBig / Relaxed to cover *)
Theorem C04_iter_rs_is_not_a_module : gen_ratio_iter_is_a_module = false.
Proof. exact iter_not_a_module. Qed.
Print Assumptions C04_iter_rs_is_not_a_module.

(* ------------------------------------------------------------ round 4: the remaining hand transcriptions REGENERATED
   (coq/gen/RatioBodies4.v, tools/translate_c04_r4.py: clone / clone_from, the impl_binop_assign_by_taking! rows, from_parts_const
   with its while loop, parse.rs, convert.rs, the one-line wrappers, third_party/num_traits.rs, third_party/serde.rs) and the
   histories extended by the in-place forms, clone / clone_from, integers on the left and From<integer> *)
Theorem C04_r4_clone_and_clone_from : forall x s,
  gen_Repr_clone x = x /\ gen_RBig_clone x = x /\ gen_Relaxed_clone x = x /\
  gen_Repr_clone_from x s = s /\ gen_RBig_clone_from x s = s /\ gen_Relaxed_clone_from x s = s /\
  gen_RBig_default = (0, 1) /\ gen_Relaxed_default = (0, 1).
Proof. exact gen_clone_ok. Qed.
Print Assumptions C04_r4_clone_and_clone_from.

Theorem C04_r4_assign_forms_are_the_operators : forall a x y,
  gassign a x y = gbin (aop_bin a) x y /\ gxassign a x y = gxbin (aop_bin a) x y.
Proof. exact gassign_is_op. Qed.
Print Assumptions C04_r4_assign_forms_are_the_operators.

Theorem C04_r4_assign_forms_exact : forall a x y, Inv x -> Inv y ->
  gassign a x y = bin_spec (aop_bin a) x y /\ (forall r, gassign a x y = Ok r -> Inv r) /\
  res_veq (gxassign a x y) (bin_spec (aop_bin a) x y).
Proof. exact gassign_spec. Qed.
Print Assumptions C04_r4_assign_forms_exact.

Theorem C04_r4_unary_wrappers : forall x_ r o x, gun4 x_ r o x = gun x_ o x.
Proof. exact gun4_is_gun. Qed.
Print Assumptions C04_r4_unary_wrappers.

Theorem C04_r4_rounding_pow_wrappers : forall x n,
  gen_RBig_split_at_point x = gsplit x /\ gen_Relaxed_split_at_point x = gsplit x /\
  gen_RBig_ceil x = gceil x /\ gen_Relaxed_ceil x = gceil x /\ gen_RBig_floor x = gfloor x /\ gen_Relaxed_floor x = gfloor x /\
  gen_RBig_round x = ground x /\ gen_Relaxed_round x = ground x /\ gen_RBig_trunc x = gtrunc x /\ gen_Relaxed_trunc x = gtrunc x /\
  gen_RBig_pow x n = gpow x n /\ gen_Relaxed_pow x n = gpow x n /\
  gen_RBig_sign (fst x) (snd x) = sign_of (fst x) /\ gen_Relaxed_sign (fst x) (snd x) = sign_of (fst x) /\
  gen_Relaxed_canonicalize x = gen_reduce x /\ gen_RBig_relax x = x.
Proof. exact gen_wrappers_ok. Qed.
Print Assumptions C04_r4_rounding_pow_wrappers.

Theorem C04_r4_canonicalize : forall x, 0 < snd x ->
  gen_Relaxed_canonicalize x = canon (fst x) (snd x) /\ Inv (gen_Relaxed_canonicalize x).
Proof. exact canonicalize_ok. Qed.
Print Assumptions C04_r4_canonicalize.

(* the while loop of RBig::from_parts_const, regenerated: with the fuel fpc_fuel d it ends (no OutOfFuel) and returns the
   canonical rational; operands are DoubleWords, hence non-negative *)
Theorem C04_r4_from_parts_const_generated : forall s n d, 0 <= n -> 0 <= d ->
  gen_RBig_from_parts_const (fpc_fuel d) s n d = from_parts_const_spec s n d /\
  (forall fuel, gen_Relaxed_from_parts_const fuel s n d = xfrom_parts_const_asis s n d) /\
  (forall fuel, res_veq (gen_Relaxed_from_parts_const fuel s n d) (from_parts_const_spec s n d)).
Proof. exact gen_from_parts_const_ok. Qed.
Print Assumptions C04_r4_from_parts_const_generated.

Theorem C04_r4_from_parts_const_is_the_transcription : forall s n d, 0 <= n -> 0 <= d ->
  gen_RBig_from_parts_const (fpc_fuel d) s n d = from_parts_const_asis s n d.
Proof. exact gen_RBig_from_parts_const_asis. Qed.
Print Assumptions C04_r4_from_parts_const_is_the_transcription.

(* parse.rs regenerated; the integer parsers of dashu-int on the pieces of the text are parameters (any functions) *)
Theorem C04_r4_parsers_rbig : forall ip ipp ipd hs radix,
  gen_RBig_from_str_radix ip hs radix = parse_radix_spec ip hs radix /\
  gen_RBig_from_str ip hs = parse_radix_spec ip hs 10 /\
  gen_RBig_from_str_with_radix_prefix ipp ipd hs = parse_prefix_spec ipp ipd hs.
Proof. exact gen_RBig_parsers_ok. Qed.
Print Assumptions C04_r4_parsers_rbig.

Theorem C04_r4_parsers_relaxed : forall ip ipp ipd hs radix,
  res_veq_e (gen_Relaxed_from_str_radix ip hs radix) (parse_radix_spec ip hs radix) /\
  res_veq_e (gen_Relaxed_from_str ip hs) (parse_radix_spec ip hs 10) /\
  res_veq_er (gen_Relaxed_from_str_with_radix_prefix ipp ipd hs) (parse_prefix_spec ipp ipd hs).
Proof. exact gen_Relaxed_parsers_ok. Qed.
Print Assumptions C04_r4_parsers_relaxed.

Theorem C04_r4_parsers_relaxed_are_the_transcription : forall ip ipp ipd hs radix,
  gen_Relaxed_from_str_radix ip hs radix = xparse_radix_asis ip hs radix /\
  gen_Relaxed_from_str ip hs = xparse_radix_asis ip hs 10 /\
  gen_Relaxed_from_str_with_radix_prefix ipp ipd hs = xparse_prefix_asis ipp ipd hs.
Proof. exact gen_Relaxed_parsers_asis. Qed.
Print Assumptions C04_r4_parsers_relaxed_are_the_transcription.

(* convert.rs regenerated *)
Theorem C04_r4_from_integers : forall v,
  gen_RBig_from_UBig v = (v, 1) /\ gen_RBig_from_IBig v = (v, 1) /\ gen_RBig_from_prim v = (v, 1) /\
  gen_Relaxed_from_UBig v = (v, 1) /\ gen_Relaxed_from_IBig v = (v, 1) /\ gen_Relaxed_from_prim v = (v, 1) /\
  (v, 1) = canon v 1 /\ Inv (v, 1) /\ length gen_prim_int_types = 12%nat.
Proof. exact gen_from_int_ok. Qed.
Print Assumptions C04_r4_from_integers.

Theorem C04_r4_into_integers : forall x v,
  (gen_IBig_try_from_RBig x = Ok v <-> x = (v, 1)) /\
  (gen_UBig_try_from_RBig x = Ok v <-> x = (v, 1) /\ 0 <= v).
Proof. exact gen_try_into_int_ok. Qed.
Print Assumptions C04_r4_into_integers.

(* Relaxed -> integer (repaired in /repo 4757027: reduced first): decided by the value, not by the stored pair *)
Theorem C04_r4_relaxed_into_integers : forall x v, 0 < snd x ->
  (gen_IBig_try_from_Relaxed x = Ok v <-> veq x (v, 1)) /\
  (gen_UBig_try_from_Relaxed x = Ok v <-> veq x (v, 1) /\ 0 <= v).
Proof. exact gen_try_into_int_relaxed. Qed.
Print Assumptions C04_r4_relaxed_into_integers.

Theorem C04_r4_integer_valued_rbig_converts : forall x v, Inv x -> veq x (v, 1) -> gen_IBig_try_from_RBig x = Ok v.
Proof. exact rbig_integer_converts. Qed.
Print Assumptions C04_r4_integer_valued_rbig_converts.

Theorem C04_r4_from_floats_generated : forall m e,
  gen_RBig_try_from_float (m =? 0) (Some (m, e)) = from_float_asis m e /\
  gen_Relaxed_try_from_float (m =? 0) (Some (m, e)) = from_float_asis m e /\
  gen_RBig_try_from_float false None = Err 1 /\ gen_Relaxed_try_from_float false None = Err 1.
Proof. exact gen_try_from_float_ok. Qed.
Print Assumptions C04_r4_from_floats_generated.

(* third_party/num_traits.rs: every method forwards to the inherent operation proved above *)
Theorem C04_r4_num_traits_rbig : forall ip hs x y radix k,
  gen_nt_RBig_zero = (0, 1) /\ gen_nt_RBig_one = (1, 1) /\
  gen_nt_RBig_is_zero x = gen_RBig_is_zero (fst x) (snd x) /\ gen_nt_RBig_is_one x = gen_RBig_is_one (fst x) (snd x) /\
  gen_nt_RBig_from_str_radix ip hs radix = gen_RBig_from_str_radix ip hs radix /\
  Ok (gen_nt_RBig_abs x) = gun false UAbs x /\ Ok (gen_nt_RBig_signum x) = gun false USignum x /\
  gen_nt_RBig_abs_sub x y = rbind (gbin OSub x y) (gun false UAbs) /\
  gen_nt_RBig_is_positive x = (0 <? fst x) /\ gen_nt_RBig_is_negative x = (fst x <? 0) /\
  gen_nt_RBig_rem_euclid x y = gbin ORemE x y /\
  gen_nt_RBig_div_euclid x y = rbind (gdive x y) (fun q => Ok (q, 1)) /\
  gen_nt_RBig_pow x k = gpow x k /\ gen_nt_RBig_pow_ref x k = gpow x k.
Proof. exact gen_numtraits_rbig. Qed.
Print Assumptions C04_r4_num_traits_rbig.

Theorem C04_r4_num_traits_relaxed : forall ip hs x y radix k,
  gen_nt_Relaxed_zero = (0, 1) /\ gen_nt_Relaxed_one = (1, 1) /\
  gen_nt_Relaxed_is_zero x = gen_Relaxed_is_zero (fst x) (snd x) /\ gen_nt_Relaxed_is_one x = gen_Relaxed_is_one (fst x) (snd x) /\
  gen_nt_Relaxed_from_str_radix ip hs radix = gen_Relaxed_from_str_radix ip hs radix /\
  Ok (gen_nt_Relaxed_abs x) = gun true UAbs x /\ Ok (gen_nt_Relaxed_signum x) = gun true USignum x /\
  gen_nt_Relaxed_abs_sub x y = rbind (gxbin OSub x y) (gun true UAbs) /\
  gen_nt_Relaxed_is_positive x = (0 <? fst x) /\ gen_nt_Relaxed_is_negative x = (fst x <? 0) /\
  gen_nt_Relaxed_rem_euclid x y = gxbin ORemE x y /\
  gen_nt_Relaxed_div_euclid x y = rbind (gxdive x y) (fun q => Ok (q, 1)) /\
  gen_nt_Relaxed_pow x k = gpow x k /\ gen_nt_Relaxed_pow_ref x k = gpow x k.
Proof. exact gen_numtraits_relaxed. Qed.
Print Assumptions C04_r4_num_traits_relaxed.

(* third_party/serde.rs: a deserialized RBig is in lowest terms whatever pair the data held; a zero denominator is refused *)
Theorem C04_r4_serde_deserialize : forall n d, 0 <= d ->
  gen_serde_RBig_deserialize n d = deserialize_spec n d /\
  (forall r, gen_serde_RBig_deserialize n d = Ok r -> Inv r) /\
  res_veq_e (gen_serde_Relaxed_deserialize n d) (deserialize_spec n d).
Proof. exact gen_serde_ok. Qed.
Print Assumptions C04_r4_serde_deserialize.

(* histories: rounds 1-3 operations + in-place forms (a panic leaves Default behind) + clone / clone_from into occupied slots +
   integers on the left + From<integer>; every finite history, through the regenerated bodies *)
Theorem C04_r4_history_invariant_and_exact : forall ops p, Forall Inv p ->
  hrun4 heval4_gen gen_RBig_default ops p = hrun4 heval4_spec (0, 1) ops p /\
  Forall Inv (hrun4 heval4_gen gen_RBig_default ops p).
Proof. exact hrun4_gen_spec. Qed.
Print Assumptions C04_r4_history_invariant_and_exact.

Theorem C04_r4_history_relaxed_lock_step : forall ops px p, PoolRel px p -> Forall Inv p -> Forall RInvE px ->
  PoolRel (hrun4 heval4_xgen gen_Relaxed_default ops px) (hrun4 heval4_gen gen_RBig_default ops p) /\
  Forall RInvE (hrun4 heval4_xgen gen_Relaxed_default ops px).
Proof. exact hrun4_xgen_lock_step. Qed.
Print Assumptions C04_r4_history_relaxed_lock_step.

Theorem C04_r4_history_step_total : forall p o, (exists r, heval4_spec p o = Ok r) \/ heval4_spec p o = Panic DivideBy0.
Proof. exact heval4_spec_total. Qed.
Print Assumptions C04_r4_history_step_total.
